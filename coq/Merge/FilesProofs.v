(* C20, FILE level: proofs about Merge/Files.v.
   Part A: path algebra (join / normpath / abspath / relpath agree with lexical resolution).
   Part B: merge_files.  Part C: merge_tree's loop.  Part D: the stub merge_tree picks. *)
From Coq Require Import List NArith Bool Arith Lia.
From PV Require Import Merge.Model Merge.Files.
Import ListNotations.
Open Scope N_scope.

(* ---------------------------------------------------------------------------------------------------------- *)
(* equality tests *)
Lemma list_eqb_true_iff {A} (eq : A -> A -> bool) (Heq : forall a b, eq a b = true <-> a = b) :
  forall a b, list_eqb eq a b = true <-> a = b.
Proof.
  induction a as [|x a IH]; destruct b as [|y b]; cbn [list_eqb]; split; intros H;
    try reflexivity; try discriminate.
  - apply andb_true_iff in H. destruct H as [H1 H2]. apply Heq in H1. apply IH in H2. subst. reflexivity.
  - inversion H; subst. apply andb_true_iff. split; [apply Heq|apply IH]; reflexivity.
Qed.
Lemma name_eqb_iff a b : name_eqb a b = true <-> a = b.
Proof. apply list_eqb_true_iff. intros; apply N.eqb_eq. Qed.
Lemma name_eqb_refl a : name_eqb a a = true.
Proof. apply name_eqb_iff. reflexivity. Qed.
Lemma loc_eqb_iff a b : loc_eqb a b = true <-> a = b.
Proof. apply list_eqb_true_iff. exact name_eqb_iff. Qed.
Lemma loc_eqb_neq a b : a <> b -> loc_eqb a b = false.
Proof. intros H. destruct (loc_eqb a b) eqn:E; auto. apply loc_eqb_iff in E. contradiction. Qed.
Lemma text_eqb_iff a b : text_eqb a b = true <-> a = b.
Proof. apply list_eqb_true_iff. intros; apply N.eqb_eq. Qed.

(* ---------------------------------------------------------------------------------------------------------- *)
(* Part A: path algebra *)
Definition nonspecial (c : name) : bool := negb (is_empty c || is_dot c || is_dotdot c).
Definition nsl (l : list name) : Prop := Forall (fun c => nonspecial c = true) l.

Lemma ordinary_nonspecial c : ordinary c = true -> nonspecial c = true.
Proof.
  unfold ordinary, nonspecial. destruct (is_empty c), (is_dot c), (is_dotdot c); cbn; auto; discriminate.
Qed.

Lemma lex_step_ns st c : nonspecial c = true -> lex_step st c = st ++ [c].
Proof.
  unfold nonspecial, lex_step. destruct (is_empty c), (is_dot c), (is_dotdot c); cbn; auto; discriminate.
Qed.
Lemma lexwalk_app st a b : lexwalk st (a ++ b) = lexwalk (lexwalk st a) b.
Proof. apply fold_left_app. Qed.
Lemma lexwalk_ns : forall ds st, nsl ds -> lexwalk st ds = st ++ ds.
Proof.
  induction ds as [|d ds IH]; intros st H; cbn [lexwalk fold_left].
  - rewrite app_nil_r. reflexivity.
  - inversion H; subst. fold (lexwalk (lex_step st d) ds). rewrite IH by assumption.
    rewrite lex_step_ns by assumption. rewrite <- app_assoc. reflexivity.
Qed.
Lemma nsl_removelast l : nsl l -> nsl (removelast l).
Proof.
  induction l as [|x l IH]; intros H; cbn [removelast]; [constructor|].
  inversion H; subst. destruct l as [|y l]; [constructor|]. constructor; [assumption|]. apply IH. assumption.
Qed.
Lemma nsl_app a b : nsl a -> nsl b -> nsl (a ++ b).
Proof. intros. apply Forall_app. split; assumption. Qed.
Lemma lex_step_nsl st c : nsl st -> nsl (lex_step st c).
Proof.
  intros H. unfold lex_step. destruct (is_empty c || is_dot c) eqn:E1; [assumption|].
  destruct (is_dotdot c) eqn:E2; [apply nsl_removelast; assumption|].
  apply nsl_app; [assumption|]. constructor; [|constructor].
  unfold nonspecial. apply orb_false_iff in E1. destruct E1 as [-> ->]. rewrite E2. reflexivity.
Qed.
Lemma lexwalk_nsl : forall cs st, nsl st -> nsl (lexwalk st cs).
Proof.
  induction cs as [|c cs IH]; intros st H; cbn [lexwalk fold_left]; [assumption|].
  apply IH. apply lex_step_nsl. assumption.
Qed.
Lemma lexloc_nsl cwd p : nsl cwd -> nsl (lexloc cwd p).
Proof. intros H. unfold lexloc. apply lexwalk_nsl. destruct (isabs p); [constructor|assumption]. Qed.

Lemma is_nil_app_single {A} (l : list A) (x : A) : is_nil (l ++ [x]) = false.
Proof. destruct l; reflexivity. Qed.

(* join with a relative second argument continues the walk *)
Lemma lexloc_join cwd a b : isabs b = false ->
  lexloc cwd (join a b) = lexwalk (lexloc cwd a) (p_comps b).
Proof.
  intros Hb. unfold join. rewrite Hb.
  destruct (p_empty a) eqn:Ea.
  - unfold p_empty in Ea. apply andb_true_iff in Ea. destruct Ea as [E1 E2].
    unfold lexloc at 2. unfold isabs. rewrite E1. cbn [negb].
    destruct (p_comps a); [|discriminate]. cbn [lexwalk fold_left]. unfold lexloc. rewrite Hb. reflexivity.
  - destruct (ends_sep a) eqn:Es.
    + destruct (is_nil (p_comps b)) eqn:En.
      * destruct (p_comps b); [reflexivity|discriminate].
      * unfold lexloc. cbn [p_comps p_abs isabs]. fold (isabs a).
        change (isabs (mkP (p_abs a) (removelast (p_comps a) ++ p_comps b))) with (isabs a).
        rewrite (lexwalk_app _ (removelast (p_comps a)) (p_comps b)). f_equal.
        unfold ends_sep in Es. destruct (p_comps a) as [|c0 cs0] eqn:Ec; [reflexivity|].
        rewrite (app_removelast_last [0] (l := c0 :: cs0)) at 2 by discriminate.
        rewrite (lexwalk_app _ (removelast (c0 :: cs0)) [last (c0 :: cs0) [0]]). cbn [lexwalk fold_left]. unfold lex_step. rewrite Es. reflexivity.
    + unfold lexloc. cbn [p_comps p_abs isabs]. fold (isabs a).
      match goal with |- lexwalk (if isabs (mkP _ ?l) then _ else _) _ = _ =>
        change (isabs (mkP (p_abs a) l)) with (isabs a) end.
      rewrite (lexwalk_app _ (p_comps a)).
      destruct (p_comps b); reflexivity.
Qed.
Lemma lexloc_join1 cwd a n : nonspecial n = true -> lexloc cwd (join1 a n) = lexloc cwd a ++ [n].
Proof.
  intros H. unfold join1. rewrite lexloc_join by reflexivity. cbn [p_comps lexwalk fold_left].
  apply lex_step_ns. assumption.
Qed.
Lemma join1_nonempty a n : p_empty a = false -> p_empty (join1 a n) = false.
Proof.
  intros H. unfold join1, join. cbn [isabs p_abs Nat.eqb negb p_comps is_nil]. rewrite H.
  destruct (ends_sep a); unfold p_empty; cbn [p_abs p_comps]; rewrite is_nil_app_single; apply andb_false_r.
Qed.
Lemma walk_root_loc cwd : forall ds top, nsl ds -> lexloc cwd (walk_root top ds) = lexloc cwd top ++ ds.
Proof.
  unfold walk_root. induction ds as [|d ds IH]; intros top H; cbn [fold_left].
  - rewrite app_nil_r. reflexivity.
  - inversion H; subst. rewrite IH by assumption. rewrite lexloc_join1 by assumption.
    rewrite <- app_assoc. reflexivity.
Qed.
Lemma walk_root_nonempty : forall ds top, p_empty top = false -> p_empty (walk_root top ds) = false.
Proof.
  unfold walk_root. induction ds as [|d ds IH]; intros top H; cbn [fold_left]; [assumption|].
  apply IH. apply join1_nonempty. assumption.
Qed.

(* normpath, absolute case: the loop IS the lexical walk *)
Definition nodd (l : list name) : Prop := Forall (fun c => is_dotdot c = false) l.
Lemma np_abs_loop : forall cs st, nsl st ->
  fold_left (np_step true) cs st = fold_left lex_step cs st.
Proof.
  induction cs as [|c cs IH]; intros st H; cbn [fold_left]; [reflexivity|].
  assert (E : np_step true st c = lex_step st c).
  { unfold np_step, lex_step. destruct (is_empty c || is_dot c); [reflexivity|].
    destruct (is_dotdot c) eqn:Ed; [|reflexivity]. cbn [negb andb orb].
    destruct st as [|x st']; [reflexivity|]. cbn [is_nil negb andb].
    assert (Hl : nonspecial (last (x :: st') []) = true).
    { assert (Hin : In (last (x :: st') []) (x :: st')).
      { rewrite (app_removelast_last [] (l := x :: st')) at 2 by discriminate.
        apply in_or_app. right. left. reflexivity. }
      unfold nsl in H. rewrite Forall_forall in H. apply H. exact Hin. }
    unfold nonspecial in Hl. destruct (is_dotdot (last (x :: st') [])); [|reflexivity].
    rewrite !orb_true_r in Hl. discriminate. }
  rewrite E. apply IH. apply lex_step_nsl. assumption.
Qed.

(* normpath, relative case: leading ".." are kept, and walking the result from any base gives the same place *)
Definition npstack (l : list name) : Prop := Forall (fun c => is_empty c || is_dot c = false) l.
Lemma np_rel_step base st c : npstack st ->
  npstack (np_step false st c) /\ lexwalk base (np_step false st c) = lex_step (lexwalk base st) c.
Proof.
  intros H. unfold np_step.
  destruct (is_empty c || is_dot c) eqn:E1.
  - split; [assumption|]. unfold lex_step. rewrite E1. reflexivity.
  - assert (Hpush : npstack (st ++ [c])).
    { apply Forall_app. split; [assumption|]. constructor; [assumption|constructor]. }
    destruct (is_dotdot c) eqn:E2.
    + cbn [negb andb].
      destruct st as [|x st'].
      * cbn [is_nil orb app]. split; [exact Hpush|]. reflexivity.
      * cbn [is_nil negb andb orb].
        destruct (is_dotdot (last (x :: st') [])) eqn:E3.
        -- split; [exact Hpush|]. rewrite lexwalk_app. reflexivity.
        -- split.
           ++ unfold npstack in *. rewrite Forall_forall in *. intros y Hy. apply H.
              rewrite (app_removelast_last [] (l := x :: st')) by discriminate.
              apply in_or_app. left. assumption.
           ++ rewrite (app_removelast_last [] (l := x :: st')) at 2 by discriminate.
              rewrite lexwalk_app. cbn [lexwalk fold_left].
              assert (Hns : nonspecial (last (x :: st') []) = true).
              { unfold nonspecial. rewrite E3.
                assert (Hin : In (last (x :: st') []) (x :: st')).
                { rewrite (app_removelast_last [] (l := x :: st')) at 2 by discriminate.
                  apply in_or_app. right. left. reflexivity. }
                unfold npstack in H. rewrite Forall_forall in H. rewrite (H _ Hin). reflexivity. }
              rewrite (lex_step_ns _ _ Hns).
              unfold lex_step at 1. rewrite E1, E2. rewrite removelast_last. reflexivity.
    + split; [exact Hpush|]. rewrite lexwalk_app. cbn [lexwalk fold_left].
      unfold lex_step at 2. rewrite E1, E2. unfold lex_step. rewrite E1, E2. reflexivity.
Qed.
Lemma np_rel_loop base : forall cs st, npstack st ->
  lexwalk base (fold_left (np_step false) cs st) = lexwalk (lexwalk base st) cs.
Proof.
  induction cs as [|c cs IH]; intros st H; cbn [fold_left]; [reflexivity|].
  destruct (np_rel_step base st c H) as [H1 H2].
  change (lexwalk (lexwalk base st) (c :: cs)) with (lexwalk (lex_step (lexwalk base st) c) cs).
  rewrite IH by assumption. rewrite H2. reflexivity.
Qed.

Lemma isabs_norm_abs k cs cs' : isabs (mkP (norm_abs k) cs) = isabs (mkP k cs').
Proof. unfold isabs; cbn [p_abs]. destruct k as [|[|[|k]]]; reflexivity. Qed.

Lemma lexloc_normpath cwd p : lexloc cwd (normpath p) = lexloc cwd p.
Proof.
  unfold normpath. destruct (p_empty p) eqn:Ee.
  - unfold p_empty in Ee. apply andb_true_iff in Ee. destruct Ee as [E1 E2].
    destruct p as [k cs]. cbn [p_abs p_comps] in *. destruct cs; [|discriminate].
    apply Nat.eqb_eq in E1. subst k. reflexivity.
  - destruct (isabs p) eqn:Ea; cbn [negb andb].
    + unfold lexloc. rewrite (isabs_norm_abs (p_abs p) _ (p_comps p)).
      destruct p as [k cs]. cbn [p_abs p_comps] in *. rewrite Ea. cbn [p_comps].
      unfold np_loop. rewrite np_abs_loop by constructor.
      fold (lexwalk [] cs). rewrite lexwalk_ns; [reflexivity|]. apply lexwalk_nsl. constructor.
    + assert (Hk : p_abs p = 0%nat).
      { unfold isabs in Ea. destruct (p_abs p); [reflexivity|discriminate]. }
      pose proof (np_rel_loop cwd (p_comps p) [] (Forall_nil _)) as Hn.
      cbn [lexwalk fold_left] in Hn. fold (np_loop false (p_comps p)) in Hn.
      destruct (is_nil (np_loop false (p_comps p))) eqn:En.
      * destruct (np_loop false (p_comps p)); [|discriminate].
        unfold lexloc. rewrite Ea. cbn [isabs p_abs Nat.eqb negb p_comps].
        rewrite <- Hn. reflexivity.
      * unfold lexloc. rewrite Ea, Hk. cbn [norm_abs isabs p_abs Nat.eqb negb p_comps]. exact Hn.
Qed.

Lemma filter_nonempty_ns l : nsl l -> filter (fun c => negb (is_empty c)) l = l.
Proof.
  induction l as [|x l IH]; intros H; cbn [filter]; [reflexivity|]. inversion H; subst.
  unfold nonspecial in H2. destruct (is_empty x); [discriminate|]. cbn [negb]. rewrite IH by assumption.
  reflexivity.
Qed.

Lemma abs_list_loc cwd p : nsl cwd -> abs_list cwd p = lexloc cwd p.
Proof.
  intros Hc. unfold abs_list, abspath.
  set (q := if isabs p then p else join (mkP 1 cwd) p).
  assert (Hq : isabs q = true /\ lexloc cwd q = lexloc cwd p).
  { subst q. destruct (isabs p) eqn:Ea; [split; [assumption|reflexivity]|]. split.
    - unfold join. rewrite Ea. cbn [p_empty p_abs Nat.eqb andb].
      destruct (ends_sep (mkP 1 cwd)); [destruct (is_nil (p_comps p))|]; reflexivity.
    - rewrite lexloc_join by assumption. unfold lexloc at 1. cbn [isabs p_abs Nat.eqb negb p_comps].
      rewrite (lexwalk_ns cwd [] Hc). cbn [app]. unfold lexloc. rewrite Ea. reflexivity. }
  destruct Hq as [Hq1 Hq2]. rewrite <- Hq2.
  unfold normpath.
  assert (Hne : p_empty q = false).
  { unfold p_empty. unfold isabs in Hq1. destruct (p_abs q); [discriminate|reflexivity]. }
  rewrite Hne, Hq1. cbn [negb andb p_comps].
  unfold np_loop. rewrite np_abs_loop by constructor. fold (lexwalk [] (p_comps q)).
  unfold lexloc. rewrite Hq1.
  apply filter_nonempty_ns. apply lexwalk_nsl. constructor.
Qed.

Lemma lcp_prefix : forall a b, lcp a (a ++ b) = a.
Proof. induction a as [|x a IH]; intros b; cbn [lcp app]; [reflexivity|]. rewrite name_eqb_refl, IH. reflexivity. Qed.
Lemma skipn_app_exact {A} (a b : list A) : skipn (length a) (a ++ b) = b.
Proof. induction a; cbn; auto. Qed.

(* relpath(root, top) when root lies ds below top *)
Lemma relpath_below cwd root top ds : nsl cwd -> p_empty root = false ->
  lexloc cwd root = lexloc cwd top ++ ds ->
  relpath cwd root top = Some (if is_nil ds then mkP 0 [n_dot] else mkP 0 ds).
Proof.
  intros Hc Hr Hl. unfold relpath. rewrite Hr. rewrite !abs_list_loc by assumption. rewrite Hl.
  rewrite lcp_prefix. rewrite Nat.sub_diag. cbn [repeat app]. rewrite skipn_app_exact. reflexivity.
Qed.

Lemma stub_name_ns f : nonspecial (stub_name f) = true.
Proof.
  unfold nonspecial, stub_name, is_dot, is_dotdot.
  assert (H1 : forall x, f ++ [105] = x -> last x 0 = 105) by (intros x <-; apply last_last).
  assert (E0 : is_empty (f ++ [105]) = false) by (destruct f; reflexivity).
  rewrite E0.
  destruct (name_eqb (f ++ [105]) n_dot) eqn:E1;
    [apply name_eqb_iff in E1; apply H1 in E1; cbn in E1; discriminate|].
  destruct (name_eqb (f ++ [105]) n_dotdot) eqn:E2;
    [apply name_eqb_iff in E2; apply H1 in E2; cbn in E2; discriminate|].
  reflexivity.
Qed.

(* ---------------------------------------------------------------------------------------------------------- *)
(* Part D: the stub merge_tree (after b7143da) picks for each .py file *)
Definition names_ok (w : list (list name * list name)) : Prop :=
  Forall (fun e => nsl (fst e) /\ nsl (snd e)) w.

Lemma dir_jobs_fixed cwd top P (e : list name * list name) :
  nsl cwd -> p_empty top = false -> nsl (fst e) -> nsl (snd e) ->
  map (fun j => (lexloc cwd (fst j), lexloc cwd (snd j))) (dir_jobs true cwd top P e) =
  map (fun f => (lexloc cwd top ++ fst e ++ [f], lexloc cwd P ++ fst e ++ [stub_name f]))
      (filter ends_py (snd e)).
Proof.
  intros Hc Ht Hd Hf. unfold dir_jobs.
  rewrite (relpath_below cwd _ top (fst e));
    [| assumption | apply walk_root_nonempty; assumption | apply walk_root_loc; assumption].
  set (rel := if is_nil (fst e) then mkP 0 [n_dot] else mkP 0 (fst e)).
  assert (Hpd : lexloc cwd (normpath (join P rel)) = lexloc cwd P ++ fst e).
  { rewrite lexloc_normpath. rewrite lexloc_join by (subst rel; destruct (is_nil (fst e)); reflexivity).
    subst rel. revert Hd. generalize (fst e) as ds. intros ds Hd. destruct ds as [|d ds]; cbn [is_nil p_comps].
    - rewrite app_nil_r. reflexivity.
    - apply lexwalk_ns. assumption. }
  pose proof (walk_root_loc cwd (fst e) top Hd) as Hroot.
  revert Hf. generalize (snd e) as fs. intros fs Hf.
  induction fs as [|f fs IH]; cbn [flat_map filter map]; [reflexivity|].
  inversion Hf; subst. destruct (ends_py f); cbn [app map].
  - f_equal; [|apply IH; assumption]. cbn [fst snd].
    rewrite (lexloc_join1 cwd _ f) by assumption.
    rewrite (lexloc_join1 cwd _ (stub_name f)) by apply stub_name_ns.
    rewrite Hroot, Hpd. rewrite <- !app_assoc. reflexivity.
  - apply IH. assumption.
Qed.

Section TREE_D.
Variable B : Type.
Lemma jobs_fixed_locs cwd (tree : node B) top P es :
  nsl cwd -> p_empty top = false -> lookup B tree (lexloc cwd top) = Some (Dir es) ->
  names_ok (walk_dirs B (Dir es) []) ->
  map (fun j => (lexloc cwd (fst j), lexloc cwd (snd j))) (jobs B true cwd tree top P) =
  flat_map (fun e => map (fun f => (lexloc cwd top ++ fst e ++ [f], lexloc cwd P ++ fst e ++ [stub_name f]))
                         (filter ends_py (snd e)))
           (walk_dirs B (Dir es) []).
Proof.
  intros Hc Ht Hl Hn. unfold jobs. rewrite Ht, Hl.
  revert Hn. generalize (walk_dirs B (Dir es) []) as w. intros w Hn.
  induction w as [|e w IH]; cbn [flat_map map]; [reflexivity|].
  inversion Hn; subst. destruct H1 as [Hd Hf].
  rewrite map_app. rewrite dir_jobs_fixed by assumption. f_equal. apply IH. assumption.
Qed.
End TREE_D.

(* ---------------------------------------------------------------------------------------------------------- *)
(* Part B / C: merge_files and the loop of merge_tree *)
Section FP.
Variables (B T : Type) (read : B -> option T) (write : T -> B) (teqb : T -> T -> bool)
          (msrc : T -> T -> option T).
Variables (cwd : loc) (tree : node B) (backup : option name).

Notation mfiles := (merge_files B T read write teqb msrc cwd tree).
Notation tstep := (tree_step B T read write teqb msrc cwd tree backup).
Notation rjobs := (run_jobs B T read write teqb msrc cwd tree backup).

Lemma ov_get_app_notin l (w ov : overlay B) :
  (forall k, In k (map fst w) -> k <> l) -> ov_get B l (w ++ ov) = ov_get B l ov.
Proof.
  induction w as [|[k b] w IH]; intros H; cbn [app ov_get]; [reflexivity|].
  rewrite loc_eqb_neq by (apply H; left; reflexivity). apply IH. intros k' Hk. apply H. right. exact Hk.
Qed.
Lemma st_read_app_notin l (w ov : overlay B) :
  (forall k, In k (map fst w) -> k <> l) -> st_read B tree (w ++ ov) l = st_read B tree ov l.
Proof. intros H. unfold st_read. rewrite ov_get_app_notin by assumption. reflexivity. Qed.
Lemma ov_get_in_nodup l b (w : overlay B) :
  NoDup (map fst w) -> In (l, b) w -> ov_get B l w = Some b.
Proof.
  induction w as [|[k b'] w IH]; intros Hn Hin; [contradiction|]. cbn [ov_get]. cbn [map fst] in Hn.
  inversion Hn; subst. destruct Hin as [Hin|Hin].
  - inversion Hin; subst. rewrite (proj2 (loc_eqb_iff l l) eq_refl). reflexivity.
  - rewrite loc_eqb_neq.
    + apply IH; assumption.
    + intros ->. apply H1. apply (in_map fst) in Hin. exact Hin.
Qed.

(* what one iteration does, as a function of the two reads *)
Inductive jout := JSkip | JSame | JChanged (pb : B) (a : T) | JErr | JRaise.
Definition out_of (py : pth) (rpyi rpy : rd B) : jout :=
  match rpyi with
  | RNone => JSkip
  | RDir => JRaise
  | RFile sb =>
      match read sb with
      | None => JRaise
      | Some s =>
          match rpy with
          | RFile pb =>
              match read pb with
              | None => JRaise
              | Some p =>
                  match msrc p s with
                  | None => JErr
                  | Some a =>
                      if teqb a p then JSame
                      else match truthy backup with
                           | Some bk => match lookup B tree (lexloc cwd (backup_path py bk)) with
                                        | Some (Dir _) => JRaise
                                        | _ => JChanged pb a
                                        end
                           | None => JChanged pb a
                           end
                  end
              end
          | _ => JRaise
          end
      end
  end.
Definition writes (py : pth) (o : jout) : overlay B :=
  match o with
  | JChanged pb a => (lexloc cwd py, write a) ::
                     match truthy backup with
                     | Some bk => [(lexloc cwd (backup_path py bk), pb)]
                     | None => []
                     end
  | _ => []
  end.
Definition is_changed (o : jout) : bool := match o with JChanged _ _ => true | _ => false end.
Definition is_err (o : jout) : bool := match o with JErr => true | _ => false end.
Definition is_raise (o : jout) : bool := match o with JRaise => true | _ => false end.
Definition apply_out (s : tstate B) (py : pth) (o : jout) : tstate B :=
  mkTS B (writes py o ++ t_ov B s)
       (t_changed B s ++ if is_changed o then [py] else [])
       (t_errors B s ++ if is_err o then [py] else [])
       (is_raise o).

Lemma step_spec (s : tstate B) (j : pth * pth) : t_raised B s = false ->
  tstep s j = apply_out s (fst j) (out_of (fst j) (st_read B tree (t_ov B s) (lexloc cwd (snd j)))
                                          (st_read B tree (t_ov B s) (lexloc cwd (fst j)))).
Proof.
  destruct s as [ov ch er rs]. cbn [t_raised]. intros ->.
  unfold tree_step, apply_out, st_exists, merge_files, merge_files_src, out_of, writes.
  cbn [t_raised t_ov t_changed t_errors].
  destruct (st_read B tree ov (lexloc cwd (snd j))) as [sb| |]; cbn [f_res f_ov];
    try (cbn; rewrite ?app_nil_r; reflexivity).
  destruct (read sb) as [s0|]; cbn [f_res f_ov]; try (cbn; rewrite ?app_nil_r; reflexivity).
  destruct (st_read B tree ov (lexloc cwd (fst j))) as [pb| |]; cbn [f_res f_ov];
    try (cbn; rewrite ?app_nil_r; reflexivity).
  destruct (read pb) as [p|]; cbn [f_res f_ov]; try (cbn; rewrite ?app_nil_r; reflexivity).
  destruct (msrc p s0) as [a|]; cbn [f_res f_ov]; try (cbn; rewrite ?app_nil_r; reflexivity).
  destruct (teqb a p); cbn [negb f_res f_ov]; try (cbn; rewrite ?app_nil_r; reflexivity).
  destruct (truthy backup) as [bk|]; cbn [f_res f_ov]; try (cbn; rewrite ?app_nil_r; reflexivity).
  destruct (lookup B tree (lexloc cwd (backup_path (fst j) bk))) as [[b0|es0]|]; cbn [f_res f_ov];
    cbn; rewrite ?app_nil_r; reflexivity.
Qed.

Definition jo (ov0 : overlay B) (j : pth * pth) : jout :=
  out_of (fst j) (st_read B tree ov0 (lexloc cwd (snd j))) (st_read B tree ov0 (lexloc cwd (fst j))).
Definition jwrites (ov0 : overlay B) (j : pth * pth) : overlay B := writes (fst j) (jo ov0 j).

(* no iteration reads a file an EARLIER iteration wrote (rewritten source or backup copy) *)
Fixpoint indep (ov0 : overlay B) (js : list (pth * pth)) : Prop :=
  match js with
  | [] => True
  | j0 :: r => (forall j l, In j r -> In l (map fst (jwrites ov0 j0)) ->
                            l <> lexloc cwd (fst j) /\ l <> lexloc cwd (snd j)) /\ indep ov0 r
  end.
Definition no_raise (ov0 : overlay B) (js : list (pth * pth)) : Prop :=
  forall j, In j js -> is_raise (jo ov0 j) = false.

Lemma run_jobs_spec (ov0 : overlay B) : forall js s,
  t_raised B s = false ->
  (forall j, In j js ->
     st_read B tree (t_ov B s) (lexloc cwd (fst j)) = st_read B tree ov0 (lexloc cwd (fst j)) /\
     st_read B tree (t_ov B s) (lexloc cwd (snd j)) = st_read B tree ov0 (lexloc cwd (snd j))) ->
  indep ov0 js -> no_raise ov0 js ->
  t_ov B (rjobs js s) = flat_map (jwrites ov0) (rev js) ++ t_ov B s /\
  t_changed B (rjobs js s) = t_changed B s ++ map fst (filter (fun j => is_changed (jo ov0 j)) js) /\
  t_errors B (rjobs js s) = t_errors B s ++ map fst (filter (fun j => is_err (jo ov0 j)) js) /\
  t_raised B (rjobs js s) = false.
Proof.
  induction js as [|j0 r IH]; intros s Hr Hreads Hi Hn.
  - cbn. rewrite !app_nil_r. auto.
  - unfold run_jobs. cbn [fold_left]. fold (rjobs r (tstep s j0)).
    rewrite step_spec by assumption.
    destruct (Hreads j0 (or_introl eq_refl)) as [R1 R2]. rewrite R1, R2. fold (jo ov0 j0).
    set (s' := apply_out s (fst j0) (jo ov0 j0)).
    destruct Hi as [Hi0 Hi].
    assert (Hr' : t_raised B s' = false) by (apply Hn; left; reflexivity).
    assert (Hreads' : forall j, In j r ->
      st_read B tree (t_ov B s') (lexloc cwd (fst j)) = st_read B tree ov0 (lexloc cwd (fst j)) /\
      st_read B tree (t_ov B s') (lexloc cwd (snd j)) = st_read B tree ov0 (lexloc cwd (snd j))).
    { intros j Hj. destruct (Hreads j (or_intror Hj)) as [A1 A2]. subst s'. cbn [apply_out t_ov].
      fold (jwrites ov0 j0).
      split; (rewrite st_read_app_notin; [assumption|]); intros k Hk; apply (Hi0 j k Hj Hk). }
    destruct (IH s' Hr' Hreads' Hi (fun j Hj => Hn j (or_intror Hj))) as (E1 & E2 & E3 & E4).
    rewrite E1, E2, E3, E4. subst s'. cbn [apply_out t_ov t_changed t_errors rev filter].
    fold (jwrites ov0 j0).
    rewrite flat_map_app. cbn [flat_map]. rewrite app_nil_r. rewrite <- !app_assoc.
    repeat split; try reflexivity.
    + f_equal. destruct (is_changed (jo ov0 j0)); reflexivity.
    + f_equal. destruct (is_err (jo ov0 j0)); reflexivity.
Qed.

(* ---- merge_files: the three modes ---- *)
Lemma mfiles_no_write ov py pyi m :
  f_res B T (mfiles ov py pyi m backup) <> FOk true -> f_ov B T (mfiles ov py pyi m backup) = ov.
Proof.
  unfold merge_files, merge_files_src.
  destruct (st_read B tree ov (lexloc cwd pyi)); try reflexivity.
  destruct (read b); try reflexivity.
  destruct (st_read B tree ov (lexloc cwd py)); try reflexivity.
  destruct (read b0); try reflexivity.
  destruct (msrc t0 t); try reflexivity.
  destruct m; try reflexivity.
  destruct (negb (teqb t1 t0)); try reflexivity.
  destruct (truthy backup); cbn [f_res f_ov]; try congruence.
  destruct (lookup B tree (lexloc cwd (backup_path py n))) as [[?|?]|]; cbn [f_res f_ov]; congruence.
Qed.
Lemma mfiles_print_diff ov py pyi m :
  m <> OVERWRITE -> f_ov B T (mfiles ov py pyi m backup) = ov.
Proof.
  intros Hm. unfold merge_files, merge_files_src.
  destruct (st_read B tree ov (lexloc cwd pyi)); try reflexivity.
  destruct (read b); try reflexivity.
  destruct (st_read B tree ov (lexloc cwd py)); try reflexivity.
  destruct (read b0); try reflexivity.
  destruct (msrc t0 t); try reflexivity.
  destruct m; try reflexivity. contradiction.
Qed.
Lemma mfiles_overwrite_changed ov py pyi :
  f_res B T (mfiles ov py pyi OVERWRITE backup) = FOk true ->
  exists sb s pb p a,
    st_read B tree ov (lexloc cwd pyi) = RFile sb /\ read sb = Some s /\
    st_read B tree ov (lexloc cwd py) = RFile pb /\ read pb = Some p /\
    msrc p s = Some a /\ teqb a p = false /\
    f_ov B T (mfiles ov py pyi OVERWRITE backup) =
      (lexloc cwd py, write a) ::
      match truthy backup with Some bk => [(lexloc cwd (backup_path py bk), pb)] | None => [] end ++ ov.
Proof.
  unfold merge_files, merge_files_src.
  destruct (st_read B tree ov (lexloc cwd pyi)) as [sb| |] eqn:R1; cbn [f_res]; try discriminate.
  destruct (read sb) as [s|] eqn:R2; cbn [f_res]; try discriminate.
  destruct (st_read B tree ov (lexloc cwd py)) as [pb| |] eqn:R3; cbn [f_res]; try discriminate.
  destruct (read pb) as [p|] eqn:R4; cbn [f_res]; try discriminate.
  destruct (msrc p s) as [a|] eqn:R5; cbn [f_res]; try discriminate.
  destruct (teqb a p) eqn:Et; cbn [negb f_res]; try discriminate.
  destruct (truthy backup) as [bk|]; cbn [f_res f_ov].
  - destruct (lookup B tree (lexloc cwd (backup_path py bk))) as [[?|?]|]; cbn [f_res f_ov]; try discriminate;
      intros _; exists sb, s, pb, p, a; repeat split; auto.
  - intros _; exists sb, s, pb, p, a; repeat split; auto.
Qed.
Lemma mfiles_changed_flag ov py pyi m ch sb s pb p a :
  (forall x y, teqb x y = true <-> x = y) ->
  st_read B tree ov (lexloc cwd pyi) = RFile sb -> read sb = Some s ->
  st_read B tree ov (lexloc cwd py) = RFile pb -> read pb = Some p -> msrc p s = Some a ->
  f_res B T (mfiles ov py pyi m backup) = FOk ch -> (ch = true <-> a <> p).
Proof.
  intros Heq R1 R2 R3 R4 R5. unfold merge_files, merge_files_src. rewrite R1, R2, R3, R4, R5.
  destruct (teqb a p) eqn:Et; cbn [negb].
  - apply Heq in Et. destruct m; cbn [f_res]; intros E; inversion E; subst; split; congruence.
  - assert (a <> p) by (intros E; apply Heq in E; congruence).
    destruct m; cbn [f_res]; try (intros E; inversion E; subst; split; congruence).
    destruct (truthy backup) as [bk|]; cbn [f_res].
    + destruct (lookup B tree (lexloc cwd (backup_path py bk))) as [[?|?]|]; cbn [f_res];
        intros E; inversion E; subst; split; congruence.
    + intros E; inversion E; subst; split; congruence.
Qed.

(* ---- where the contents of a location can come from after the loop ---- *)
Lemma ov_get_app_or l (w ov : overlay B) :
  (exists b, ov_get B l (w ++ ov) = Some b /\ In (l, b) w) \/ ov_get B l (w ++ ov) = ov_get B l ov.
Proof.
  induction w as [|[k b] w IH]; cbn [app ov_get]; [right; reflexivity|].
  destruct (loc_eqb k l) eqn:E.
  - apply loc_eqb_iff in E. subst k. left. exists b. split; [reflexivity|left; reflexivity].
  - destruct IH as [(b' & H1 & H2)|H]; [left; exists b'; split; [assumption|right; assumption]|right; exact H].
Qed.
Lemma st_read_app_or l (w ov : overlay B) c :
  st_read B tree (w ++ ov) l = RFile c -> In (l, c) w \/ st_read B tree ov l = RFile c.
Proof.
  unfold st_read. destruct (ov_get_app_or l w ov) as [(b & H1 & H2)|H].
  - rewrite H1. intros E. inversion E; subst. left. exact H2.
  - rewrite H. intros E. right. exact E.
Qed.
Lemma jwrites_inv ov0 j l c : In (l, c) (jwrites ov0 j) ->
  exists pb a, jo ov0 j = JChanged pb a /\
    ((l = lexloc cwd (fst j) /\ c = write a) \/
     (exists bk, truthy backup = Some bk /\ l = lexloc cwd (backup_path (fst j) bk) /\ c = pb)).
Proof.
  unfold jwrites, writes. destruct (jo ov0 j) as [| |pb a| |]; try contradiction.
  intros [H|H].
  - inversion H; subst. exists pb, a. split; [reflexivity|left; split; reflexivity].
  - destruct (truthy backup) as [bk|]; [|contradiction]. destruct H as [H|[]]. inversion H.
    exists c, a. split; [reflexivity|]. right. exists bk. repeat split; congruence.
Qed.
Lemma jo_changed_inv ov0 j pb a : jo ov0 j = JChanged pb a ->
  exists sb s p,
    st_read B tree ov0 (lexloc cwd (snd j)) = RFile sb /\ read sb = Some s /\
    st_read B tree ov0 (lexloc cwd (fst j)) = RFile pb /\ read pb = Some p /\
    msrc p s = Some a /\ teqb a p = false.
Proof.
  unfold jo, out_of.
  destruct (st_read B tree ov0 (lexloc cwd (snd j))) as [sb| |] eqn:R1; try discriminate.
  destruct (read sb) as [s|] eqn:R2; try discriminate.
  destruct (st_read B tree ov0 (lexloc cwd (fst j))) as [pb'| |] eqn:R3; try discriminate.
  destruct (read pb') as [p|] eqn:R4; try discriminate.
  destruct (msrc p s) as [a'|] eqn:R5; try discriminate.
  destruct (teqb a' p) eqn:R6; try discriminate.
  destruct (truthy backup) as [bk|].
  - destruct (lookup B tree (lexloc cwd (backup_path (fst j) bk))) as [[?|?]|]; try discriminate;
      intros E; inversion E; subst; exists sb, s, p; repeat split; auto.
  - intros E; inversion E; subst; exists sb, s, p; repeat split; auto.
Qed.
Lemma jo_skip_iff ov0 j : jo ov0 j = JSkip <-> st_read B tree ov0 (lexloc cwd (snd j)) = RNone.
Proof.
  unfold jo, out_of. destruct (st_read B tree ov0 (lexloc cwd (snd j))) as [sb| |]; split; try discriminate; auto.
  destruct (read sb); try discriminate.
  destruct (st_read B tree ov0 (lexloc cwd (fst j))); try discriminate.
  destruct (read b); try discriminate. destruct (msrc t0 t); try discriminate.
  destruct (teqb t1 t0); try discriminate. destruct (truthy backup); try discriminate.
  destruct (lookup B tree (lexloc cwd (backup_path (fst j) n))) as [[?|?]|]; discriminate.
Qed.

(* merge_tree as a whole: the files written are the per-file results computed from the ORIGINAL state *)
Lemma merge_tree_spec fixed top P :
  let js := jobs B fixed cwd tree top P in
  indep [] js -> no_raise [] js ->
  let r := merge_tree B T read write teqb msrc fixed cwd tree top P backup in
  t_ov B r = flat_map (jwrites []) (rev js) /\
  t_changed B r = map fst (filter (fun j => is_changed (jo [] j)) js) /\
  t_errors B r = map fst (filter (fun j => is_err (jo [] j)) js) /\
  t_raised B r = false.
Proof.
  intros js Hi Hn r. subst r. unfold merge_tree. fold js.
  destruct (run_jobs_spec [] js (mkTS B [] [] [] false) eq_refl (fun j _ => conj eq_refl eq_refl) Hi Hn)
    as (E1 & E2 & E3 & E4).
  cbn [t_ov t_changed t_errors app] in *. rewrite app_nil_r in E1. auto.
Qed.
Lemma merge_tree_final_read fixed top P l c :
  let js := jobs B fixed cwd tree top P in
  indep [] js -> no_raise [] js ->
  st_read B tree (t_ov B (merge_tree B T read write teqb msrc fixed cwd tree top P backup)) l = RFile c ->
  st_read B tree [] l = RFile c \/ exists j, In j js /\ In (l, c) (jwrites [] j).
Proof.
  intros js Hi Hn. destruct (merge_tree_spec fixed top P Hi Hn) as (E1 & _). rewrite E1.
  rewrite <- (app_nil_r (flat_map _ _)). intros H. apply st_read_app_or in H. destruct H as [H|H]; [|left; exact H].
  right. apply in_flat_map in H. destruct H as (j & Hj & Hin). exists j. split; [|exact Hin].
  apply in_rev. exact Hj.
Qed.
Lemma merge_tree_untouched fixed top P l :
  let js := jobs B fixed cwd tree top P in
  indep [] js -> no_raise [] js ->
  (forall j, In j js -> ~ In l (map fst (jwrites [] j))) ->
  st_read B tree (t_ov B (merge_tree B T read write teqb msrc fixed cwd tree top P backup)) l = st_read B tree [] l.
Proof.
  intros js Hi Hn Hl. destruct (merge_tree_spec fixed top P Hi Hn) as (E1 & _). rewrite E1.
  rewrite <- (app_nil_r (flat_map _ _)). apply st_read_app_notin.
  intros k Hk <-. apply in_map_iff in Hk. destruct Hk as ([k' b] & Ek & Hin). cbn [fst] in Ek. subst k'.
  apply in_flat_map in Hin. destruct Hin as (j & Hj & Hin). apply (Hl j).
  - apply in_rev. exact Hj.
  - apply in_map_iff. exists (k, b). split; [reflexivity|exact Hin].
Qed.
Lemma merge_tree_written fixed top P l c :
  let js := jobs B fixed cwd tree top P in
  indep [] js -> no_raise [] js ->
  NoDup (map fst (flat_map (jwrites []) (rev js))) ->
  (exists j, In j js /\ In (l, c) (jwrites [] j)) ->
  st_read B tree (t_ov B (merge_tree B T read write teqb msrc fixed cwd tree top P backup)) l = RFile c.
Proof.
  intros js Hi Hn Hd (j & Hj & Hin). destruct (merge_tree_spec fixed top P Hi Hn) as (E1 & _). rewrite E1.
  subst js. unfold st_read. rewrite (ov_get_in_nodup l c _ Hd); [reflexivity|].
  apply in_flat_map. exists j. split; [|exact Hin]. apply in_rev in Hj. exact Hj.
Qed.
End FP.
