(* C12 proofs, part 4: the closed boolean obligations about the schema regenerated from the live classes
   (each is decided by computation; a change of the classes that invalidates one breaks the build), and the
   generic theorems instantiated with it. *)
From Coq Require Import List String Ascii ZArith Bool.
From PV Require Import Serial.Model Serial.Proofs Serial.HashProofs Serial.OrderProofs Serial.Grammar Serial.GrammarProofs.
From PV Require Import Serial.Ast Serial.AstProofs.
From PV Require Import Generated.C12_Schema.
Import ListNotations.
Local Open Scope string_scope.

(* field names unique per class, tag field not a field name, tags = class names, class names unique *)
Lemma pytd_schema_wf : schema_wf pytd_schema = true.
Proof. vm_compute. reflexivity. Qed.

(* every hashed field is a compared field; set-like == goes with the set-like hash *)
Lemma pytd_schema_hash_ok : schema_hash_ok pytd_schema = true.
Proof. vm_compute. reflexivity. Qed.

(* one boolean per production of the dialect: the declared field types cover what the production emits *)
Lemma pytd_prods_ok : prods_ok pytd_schema pytd_grammar = true.
Proof. vm_compute. reflexivity. Qed.

(* pickle_utils.Encoder is Encoder(order="deterministic") *)
Lemma pytd_encoder_deterministic : deterministic pytd_schema = true.
Proof. vm_compute. reflexivity. Qed.

(* no field default contains a set (so "equal to the default" does not depend on a set's order) *)
Lemma pytd_defaults_set_free : defaults_set_free pytd_schema = true.
Proof. vm_compute. reflexivity. Qed.

(* pickle_utils.AstDecoder decodes the root struct, which the grammar's start symbol produces *)
Lemma pytd_root_ok : shape_ok pytd_schema pytd_grammar (GNt NSast) (FStruct root) = true.
Proof. vm_compute. reflexivity. Qed.

Lemma roundtrip_pytd : forall hv v f,
  conforms pytd_schema hv v f = true -> decode pytd_schema hv f (encode pytd_schema v) = Some v.
Proof. intros hv. apply roundtrip_lemma. exact pytd_schema_wf. Qed.

Lemma grammar_conforms_pytd : forall hv v,
  in_G v = true -> hooks_all pytd_schema hv v = true -> conforms pytd_schema hv v (FStruct root) = true.
Proof.
  intros hv v Hg Hh.
  exact (gen_conforms_lemma pytd_schema pytd_grammar hv pytd_prods_ok v (GNt NSast) (FStruct root)
           Hg pytd_root_ok Hh).
Qed.

Lemma ast_roundtrip_pytd : forall hv v,
  in_G v = true -> hooks_all pytd_schema hv v = true ->
  decode pytd_schema hv (FStruct root) (encode pytd_schema v) = Some v.
Proof. intros hv v Hg Hh. apply roundtrip_pytd. now apply grammar_conforms_pytd. Qed.

Lemma typed_grammar_conforms_pytd : forall hv (a : sast),
  sast_wf a = true -> hooks_all pytd_schema hv (to_value a) = true ->
  conforms pytd_schema hv (to_value a) (FStruct root) = true.
Proof. intros hv a Hw Hh. apply grammar_conforms_pytd; auto. now apply to_value_in_G. Qed.

Lemma typed_roundtrip_pytd : forall hv (a : sast),
  sast_wf a = true -> hooks_all pytd_schema hv (to_value a) = true ->
  decode pytd_schema hv (FStruct root) (encode pytd_schema (to_value a)) = Some (to_value a).
Proof. intros hv a Hw Hh. apply roundtrip_pytd. now apply typed_grammar_conforms_pytd. Qed.

Lemma reencode_stable_pytd : forall hv v f,
  conforms pytd_schema hv v f = true ->
  option_map (encode pytd_schema) (decode pytd_schema hv f (encode pytd_schema v)) = Some (encode pytd_schema v).
Proof. intros hv. apply reencode_stable_lemma. exact pytd_schema_wf. Qed.

Lemma encode_order_independent_pytd : forall v v',
  sets_of_strs v = true -> sets_of_strs v' = true -> vcanon v = vcanon v' ->
  encode pytd_schema v = encode pytd_schema v'.
Proof.
  apply encode_order_independent_lemma.
  - exact pytd_encoder_deterministic.
  - exact pytd_defaults_set_free.
Qed.

Lemma eq_hash_law_fixed_pytd : forall a b,
  members_hash_distinct pytd_schema HvFixed a = true -> members_hash_distinct pytd_schema HvFixed b = true ->
  node_eqb pytd_schema HvFixed a b = true -> hk pytd_schema HvFixed a = hk pytd_schema HvFixed b.
Proof. apply eq_hash_law_fixed_lemma. exact pytd_schema_hash_ok. Qed.

Lemma eq_hash_law_partial_pytd : forall a b,
  members_hash_distinct pytd_schema HvOrig a = true -> members_hash_distinct pytd_schema HvOrig b = true ->
  members_hash_sorted pytd_schema HvOrig a = true -> members_hash_sorted pytd_schema HvOrig b = true ->
  node_eqb pytd_schema HvOrig a b = true -> hk pytd_schema HvOrig a = hk pytd_schema HvOrig b.
Proof. apply eq_hash_law_partial_lemma. exact pytd_schema_hash_ok. Qed.

(* the witness: UnionType((int, str)) and UnionType((str, int)) *)
Definition named (s : string) : value := VStruct "NamedType" [VStr s].
Definition union_int_str : value := VStruct "UnionType" [VTuple [named "int"; named "str"]].
Definition union_str_int : value := VStruct "UnionType" [VTuple [named "str"; named "int"]].

Lemma eq_hash_law_refuted_pytd : exists a b,
  members_hash_distinct pytd_schema HvOrig a = true /\ members_hash_distinct pytd_schema HvOrig b = true /\
  node_eqb pytd_schema HvOrig a b = true /\ hk pytd_schema HvOrig a <> hk pytd_schema HvOrig b.
Proof.
  exists union_int_str, union_str_int. repeat split; try (vm_compute; reflexivity).
  intros H. apply (f_equal (fun k => toks_eqb k (hk pytd_schema HvOrig union_str_int))) in H.
  vm_compute in H. discriminate H.
Qed.
