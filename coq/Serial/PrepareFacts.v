(* C12 proofs, part 5: SerializeAst's preparation composed with the codec theorems, for the schema of the
   live node classes (Generated/C12_Schema.v).  The table check [prep_tbl_ok] - the regenerated schema's field
   names and hooks line up with the grammar's productions and with Canon.Model's sort/reset tables - is decided
   by computation, so a renamed, re-ordered or re-typed field breaks this file. *)
From Coq Require Import List String Ascii ZArith Bool Arith.
From PV Require Import Serial.Model Serial.Proofs Serial.Grammar Serial.GrammarProofs Serial.Ast Serial.AstProofs.
From PV Require Import Serial.Prepare Serial.PrepareProofs Generated.C12_Schema Serial.SchemaFacts.
From PV Require Canon.Model.
Import ListNotations.
Local Open Scope string_scope.
Local Open Scope list_scope.

Lemma prep_tbl_pytd : prep_tbl_ok pytd_schema pytd_grammar = true.
Proof. vm_compute. reflexivity. Qed.

(* the domain: a unit whose class pointers, once cleared, leave a unit of the dialect G whose unions are what
   _FlattenTypes leaves - before and after canonical ordering of their members *)
Definition unit_ok (R : reprs) (hv : hvariant) (u : value) : bool :=
  gen_b pytd_grammar (clear_ptrs u) (GNt NUnit) &&
  hooks_all pytd_schema hv (clear_ptrs u) &&
  sets_okb R pytd_schema hv (clear_ptrs u).

Lemma unit_ok_elim R hv u : unit_ok R hv u = true ->
  gen_b pytd_grammar (clear_ptrs u) (GNt NUnit) = true /\ hooks_all pytd_schema hv (clear_ptrs u) = true /\
  sets_okb R pytd_schema hv (clear_ptrs u) = true.
Proof.
  unfold unit_ok. intros H. apply andb_true_iff in H. destruct H as [H H3].
  apply andb_true_iff in H. destruct H as [H1 H2]. auto.
Qed.

Lemma prepared_in_dialect_pytd R hv u src md : unit_ok R hv u = true ->
  in_G (prepare R pytd_schema u src md) = true /\
  hooks_all pytd_schema hv (prepare R pytd_schema u src md) = true.
Proof.
  intros H. destruct (unit_ok_elim R hv u H) as [H1 [H2 H3]]. split.
  - exact (prepare_in_G R pytd_schema hv prep_tbl_pytd u src md H1 H3).
  - exact (prepare_hooks R pytd_schema hv prep_tbl_pytd u src md H2 H3).
Qed.

Lemma prepared_ast_pytd R u src md :
  sast_ast (prepare R pytd_schema u src md) = canon_s R pytd_schema (clear_ptrs u).
Proof. unfold prepare, prepared_unit, sast_ast. apply clear_cache_canon. Qed.

Lemma decode_eq_canon_pytd R hv u src md : unit_ok R hv u = true ->
  exists sa, decode pytd_schema hv (FStruct root) (encode pytd_schema (prepare R pytd_schema u src md)) = Some sa /\
             sa = prepare R pytd_schema u src md /\
             sast_ast sa = canon_s R pytd_schema (clear_ptrs u) /\
             to_c R pytd_schema (sast_ast sa) = PV.Canon.Model.canon (to_c R pytd_schema (clear_ptrs u)).
Proof.
  intros H. destruct (prepared_in_dialect_pytd R hv u src md H) as [Hg Hh].
  exists (prepare R pytd_schema u src md). split; [|split; [reflexivity|split]].
  - now apply ast_roundtrip_pytd.
  - apply prepared_ast_pytd.
  - rewrite prepared_ast_pytd. apply canon_bridge.
Qed.

Lemma serialize_bytes_stable_pytd R hv u src md : unit_ok R hv u = true ->
  option_map (encode pytd_schema)
             (decode pytd_schema hv (FStruct root) (encode pytd_schema (prepare R pytd_schema u src md)))
  = Some (encode pytd_schema (prepare R pytd_schema u src md)).
Proof.
  intros H. destruct (prepared_in_dialect_pytd R hv u src md H) as [Hg Hh].
  apply reencode_stable_pytd. now apply grammar_conforms_pytd.
Qed.

(* ---- a non-trivial instance: two classes out of order, a resolved class pointer, a union out of order ---- *)
Definition ex_reprs : reprs :=
  mkReprs (fun s => String.append "'" (String.append s "'")) (fun _ => "0") (fun _ s => (s, s)) (fun _ _ => ("f", "f"))
          (fun _ => ("p", "p")) (fun _ => ("o", "o", "o")).

Definition ex_cls (n : string) (bases : list value) : value :=
  VStruct "Class" [VStr n; VTuple []; VTuple bases; VTuple []; VTuple []; VTuple []; VTuple []; VNone; VTuple [];
                   VDict [] []].
Definition ex_raw_unit : value :=
  VStruct "TypeDeclUnit"
    [VStr "m";
     VTuple [VStruct "Constant" [VStr "m.x";
                                 VStruct "UnionType" [VTuple [VStruct "NamedType" [VStr "pkg.str"];
                                                              VStruct "ClassType" [VStr "m.A"; VStr "ptr-to-A"]]];
                                 VNone]];
     VTuple [];
     VTuple [ex_cls "m.B" [VStruct "ClassType" [VStr "m.A"; VStr "ptr-to-A"]]; ex_cls "m.A" []];
     VTuple []; VTuple [VStruct "Alias" [VStr "m.al"; VStruct "LateType" [VStr "other.mod.T"; VBool false]]];
     VDict [] []].

Example ex_prepare_ok :
  unit_ok ex_reprs HvFixed ex_raw_unit = true /\ unit_ok ex_reprs HvOrig ex_raw_unit = true /\
  gen_b pytd_grammar ex_raw_unit (GNt NUnit) = false /\
  sast_ast (prepare ex_reprs pytd_schema ex_raw_unit None []) <> clear_ptrs ex_raw_unit.
Proof. repeat split; try (vm_compute; reflexivity). vm_compute. intros H. discriminate H. Qed.

Example ex_prepare_result :
  prepare ex_reprs pytd_schema ex_raw_unit (Some "m.py") ["x"] =
  let ct := VStruct "ClassType" [VStr "m.A"; VNone] in
  let cls n bases := VStruct "Class" [VStr n; VTuple []; VTuple bases; VTuple []; VTuple []; VTuple []; VTuple [];
                                      VNone; VTuple []; VDict [] []] in
  VStruct "SerializableAst"
    [VStruct "TypeDeclUnit"
       [VStr "m";
        VTuple [VStruct "Constant" [VStr "m.x"; VStruct "UnionType" [VTuple [ct; VStruct "NamedType" [VStr "pkg.str"]]];
                                    VNone]];
        VTuple []; VTuple [cls "m.A" []; cls "m.B" [ct]]; VTuple [];
        VTuple [VStruct "Alias" [VStr "m.al"; VStruct "LateType" [VStr "other.mod.T"; VBool false]]];
        VDict [] []];
     VList [VTuple [VStr "m"; VSet [VStr "A"]]; VTuple [VStr "pkg"; VSet [VStr "str"]]];
     VList [VTuple [VStr "other.mod"; VSet [VStr "T"]]];
     VStr "m.py"; VList [VStr "x"]; VList [ct; ct]].
Proof. vm_compute. reflexivity. Qed.
