(* C12 model, part 2 (definitions only): what serialize_ast.SerializeAst does to a TypeDeclUnit before
   pickle_utils.Encode sees it, and what serialize_ast.ProcessAst restores afterwards.

   Anchors: pytype/pytd/serialize_ast.py   SerializeAst, SerializableAst.__post_init__, FindClassTypesVisitor,
                                           ClearLookupCache, ProcessAst/_LookupClassReferences/FillLocalReferences
            pytype/pytd/visitors.py        ClearClassPointers, CollectDependencies (+ _ProcessName)
            pytype/pytd/pytd_visitors.py   CanonicalOrderingVisitor  (through the C04 model Canon/Model.v)
            pytype/pytd/parse/node.py      _VisitNode (visit_class_names gate, tuples mapped, post-order)

   Input representation.  The unit handed to SerializeAst is a [value] of Serial/Model.v in which a ClassType
   may still carry its class pointer: VStruct "ClassType" [VStr name; p] with p = VNone (unresolved) or any
   other value standing for the pointed-to pytd.Class (the pointer may lead back into the tree, so it is an
   opaque token, never followed - exactly as ClassType.IterChildren never yields it), and in which the lookup
   caches (_name2item of Class / TypeDeclUnit) may hold anything.

   CanonicalOrderingVisitor is NOT modelled again: [canon_s] sorts with Canon.Model's own [sort], [node_lt],
   [veqb], [sorts], [resets], [preserve_constants], [visit_class_names] through the translation [to_c] into
   Canon.Model's generic tree; PrepareProofs.v proves  to_c (canon_s v) = Canon.Model.canon (to_c v).
   The leaves' str()/repr() strings that Node.__lt__ compares are CPython's; they enter as the parameter
   [reprs] (every theorem holds for every such record; the harness supplies CPython's own strings). *)
From Coq Require Import List String Ascii ZArith Bool Arith.
From PV Require Import Serial.Model Serial.Grammar Serial.Ast.
From PV Require Canon.Model.
Import ListNotations.
Local Open Scope string_scope.
Local Open Scope list_scope.


(* ------------------------------------------------------------------------------------------- *)
(* str()/repr() of the leaves, as CPython prints them *)
Record reprs := mkReprs {
  r_str : string -> string;                         (* repr(s) of a str *)
  r_int : Z -> string;                              (* str(z) = repr(z) of an int *)
  r_enum : string -> string -> string * string;     (* (str(m), repr(m)) of the member with value s of Enum e *)
  r_flag : string -> Z -> string * string;          (* the same for a Flag member *)
  r_ptr : value -> string * string;                 (* (cls.name, str(cls)) of a class pointer *)
  r_opaque : value -> string * string * string      (* (type name, str, repr) of any other leaf *)
}.

(* ClassType(name, cls) *)
Definition is_ct (c : string) (fs : list value) : option (string * value) :=
  if String.eqb c "ClassType" then match fs with [VStr n; p] => Some (n, p) | _ => None end else None.

Definition field_names (S : schema) (c : string) : list string :=
  match lookup S c with Some si => map fd_name (s_fields si) | None => [] end.

(* the field called n of a positional struct *)
Fixpoint sfield (n : string) (names : list string) (fs : list value) : option value :=
  match names, fs with
  | m :: names', v :: fs' => if String.eqb n m then Some v else sfield n names' fs'
  | _, _ => None
  end.

Section Prepare.
  Context (R : reprs) (S : schema).

  (* ----------------------------------------------------------------------------------------- *)
  (* the translation into Canon.Model's tree *)
  Fixpoint to_c (v : value) {struct v} : PV.Canon.Model.value :=
    match v with
    | VNone => PV.Canon.Model.VAtom "NoneType" "None" "None"
    | VBool b => let s := if b then "True" else "False" in PV.Canon.Model.VAtom "bool" s s
    | VInt z => PV.Canon.Model.VAtom "int" (r_int R z) (r_int R z)
    | VStr s => PV.Canon.Model.VAtom "str" s (r_str R s)
    | VEnumS e s => PV.Canon.Model.VAtom e (fst (r_enum R e s)) (snd (r_enum R e s))
    | VEnumI e z => PV.Canon.Model.VAtom e (fst (r_flag R e z)) (snd (r_flag R e z))
    | VTuple l => PV.Canon.Model.VTup (map to_c l)
    | VStruct c fs =>
        match is_ct c fs with
        | Some (n, VNone) => PV.Canon.Model.VClassType n None
        | Some (n, p) => PV.Canon.Model.VClassType n (Some (r_ptr R p))
        | None => PV.Canon.Model.VNode c (combine (field_names S c) (map to_c fs))
        end
    | VDict [] [] => PV.Canon.Model.empty_dict
    | _ => let '(c, s, r) := r_opaque R v in PV.Canon.Model.VAtom c s r
    end.

  (* ----------------------------------------------------------------------------------------- *)
  (* CanonicalOrderingVisitor on Serial values, with Canon.Model's own sort, order, == and tables *)
  Definition lt_s (a b : value) : bool := PV.Canon.Model.node_lt (to_c a) (to_c b).
  Definition sort_s (l : list value) : list value := PV.Canon.Model.sort lt_s l.
  Definition veq_s (a b : value) : bool := PV.Canon.Model.veqb (to_c a) (to_c b).

  Definition flatten_s (l : list value) : list value :=
    flat_map (fun t => match t with
                       | VStruct c fs =>
                           if PV.Canon.Model.is_setof c
                           then match sfield "type_list" (field_names S c) fs with
                                | Some (VTuple m) => m
                                | _ => [t]
                                end
                           else [t]
                       | _ => [t]
                       end) l.

  Fixpoint dedup_s (l : list value) : list value :=
    match l with
    | [] => []
    | x :: t => x :: filter (fun y => negb (veq_s x y)) (dedup_s t)
    end.

  Definition post_init_s (l : list value) : list value := dedup_s (flatten_s l).

  Definition sort_tup_s (v : value) : value := match v with VTuple l => VTuple (sort_s l) | _ => v end.
  Definition post_tup_s (v : value) : value := match v with VTuple l => VTuple (post_init_s l) | _ => v end.

  Definition tr_flags_s (isset srt rst uni : bool) (v : value) : value :=
    let v1 := if isset then post_tup_s v else v in
    if srt then (if uni then post_tup_s (sort_tup_s v1) else sort_tup_s v1)
    else if rst then VDict [] []
    else v1.

  Definition tr_s (c : string) (pc : bool) (n : string) (v : value) : value :=
    tr_flags_s (PV.Canon.Model.is_setof c && String.eqb n "type_list") (PV.Canon.Model.sorts c pc n) (PV.Canon.Model.resets c n)
               (String.eqb c "UnionType") v.

  (* _PreserveConstantsOrdering(node) on the node rebuilt from the visited children *)
  Definition preserve_s (names : list string) (g : list value) : bool :=
    PV.Canon.Model.preserve_constants (combine names (map to_c g)).

  Definition tr_fields_s (c : string) (names : list string) (g : list value) : list value :=
    map (fun p => tr_s c (preserve_s names g) (fst p) (snd p)) (combine names g).

  Fixpoint canon_s (v : value) {struct v} : value :=
    match v with
    | VTuple l => VTuple (map canon_s l)
    | VStruct c fs =>
        match is_ct c fs with
        | Some _ => v
        | None =>
            if PV.Canon.Model.mem c PV.Canon.Model.visit_class_names
            then VStruct c (tr_fields_s c (field_names S c) (map canon_s fs))
            else v
        end
    | _ => v
    end.

  (* ----------------------------------------------------------------------------------------- *)
  (* visitors.ClearClassPointers: EnterClassType sets node.cls = None; _VisitNode only enters the classes of
     the visitor's visit_class_names (table checked against the live visitor on every run) *)
  Definition ccp_names : list string :=
    ["Alias"; "Annotated"; "CallableType"; "Class"; "ClassType"; "Concatenate"; "Constant"; "Function";
     "GenericType"; "IntersectionType"; "Literal"; "ParamSpec"; cls_Param; "Signature"; "TemplateItem";
     "TupleType"; "TypeDeclUnit"; "TypeParameter"; "UnionType"; "_SetOfTypes"].

  Fixpoint clear_ptrs (v : value) {struct v} : value :=
    match v with
    | VTuple l => VTuple (map clear_ptrs l)
    | VStruct c fs =>
        if mem_str c ccp_names then
          match is_ct c fs with
          | Some (n, _) => VStruct c [VStr n; VNone]
          | None => VStruct c (map clear_ptrs fs)
          end
        else v
    | _ => v
    end.

  (* serialize_ast.ClearLookupCache: LeaveClass / LeaveTypeDeclUnit empty node._name2item *)
  Definition clc_names : list string := ["Class"; "TypeDeclUnit"].

  Fixpoint clear_cache (v : value) {struct v} : value :=
    match v with
    | VTuple l => VTuple (map clear_cache l)
    | VStruct c fs =>
        if mem_str c clc_names then
          VStruct c ((fix go (ns : list string) (fs : list value) {struct fs} : list value :=
                        match ns, fs with
                        | n :: ns', f :: fs' =>
                            (if String.eqb n "_name2item" then VDict [] [] else clear_cache f) :: go ns' fs'
                        | _, _ => []
                        end) (field_names S c) fs)
        else v
    | _ => v
    end.

  (* ----------------------------------------------------------------------------------------- *)
  (* visitors.CollectDependencies *)
  Definition cd_names : list string :=
    ["Alias"; "Annotated"; "CallableType"; "Class"; "ClassType"; "Concatenate"; "Constant"; "Function";
     "GenericType"; "IntersectionType"; "LateType"; "Literal"; "Module"; "NamedType"; "ParamSpec"; cls_Param;
     "Signature"; "TemplateItem"; "TupleType"; "TypeDeclUnit"; "TypeParameter"; "UnionType"; "_SetOfTypes"].

  (* the part of a reversed string before / after its first "." *)
  Fixpoint break_dot (l : list ascii) : option (list ascii * list ascii) :=
    match l with
    | [] => None
    | ch :: t => if Ascii.eqb ch "."%char then Some ([], t)
                 else match break_dot t with Some (a, b) => Some (ch :: a, b) | None => None end
    end.

  (* name.rpartition("."): None if there is no dot, else (before the last dot, after it) *)
  Definition rpartition_dot (s : string) : option (string * string) :=
    match break_dot (rev (list_ascii_of_string s)) with
    | None => None
    | Some (suf_rev, pre_rev) =>
        Some (string_of_list_ascii (rev pre_rev), string_of_list_ascii (rev suf_rev))
    end.

  (* s.endswith(suf) *)
  Definition ends_with (s suf : string) : bool := PV.Canon.Model.ends_with s suf.

  (* the names handed to _ProcessName, in visiting order; true = late_dependencies.
     ClassType.IterChildren yields the name only, the other three classes have no node children. *)
  Fixpoint dep_names (v : value) {struct v} : list (bool * string) :=
    match v with
    | VTuple l => flat_map dep_names l
    | VStruct c fs =>
        if mem_str c cd_names then
          if String.eqb c "ClassType" || String.eqb c "NamedType"
          then match fs with VStr n :: _ => [(false, n)] | _ => [] end
          else if String.eqb c "LateType"
          then match fs with VStr n :: _ => [(true, n)] | _ => [] end
          else if String.eqb c "Module"
          then match fs with
               | [VStr n; VStr m] => if ends_with n ("." ++ m) then [] else [(false, m)]
               | _ => []
               end
          else flat_map dep_names fs
        else []
    | _ => []
    end.

  (* dependencies[module_name].add(base_name), the dict kept sorted by key (sorted(d.items()) at the end;
     keys are unique, so the tuple comparison never reaches the sets) and every set by its str order
     (the representation of a set in Serial/Model.v) *)
  Fixpoint dep_insert (m b : string) (d : list (string * list string)) : list (string * list string) :=
    match d with
    | [] => [(m, [b])]
    | (m', bs) :: t =>
        if String.eqb m m' then (m', sinsert_u b bs) :: t
        else if String.ltb m m' then (m, [b]) :: d
        else (m', bs) :: dep_insert m b t
    end.

  (* _ProcessName *)
  Definition process_name (name : string) (d : list (string * list string)) : list (string * list string) :=
    match rpartition_dot name with
    | None => d                                           (* if dot: *)
    | Some (module_name, base_name) =>
        if String.eqb module_name "" then d               (* "Empty package name" warning *)
        else dep_insert module_name base_name d
    end.

  Definition deps_of (late : bool) (ns : list (bool * string)) : list (string * list string) :=
    fold_left (fun d p => if Bool.eqb (fst p) late then process_name (snd p) d else d) ns [].

  (* ----------------------------------------------------------------------------------------- *)
  (* SerializeAst after RenameModuleVisitor / UndoModuleAliasesVisitor (which the harness lets the real code
     apply first; they are outside this model):
       deps = CollectDependencies on ast; ast.Visit(ClearClassPointers()); ast = ast.Visit(CanonicalOrdering);
       ast.Visit(ClearLookupCache()); SerializableAst(ast, sorted(deps), sorted(late), src_path, metadata or [])
     and SerializableAst.__post_init__ with class_type_nodes = None: every ClassType FindClassTypesVisitor meets *)
  Definition prepared_unit (u : value) : value := clear_cache (canon_s (clear_ptrs u)).

  Definition prepare (u : value) (src_path : option string) (metadata : list string) : value :=
    let a := prepared_unit u in
    let ns := dep_names u in
    VStruct "SerializableAst"
            [a; deps_value (deps_of false ns); deps_value (deps_of true ns); ostr src_path;
             VList (map VStr metadata); VList (class_types a)].

  (* the ast field of a SerializableAst *)
  Definition sast_ast (v : value) : value :=
    match v with VStruct _ (a :: _) => a | _ => VNone end.

  (* ----------------------------------------------------------------------------------------- *)
  (* the hypotheses of the theorems, evaluated by the harness on every case.
     At every UnionType / IntersectionType that CanonicalOrderingVisitor reaches, the members (after their
     own canonical ordering) are what _FlattenTypes leaves alone: none is itself a union/intersection, and
     no two of them are the same dict key - neither for the codec model's == / hash ([same], both
     directions) nor for Canon.Model's == ([veqb]). *)
  Definition sep_pair (hv : hvariant) (x y : value) : bool :=
    negb (same S hv x y) && negb (same S hv y x) && negb (veq_s x y) && negb (veq_s y x).

  Fixpoint sepb (hv : hvariant) (l : list value) : bool :=
    match l with
    | [] => true
    | x :: t => forallb (sep_pair hv x) t && sepb hv t
    end.

  Definition flat_memb (x : value) : bool :=
    match x with
    | VStruct c _ => negb (PV.Canon.Model.is_setof c) && negb (is_setlike S c)
    | _ => true
    end.

  Definition hook_is_none (h : hook) : bool := match h with HNone => true | _ => false end.
  Definition hook_is_flatten (h : hook) : bool := match h with HFlatten => true | _ => false end.
  (* no other class the visitor rebuilds has a __post_init__ *)
  Definition hook_none_b (c : string) : bool :=
    match lookup S c with Some si => hook_is_none (s_hook si) | None => true end.

  Fixpoint sets_okb (hv : hvariant) (v : value) {struct v} : bool :=
    match v with
    | VTuple l => forallb (sets_okb hv) l
    | VStruct c fs =>
        match is_ct c fs with
        | Some _ => true
        | None =>
            if PV.Canon.Model.mem c PV.Canon.Model.visit_class_names then
              forallb (sets_okb hv) fs &&
              (if PV.Canon.Model.is_setof c then
                 match fs with
                 | [VTuple l] =>
                     let ml := map canon_s l in
                     match ml with [] => false | _ => forallb flat_memb ml && sepb hv ml end
                 | _ => false
                 end
               else hook_none_b c)
            else true
        end
    | _ => true
    end.

  (* what the proofs need from the (regenerated) schema and the grammar, decided by computation:
     for every class the canonical-ordering visitor enters - the struct's field names line up with the
     production's shapes; a field that is sorted is a tuple (or an optional tuple), the field that is reset is
     the lookup cache; union/intersection have the single field type_list : tuple of types and the
     _FlattenTypes hook, every other such class has no __post_init__ *)
  Definition shape_sortable (g : gshape) : bool :=
    match g with GTup _ => true | GOpt (GTup _) => true | _ => false end.

  Definition gshape_is_emptydict (g : gshape) : bool := match g with GEmptyDict => true | _ => false end.

  Definition field_tbl_ok (c n : string) (g : gshape) : bool :=
    (if PV.Canon.Model.sorts c false n || PV.Canon.Model.sorts c true n then shape_sortable g else true) &&
    (if PV.Canon.Model.resets c n then gshape_is_emptydict g else true).

  Definition class_tbl_ok (G : grammar) (c : string) : bool :=
    match lookup S c with
    | None => match assoc c (prods G) with None => true | Some _ => false end
    | Some si =>
        let names := map fd_name (s_fields si) in
        (if PV.Canon.Model.is_setof c
         then hook_is_flatten (s_hook si) && s_setlike si &&
              match names with [n] => String.eqb n "type_list" | _ => false end
         else true) &&
        match assoc c (prods G) with
        | None => true
        | Some shapes =>
            Nat.eqb (List.length names) (List.length shapes) &&
            forallb (fun ng => field_tbl_ok c (fst ng) (snd ng)) (combine names shapes) &&
            (if PV.Canon.Model.is_setof c then match shapes with [GTup _] => true | _ => false end else true)
        end
    end.

  Definition prep_tbl_ok (G : grammar) : bool :=
    forallb (class_tbl_ok G) PV.Canon.Model.visit_class_names &&
    negb (PV.Canon.Model.mem "ClassType" PV.Canon.Model.visit_class_names) &&
    forallb (fun c => PV.Canon.Model.mem c PV.Canon.Model.visit_class_names) clc_names &&
    match lookup S "SerializableAst" with
    | Some si =>
        match s_hook si, field_index "ast" (s_fields si), field_index "class_type_nodes" (s_fields si) with
        | HClassTypes, Some O, Some 5%nat => true
        | _, _, _ => false
        end
    | None => false
    end.

  (* ----------------------------------------------------------------------------------------- *)
  (* serialize_ast.ProcessAst at the level this property needs: _LookupClassReferences and
     FillLocalReferences set ClassType.cls for every ClassType of the decoded unit ([resolve n] = the class
     the name n is resolved to; an unresolvable name raises UnrestorableDependencyError / KeyError = None).
     Nothing else of the unit is touched: not the order, not the lookup caches, not the names. *)
  Definition relink_names : list string := ccp_names.

  Fixpoint relink (resolve : string -> option value) (v : value) {struct v} : option value :=
    match v with
    | VTuple l => match map_opt (relink resolve) l with Some l' => Some (VTuple l') | None => None end
    | VStruct c fs =>
        if mem_str c relink_names then
          if String.eqb c "ClassType" then
            match fs with
            | [VStr n; VNone] => match resolve n with Some p => Some (VStruct c [VStr n; p]) | None => None end
            | _ => Some v                                (* already filled references are not changed *)
            end
          else match map_opt (relink resolve) fs with Some fs' => Some (VStruct c fs') | None => None end
        else Some v
    | _ => Some v
    end.
End Prepare.
