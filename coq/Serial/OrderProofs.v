(* C12 proofs, part 5: with order="deterministic" the bytes do not depend on the iteration order of any set. *)
From Coq Require Import List String Ascii ZArith NArith Bool Arith Lia Permutation.
From PV Require Import Serial.Model Serial.Proofs Serial.HashProofs.
Import ListNotations.
Local Open Scope string_scope.
Local Open Scope list_scope.

(* ---- Python's str order (String.leb) is a total order ---- *)
Lemma ascii_cmp a b : Ascii.compare a b = N.compare (N_of_ascii a) (N_of_ascii b).
Proof. reflexivity. Qed.

Lemma string_leb_trans : forall a b c, String.leb a b = true -> String.leb b c = true -> String.leb a c = true.
Proof.
  unfold String.leb.
  induction a as [|x a IH]; intros [|y b] [|z c]; simpl; auto; try discriminate.
  rewrite !ascii_cmp.
  destruct (N.compare_spec (N_of_ascii x) (N_of_ascii y)) as [E1|L1|G1];
    destruct (N.compare_spec (N_of_ascii y) (N_of_ascii z)) as [E2|L2|G2];
    destruct (N.compare_spec (N_of_ascii x) (N_of_ascii z)) as [E3|L3|G3];
    auto; try discriminate; try lia.
  apply IH.
Qed.

Lemma ssort_is_sort l : ssort l = sort string String.leb l.
Proof. reflexivity. Qed.

Lemma ssort_perm_eq l l' : Permutation l l' -> ssort l = ssort l'.
Proof.
  rewrite !ssort_is_sort. apply sort_perm_eq.
  - apply String.leb_total. - apply String.leb_antisym. - apply string_leb_trans.
Qed.

Lemma ssort_idem l : ssort (ssort l) = ssort l.
Proof.
  apply ssort_perm_eq. apply Permutation_sym. rewrite ssort_is_sort. apply sort_perm.
Qed.

(* sorting the encoded strings = encoding the sorted strings *)
Lemma minsert_MStr x l : minsert (MStr x) (map MStr l) = map MStr (sinsert x l).
Proof.
  induction l as [|y t IH]; simpl; auto.
  destruct (String.leb x y); simpl; auto. now rewrite IH.
Qed.

Lemma msort_MStr l : msort (map MStr l) = map MStr (ssort l).
Proof.
  induction l as [|x t IH]; simpl; auto.
  unfold msort, ssort in *. simpl. rewrite IH. apply minsert_MStr.
Qed.

(* ---- canonicalising a value does not change "is it the default" for set-free defaults ---- *)
Lemma veqb_vcanon : forall v d, set_free d = true -> veqb (vcanon v) d = veqb v d.
Proof.
  induction v using value_ind'; intros d Hd; simpl; auto.
  - (* tuple *)
    destruct d; auto. simpl in Hd. revert l0 Hd.
    induction H as [|x t Hx Ht IH]; intros [|y t'] Hd; simpl; auto.
    simpl in Hd. apply andb_true_iff in Hd. destruct Hd as [Hy Ht'].
    rewrite (Hx y Hy). f_equal. apply IH. exact Ht'.
  - (* list *)
    destruct d; auto. simpl in Hd. revert l0 Hd.
    induction H as [|x t Hx Ht IH]; intros [|y t'] Hd; simpl; auto.
    simpl in Hd. apply andb_true_iff in Hd. destruct Hd as [Hy Ht'].
    rewrite (Hx y Hy). f_equal. apply IH. exact Ht'.
  - (* set: a set-free default is no set *)
    destruct d; try (destruct (strs_of l); reflexivity). simpl in Hd. discriminate.
  - (* dict *)
    destruct d; auto. simpl in Hd. f_equal. revert vs0 Hd.
    induction H as [|x t Hx Ht IH]; intros [|y t'] Hd; simpl; auto.
    simpl in Hd. apply andb_true_iff in Hd. destruct Hd as [Hy Ht'].
    rewrite (Hx y Hy). f_equal. apply IH. exact Ht'.
  - (* struct *)
    destruct d; auto. simpl in Hd. f_equal. revert fs0 Hd.
    induction H as [|x t Hx Ht IH]; intros [|y t'] Hd; simpl; auto.
    simpl in Hd. apply andb_true_iff in Hd. destruct Hd as [Hy Ht'].
    rewrite (Hx y Hy). f_equal. apply IH. exact Ht'.
Qed.

Lemma defaults_set_free_lookup S c si fd :
  defaults_set_free S = true -> lookup S c = Some si -> In fd (s_fields si) ->
  match fd_default fd with Some d => set_free d = true | None => True end.
Proof.
  unfold defaults_set_free, lookup. intros H. rewrite forallb_forall in H. revert H.
  generalize (structs S) as l.
  induction l as [|[k a] t IH]; simpl; intros H E Hin; try discriminate.
  destruct (String.eqb c k) eqn:Ek.
  - inversion E. subst. pose proof (H (k, si) (or_introl eq_refl)) as Hs. simpl in Hs.
    rewrite forallb_forall in Hs. specialize (Hs fd Hin). destruct (fd_default fd); auto.
  - apply IH; auto.
Qed.

Lemma enc_fields_vcanon S omit : forall fs flds,
  (forall fd, In fd flds -> match fd_default fd with Some d => set_free d = true | None => True end) ->
  Forall (fun v => encode S (vcanon v) = encode S v) fs ->
  enc_fields (fun x => encode S x) omit (map vcanon fs) flds = enc_fields (fun x => encode S x) omit fs flds.
Proof.
  induction fs as [|v fs IH]; intros [|fd flds] Hd HF; simpl; auto.
  inversion HF as [|? ? Hv HF']. subst.
  assert (Hdef : is_default fd (vcanon v) = is_default fd v).
  { unfold is_default. pose proof (Hd fd (or_introl eq_refl)) as Hfd.
    destruct (fd_default fd) as [d|]; auto. now apply veqb_vcanon. }
  rewrite Hdef, Hv.
  change ((fix go (fs0 : list value) (flds0 : list field) {struct fs0} : list (string * mval) :=
             match fs0 with
             | [] => []
             | v0 :: fs' =>
                 match flds0 with
                 | [] => []
                 | fd0 :: flds' =>
                     if omit && is_default fd0 v0 then go fs' flds' else (fd_name fd0, encode S v0) :: go fs' flds'
                 end
             end) (map vcanon fs) flds)
    with (enc_fields (fun x => encode S x) omit (map vcanon fs) flds).
  change ((fix go (fs0 : list value) (flds0 : list field) {struct fs0} : list (string * mval) :=
             match fs0 with
             | [] => []
             | v0 :: fs' =>
                 match flds0 with
                 | [] => []
                 | fd0 :: flds' =>
                     if omit && is_default fd0 v0 then go fs' flds' else (fd_name fd0, encode S v0) :: go fs' flds'
                 end
             end) fs flds)
    with (enc_fields (fun x => encode S x) omit fs flds).
  rewrite IH; auto. intros g Hg. apply Hd. now right.
Qed.

Lemma map_encode_vcanon S (l : list value) :
  Forall (fun v => sets_of_strs v = true -> encode S (vcanon v) = encode S v) l ->
  forallb sets_of_strs l = true ->
  map (encode S) (map vcanon l) = map (encode S) l.
Proof.
  induction 1 as [|x t Hx Ht IH]; simpl; auto. intros Hs.
  apply andb_true_iff in Hs. destruct Hs as [H1 H2]. rewrite Hx, IH; auto.
Qed.

(* the encoding of a value is the encoding of its canonical form *)
Theorem encode_vcanon_lemma : forall S, deterministic S = true -> defaults_set_free S = true ->
  forall v, sets_of_strs v = true -> encode S (vcanon v) = encode S v.
Proof.
  intros S Hdet Hdf. induction v using value_ind'; intros Hs; simpl in Hs; simpl vcanon; auto.
  - simpl. f_equal. now apply map_encode_vcanon.
  - simpl. f_equal. now apply map_encode_vcanon.
  - (* set *)
    destruct (strs_of l) as [ss|] eqn:Ess; try discriminate.
    pose proof (strs_of_map _ _ Ess) as El. subst l.
    simpl. rewrite Hdet. rewrite !map_map. simpl.
    change (map (fun x : string => MStr x) (ssort ss)) with (map MStr (ssort ss)).
    change (map (fun x : string => MStr x) ss) with (map MStr ss).
    rewrite !msort_MStr, ssort_idem. reflexivity.
  - simpl. rewrite map_encode_vcanon; auto.
  - (* struct *)
    simpl. destruct (lookup S c) as [si|] eqn:Hl; auto. f_equal. f_equal.
    apply enc_fields_vcanon.
    + intros fd Hfd. eapply defaults_set_free_lookup; eauto.
    + rewrite forallb_forall in Hs. rewrite Forall_forall in H. apply Forall_forall.
      intros x Hx. apply H; auto.
Qed.

(* two iteration orders of the same sets give the same bytes *)
Corollary encode_order_independent_lemma : forall S, deterministic S = true -> defaults_set_free S = true ->
  forall v v', sets_of_strs v = true -> sets_of_strs v' = true -> vcanon v = vcanon v' ->
  encode S v = encode S v'.
Proof.
  intros S Hd Hf v v' Hs Hs' E.
  rewrite <- (encode_vcanon_lemma S Hd Hf v Hs), <- (encode_vcanon_lemma S Hd Hf v' Hs'), E. reflexivity.
Qed.

(* ... and any two orders of one set of strings do have the same canonical form *)
Lemma vcanon_set_perm ss ss' : Permutation ss ss' -> vcanon (VSet (map VStr ss)) = vcanon (VSet (map VStr ss')).
Proof.
  intros P. simpl. rewrite !strs_of_map_VStr. now rewrite (ssort_perm_eq _ _ P).
Qed.
