(* C12 proofs, part 4: SerializeAst's preparation (Serial/Prepare.v).
   (1) the bridge: [canon_s] on Serial values IS Canon.Model's [canon] through the translation [to_c];
   (2) the dialect G and the codec's __post_init__ fixpoints are closed under the preparation;
   (3) hence Encode/DecodeAst restore what SerializeAst built, and its ast field is canon (clear u). *)
From Coq Require Import List String Ascii ZArith Bool Arith Lia Permutation.
From PV Require Import Serial.Model Serial.Proofs Serial.Grammar Serial.GrammarProofs Serial.Ast Serial.AstProofs.
From PV Require Import Serial.Prepare.
From PV Require Canon.Model Canon.SortLemmas Canon.Proofs.
Import ListNotations.
Local Open Scope string_scope.
Local Open Scope list_scope.

Module CP := PV.Canon.Proofs.
Module CS := PV.Canon.SortLemmas.

(* ------------------------------------------------------------------------------------------- *)
(* generic list facts *)
Lemma map_insert {A B} (f : A -> B) (lt : B -> B -> bool) x l :
  map f (PV.Canon.Model.insert (fun a b => lt (f a) (f b)) x l) = PV.Canon.Model.insert lt (f x) (map f l).
Proof.
  induction l as [|y t IH]; simpl; auto.
  destruct (lt (f y) (f x)); simpl; [now rewrite IH | reflexivity].
Qed.

Lemma map_sort {A B} (f : A -> B) (lt : B -> B -> bool) l :
  map f (PV.Canon.Model.sort (fun a b => lt (f a) (f b)) l) = PV.Canon.Model.sort lt (map f l).
Proof.
  unfold PV.Canon.Model.sort. induction l as [|x t IH]; simpl; auto.
  rewrite map_insert. now rewrite IH.
Qed.

Lemma map_filter_comm {A B} (f : A -> B) (p : B -> bool) l :
  map f (filter (fun y => p (f y)) l) = filter p (map f l).
Proof. induction l as [|x t IH]; simpl; auto. destruct (p (f x)); simpl; now rewrite IH. Qed.

Lemma combine_map_combine {A B C} (ns : list A) (g : list B) (h : A * B -> C) :
  combine ns (map h (combine ns g)) = map (fun p => (fst p, h p)) (combine ns g).
Proof.
  revert g. induction ns as [|n ns IH]; intros [|x g]; simpl; auto. now rewrite IH.
Qed.

Lemma combine_map_r {A B C} (ns : list A) (g : list B) (f : B -> C) :
  combine ns (map f g) = map (fun p => (fst p, f (snd p))) (combine ns g).
Proof. revert g. induction ns as [|n ns IH]; intros [|x g]; simpl; auto. now rewrite IH. Qed.

Lemma insert_perm {A} (lt : A -> A -> bool) x l : Permutation (PV.Canon.Model.insert lt x l) (x :: l).
Proof.
  induction l as [|y t IH]; simpl; auto.
  destruct (lt y x); auto. rewrite IH. apply perm_swap.
Qed.

Lemma sort_perm {A} (lt : A -> A -> bool) l : Permutation (PV.Canon.Model.sort lt l) l.
Proof.
  unfold PV.Canon.Model.sort. induction l as [|x t IH]; simpl; auto.
  rewrite insert_perm. now constructor.
Qed.

Section Bridge.
  Context (R : reprs) (S : schema).
  Notation to_c := (to_c R S).
  Notation canon_s := (canon_s R S).

  Ltac tc_atom :=
    cbn [Prepare.to_c map];
    repeat match goal with |- context [r_opaque ?r ?v] => destruct (r_opaque r v) as [[? ?] ?] end;
    try reflexivity.

  Lemma to_c_struct c fs :
    to_c (VStruct c fs) =
    match is_ct c fs with
    | Some (n, VNone) => PV.Canon.Model.VClassType n None
    | Some (n, p) => PV.Canon.Model.VClassType n (Some (r_ptr R p))
    | None => PV.Canon.Model.VNode c (combine (field_names S c) (map to_c fs))
    end.
  Proof. reflexivity. Qed.

  Lemma is_ct_other c fs : String.eqb c "ClassType" = false -> is_ct c fs = None.
  Proof. unfold is_ct. now intros ->. Qed.

  Lemma is_ct_some c fs n p : is_ct c fs = Some (n, p) -> c = "ClassType" /\ fs = [VStr n; p].
  Proof.
    unfold is_ct. destruct (String.eqb c "ClassType") eqn:E; try discriminate.
    apply String.eqb_eq in E. destruct fs as [|[] [|q [|? ?]]]; try discriminate.
    intros H. inversion H. subst. auto.
  Qed.

  (* only a tuple is translated to a tuple *)
  Lemma to_c_tup_inv x m' : to_c x = PV.Canon.Model.VTup m' -> exists m, x = VTuple m /\ m' = map to_c m.
  Proof.
    destruct x as [|b|z|z|s|e s|e z|l|l|l|ks vs|c fs]; try (tc_atom; discriminate).
    - cbn [Prepare.to_c]. intros H. inversion H. eauto.
    - destruct ks; destruct vs; tc_atom; discriminate.
    - rewrite to_c_struct. destruct (is_ct c fs) as [[n p]|]; [destruct p|]; discriminate.
  Qed.

  Lemma sfield_bridge n names fs :
    PV.Canon.Model.field n (combine names (map to_c fs)) = option_map to_c (sfield n names fs).
  Proof.
    revert fs. induction names as [|m names IH]; intros [|v fs]; simpl; auto.
    destruct (String.eqb n m); auto.
  Qed.

  Lemma sort_bridge l : map to_c (sort_s R S l) = PV.Canon.Model.sort_vals (map to_c l).
  Proof. unfold sort_s, lt_s, PV.Canon.Model.sort_vals. apply (map_sort to_c PV.Canon.Model.node_lt). Qed.

  Lemma flatten_bridge l : map to_c (flatten_s S l) = PV.Canon.Model.flatten (map to_c l).
  Proof.
    unfold flatten_s, PV.Canon.Model.flatten. induction l as [|t l IH]; simpl; auto.
    rewrite map_app, IH. f_equal. clear IH.
    destruct t as [|b|z|z|s|e s|e z|l0|l0|l0|ks vs|c fs]; try (tc_atom; fail).
    - destruct ks; destruct vs; tc_atom.
    - cbn [map]. rewrite to_c_struct. destruct (is_ct c fs) as [[n p]|] eqn:E.
      + apply is_ct_some in E. destruct E as [-> ->].
        change (PV.Canon.Model.is_setof "ClassType") with false. cbv iota. destruct p; reflexivity.
      + assert (Et : to_c (VStruct c fs) = PV.Canon.Model.VNode c (combine (field_names S c) (map to_c fs)))
          by (now rewrite to_c_struct, E).
        destruct (PV.Canon.Model.is_setof c); [|cbn [map]; now rewrite Et].
        rewrite sfield_bridge.
        destruct (sfield "type_list" (field_names S c) fs) as [x|]; cbn [option_map map]; [|now rewrite Et].
        destruct x as [|b|z|z|s|e s|e z|l1|l1|l1|ks vs|c1 fs1];
          cbn [map]; rewrite ?Et; try (tc_atom; fail).
        * destruct ks; destruct vs; tc_atom.
        * rewrite (to_c_struct c1 fs1). destruct (is_ct c1 fs1) as [[n p]|]; [destruct p|]; reflexivity.
  Qed.

  Lemma dedup_bridge l : map to_c (dedup_s R S l) = PV.Canon.Model.dedup (map to_c l).
  Proof.
    induction l as [|x t IH]; simpl; auto. f_equal. rewrite <- IH.
    unfold veq_s. apply (map_filter_comm to_c (fun y => negb (PV.Canon.Model.veqb (to_c x) y))).
  Qed.

  Lemma post_init_bridge l : map to_c (post_init_s R S l) = PV.Canon.Model.post_init (map to_c l).
  Proof. unfold post_init_s, PV.Canon.Model.post_init. now rewrite dedup_bridge, flatten_bridge. Qed.

  (* a value that is not a tuple is not translated to one, so the tuple-only helpers leave it alone *)
  Lemma tup_case (f : list value -> list value) (g : list PV.Canon.Model.value -> list PV.Canon.Model.value) v :
    (forall l, map to_c (f l) = g (map to_c l)) ->
    to_c (match v with VTuple l => VTuple (f l) | _ => v end) =
    match to_c v with PV.Canon.Model.VTup l => PV.Canon.Model.VTup (g l) | _ => to_c v end.
  Proof.
    intros H. destruct v as [|b|z|z|s|e s|e z|l1|l1|l1|ks vs|c1 fs1]; try (tc_atom; fail).
    - cbn [Prepare.to_c]. now rewrite H.
    - destruct ks; destruct vs; tc_atom.
    - rewrite to_c_struct. destruct (is_ct c1 fs1) as [[n p]|]; [destruct p|]; reflexivity.
  Qed.

  Lemma sort_tup_bridge v : to_c (sort_tup_s R S v) = PV.Canon.Model.sort_tup (to_c v).
  Proof. apply (tup_case (sort_s R S) PV.Canon.Model.sort_vals). apply sort_bridge. Qed.

  Lemma post_tup_bridge v : to_c (post_tup_s R S v) = PV.Canon.Model.post_tup (to_c v).
  Proof. apply (tup_case (post_init_s R S) PV.Canon.Model.post_init). apply post_init_bridge. Qed.

  Lemma tr_flags_bridge a b c d v :
    to_c (tr_flags_s R S a b c d v) = PV.Canon.Model.tr_flags a b c d (to_c v).
  Proof.
    unfold tr_flags_s, PV.Canon.Model.tr_flags.
    destruct a, b, c, d; rewrite ?post_tup_bridge, ?sort_tup_bridge, ?post_tup_bridge; reflexivity.
  Qed.

  Lemma tr_bridge c pc n v : to_c (tr_s R S c pc n v) = PV.Canon.Model.tr c pc n (to_c v).
  Proof. unfold tr_s, PV.Canon.Model.tr. apply tr_flags_bridge. Qed.

  Lemma visited_not_ct c : PV.Canon.Model.mem c PV.Canon.Model.visit_class_names = true -> String.eqb c "ClassType" = false.
  Proof.
    intros H. destruct (String.eqb c "ClassType") eqn:E; auto.
    apply String.eqb_eq in E. subst c. vm_compute in H. discriminate.
  Qed.

  Lemma tr_fields_bridge c names g :
    combine names (map to_c (tr_fields_s R S c names g)) = PV.Canon.Model.tr_fields c (combine names (map to_c g)).
  Proof.
    unfold tr_fields_s, PV.Canon.Model.tr_fields, preserve_s.
    rewrite map_map, (combine_map_combine names g (fun p => to_c (tr_s R S c _ (fst p) (snd p)))).
    rewrite (combine_map_r names g to_c), map_map. apply map_ext. intros [n x]. cbn [fst snd].
    now rewrite tr_bridge, <- (combine_map_r names g to_c).
  Qed.

  (* THE BRIDGE: canonical ordering of a Serial value is Canon.Model's canon of its translation *)
  Theorem canon_bridge : forall v, to_c (canon_s v) = PV.Canon.Model.canon (to_c v).
  Proof.
    induction v as [|b|z|z|s|e s|e z|l IH|l IH|l IH|ks vs IH|c fs IH] using value_ind';
      try (cbn [Prepare.canon_s]; tc_atom; fail).
    - cbn [Prepare.canon_s Prepare.to_c PV.Canon.Model.canon]. f_equal. rewrite !map_map.
      apply map_ext_in. intros x Hx. rewrite Forall_forall in IH. auto.
    - cbn [Prepare.canon_s]. destruct ks; destruct vs; tc_atom.
    - cbn [Prepare.canon_s]. rewrite (to_c_struct c fs).
      destruct (is_ct c fs) as [[n p]|] eqn:E.
      + rewrite to_c_struct, E. destruct p; reflexivity.
      + cbn [PV.Canon.Model.canon]. destruct (PV.Canon.Model.mem c PV.Canon.Model.visit_class_names) eqn:Ev.
        * rewrite to_c_struct, (is_ct_other _ _ (visited_not_ct _ Ev)). f_equal.
          rewrite tr_fields_bridge. f_equal.
          assert (Hm : map to_c (map canon_s fs) = map PV.Canon.Model.canon (map to_c fs)).
          { rewrite !map_map. apply map_ext_in. intros x Hx. rewrite Forall_forall in IH. auto. }
          rewrite Hm. apply combine_map_r.
        * now rewrite to_c_struct, E.
  Qed.
End Bridge.

(* ------------------------------------------------------------------------------------------- *)
(* (2) closure of the dialect and of the __post_init__ fixpoints under canonical ordering *)
Lemma veqb_refl : forall v, veqb v v = true.
Proof.
  assert (L : forall l, Forall (fun x => veqb x x = true) l -> list_eqb (fun x y => veqb x y) l l = true).
  { induction 1; simpl; auto. now rewrite H, IHForall. }
  induction v as [|b|z|z|s|e s|e z|l IH|l IH|l IH|ks vs IH|c fs IH] using value_ind'; simpl; auto.
  - apply Bool.eqb_reflx.
  - apply Z.eqb_refl.
  - apply Z.eqb_refl.
  - apply String.eqb_refl.
  - now rewrite !String.eqb_refl.
  - now rewrite String.eqb_refl, Z.eqb_refl.
  - rewrite (L _ IH). rewrite andb_true_r.
    induction ks; simpl; auto. now rewrite String.eqb_refl.
  - now rewrite String.eqb_refl, (L _ IH).
Qed.

Lemma list_veqb_refl l : list_eqb veqb l l = true.
Proof. induction l; simpl; auto. now rewrite veqb_refl, IHl. Qed.

Lemma forallb_perm {A} (f : A -> bool) l l' : Permutation l l' -> forallb f l = true -> forallb f l' = true.
Proof.
  intros P H. rewrite forallb_forall in *. intros x Hx. apply H. eapply Permutation_in; [symmetry|]; eauto.
Qed.

Lemma fop_perm {A} (Rel : A -> A -> Prop) (Hsym : forall x y, Rel x y -> Rel y x) l l' :
  Permutation l l' -> ForallOrdPairs Rel l -> ForallOrdPairs Rel l'.
Proof.
  induction 1; intros F; auto.
  - inversion F; subst. constructor; auto. eapply Permutation_Forall; eauto.
  - inversion F as [|? ? Hy Fy]; subst. inversion Fy as [|? ? Hx Fx]; subst.
    inversion Hy; subst. constructor; [constructor; auto|constructor; auto].
Qed.

Section Closure.
  Context (R : reprs) (S : schema) (hv : hvariant).
  Hypothesis Htbl : prep_tbl_ok S pytd_grammar = true.
  Notation canon_s := (canon_s R S).
  Notation sets_ok := (sets_okb R S hv).

  Definition SepP (l : list value) : Prop := ForallOrdPairs (fun x y => sep_pair R S hv x y = true) l.

  Lemma sep_pair_sym x y : sep_pair R S hv x y = true -> sep_pair R S hv y x = true.
  Proof.
    unfold sep_pair. intros H. repeat (apply andb_true_iff in H; destruct H as [H ?]).
    repeat (apply andb_true_iff; split); auto.
  Qed.

  Lemma sepb_sound l : sepb R S hv l = true -> SepP l.
  Proof.
    induction l as [|x t IH]; simpl; intros H; [constructor|].
    apply andb_true_iff in H. destruct H as [H1 H2].
    constructor; [apply Forall_forall; rewrite forallb_forall in H1; auto | now apply IH].
  Qed.

  Lemma SepP_perm l l' : Permutation l l' -> SepP l -> SepP l'.
  Proof. apply fop_perm. apply sep_pair_sym. Qed.

  Lemma sep_same x y : sep_pair R S hv x y = true -> same S hv x y = false /\ veq_s R S x y = false.
  Proof.
    unfold sep_pair. intros H. repeat (apply andb_true_iff in H; destruct H as [H ?]).
    apply negb_true_iff in H. apply negb_true_iff in H1. auto.
  Qed.

  (* _FlattenTypes (both models of it) leaves such a member list alone *)
  Lemma flat_splice l : forallb (flat_memb S) l = true ->
    flat_map (fun t => match t with
                       | VStruct c [VTuple tl] => if is_setlike S c then tl else [t]
                       | _ => [t]
                       end) l = l.
  Proof.
    induction l as [|t l IH]; simpl; auto. intros H. apply andb_true_iff in H. destruct H as [H1 H2].
    rewrite (IH H2). destruct t as [|b|z|z|s|e s|e z|l1|l1|l1|ks vs|c fs]; auto.
    simpl in H1. apply andb_true_iff in H1. destruct H1 as [_ H1]. apply negb_true_iff in H1. rewrite H1.
    destruct fs as [|[] [|? ?]]; reflexivity.
  Qed.

  Lemma flat_flatten_s l : forallb (flat_memb S) l = true -> flatten_s S l = l.
  Proof.
    unfold flatten_s. induction l as [|t l IH]; simpl; auto. intros H. apply andb_true_iff in H.
    destruct H as [H1 H2]. rewrite (IH H2). destruct t as [|b|z|z|s|e s|e z|l1|l1|l1|ks vs|c fs]; auto.
    simpl in H1. apply andb_true_iff in H1. destruct H1 as [H1 _]. apply negb_true_iff in H1. now rewrite H1.
  Qed.

  Lemma fdedup_sep l : SepP l -> fdedup S hv l = l.
  Proof.
    unfold fdedup.
    assert (G : forall l acc, SepP l ->
               (forall y x, In y acc -> In x l -> same S hv y x = false) ->
               fold_left (fun acc x => if existsb (fun y => same S hv y x) acc then acc else acc ++ [x]) l acc
               = acc ++ l).
    { clear l. induction l as [|x t IH]; intros acc F Hacc; simpl; [now rewrite app_nil_r|].
      inversion F as [|? ? Hx Ft]; subst.
      assert (E : existsb (fun y => same S hv y x) acc = false).
      { apply not_true_is_false. intros E. apply existsb_exists in E. destruct E as [y [Hy E]].
        rewrite (Hacc y x Hy (or_introl eq_refl)) in E. discriminate. }
      rewrite E, IH; auto.
      - now rewrite <- app_assoc.
      - intros y z Hy Hz. apply in_app_or in Hy. destruct Hy as [Hy|[<-|[]]].
        + apply Hacc; auto. now right.
        + rewrite Forall_forall in Hx. apply (sep_same _ _ (Hx z Hz)). }
    intros F. apply (G l [] F). intros y x [].
  Qed.

  Lemma dedup_s_sep l : SepP l -> dedup_s R S l = l.
  Proof.
    induction 1 as [|x t Hx Ft IH]; simpl; auto. rewrite IH. f_equal.
    apply CP.filter_all. intros y Hy. rewrite Forall_forall in Hx.
    destruct (sep_same _ _ (Hx y Hy)) as [_ E]. now rewrite E.
  Qed.

  Lemma flatten_types_id l : forallb (flat_memb S) l = true -> SepP l -> flatten_types S hv l = l.
  Proof. intros Hf Hs. unfold flatten_types. rewrite (flat_splice l Hf). now apply fdedup_sep. Qed.

  Lemma post_init_s_id l : forallb (flat_memb S) l = true -> SepP l -> post_init_s R S l = l.
  Proof. intros Hf Hs. unfold post_init_s. rewrite (flat_flatten_s l Hf). now apply dedup_s_sep. Qed.

  Lemma sort_s_perm l : Permutation (sort_s R S l) l.
  Proof. apply sort_perm. Qed.

  (* what CanonicalOrderingVisitor leaves in the type_list of a union / intersection *)
  Definition set_result (c : string) (ml : list value) : list value :=
    if String.eqb c "UnionType" then sort_s R S ml else ml.

  Lemma tr_fields_set c ml : PV.Canon.Model.is_setof c = true ->
    forallb (flat_memb S) ml = true -> SepP ml ->
    tr_fields_s R S c ["type_list"] [VTuple ml] = [VTuple (set_result c ml)].
  Proof.
    intros Hc Hf Hs. unfold tr_fields_s, set_result. cbn [combine map fst snd].
    apply CP.is_setof_cases in Hc. destruct Hc as [-> | ->].
    - unfold tr_s. change (PV.Canon.Model.is_setof "UnionType" && ("type_list" =? "type_list")) with true.
      change (PV.Canon.Model.sorts "UnionType" _ "type_list") with true.
      change ("UnionType" =? "UnionType") with true.
      unfold tr_flags_s. cbn [post_tup_s sort_tup_s]. rewrite (post_init_s_id ml Hf Hs).
      rewrite post_init_s_id; auto.
      + eapply forallb_perm; [symmetry; apply sort_s_perm|auto].
      + eapply SepP_perm; [symmetry; apply sort_s_perm|auto].
    - unfold tr_s. change (PV.Canon.Model.is_setof "IntersectionType" && ("type_list" =? "type_list")) with true.
      change (PV.Canon.Model.sorts "IntersectionType" _ "type_list") with false.
      change (PV.Canon.Model.resets "IntersectionType" "type_list") with false.
      unfold tr_flags_s. cbn [post_tup_s]. now rewrite (post_init_s_id ml Hf Hs).
  Qed.

  Lemma set_result_perm c ml : Permutation (set_result c ml) ml.
  Proof. unfold set_result. destruct (String.eqb c "UnionType"); [apply sort_s_perm|reflexivity]. Qed.

  (* on the other visited classes a field is sorted, reset, or kept *)
  Lemma tr_s_plain c pc n x : PV.Canon.Model.is_setof c = false ->
    tr_s R S c pc n x = if PV.Canon.Model.sorts c pc n then sort_tup_s R S x
                        else if PV.Canon.Model.resets c n then VDict [] [] else x.
  Proof.
    intros Hc. unfold tr_s, tr_flags_s. rewrite Hc. cbn [andb].
    assert (E : String.eqb c "UnionType" = false).
    { destruct (String.eqb c "UnionType") eqn:E; auto. apply String.eqb_eq in E. subst. discriminate. }
    now rewrite E.
  Qed.

  Lemma class_tbl c : PV.Canon.Model.mem c PV.Canon.Model.visit_class_names = true -> class_tbl_ok S pytd_grammar c = true.
  Proof.
    intros Hc. pose proof Htbl as H. unfold prep_tbl_ok in H.
    apply andb_true_iff in H. destruct H as [H _]. apply andb_true_iff in H. destruct H as [H _].
    apply andb_true_iff in H. destruct H as [H _].
    rewrite forallb_forall in H. apply H. unfold PV.Canon.Model.mem in Hc. apply existsb_exists in Hc.
    destruct Hc as [x [Hx E]]. apply String.eqb_eq in E. now subst.
  Qed.
End Closure.

Section Closure2.
  Context (R : reprs) (S : schema) (hv : hvariant).
  Hypothesis Htbl : prep_tbl_ok S pytd_grammar = true.
  Notation canon_s := (canon_s R S).
  Notation sets_ok := (sets_okb R S hv).

  Lemma gen_tuple_inv l g' : gen (VTuple l) (GTup g') = true -> forallb (fun x => gen x g') l = true.
  Proof. rewrite gen_b_unfold. cbn [alts existsb]. now rewrite orb_false_r. Qed.

  Lemma gen_tr_field c pc n x sh : PV.Canon.Model.is_setof c = false -> field_tbl_ok c n sh = true ->
    gen x sh = true -> gen (tr_s R S c pc n x) sh = true.
  Proof.
    intros Hc Ht Hg. rewrite (tr_s_plain R S c pc n x Hc).
    unfold field_tbl_ok in Ht. apply andb_elim in Ht. destruct Ht as [T1 T2].
    destruct (PV.Canon.Model.sorts c pc n) eqn:Es.
    - assert (Hs : shape_sortable sh = true).
      { destruct pc; rewrite Es in T1; [rewrite orb_true_r in T1|]; exact T1. }
      destruct sh as [| | | |g0|?|g'|?|? ?| | |?|?|?]; try discriminate.
      + destruct g0 as [| | | |?|?|g'|?|? ?| | |?|?|?]; try discriminate.
        rewrite gen_b_unfold in Hg. cbn [alts existsb] in Hg. rewrite orb_false_r in Hg.
        destruct x as [|b|z|z|s|e s|e z|l1|l1|l1|ks vs|c1 fs1]; try discriminate.
        * apply gen_opt_none.
        * cbn [sort_tup_s]. apply gen_opt. apply gen_tup. simpl in Hg.
          eapply forallb_perm; [symmetry; apply sort_s_perm|exact Hg].
      + pose proof Hg as Hg'. rewrite gen_b_unfold in Hg'. cbn [alts existsb] in Hg'. rewrite orb_false_r in Hg'.
        destruct x as [|b|z|z|s|e s|e z|l1|l1|l1|ks vs|c1 fs1]; try discriminate.
        cbn [sort_tup_s]. apply gen_tup. eapply forallb_perm; [symmetry; apply sort_s_perm|exact Hg'].
    - destruct (PV.Canon.Model.resets c n); auto.
      destruct sh; try discriminate. apply gen_emptydict.
  Qed.

  Lemma gen_fields_tr c pc : PV.Canon.Model.is_setof c = false ->
    forall names vals shapes,
    List.length names = List.length shapes ->
    forallb (fun ng => field_tbl_ok c (fst ng) (snd ng)) (combine names shapes) = true ->
    gen_fields (fun x g => gen x g) vals shapes = true ->
    gen_fields (fun x g => gen x g) (map (fun p => tr_s R S c pc (fst p) (snd p)) (combine names vals)) shapes = true.
  Proof.
    intros Hc. induction names as [|n ns IH]; intros vals shapes Hl Ht Hg.
    - destruct shapes; try discriminate. destruct vals; try discriminate. reflexivity.
    - destruct shapes as [|sh shs]; try discriminate. destruct vals as [|v vs]; try discriminate.
      simpl in Ht. apply andb_elim in Ht. destruct Ht as [T1 T2].
      rewrite gen_fields_cons in Hg. apply andb_elim in Hg. destruct Hg as [G1 G2].
      cbn [combine map fst snd]. rewrite gen_fields_cons. apply andb_true_intro. split.
      + now apply gen_tr_field.
      + apply IH; auto.
  Qed.

  Lemma gen_fields_map (f : value -> value) fs : forall shapes,
    Forall (fun x => forall g, gen x g = true -> sets_ok x = true -> gen (f x) g = true) fs ->
    forallb sets_ok fs = true ->
    gen_fields (fun x g => gen x g) fs shapes = true ->
    gen_fields (fun x g => gen x g) (map f fs) shapes = true.
  Proof.
    induction fs as [|v fs IH]; intros [|sh shs] HF Hs Hg; try discriminate; auto.
    inversion HF; subst. simpl in Hs. apply andb_elim in Hs. destruct Hs as [S1 S2].
    rewrite gen_fields_cons in Hg. apply andb_elim in Hg. destruct Hg as [G1 G2].
    cbn [map]. rewrite gen_fields_cons. apply andb_true_intro. split; auto.
  Qed.

  (* what the hypothesis says at a union / intersection *)
  Lemma sets_ok_set c fs : is_ct c fs = None -> PV.Canon.Model.mem c PV.Canon.Model.visit_class_names = true ->
    PV.Canon.Model.is_setof c = true -> sets_ok (VStruct c fs) = true ->
    exists l, fs = [VTuple l] /\ forallb sets_ok l = true /\ map canon_s l <> [] /\
              forallb (flat_memb S) (map canon_s l) = true /\ SepP R S hv (map canon_s l).
  Proof.
    intros E Ev Es H. cbn [sets_okb] in H. rewrite E, Ev, Es in H.
    apply andb_elim in H. destruct H as [H1 H2].
    destruct fs as [|[|b|z|z|s|e s|e z|l|l|l|ks vs|c1 fs1] [|? ?]]; try discriminate.
    exists l. split; auto. simpl in H1. rewrite andb_true_r in H1. split; auto.
    cbv zeta in H2. destruct (map canon_s l) as [|m ml] eqn:Em; try discriminate.
    apply andb_elim in H2. destruct H2 as [H2 H3]. split; [discriminate|]. split; auto.
    now apply sepb_sound.
  Qed.

  Theorem canon_gen : forall v g, gen v g = true -> sets_ok v = true -> gen (canon_s v) g = true.
  Proof.
    induction v as [|b|z|z|s|e s|e z|l IH|l IH|l IH|ks vs IH|c fs IH] using value_ind';
      intros g Hg Hs; try exact Hg.
    - (* tuple *)
      rewrite gen_b_unfold in *. apply existsb_exists in Hg. destruct Hg as [g0 [Hin Hg]].
      apply existsb_exists. exists g0. split; auto. cbn [Prepare.canon_s]. cbn [sets_okb] in Hs.
      rewrite Forall_forall in IH. rewrite forallb_forall in Hs.
      destruct g0; try discriminate.
      + rewrite forallb_forall in *. intros x Hx. apply in_map_iff in Hx. destruct Hx as [y [<- Hy]]. auto.
      + destruct l as [|a [|b [|? ?]]]; try discriminate. apply andb_elim in Hg. destruct Hg as [Ha Hb].
        cbn [map]. apply andb_true_intro. split; apply IH; simpl; auto; apply Hs; simpl; auto.
    - (* struct *)
      cbn [Prepare.canon_s]. destruct (is_ct c fs) as [[? ?]|] eqn:E; [exact Hg|].
      destruct (PV.Canon.Model.mem c PV.Canon.Model.visit_class_names) eqn:Ev; [|exact Hg].
      rewrite gen_b_unfold in *. apply existsb_exists in Hg. destruct Hg as [g0 [Hin Hg]].
      apply existsb_exists. exists g0. split; auto.
      destruct g0; try discriminate. apply andb_elim in Hg. destruct Hg as [Hm Hf]. rewrite Hm. cbn [andb].
      change (prods pytd_grammar) with pytd_prods in *.
      destruct (assoc c pytd_prods) as [shapes|] eqn:Ea; try discriminate.
      pose proof (class_tbl S Htbl c Ev) as T. unfold class_tbl_ok in T.
      change (prods pytd_grammar) with pytd_prods in T. rewrite Ea in T.
      destruct (lookup S c) as [si|] eqn:El; try discriminate.
      assert (En : field_names S c = map fd_name (s_fields si)) by (unfold field_names; now rewrite El).
      rewrite <- En in T. apply andb_elim in T. destruct T as [T0 T]. apply andb_elim in T. destruct T as [T T3].
      apply andb_elim in T. destruct T as [T1 T2]. apply Nat.eqb_eq in T1.
      destruct (PV.Canon.Model.is_setof c) eqn:Es.
      + destruct (sets_ok_set c fs E Ev Es Hs) as [l [-> [Hl [Hne [Hfl Hsp]]]]].
        apply andb_elim in T0. destruct T0 as [_ T0].
        destruct (field_names S c) as [|nm [|? ?]]; try discriminate. apply String.eqb_eq in T0. subst nm.
        destruct shapes as [|[| | | |?|?|g'|?|? ?| | |?|?|?] [|? ?]]; try discriminate.
        cbn [map Prepare.canon_s]. rewrite (tr_fields_set R S hv c (map canon_s l) Es Hfl Hsp).
        rewrite gen_fields_cons. rewrite gen_fields_cons in Hf. apply andb_elim in Hf. destruct Hf as [Hf _].
        apply andb_true_intro. split; auto. apply gen_tup.
        eapply forallb_perm; [symmetry; apply set_result_perm|].
        inversion IH as [|? ? IHt _]; subst.
        assert (Hall : gen (canon_s (VTuple l)) (GTup g') = true).
        { apply IHt; [exact Hf | cbn [sets_okb]; exact Hl]. }
        cbn [Prepare.canon_s] in Hall. now apply gen_tuple_inv in Hall.
      + unfold tr_fields_s. apply gen_fields_tr; auto.
        cbn [sets_okb] in Hs. rewrite E, Ev, Es in Hs. apply andb_elim in Hs. destruct Hs as [Hs _].
        apply gen_fields_map; auto.
  Qed.

  Lemma hooks_sort_tup x : hooks_all S hv x = true -> hooks_all S hv (sort_tup_s R S x) = true.
  Proof.
    destruct x; auto. cbn [sort_tup_s hooks_all]. apply forallb_perm. symmetry. apply sort_s_perm.
  Qed.

  Theorem canon_hooks : forall v, hooks_all S hv v = true -> sets_ok v = true ->
    hooks_all S hv (canon_s v) = true.
  Proof.
    induction v as [|b|z|z|s|e s|e z|l IH|l IH|l IH|ks vs IH|c fs IH] using value_ind';
      intros Hh Hs; try exact Hh.
    - cbn [Prepare.canon_s hooks_all] in *. cbn [sets_okb] in Hs.
      rewrite Forall_forall in IH. rewrite forallb_forall in *.
      intros x Hx. apply in_map_iff in Hx. destruct Hx as [y [<- Hy]]. auto.
    - cbn [Prepare.canon_s]. destruct (is_ct c fs) as [[? ?]|] eqn:E; [exact Hh|].
      destruct (PV.Canon.Model.mem c PV.Canon.Model.visit_class_names) eqn:Ev; [|exact Hh].
      cbn [hooks_all] in Hh. apply andb_elim in Hh. destruct Hh as [H1 H2].
      pose proof (class_tbl S Htbl c Ev) as T. unfold class_tbl_ok in T.
      destruct (PV.Canon.Model.is_setof c) eqn:Es.
      + destruct (sets_ok_set c fs E Ev Es Hs) as [l [-> [Hl [Hne [Hfl Hsp]]]]].
        inversion IH as [|? ? IHt _]; subst.
        assert (Hall : hooks_all S hv (canon_s (VTuple l)) = true).
        { apply IHt; [|cbn [sets_okb]; exact Hl]. simpl in H1. now rewrite andb_true_r in H1. }
        cbn [Prepare.canon_s hooks_all] in Hall.
        destruct (lookup S c) as [si|] eqn:El.
        * assert (En : field_names S c = map fd_name (s_fields si)) by (unfold field_names; now rewrite El).
          rewrite <- En in T. apply andb_elim in T. destruct T as [T0 _].
          apply andb_elim in T0. destruct T0 as [T0 Tn]. apply andb_elim in T0. destruct T0 as [Th _].
          destruct (field_names S c) as [|nm [|? ?]]; try discriminate. apply String.eqb_eq in Tn. subst nm.
          cbn [map Prepare.canon_s]. rewrite (tr_fields_set R S hv c (map canon_s l) Es Hfl Hsp).
          cbn [hooks_all forallb]. rewrite El.
          assert (Hp : Permutation (set_result R S c (map canon_s l)) (map canon_s l)) by apply set_result_perm.
          rewrite (forallb_perm _ _ _ (Permutation_sym Hp) Hall). cbn [andb].
          unfold hook_ok, post. destruct (s_hook si); try discriminate.
          rewrite (flatten_types_id R S hv).
          -- destruct (set_result R S c (map canon_s l)) eqn:Er.
             ++ apply Permutation_nil in Hp. contradiction.
             ++ simpl. now rewrite veqb_refl, list_veqb_refl.
          -- eapply forallb_perm; [symmetry; exact Hp|exact Hfl].
          -- eapply SepP_perm; [symmetry; exact Hp|exact Hsp].
        * unfold field_names. rewrite El. cbn [hooks_all]. now rewrite El.
      + cbn [sets_okb] in Hs. rewrite E, Ev, Es in Hs. apply andb_elim in Hs. destruct Hs as [Hs Hn].
        cbn [hooks_all]. apply andb_true_intro. split.
        * unfold tr_fields_s. rewrite forallb_forall. intros x Hx. apply in_map_iff in Hx.
          destruct Hx as [[n y] [<- Hy]]. cbn [fst snd]. rewrite (tr_s_plain R S c _ n y Es).
          apply in_combine_r in Hy. apply in_map_iff in Hy. destruct Hy as [y0 [<- Hy0]].
          rewrite Forall_forall in IH. rewrite forallb_forall in H1, Hs.
          destruct (PV.Canon.Model.sorts c _ n); [apply hooks_sort_tup; auto|].
          destruct (PV.Canon.Model.resets c n); auto.
        * unfold hook_none_b in Hn. destruct (lookup S c) as [si|] eqn:El; auto.
          unfold hook_ok, post. destruct (s_hook si); try discriminate. apply list_veqb_refl.
  Qed.
End Closure2.

(* ------------------------------------------------------------------------------------------- *)
(* (3) the other preparation steps *)
Section Steps.
  Context (R : reprs) (S : schema) (hv : hvariant).
  Hypothesis Htbl : prep_tbl_ok S pytd_grammar = true.
  Notation canon_s := (canon_s R S).
  Notation sets_ok := (sets_okb R S hv).

  Lemma clc_cases c : mem_str c clc_names = true -> c = "Class" \/ c = "TypeDeclUnit".
  Proof.
    unfold clc_names. simpl. intros H. apply orb_true_iff in H. destruct H as [H|H].
    - left. now apply String.eqb_eq.
    - rewrite orb_false_r in H. right. now apply String.eqb_eq.
  Qed.

  Lemma clear_cache_sort_tup y : clear_cache S y = y -> clear_cache S (sort_tup_s R S y) = sort_tup_s R S y.
  Proof.
    destruct y as [|b|z|z|s|e s|e z|l|l|l|ks vs|c fs]; auto. cbn [sort_tup_s clear_cache]. intros H. injection H as Hm. f_equal.
    apply CP.map_fixed. intros x Hx. apply (CP.map_fixed_inv _ _ Hm).
    eapply Permutation_in; [apply sort_s_perm|exact Hx].
  Qed.

  (* ClearLookupCache finds nothing left to clear: VisitClass / VisitTypeDeclUnit built fresh nodes *)
  Theorem clear_cache_canon : forall v, clear_cache S (canon_s v) = canon_s v.
  Proof.
    induction v as [|b|z|z|s|e s|e z|l IH|l IH|l IH|ks vs IH|c fs IH] using value_ind'; try reflexivity.
    - cbn [Prepare.canon_s clear_cache]. f_equal. rewrite map_map. apply map_ext_in.
      intros x Hx. rewrite Forall_forall in IH. auto.
    - cbn [Prepare.canon_s]. destruct (is_ct c fs) as [[n p]|] eqn:E.
      + apply is_ct_some in E. destruct E as [-> ->]. reflexivity.
      + assert (Hv : mem_str c clc_names = true -> PV.Canon.Model.mem c PV.Canon.Model.visit_class_names = true).
        { intros Hc. apply clc_cases in Hc. destruct Hc as [-> | ->]; reflexivity. }
        destruct (PV.Canon.Model.mem c PV.Canon.Model.visit_class_names) eqn:Ev.
        * cbn [clear_cache]. destruct (mem_str c clc_names) eqn:Ec; auto. f_equal.
          assert (Hset : PV.Canon.Model.is_setof c = false) by (apply clc_cases in Ec; destruct Ec as [-> | ->]; reflexivity).
          assert (Hrs : forall pc y, tr_s R S c pc "_name2item" y = VDict [] []).
          { intros pc y. rewrite (tr_s_plain R S c pc _ y Hset).
            apply clc_cases in Ec. destruct Ec as [-> | ->]; reflexivity. }
          unfold tr_fields_s. generalize (preserve_s R S (field_names S c) (map canon_s fs)). intros pc.
          assert (Hg : Forall (fun y => clear_cache S y = y) (map canon_s fs)).
          { apply Forall_forall. intros y Hy. apply in_map_iff in Hy. destruct Hy as [x [<- Hx]].
            rewrite Forall_forall in IH. auto. }
          revert Hg. generalize (map canon_s fs). generalize (field_names S c).
          induction l as [|n ns IHn]; intros [|y g] Hg; cbn [combine map]; auto.
          inversion Hg; subst. cbn [fst snd]. f_equal; [|apply IHn; auto].
          destruct (String.eqb n "_name2item") eqn:En.
          -- apply String.eqb_eq in En. subst n. now rewrite Hrs.
          -- rewrite (tr_s_plain R S c pc n y Hset).
             destruct (PV.Canon.Model.sorts c pc n); [now apply clear_cache_sort_tup|].
             destruct (PV.Canon.Model.resets c n); auto.
        * cbn [clear_cache]. destruct (mem_str c clc_names) eqn:Ec; auto.
          specialize (Hv eq_refl). congruence.
  Qed.

  (* ---- dependencies ---- *)
  Lemma cmp_eq_eqb a b : String.compare a b = Eq -> String.eqb a b = true.
  Proof. intros H. apply String.compare_eq_iff in H. subst. apply String.eqb_refl. Qed.

  Lemma sinsert_u_lb y x t : String.ltb y x = true -> sorted_strict (y :: t) = true ->
    sorted_strict (y :: sinsert_u x t) = true.
  Proof.
    revert y. induction t as [|z t IH]; intros y Hyx Hs.
    - simpl. now rewrite Hyx.
    - cbn [sinsert_u]. change (sorted_strict (y :: z :: t)) with (String.ltb y z && sorted_strict (z :: t)) in Hs.
      apply andb_elim in Hs. destruct Hs as [Hyz Hs].
      destruct (String.eqb x z) eqn:E1.
      + change (sorted_strict (y :: z :: t)) with (String.ltb y z && sorted_strict (z :: t)). now rewrite Hyz, Hs.
      + destruct (String.leb x z) eqn:E2.
        * change (String.ltb y x && (sorted_strict (x :: z :: t)) = true).
          change (sorted_strict (x :: z :: t)) with (String.ltb x z && sorted_strict (z :: t)).
          rewrite Hyx, Hs. unfold String.ltb, String.leb in *.
          destruct (String.compare x z) eqn:C; try discriminate; auto.
          apply cmp_eq_eqb in C. rewrite C in E1. discriminate.
        * change (String.ltb y z && sorted_strict (z :: sinsert_u x t) = true). rewrite Hyz. cbn [andb].
          apply IH; auto. unfold String.ltb, String.leb in *. rewrite String.compare_antisym.
          destruct (String.compare x z); try discriminate. reflexivity.
  Qed.

  Lemma sinsert_u_sorted x l : sorted_strict l = true -> sorted_strict (sinsert_u x l) = true.
  Proof.
    destruct l as [|z t]; intros Hs; [reflexivity|]. cbn [sinsert_u].
    destruct (String.eqb x z) eqn:E1; auto.
    destruct (String.leb x z) eqn:E2.
    - change (String.ltb x z && sorted_strict (z :: t) = true). rewrite Hs.
      unfold String.ltb, String.leb in *. destruct (String.compare x z) eqn:C; try discriminate; auto.
      apply cmp_eq_eqb in C. rewrite C in E1. discriminate.
    - apply sinsert_u_lb; auto. unfold String.ltb, String.leb in *. rewrite String.compare_antisym.
      destruct (String.compare x z); try discriminate. reflexivity.
  Qed.

  Lemma dep_insert_wf m b d : deps_wf d = true -> deps_wf (dep_insert m b d) = true.
  Proof.
    unfold deps_wf. induction d as [|[m' bs] t IH]; intros H; [reflexivity|].
    cbn [dep_insert]. simpl in H. apply andb_elim in H. destruct H as [H1 H2].
    destruct (String.eqb m m').
    - simpl. now rewrite (sinsert_u_sorted b bs H1), H2.
    - destruct (String.ltb m m'); simpl; [now rewrite H1, H2|]. now rewrite H1, IH.
  Qed.

  Lemma deps_of_wf late ns : deps_wf (deps_of late ns) = true.
  Proof.
    unfold deps_of. assert (G : forall d, deps_wf d = true ->
      deps_wf (fold_left (fun d p => if Bool.eqb (fst p) late then process_name (snd p) d else d) ns d) = true).
    { induction ns as [|p ns IH]; intros d Hd; auto. simpl. apply IH.
      destruct (Bool.eqb (fst p) late); auto. unfold process_name.
      destruct (rpartition_dot (snd p)) as [[mn bn]|]; auto.
      destruct (String.eqb mn ""); auto. now apply dep_insert_wf. }
    now apply G.
  Qed.

  (* ---- hooks of the wrapper's other fields ---- *)
  Lemma hooks_deps d : hooks_all S hv (deps_value d) = true.
  Proof.
    unfold deps_value. cbn [hooks_all]. apply forallb_forall. intros x Hx. apply in_map_iff in Hx.
    destruct Hx as [[m ss] [<- _]]. cbn [hooks_all forallb fst snd]. rewrite andb_true_r.
    apply forallb_forall. intros y Hy. apply in_map_iff in Hy. destruct Hy as [s [<- _]]. reflexivity.
  Qed.

  Lemma hooks_class_types : forall v, hooks_all S hv v = true ->
    forallb (hooks_all S hv) (class_types v) = true.
  Proof.
    induction v as [|b|z|z|s|e s|e z|l IH|l IH|l IH|ks vs IH|c fs IH] using value_ind'; intros H; try reflexivity.
    - cbn [class_types]. cbn [hooks_all] in H. rewrite Forall_forall in IH. rewrite forallb_forall in *.
      intros x Hx. apply in_flat_map in Hx. destruct Hx as [y [Hy Hx]].
      specialize (IH y Hy (H y Hy)). rewrite forallb_forall in IH. auto.
    - cbn [class_types]. destruct (String.eqb c "ClassType").
      + cbn [forallb]. now rewrite H.
      + cbn [hooks_all] in H. apply andb_elim in H. destruct H as [H _].
        rewrite Forall_forall in IH. rewrite forallb_forall in *.
        intros x Hx. apply in_flat_map in Hx. destruct Hx as [y [Hy Hx]].
        specialize (IH y Hy (H y Hy)). rewrite forallb_forall in IH. auto.
  Qed.

  Lemma mem_str_map {A} (f : A -> string) x l : In x l -> mem_str (f x) (map f l) = true.
  Proof.
    induction l as [|y t IH]; intros []; simpl.
    - subst. now rewrite String.eqb_refl.
    - rewrite IH; auto. apply orb_true_r.
  Qed.

  Lemma ctn_fixpoint found :
    match found with
    | [] => found
    | _ => filter (fun c => mem_str (ct_name c) (map ct_name found)) found
    end = found.
  Proof.
    destruct found as [|x t]; auto. apply CP.filter_all. intros y Hy. now apply mem_str_map.
  Qed.

  (* ---- the whole preparation ---- *)
  Notation prepare := (prepare R S).

  Theorem prepare_in_G u src md :
    gen (clear_ptrs u) (GNt NUnit) = true -> sets_ok (clear_ptrs u) = true ->
    in_G (prepare u src md) = true.
  Proof.
    intros Hg Hs. unfold in_G, Prepare.prepare, prepared_unit. rewrite clear_cache_canon.
    pose proof (canon_gen R S hv Htbl _ _ Hg Hs) as Hu.
    struct_ NSast "SerializableAst".
    - exact Hu.
    - apply deps_gen. apply deps_of_wf.
    - apply deps_gen. apply deps_of_wf.
    - apply gen_ostr.
    - apply gen_list_map. intros. apply gen_str.
    - apply gen_list. apply forallb_forall. intros c Hc.
      pose proof (class_types_are_gen _ _ Hu) as HF. rewrite Forall_forall in HF. auto.
  Qed.

  Theorem prepare_hooks u src md :
    hooks_all S hv (clear_ptrs u) = true -> sets_ok (clear_ptrs u) = true ->
    hooks_all S hv (prepare u src md) = true.
  Proof.
    intros Hh Hs. unfold Prepare.prepare, prepared_unit. rewrite clear_cache_canon.
    pose proof (canon_hooks R S hv Htbl _ Hh Hs) as Hu.
    set (a := canon_s (clear_ptrs u)) in *.
    cbn [hooks_all forallb]. rewrite Hu, !hooks_deps.
    assert (E1 : hooks_all S hv (ostr src) = true) by (destruct src; reflexivity).
    assert (E2 : forallb (hooks_all S hv) (map VStr md) = true).
    { apply forallb_forall. intros x Hx. apply in_map_iff in Hx. destruct Hx as [s [<- _]]. reflexivity. }
    rewrite E1, E2, (hooks_class_types a Hu). cbn [andb].
    pose proof Htbl as T. unfold prep_tbl_ok in T. apply andb_elim in T. destruct T as [_ T].
    destruct (lookup S "SerializableAst") as [si|]; try discriminate.
    unfold hook_ok, post.
    destruct (s_hook si); try discriminate.
    destruct (field_index "ast" (s_fields si)) as [[|?]|]; try discriminate.
    destruct (field_index "class_type_nodes" (s_fields si)) as [[|[|[|[|[|[|?]]]]]]|]; try discriminate.
    cbn [nth set_nth]. rewrite ctn_fixpoint. apply list_veqb_refl.
  Qed.

  (* ---- ProcessAst restores class pointers and nothing else ---- *)
  Lemma map_opt_some_map {A B} (f : A -> option B) (h : A -> A) (k : B -> A) l l' :
    Forall (fun x => forall y, f x = Some y -> k y = h x) l ->
    map_opt f l = Some l' -> map k l' = map h l.
  Proof.
    revert l'. induction l as [|x t IH]; intros l' HF H.
    - inversion H. reflexivity.
    - rewrite map_opt_cons in H. inversion HF; subst.
      destruct (f x) as [y|] eqn:E; try discriminate. destruct (map_opt f t) as [r|]; try discriminate.
      inversion H; subst. simpl. f_equal; auto.
  Qed.

  Theorem relink_only_pointers resolve : forall v v',
    relink resolve v = Some v' -> clear_ptrs v' = clear_ptrs v.
  Proof.
    induction v as [|b|z|z|s|e s|e z|l IH|l IH|l IH|ks vs IH|c fs IH] using value_ind'; intros v' H;
      try (inversion H; reflexivity).
    - cbn [relink] in H. destruct (map_opt (relink resolve) l) as [l'|] eqn:E; try discriminate.
      inversion H; subst. cbn [clear_ptrs]. f_equal. eapply map_opt_some_map; eauto.
    - cbn [relink] in H. unfold relink_names in H. destruct (mem_str c ccp_names) eqn:Ec; [|now inversion H].
      destruct (String.eqb c "ClassType") eqn:Ect.
      + apply String.eqb_eq in Ect. subst c.
        destruct fs as [|[|b|z|z|s|e s|e z|l1|l1|l1|ks vs|c1 fs1] [|q [|? ?]]]; try (inversion H; reflexivity).
        destruct q; try (inversion H; reflexivity).
        * destruct (resolve s) as [p|]; try discriminate. inversion H; subst. reflexivity.
        * destruct q; inversion H; reflexivity.
      + destruct (map_opt (relink resolve) fs) as [fs'|] eqn:E; try discriminate.
        inversion H; subst. cbn [clear_ptrs]. rewrite Ec, !(is_ct_other _ _ Ect). f_equal.
        eapply map_opt_some_map; eauto.
  Qed.
End Steps.
