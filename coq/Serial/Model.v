(* C12 model: msgspec (msgpack) serialisation of pytd nodes as pytype uses it, and node ==/hash.

   Anchors: pytype/pytd/parse/node.py (class Node: msgspec.Struct, frozen, tag=True,
   tag_field="_struct_type", kw_only, omit_defaults, cache_hash), pytype/pytd/pytd.py (node classes,
   _SetOfTypes.__post_init__/__eq__/__hash__, ClassType.__eq__/__hash__, Class.__hash__,
   TypeDeclUnit.__hash__), pytype/pytd/serialize_ast.py (SerializableAst and its __post_init__),
   pytype/imports/pickle_utils.py (Encoder(order="deterministic"), Decoder(type=SerializableAst)).

   The *schema* (every struct class: fields, resolved annotations, defaults, tag, hooks, eq/hash mode)
   is not written here: it is regenerated from the live classes into Generated/C12_Schema.v on every run.
   This file contains definitions only (no proofs), so that it still evaluates when a proof breaks. *)
From Coq Require Import List String Ascii ZArith Bool Arith.
Import ListNotations.
Local Open Scope string_scope.
Local Open Scope list_scope.

(* ------------------------------------------------------------------------------------------- *)
(* Field-type expressions as msgspec sees them (after resolving annotations).                     *)
Inductive fty :=
| FStr | FInt | FBool | FNone | FAny
| FOpt (f : fty)                (* X | None *)
| FTupleOf (f : fty)            (* tuple[X, ...] *)
| FSetOf (f : fty)              (* set[X] / frozenset[X] *)
| FListOf (f : fty)             (* list[X] *)
| FPair (f g : fty)             (* tuple[X, Y] *)
| FDictOf (f g : fty)           (* dict[X, Y] *)
| FUnion (cs : list string)     (* Union of >= 2 tagged struct classes (listed by class name) *)
| FStruct (c : string)          (* exactly one struct class *)
| FEnum (e : string)
| FAlt (alts : list fty).       (* any other Union: at most one alternative per msgpack kind *)

(* Python-level values *)
Inductive value :=
| VNone | VBool (b : bool) | VInt (z : Z)
| VFloat (z : Z)                       (* a non-integral float; the payload only identifies it *)
| VStr (s : string)                    (* UTF-8 bytes; byte order = code point order *)
| VEnumS (e : string) (s : string)     (* member of a str-valued Enum, by its value *)
| VEnumI (e : string) (z : Z)          (* member of an int-valued Flag, by its value *)
| VTuple (l : list value) | VList (l : list value)
| VSet (l : list value)                (* l = the iteration order *)
| VDict (ks : list string) (vs : list value)
| VStruct (c : string) (fs : list value).   (* fields positionally, in __struct_fields__ order *)

(* msgpack-level values *)
Inductive mval :=
| MNil | MBool (b : bool) | MInt (z : Z) | MFloat (z : Z) | MStr (s : string)
| MArr (l : list mval) | MMap (kvs : list (string * mval)).

Inductive kind := KNil | KBool | KInt | KFloat | KStr | KArr | KMap.

Inductive enum_info :=
| EStr (vals : list string)     (* enum.Enum with str values, encoded by value *)
| EFlag (mask : Z).             (* enum.Flag, boundary STRICT, _flag_mask_ = _all_bits_ = mask *)

Inductive hook :=
| HNone
| HFlatten          (* _SetOfTypes.__post_init__: type_list = _FlattenTypes(type_list) *)
| HClassTypes.      (* SerializableAst.__post_init__: class_type_nodes recomputed from ast *)

Inductive eqmode :=
| EqMask (m : list bool)   (* same class and the masked fields ==  (msgspec default: all fields;
                              ClassType: name only) *)
| EqSet                    (* _SetOfTypes.__eq__: frozenset(type_list) == frozenset(other.type_list) *)
| EqIdent.                 (* eq=False, no __eq__: identity *)

Inductive hashmode :=
| HashMask (m : list bool) (* class + masked fields; an unmasked field hashes as None
                              (Class.__hash__: Replace(_name2item=None)); ClassType: (class name, name) *)
| HashSeq                  (* _SetOfTypes.__hash__ = hash(self.type_list) *)
| HashIdent                (* id(self) *)
| HashUnhashable.          (* __hash__ is None (eq=True on a non-frozen struct) *)

Record field := mkField { fd_name : string; fd_ty : fty; fd_default : option value }.

Record sinfo := mkSinfo {
  s_tag : option string;       (* tag value (class name) or None for an untagged struct *)
  s_omit : bool;               (* omit_defaults *)
  s_fields : list field;
  s_hook : hook;
  s_eq : eqmode;
  s_hash : hashmode;
  s_setlike : bool             (* isinstance(x, _SetOfTypes) *)
}.

Record schema := mkSchema {
  tagfield : string;
  structs : list (string * sinfo);
  enums : list (string * enum_info);
  deterministic : bool         (* Encoder(order="deterministic") *)
}.

(* which __hash__ the _SetOfTypes classes have: the unchanged code, or fixes/C12-union-hash.patch *)
Inductive hvariant := HvOrig | HvFixed.

(* ------------------------------------------------------------------------------------------- *)
(* generic helpers *)
Fixpoint assoc {A} (k : string) (l : list (string * A)) : option A :=
  match l with
  | [] => None
  | (k', a) :: t => if String.eqb k k' then Some a else assoc k t
  end.

Definition assoc_last {A} (k : string) (l : list (string * A)) : option A := assoc k (rev l).

Definition lookup (S : schema) (c : string) : option sinfo := assoc c (structs S).

Fixpoint find_field (k : string) (flds : list field) : option field :=
  match flds with
  | [] => None
  | fd :: t => if String.eqb k (fd_name fd) then Some fd else find_field k t
  end.

Fixpoint mem_str (s : string) (l : list string) : bool :=
  match l with [] => false | x :: t => String.eqb s x || mem_str s t end.

Definition map_opt {A B} (f : A -> option B) : list A -> option (list B) :=
  fix go (l : list A) : option (list B) :=
  match l with
  | [] => Some []
  | x :: t => match f x, go t with Some y, Some r => Some (y :: r) | _, _ => None end
  end.

Definition in_range (z : Z) : bool := (Z.leb (- 9223372036854775808) z && Z.ltb z 18446744073709551616)%Z.

Definition kind_eqb (a b : kind) : bool :=
  match a, b with
  | KNil, KNil | KBool, KBool | KInt, KInt | KFloat, KFloat | KStr, KStr | KArr, KArr | KMap, KMap => true
  | _, _ => false
  end.

(* ---- strings of a set are sorted by Python's str order (code points = UTF-8 byte order) ---- *)
Fixpoint sinsert (x : string) (l : list string) : list string :=
  match l with
  | [] => [x]
  | y :: t => if String.leb x y then x :: l else y :: sinsert x t
  end.
Definition ssort (l : list string) : list string := fold_right sinsert [] l.

(* insertion that drops duplicates: building a Python set *)
Fixpoint sinsert_u (x : string) (l : list string) : list string :=
  match l with
  | [] => [x]
  | y :: t => if String.eqb x y then l else if String.leb x y then x :: l else y :: sinsert_u x t
  end.
Definition sset (l : list string) : list string := fold_right sinsert_u [] l.

Fixpoint sorted_strict (l : list string) : bool :=
  match l with
  | [] => true
  | x :: t => match t with [] => true | y :: _ => String.ltb x y && sorted_strict t end
  end.

Fixpoint strs_of (l : list value) : option (list string) :=
  match l with
  | [] => Some []
  | VStr s :: t => match strs_of t with Some r => Some (s :: r) | None => None end
  | _ :: _ => None
  end.

(* ------------------------------------------------------------------------------------------- *)
(* boolean structural equality of values (used for "is the field equal to its default") *)
Definition list_eqb {A} (e : A -> A -> bool) : list A -> list A -> bool :=
  fix go (l l' : list A) : bool :=
  match l, l' with
  | [], [] => true
  | x :: t, y :: t' => e x y && go t t'
  | _, _ => false
  end.

Fixpoint veqb (a b : value) {struct a} : bool :=
  match a, b with
  | VNone, VNone => true
  | VBool x, VBool y => Bool.eqb x y
  | VInt x, VInt y => Z.eqb x y
  | VFloat x, VFloat y => Z.eqb x y
  | VStr x, VStr y => String.eqb x y
  | VEnumS e x, VEnumS e' y => String.eqb e e' && String.eqb x y
  | VEnumI e x, VEnumI e' y => String.eqb e e' && Z.eqb x y
  | VTuple l, VTuple l' => list_eqb (fun x y => veqb x y) l l'
  | VList l, VList l' => list_eqb (fun x y => veqb x y) l l'
  | VSet l, VSet l' => list_eqb (fun x y => veqb x y) l l'
  | VDict ks vs, VDict ks' vs' => list_eqb String.eqb ks ks' && list_eqb (fun x y => veqb x y) vs vs'
  | VStruct c fs, VStruct c' fs' => String.eqb c c' && list_eqb (fun x y => veqb x y) fs fs'
  | _, _ => false
  end.

(* ------------------------------------------------------------------------------------------- *)
(* msgspec's dispatch of a (possibly Union) annotation on the msgpack kind of the incoming value *)
Definition enum_kind (S : schema) (e : string) : option kind :=
  match assoc e (enums S) with
  | Some (EStr _) => Some KStr
  | Some (EFlag _) => Some KInt
  | None => None
  end.

Definition fkind (S : schema) (f : fty) : option kind :=
  match f with
  | FStr => Some KStr | FInt => Some KInt | FBool => Some KBool | FNone => Some KNil
  | FTupleOf _ | FSetOf _ | FListOf _ | FPair _ _ => Some KArr
  | FDictOf _ _ | FUnion _ | FStruct _ => Some KMap
  | FEnum e => enum_kind S e
  | FAny | FOpt _ | FAlt _ => None
  end.

Definition okind_is (o : option kind) (k : kind) : bool :=
  match o with Some k' => kind_eqb k' k | None => false end.

Fixpoint resolve (S : schema) (f : fty) (k : kind) : option fty :=
  match f with
  | FAny => Some FAny
  | FOpt g => match k with KNil => Some FNone | _ => resolve S g k end
  | FAlt alts =>
      (fix pick (l : list fty) : option fty :=
         match l with
         | [] => None
         | a :: t => match resolve S a k with Some r => Some r | None => pick t end
         end) alts
  | _ => if okind_is (fkind S f) k then Some f else None
  end.

Definition vkind (v : value) : kind :=
  match v with
  | VNone => KNil | VBool _ => KBool | VInt _ => KInt | VFloat _ => KFloat | VStr _ => KStr
  | VEnumS _ _ => KStr | VEnumI _ _ => KInt
  | VTuple _ | VList _ | VSet _ => KArr
  | VDict _ _ | VStruct _ _ => KMap
  end.

Definition mkind (m : mval) : kind :=
  match m with
  | MNil => KNil | MBool _ => KBool | MInt _ => KInt | MFloat _ => KFloat | MStr _ => KStr
  | MArr _ => KArr | MMap _ => KMap
  end.

(* ------------------------------------------------------------------------------------------- *)
(* node == and hash.  [hk] is the data a node's hash is computed from, written as a token string
   (a prefix code), so that "hash(a) == hash(b)" is modelled by equality of token strings.        *)
Definition tok_str (s : string) : list Z :=
  Z.of_nat (String.length s) :: map (fun c => Z.of_N (N_of_ascii c)) (list_ascii_of_string s).

Fixpoint lex_leb (a b : list Z) : bool :=
  match a, b with
  | [], _ => true
  | _ :: _, [] => false
  | x :: a', y :: b' => if Z.ltb x y then true else if Z.eqb x y then lex_leb a' b' else false
  end.

Fixpoint kinsert (x : list Z) (l : list (list Z)) : list (list Z) :=
  match l with
  | [] => [x]
  | y :: t => if lex_leb x y then x :: l else y :: kinsert x t
  end.
Definition ksort (l : list (list Z)) : list (list Z) := fold_right kinsert [] l.

Definition toks_eqb (a b : list Z) : bool := list_eqb Z.eqb a b.

Fixpoint mask_concat (m : list bool) (ks : list (list Z)) : list Z :=
  match ks with
  | [] => []
  | k :: t => match m with
              | true :: m' => k ++ mask_concat m' t
              | false :: m' => [1%Z] ++ mask_concat m' t        (* hashed as None *)
              | [] => k ++ mask_concat [] t
              end
  end.

Definition set_members (fs : list value) : option (list value) :=
  match fs with [VTuple l] => Some l | _ => None end.

(* CPython's hash of an int (64-bit build): sign * (|z| mod (2^61 - 1)), with -1 replaced by -2.  So e.g.
   hash(2^64 - 1) = hash(7) and hash(-1) = hash(-2): unequal ints whose hashes collide by construction. *)
Definition py_modulus : Z := 2305843009213693951%Z.
Definition pyhash_int (z : Z) : Z :=
  let h := (Z.sgn z * (Z.abs z mod py_modulus))%Z in
  if Z.eqb h (-1) then (-2)%Z else h.

Fixpoint hk (S : schema) (hv : hvariant) (v : value) {struct v} : list Z :=
  match v with
  | VNone => [1%Z]
  | VBool b => [0%Z; pyhash_int (if b then 1 else 0)]      (* hash(True) == hash(1) *)
  | VInt z => [0%Z; pyhash_int z]
  | VFloat z => [8%Z; z]
  | VStr s => match s with
              | EmptyString => [0%Z; 0%Z]                  (* hash('') == 0 == hash(0) == hash(False) *)
              | _ => 2%Z :: tok_str s
              end
  | VEnumS e s => 3%Z :: tok_str e ++ tok_str s
  | VEnumI e z => 4%Z :: tok_str e ++ [z]
  | VTuple l => 5%Z :: Z.of_nat (List.length l) :: List.concat (map (hk S hv) l)
  | VList _ | VSet _ | VDict _ _ => [99%Z]        (* TypeError: unhashable *)
  | VStruct c fs =>
      match lookup S c with
      | None => [98%Z]
      | Some si =>
          match s_hash si with
          | HashMask m => 6%Z :: tok_str c ++ Z.of_nat (List.length fs) :: mask_concat m (map (hk S hv) fs)
          | HashSeq =>
              match fs with
              | [VTuple l] =>
                  match hv with
                  | HvOrig => 5%Z :: Z.of_nat (List.length l) :: List.concat (map (hk S hv) l)  (* hash(tuple) *)
                  | HvFixed => 7%Z :: Z.of_nat (List.length l) :: List.concat (ksort (map (hk S hv) l))
                                                              (* hash(frozenset(type_list)) *)
                  end
              | _ => [97%Z]
              end
          | HashIdent => [9%Z]
          | HashUnhashable => [99%Z]
          end
      end
  end.

Definition mask_eqb (e : value -> value -> bool) : list value -> list value -> list bool -> bool :=
  fix go (l l' : list value) (m : list bool) : bool :=
  match l, l' with
  | [], [] => true
  | x :: t, y :: t' =>
      match m with
      | false :: m' => go t t' m'
      | true :: m' => e x y && go t t' m'
      | [] => e x y && go t t' []
      end
  | _, _ => false
  end.

(* a == b for two distinct objects.  Python evaluates the member comparisons of a frozenset lookup as
   stored == probe; the model evaluates probe == stored (== of two nodes of one class is symmetric;
   the correspondence compares a == b and b == a). *)
Fixpoint node_eqb (S : schema) (hv : hvariant) (a b : value) {struct a} : bool :=
  match a, b with
  | VNone, VNone => true
  | VBool x, VBool y => Bool.eqb x y
  | VBool x, VInt z => Z.eqb z (if x then 1 else 0)
  | VInt z, VBool x => Z.eqb z (if x then 1 else 0)
  | VInt x, VInt y => Z.eqb x y
  | VFloat x, VFloat y => Z.eqb x y
  | VStr x, VStr y => String.eqb x y
  | VEnumS e x, VEnumS e' y => String.eqb e e' && String.eqb x y
  | VEnumI e x, VEnumI e' y => String.eqb e e' && Z.eqb x y
  | VTuple l, VTuple l' => list_eqb (fun x y => node_eqb S hv x y) l l'
  | VList l, VList l' => list_eqb (fun x y => node_eqb S hv x y) l l'
  | VSet l, VSet l' => list_eqb (fun x y => node_eqb S hv x y) l l'
  | VDict ks vs, VDict ks' vs' => list_eqb String.eqb ks ks' && list_eqb (fun x y => node_eqb S hv x y) vs vs'
  | VStruct c fs, VStruct c' fs' =>
      String.eqb c c' &&
      match lookup S c with
      | None => false
      | Some si =>
          match s_eq si with
          | EqMask m => mask_eqb (fun x y => node_eqb S hv x y) fs fs' m
          | EqIdent => false
          | EqSet =>
              match fs, fs' with
              | [VTuple la], [VTuple lb] =>
                  (* set_richcompare: sizes, then every entry of the left set is looked up (hash, then ==)
                     in the right one *)
                  Nat.eqb (List.length la) (List.length lb) &&
                  forallb (fun x => existsb (fun y => toks_eqb (hk S hv x) (hk S hv y) && node_eqb S hv x y) lb) la
              | _, _ => false
              end
          end
      end
  | _, _ => false
  end.

(* dict.fromkeys / frozenset insertion: y (already stored) and x are the same key *)
Definition same (S : schema) (hv : hvariant) (y x : value) : bool :=
  toks_eqb (hk S hv y) (hk S hv x) && node_eqb S hv y x.

Definition fdedup (S : schema) (hv : hvariant) (l : list value) : list value :=
  fold_left (fun acc x => if existsb (fun y => same S hv y x) acc then acc else acc ++ [x]) l [].

Fixpoint nodup_toks (l : list (list Z)) : bool :=
  match l with
  | [] => true
  | x :: t => negb (existsb (toks_eqb x) t) && nodup_toks t
  end.

(* the members of every union/intersection inside v have pairwise different hashes *)
Fixpoint members_hash_distinct (S : schema) (hv : hvariant) (v : value) {struct v} : bool :=
  match v with
  | VTuple l | VList l | VSet l => forallb (members_hash_distinct S hv) l
  | VDict _ vs => forallb (members_hash_distinct S hv) vs
  | VStruct c fs =>
      forallb (members_hash_distinct S hv) fs &&
      match lookup S c with
      | Some si => match s_hash si, fs with
                   | HashSeq, [VTuple l] => nodup_toks (map (hk S hv) l)
                   | _, _ => true
                   end
      | None => true
      end
  | _ => true
  end.

(* the members of every union are listed in increasing order of their hash data *)
Fixpoint ksorted (l : list (list Z)) : bool :=
  match l with
  | [] => true
  | x :: t => match t with [] => true | y :: _ => lex_leb x y && ksorted t end
  end.

Fixpoint members_hash_sorted (S : schema) (hv : hvariant) (v : value) {struct v} : bool :=
  match v with
  | VTuple l | VList l | VSet l => forallb (members_hash_sorted S hv) l
  | VDict _ vs => forallb (members_hash_sorted S hv) vs
  | VStruct c fs =>
      forallb (members_hash_sorted S hv) fs &&
      match lookup S c with
      | Some si => match s_hash si, fs with
                   | HashSeq, [VTuple l] => ksorted (map (hk S hv) l)
                   | _, _ => true
                   end
      | None => true
      end
  | _ => true
  end.

(* ------------------------------------------------------------------------------------------- *)
(* __post_init__ hooks *)
Definition is_setlike (S : schema) (c : string) : bool :=
  match lookup S c with Some si => s_setlike si | None => false end.

(* _FlattenTypes: splice the members of nested unions/intersections, drop duplicates keeping order *)
Definition flatten_types (S : schema) (hv : hvariant) (l : list value) : list value :=
  fdedup S hv (flat_map (fun t => match t with
                                   | VStruct c [VTuple tl] => if is_setlike S c then tl else [t]
                                   | _ => [t]
                                   end) l).

(* FindClassTypesVisitor: pre-order over struct fields and tuples; ClassType.IterChildren yields only
   the name; lists, sets and dicts are not descended *)
Fixpoint class_types (v : value) {struct v} : list value :=
  match v with
  | VTuple l => flat_map class_types l
  | VStruct c fs => if String.eqb c "ClassType" then [v] else flat_map class_types fs
  | _ => []
  end.

Definition ct_name (v : value) : string :=
  match v with VStruct _ (VStr n :: _) => n | _ => "" end.

Fixpoint field_index (k : string) (flds : list field) : option nat :=
  match flds with
  | [] => None
  | fd :: t => if String.eqb k (fd_name fd) then Some O
               else match field_index k t with Some i => Some (S i) | None => None end
  end.

Fixpoint set_nth {A} (i : nat) (x : A) (l : list A) : list A :=
  match l, i with
  | [], _ => []
  | _ :: t, O => x :: t
  | h :: t, S i' => h :: set_nth i' x t
  end.

Definition post (S : schema) (hv : hvariant) (si : sinfo) (fs : list value) : option (list value) :=
  match s_hook si with
  | HNone => Some fs
  | HFlatten =>
      match fs with
      | [VTuple tl] =>
          match flatten_types S hv tl with
          | [] => None                      (* assert type_list *)
          | tl' => Some [VTuple tl']
          end
      | _ => None
      end
  | HClassTypes =>
      match field_index "ast" (s_fields si), field_index "class_type_nodes" (s_fields si) with
      | Some ia, Some ic =>
          let found := class_types (nth ia fs VNone) in
          let given := match nth ic fs VNone with VList l => l | _ => [] end in
          let names := map ct_name given in
          Some (set_nth ic (VList (match given with
                                   | [] => found
                                   | _ => filter (fun c => mem_str (ct_name c) names) found
                                   end)) fs)
      | _, _ => None
      end
  end.

(* ------------------------------------------------------------------------------------------- *)
(* encode: driven by the run-time value, never fails on node trees (ints outside 64 bits excepted,
   see [conforms]) *)
(* order="deterministic": the items of a set are sorted (list.sort of the items, i.e. str order; the model
   sorts the encoded strings, which is the same order) *)
Fixpoint minsert (x : mval) (l : list mval) : list mval :=
  match l with
  | [] => [x]
  | y :: t => match x, y with
              | MStr a, MStr b => if String.leb a b then x :: l else y :: minsert x t
              | _, _ => x :: l
              end
  end.
Definition msort (l : list mval) : list mval := fold_right minsert [] l.

Fixpoint kvinsert (k : string) (m : mval) (l : list (string * mval)) : list (string * mval) :=
  match l with
  | [] => [(k, m)]
  | (k', m') :: t => if String.leb k k' then (k, m) :: l else (k', m') :: kvinsert k m t
  end.
Definition kvsort (l : list (string * mval)) : list (string * mval) :=
  fold_right (fun km acc => kvinsert (fst km) (snd km) acc) [] l.

Definition is_default (fd : field) (v : value) : bool :=
  match fd_default fd with Some d => veqb v d | None => false end.

Definition enc_fields (enc : value -> mval) (omit : bool) : list value -> list field -> list (string * mval) :=
  fix go (fs : list value) (flds : list field) : list (string * mval) :=
  match fs, flds with
  | v :: fs', fd :: flds' =>
      if omit && is_default fd v then go fs' flds'
      else (fd_name fd, enc v) :: go fs' flds'
  | _, _ => []
  end.

Definition tag_entry (S : schema) (si : sinfo) : list (string * mval) :=
  match s_tag si with Some t => [(tagfield S, MStr t)] | None => [] end.

Fixpoint encode (S : schema) (v : value) {struct v} : mval :=
  match v with
  | VNone => MNil
  | VBool b => MBool b
  | VInt z => MInt z
  | VFloat z => MFloat z
  | VStr s => MStr s
  | VEnumS _ s => MStr s
  | VEnumI _ z => MInt z
  | VTuple l => MArr (map (encode S) l)
  | VList l => MArr (map (encode S) l)
  | VSet l => let ms := map (encode S) l in MArr (if deterministic S then msort ms else ms)
  | VDict ks vs =>
      let kvs := combine ks (map (encode S) vs) in
      MMap (if deterministic S then kvsort kvs else kvs)
  | VStruct c fs =>
      match lookup S c with
      | None => MNil
      | Some si => MMap (tag_entry S si ++ enc_fields (fun x => encode S x) (s_omit si) fs (s_fields si))
      end
  end.

(* A Python set has no order; the model writes its iteration order.  Two iteration orders of one set have the
   same canonical form (every set of str sorted). *)
Fixpoint vcanon (v : value) {struct v} : value :=
  match v with
  | VTuple l => VTuple (map vcanon l)
  | VList l => VList (map vcanon l)
  | VSet l => match strs_of l with Some ss => VSet (map VStr (ssort ss)) | None => VSet l end
  | VDict ks vs => VDict ks (map vcanon vs)
  | VStruct c fs => VStruct c (map vcanon fs)
  | _ => v
  end.

Fixpoint sets_of_strs (v : value) {struct v} : bool :=
  match v with
  | VSet l => match strs_of l with Some _ => true | None => false end
  | VTuple l | VList l => forallb sets_of_strs l
  | VDict _ vs => forallb sets_of_strs vs
  | VStruct _ fs => forallb sets_of_strs fs
  | _ => true
  end.

Fixpoint set_free (v : value) {struct v} : bool :=
  match v with
  | VSet _ => false
  | VTuple l | VList l => forallb set_free l
  | VDict _ vs => forallb set_free vs
  | VStruct _ fs => forallb set_free fs
  | _ => true
  end.

Definition defaults_set_free (S : schema) : bool :=
  forallb (fun cs => forallb (fun fd => match fd_default fd with Some d => set_free d | None => true end)
                             (s_fields (snd cs))) (structs S).

(* ------------------------------------------------------------------------------------------- *)
(* decode: driven by the declared type *)
Fixpoint decode_any (m : mval) {struct m} : value :=
  match m with
  | MNil => VNone
  | MBool b => VBool b
  | MInt z => VInt z
  | MFloat z => VFloat z
  | MStr s => VStr s
  | MArr l => VList (map decode_any l)
  | MMap kvs => VDict (map fst kvs) (map (fun kv => decode_any (snd kv)) kvs)
  end.

Definition decode_flag (mask z : Z) : option Z :=
  if (Z.leb 0 z && Z.leb z mask)%Z then Some z
  else if (Z.leb (- (mask + 1)) z && Z.ltb z 0)%Z then Some (mask + 1 + z)%Z   (* Flag._missing_ *)
  else None.

Definition dec_entries (dec : fty -> mval -> option value) (flds : list field)
  : list (string * mval) -> option (list (string * value)) :=
  fix go (kvs : list (string * mval)) : option (list (string * value)) :=
  match kvs with
  | [] => Some []
  | (k, x) :: t =>
      match find_field k flds with
      | None => go t                                    (* unknown key (incl. the tag): skipped *)
      | Some fd => match dec (fd_ty fd) x, go t with
                   | Some v, Some r => Some ((k, v) :: r)
                   | _, _ => None
                   end
      end
  end.

Definition assemble (flds : list field) (entries : list (string * value)) : option (list value) :=
  map_opt (fun fd => match assoc_last (fd_name fd) entries with
                     | Some v => Some v
                     | None => fd_default fd            (* required field missing: None *)
                     end) flds.

(* the tag of a single struct may be absent; if present it must be the class's own *)
Definition tag_ok (S : schema) (si : sinfo) (kvs : list (string * mval)) : bool :=
  match s_tag si with
  | None => true
  | Some t => match assoc (tagfield S) kvs with
              | None => true
              | Some (MStr t') => String.eqb t t'
              | Some _ => false
              end
  end.

Definition tag_of (S : schema) (c : string) : option string :=
  match lookup S c with Some si => s_tag si | None => None end.

(* tagged union: the tag is required and selects among the *listed* classes only *)
Definition pick_class (S : schema) (cs : list string) (kvs : list (string * mval)) : option string :=
  match assoc (tagfield S) kvs with
  | Some (MStr t) => find (fun c => match tag_of S c with Some t' => String.eqb t t' | None => false end) cs
  | _ => None
  end.

Definition dec_struct (S : schema) (hv : hvariant) (dec : fty -> mval -> option value)
           (c : string) (kvs : list (string * mval)) : option value :=
  match lookup S c with
  | None => None
  | Some si =>
      if tag_ok S si kvs then
        match dec_entries dec (s_fields si) kvs with
        | None => None
        | Some entries =>
            match assemble (s_fields si) entries with
            | None => None
            | Some fs => match post S hv si fs with
                         | Some fs' => Some (VStruct c fs')
                         | None => None
                         end
            end
        end
      else None
  end.

Fixpoint decode (S : schema) (hv : hvariant) (f : fty) (m : mval) {struct m} : option value :=
  match resolve S f (mkind m) with
  | None => None
  | Some f0 =>
      match f0, m with
      | FAny, _ => Some (decode_any m)
      | FNone, MNil => Some VNone
      | FBool, MBool b => Some (VBool b)
      | FInt, MInt z => Some (VInt z)
      | FStr, MStr s => Some (VStr s)
      | FEnum e, MStr s =>
          match assoc e (enums S) with
          | Some (EStr vals) => if mem_str s vals then Some (VEnumS e s) else None
          | _ => None
          end
      | FEnum e, MInt z =>
          match assoc e (enums S) with
          | Some (EFlag mask) => match decode_flag mask z with Some z' => Some (VEnumI e z') | None => None end
          | _ => None
          end
      | FTupleOf g, MArr l =>
          match map_opt (fun x => decode S hv g x) l with Some vs => Some (VTuple vs) | None => None end
      | FListOf g, MArr l =>
          match map_opt (fun x => decode S hv g x) l with Some vs => Some (VList vs) | None => None end
      | FSetOf g, MArr l =>
          match map_opt (fun x => decode S hv g x) l with
          | Some vs => match strs_of vs with
                       | Some ss => Some (VSet (map VStr (sset ss)))
                       | None => None           (* sets of anything but str: outside the model *)
                       end
          | None => None
          end
      | FPair g h, MArr [a; b] =>
          match decode S hv g a, decode S hv h b with
          | Some x, Some y => Some (VTuple [x; y])
          | _, _ => None
          end
      | FDictOf g h, MMap kvs =>
          match g with
          | FStr =>
              match map_opt (fun kv => decode S hv h (snd kv)) kvs with
              | Some vs => Some (VDict (map fst kvs) vs)
              | None => None
              end
          | _ => None
          end
      | FStruct c, MMap kvs => dec_struct S hv (fun g x => decode S hv g x) c kvs
      | FUnion cs, MMap kvs =>
          match pick_class S cs kvs with
          | Some c => dec_struct S hv (fun g x => decode S hv g x) c kvs
          | None => None
          end
      | _, _ => None
      end
  end.

(* ------------------------------------------------------------------------------------------- *)
(* conforms S hv v f: v is a value that the declared type f restores exactly *)
Fixpoint conforms_any (v : value) {struct v} : bool :=
  match v with
  | VNone | VBool _ | VStr _ | VFloat _ => true
  | VInt z => in_range z
  | VList l => forallb conforms_any l
  | VDict [] [] => true        (* a non-empty dict[str, Any] of pytd holds nodes, which Any cannot restore *)
  | _ => false
  end.

Definition conf_fields (cf : value -> fty -> bool) : list value -> list field -> bool :=
  fix go (fs : list value) (flds : list field) : bool :=
  match fs, flds with
  | [], [] => true
  | v :: fs', fd :: flds' => cf v (fd_ty fd) && go fs' flds'
  | _, _ => false
  end.

Definition hook_ok (S : schema) (hv : hvariant) (si : sinfo) (fs : list value) : bool :=
  match post S hv si fs with
  | Some fs' => list_eqb veqb fs' fs
  | None => false
  end.

Definition class_ok (S : schema) (f0 : fty) (c : string) : bool :=
  match f0 with
  | FStruct c' => String.eqb c c'
  | FUnion cs =>
      (* the tag of c selects c itself among the listed classes *)
      match tag_of S c with
      | Some t => match find (fun c' => match tag_of S c' with Some t' => String.eqb t t' | None => false end) cs with
                  | Some c' => String.eqb c c'
                  | None => false
                  end
      | None => false
      end
  | _ => false
  end.

Fixpoint conforms (S : schema) (hv : hvariant) (v : value) (f : fty) {struct v} : bool :=
  match resolve S f (vkind v) with
  | None => false
  | Some f0 =>
      match f0, v with
      | FAny, _ => conforms_any v
      | FNone, VNone => true
      | FBool, VBool _ => true
      | FInt, VInt z => in_range z
      | FStr, VStr _ => true
      | FEnum e, VEnumS e' s =>
          String.eqb e e' &&
          match assoc e (enums S) with Some (EStr vals) => mem_str s vals | _ => false end
      | FEnum e, VEnumI e' z =>
          String.eqb e e' &&
          match assoc e (enums S) with Some (EFlag mask) => (Z.leb 0 z && Z.leb z mask)%Z | _ => false end
      | FTupleOf g, VTuple l => forallb (fun x => conforms S hv x g) l
      | FListOf g, VList l => forallb (fun x => conforms S hv x g) l
      | FSetOf g, VSet l =>
          forallb (fun x => conforms S hv x g) l &&
          match strs_of l with Some ss => sorted_strict ss | None => false end
      | FPair g h, VTuple [a; b] => conforms S hv a g && conforms S hv b h
      | FDictOf FStr _, VDict [] [] => true
      | FStruct _, VStruct c fs | FUnion _, VStruct c fs =>
          class_ok S f0 c &&
          match lookup S c with
          | None => false
          | Some si => conf_fields (fun x g => conforms S hv x g) fs (s_fields si) && hook_ok S hv si fs
          end
      | _, _ => false
      end
  end.

(* ------------------------------------------------------------------------------------------- *)
(* well-formedness of a schema (checked by computation on the generated one) *)
Fixpoint nodup_str (l : list string) : bool :=
  match l with [] => true | x :: t => negb (mem_str x t) && nodup_str t end.

Definition sinfo_wf (S : schema) (c : string) (si : sinfo) : bool :=
  nodup_str (map fd_name (s_fields si)) &&
  negb (mem_str (tagfield S) (map fd_name (s_fields si)) && match s_tag si with Some _ => true | None => false end) &&
  match s_tag si with Some t => String.eqb t c | None => true end.

Definition schema_wf (S : schema) : bool :=
  nodup_str (map fst (structs S)) &&
  forallb (fun cs => sinfo_wf S (fst cs) (snd cs)) (structs S).

(* hashed fields are compared fields (needed for == => equal hashes) *)
Fixpoint mask_le (h e : list bool) : bool :=
  match e with
  | [] => true                                   (* e: every remaining field is compared *)
  | eb :: e' =>
      match h with
      | [] => eb && mask_le [] e'                (* h: every remaining field is hashed *)
      | hb :: h' => (negb hb || eb) && mask_le h' e'
      end
  end.

Definition sinfo_hash_ok (si : sinfo) : bool :=
  match s_eq si, s_hash si with
  | EqMask e, HashMask h => mask_le h e
  | EqSet, HashSeq => true
  | EqIdent, _ => true
  | EqMask _, HashUnhashable => true
  | _, _ => false
  end.

Definition schema_hash_ok (S : schema) : bool :=
  forallb (fun cs => sinfo_hash_ok (snd cs)) (structs S).
