(* C12 proofs, part 1: generic facts about the codec model (no dependence on the generated schema). *)
From Coq Require Import List String Ascii ZArith Bool Arith Lia Permutation.
From PV Require Import Serial.Model.
Import ListNotations.
Local Open Scope string_scope.
Local Open Scope list_scope.

(* ------------------------------------------------------------------------------------------- *)
(* induction principle for the nested inductive [value] *)
Section ValueInd.
  Variable P : value -> Prop.
  Hypothesis HNone : P VNone.
  Hypothesis HBool : forall b, P (VBool b).
  Hypothesis HInt : forall z, P (VInt z).
  Hypothesis HFloat : forall z, P (VFloat z).
  Hypothesis HStr : forall s, P (VStr s).
  Hypothesis HEnumS : forall e s, P (VEnumS e s).
  Hypothesis HEnumI : forall e z, P (VEnumI e z).
  Hypothesis HTuple : forall l, Forall P l -> P (VTuple l).
  Hypothesis HList : forall l, Forall P l -> P (VList l).
  Hypothesis HSet : forall l, Forall P l -> P (VSet l).
  Hypothesis HDict : forall ks vs, Forall P vs -> P (VDict ks vs).
  Hypothesis HStruct : forall c fs, Forall P fs -> P (VStruct c fs).

  Fixpoint value_ind' (v : value) : P v :=
    let all := fix all (l : list value) : Forall P l :=
                 match l with
                 | [] => Forall_nil P
                 | x :: t => Forall_cons x (value_ind' x) (all t)
                 end in
    match v with
    | VNone => HNone
    | VBool b => HBool b
    | VInt z => HInt z
    | VFloat z => HFloat z
    | VStr s => HStr s
    | VEnumS e s => HEnumS e s
    | VEnumI e z => HEnumI e z
    | VTuple l => HTuple l (all l)
    | VList l => HList l (all l)
    | VSet l => HSet l (all l)
    | VDict ks vs => HDict ks vs (all vs)
    | VStruct c fs => HStruct c fs (all fs)
    end.
End ValueInd.

(* ------------------------------------------------------------------------------------------- *)
(* small list facts *)
Lemma list_eqb_eq {A} (e : A -> A -> bool) (l : list A) :
  Forall (fun x => forall y, e x y = true -> x = y) l ->
  forall l', list_eqb e l l' = true -> l = l'.
Proof.
  induction 1 as [|x t Hx Ht IH]; intros [|y t'] H; simpl in H; try discriminate; auto.
  apply andb_true_iff in H. destruct H as [H1 H2].
  f_equal; auto.
Qed.

Lemma string_list_eqb_eq (l l' : list string) : list_eqb String.eqb l l' = true -> l = l'.
Proof.
  apply list_eqb_eq. apply Forall_forall. intros x _ y H. now apply String.eqb_eq.
Qed.

Lemma veqb_eq : forall a b, veqb a b = true -> a = b.
Proof.
  induction a using value_ind'; intros [] Hq; simpl in Hq; try discriminate.
  - reflexivity.
  - f_equal. now apply Bool.eqb_prop.
  - f_equal. now apply Z.eqb_eq.
  - f_equal. now apply Z.eqb_eq.
  - f_equal. now apply String.eqb_eq.
  - apply andb_true_iff in Hq. destruct Hq as [H1 H2].
    apply String.eqb_eq in H1. apply String.eqb_eq in H2. now subst.
  - apply andb_true_iff in Hq. destruct Hq as [H1 H2].
    apply String.eqb_eq in H1. apply Z.eqb_eq in H2. now subst.
  - f_equal. eapply list_eqb_eq; eauto.
  - f_equal. eapply list_eqb_eq; eauto.
  - f_equal. eapply list_eqb_eq; eauto.
  - apply andb_true_iff in Hq. destruct Hq as [H1 H2].
    apply string_list_eqb_eq in H1. subst. f_equal. eapply list_eqb_eq; eauto.
  - apply andb_true_iff in Hq. destruct Hq as [H1 H2].
    apply String.eqb_eq in H1. subst. f_equal. eapply list_eqb_eq; eauto.
Qed.

Lemma list_veqb_eq : forall l l', list_eqb (fun x y => veqb x y) l l' = true -> l = l'.
Proof.
  intros l l'. apply list_eqb_eq. apply Forall_forall. intros x _ y. apply veqb_eq.
Qed.

Lemma map_opt_cons {A B} (f : A -> option B) x t :
  map_opt f (x :: t) = match f x, map_opt f t with Some y, Some r => Some (y :: r) | _, _ => None end.
Proof. reflexivity. Qed.

Lemma map_opt_map {A B} (enc : A -> B) (dec : B -> option A) (l : list A) :
  Forall (fun x => dec (enc x) = Some x) l -> map_opt dec (map enc l) = Some l.
Proof.
  induction 1 as [|x t Hx Ht IH]; auto.
  simpl map. rewrite map_opt_cons, Hx, IH. reflexivity.
Qed.

Lemma map_opt_ext_in {A B} (f g : A -> option B) (l : list A) :
  (forall x, In x l -> f x = g x) -> map_opt f l = map_opt g l.
Proof.
  induction l as [|x t IH]; intros H; auto.
  rewrite !map_opt_cons. rewrite (H x (or_introl eq_refl)).
  rewrite IH; auto. intros y Hy. apply H. now right.
Qed.

(* ------------------------------------------------------------------------------------------- *)
(* strings: sorted lists are fixpoints of sorting / set construction *)
Lemma ltb_leb s1 s2 : String.ltb s1 s2 = true -> String.leb s1 s2 = true.
Proof. unfold String.ltb, String.leb. destruct (String.compare s1 s2); auto; discriminate. Qed.

Lemma ltb_neq s1 s2 : String.ltb s1 s2 = true -> String.eqb s1 s2 = false.
Proof.
  unfold String.ltb. intros H. apply String.eqb_neq. intros ->.
  assert (E : String.compare s2 s2 = Eq).
  { pose proof (String.compare_antisym s2 s2) as A. destruct (String.compare s2 s2); simpl in A; auto; discriminate. }
  rewrite E in H. discriminate.
Qed.

Lemma sset_sorted : forall l, sorted_strict l = true -> sset l = l.
Proof.
  induction l as [|x t IH]; intros H; auto.
  simpl in H. destruct t as [|y t'].
  - reflexivity.
  - apply andb_true_iff in H. destruct H as [H1 H2].
    unfold sset in *. simpl fold_right. simpl fold_right in IH. rewrite (IH H2).
    simpl. rewrite (ltb_neq _ _ H1), (ltb_leb _ _ H1). reflexivity.
Qed.

Lemma strs_of_map : forall l ss, strs_of l = Some ss -> l = map VStr ss.
Proof.
  induction l as [|x t IH]; intros ss H; simpl in H.
  - inversion H. reflexivity.
  - destruct x; try discriminate. destruct (strs_of t) as [r|]; try discriminate.
    inversion H. subst. simpl. f_equal. now apply IH.
Qed.

Lemma strs_of_map_VStr : forall ss, strs_of (map VStr ss) = Some ss.
Proof. induction ss as [|s t IH]; simpl; auto. now rewrite IH. Qed.

Lemma msort_sorted : forall ss, sorted_strict ss = true -> msort (map MStr ss) = map MStr ss.
Proof.
  induction ss as [|x t IH]; intros H; auto.
  simpl in H. destruct t as [|y t'].
  - reflexivity.
  - apply andb_true_iff in H. destruct H as [H1 H2].
    unfold msort in *. simpl fold_right. simpl fold_right in IH. rewrite (IH H2).
    simpl. rewrite (ltb_leb _ _ H1). reflexivity.
Qed.

(* ------------------------------------------------------------------------------------------- *)
(* association lists *)
Lemma assoc_app {A} k (l1 l2 : list (string * A)) :
  assoc k (l1 ++ l2) = match assoc k l1 with Some a => Some a | None => assoc k l2 end.
Proof.
  induction l1 as [|[k' a] t IH]; simpl; auto. destruct (String.eqb k k'); auto.
Qed.

Lemma assoc_none_notin {A} k (l : list (string * A)) : mem_str k (map fst l) = false -> assoc k l = None.
Proof.
  induction l as [|[k' a] t IH]; simpl; auto. intros H.
  apply orb_false_iff in H. destruct H as [H1 H2]. rewrite H1. auto.
Qed.

Lemma assoc_rev_nodup {A} k (l : list (string * A)) :
  nodup_str (map fst l) = true -> assoc k (rev l) = assoc k l.
Proof.
  induction l as [|[k' a] t IH]; simpl; auto. intros H.
  apply andb_true_iff in H. destruct H as [H1 H2].
  rewrite assoc_app, (IH H2). simpl.
  destruct (String.eqb k k') eqn:E.
  - apply String.eqb_eq in E. subst k'.
    apply negb_true_iff in H1. rewrite (assoc_none_notin _ _ H1). reflexivity.
  - destruct (assoc k t); reflexivity.
Qed.

Lemma mem_str_in s l : mem_str s l = true <-> In s l.
Proof.
  induction l as [|x t IH]; simpl.
  - split; [discriminate | tauto].
  - rewrite orb_true_iff, IH, String.eqb_eq. split; intros [H|H]; auto.
Qed.

Lemma find_field_in flds : nodup_str (map fd_name flds) = true ->
  forall fd, In fd flds -> find_field (fd_name fd) flds = Some fd.
Proof.
  induction flds as [|g t IH]; simpl; intros H fd Hin; [tauto|].
  apply andb_true_iff in H. destruct H as [H1 H2].
  destruct Hin as [->|Hin].
  - now rewrite String.eqb_refl.
  - destruct (String.eqb (fd_name fd) (fd_name g)) eqn:E.
    + apply String.eqb_eq in E. apply negb_true_iff in H1.
      assert (In (fd_name g) (map fd_name t)) by (rewrite <- E; now apply in_map).
      apply mem_str_in in H. congruence.
    + auto.
Qed.

Lemma find_field_notin k flds : mem_str k (map fd_name flds) = false -> find_field k flds = None.
Proof.
  induction flds as [|g t IH]; simpl; auto. intros H.
  apply orb_false_iff in H. destruct H as [H1 H2]. rewrite H1. auto.
Qed.

(* ------------------------------------------------------------------------------------------- *)
(* the fields of one struct *)
Section Fields.
  Variable enc : value -> mval.
  Variable dec : fty -> mval -> option value.
  Variable cf : value -> fty -> bool.
  Variable omit : bool.

  (* the (name, value) pairs that are written *)
  Fixpoint kept (fs : list value) (flds : list field) : list (string * value) :=
    match fs, flds with
    | v :: fs', fd :: flds' =>
        if omit && is_default fd v then kept fs' flds' else (fd_name fd, v) :: kept fs' flds'
    | _, _ => []
    end.

  Lemma kept_keys_incl : forall fs flds k, In k (map fst (kept fs flds)) -> In k (map fd_name flds).
  Proof.
    induction fs as [|v fs IH]; intros [|fd flds] k H; simpl in *; try tauto.
    destruct (omit && is_default fd v); simpl in *.
    - right. eauto.
    - destruct H; [left; auto | right; eauto].
  Qed.

  Lemma kept_nodup : forall fs flds, nodup_str (map fd_name flds) = true ->
    nodup_str (map fst (kept fs flds)) = true.
  Proof.
    induction fs as [|v fs IH]; intros [|fd flds] H; simpl in *; auto.
    apply andb_true_iff in H. destruct H as [H1 H2].
    destruct (omit && is_default fd v); simpl; auto.
    rewrite (IH _ H2), andb_true_r.
    apply negb_true_iff. apply negb_true_iff in H1.
    destruct (mem_str (fd_name fd) (map fst (kept fs flds))) eqn:E; auto.
    apply mem_str_in in E. apply kept_keys_incl in E. apply mem_str_in in E. congruence.
  Qed.

  Lemma dec_entries_kept : forall all fs flds,
    nodup_str (map fd_name all) = true -> incl flds all ->
    Forall (fun v => forall f, cf v f = true -> dec f (enc v) = Some v) fs ->
    conf_fields cf fs flds = true ->
    dec_entries dec all (enc_fields enc omit fs flds) = Some (kept fs flds).
  Proof.
    intros all fs. induction fs as [|v fs IH]; intros [|fd flds] Hnd Hincl HF Hc; simpl in *; auto; try discriminate.
    inversion HF as [|? ? Hv HF']. subst.
    apply andb_true_iff in Hc. destruct Hc as [Hc1 Hc2].
    assert (Hincl' : incl flds all) by (intros x Hx; apply Hincl; now right).
    destruct (omit && is_default fd v).
    - apply IH; auto.
    - simpl. rewrite (find_field_in all Hnd fd) by (apply Hincl; now left).
      rewrite (Hv _ Hc1).
      change ((fix go (kvs : list (string * mval)) : option (list (string * value)) :=
                 match kvs with
                 | [] => Some []
                 | (k, x) :: t =>
                     match find_field k all with
                     | Some fd0 => match dec (fd_ty fd0) x, go t with Some v0, Some r => Some ((k, v0) :: r) | _, _ => None end
                     | None => go t
                     end
                 end) (enc_fields enc omit fs flds))
        with (dec_entries dec all (enc_fields enc omit fs flds)).
      rewrite IH; auto.
  Qed.

  Lemma assemble_kept_gen : forall fs flds entries,
    nodup_str (map fd_name flds) = true ->
    conf_fields cf fs flds = true ->
    (forall fd, In fd flds -> assoc (fd_name fd) entries = assoc (fd_name fd) (kept fs flds)) ->
    map_opt (fun fd => match assoc (fd_name fd) entries with Some v => Some v | None => fd_default fd end) flds
    = Some fs.
  Proof.
    induction fs as [|v fs IH]; intros [|fd flds] entries Hnd Hc Hent; simpl in Hc; try discriminate; auto.
    apply andb_true_iff in Hc. destruct Hc as [_ Hc].
    simpl in Hnd. apply andb_true_iff in Hnd. destruct Hnd as [Hn1 Hn2].
    rewrite map_opt_cons.
    assert (Htail : forall g, In g flds ->
              assoc (fd_name g) entries = assoc (fd_name g) (kept fs flds)).
    { intros g Hg. rewrite (Hent g (or_intror Hg)). simpl.
      destruct (omit && is_default fd v); auto. simpl.
      destruct (String.eqb (fd_name g) (fd_name fd)) eqn:E; auto.
      apply String.eqb_eq in E. apply negb_true_iff in Hn1.
      assert (In (fd_name fd) (map fd_name flds)) by (rewrite <- E; now apply in_map).
      apply mem_str_in in H. congruence. }
    rewrite (IH flds entries Hn2 Hc Htail).
    rewrite (Hent fd (or_introl eq_refl)). simpl.
    destruct (omit && is_default fd v) eqn:Eo.
    - (* omitted: not among the written keys, so the default is taken, and it equals v *)
      assert (assoc (fd_name fd) (kept fs flds) = None) as ->.
      { apply assoc_none_notin. apply negb_true_iff in Hn1.
        destruct (mem_str (fd_name fd) (map fst (kept fs flds))) eqn:E; auto.
        apply mem_str_in in E. apply kept_keys_incl in E. apply mem_str_in in E. congruence. }
      apply andb_true_iff in Eo. destruct Eo as [_ Ed]. unfold is_default in Ed.
      destruct (fd_default fd) as [d|]; try discriminate.
      apply veqb_eq in Ed. now subst.
    - simpl. rewrite String.eqb_refl. reflexivity.
  Qed.

  Lemma assemble_kept : forall fs flds,
    nodup_str (map fd_name flds) = true ->
    conf_fields cf fs flds = true ->
    assemble flds (kept fs flds) = Some fs.
  Proof.
    intros fs flds Hnd Hc. unfold assemble.
    rewrite (map_opt_ext_in _ (fun fd => match assoc (fd_name fd) (kept fs flds) with
                                          | Some v => Some v | None => fd_default fd end)).
    - apply assemble_kept_gen; auto.
    - intros fd _. unfold assoc_last. rewrite assoc_rev_nodup; auto. now apply kept_nodup.
  Qed.
End Fields.

(* ------------------------------------------------------------------------------------------- *)
(* Any *)
Lemma decode_any_encode S : forall v, conforms_any v = true -> decode_any (encode S v) = v.
Proof.
  induction v using value_ind'; intros Hc; simpl in Hc; try discriminate; try reflexivity.
  - (* list *)
    simpl. f_equal. rewrite map_map.
    rewrite forallb_forall in Hc. rewrite Forall_forall in H.
    rewrite <- (map_id l) at 2. apply map_ext_in. intros x Hx. apply H; auto.
  - (* dict *)
    destruct ks; try discriminate. destruct vs; try discriminate.
    simpl. destruct (deterministic S); reflexivity.
Qed.

(* ------------------------------------------------------------------------------------------- *)
(* resolve only looks at the msgpack kind *)
Lemma mkind_encode S v : (forall c fs, v = VStruct c fs -> lookup S c <> None) -> mkind (encode S v) = vkind v.
Proof.
  destruct v; intros H; simpl; try reflexivity; try (destruct (deterministic S); reflexivity).
  specialize (H c fs eq_refl). destruct (lookup S c); [reflexivity | congruence].
Qed.

Lemma decode_unfold S hv f m :
  decode S hv f m =
  match resolve S f (mkind m) with
  | None => None
  | Some f0 =>
      match f0, m with
      | FAny, _ => Some (decode_any m)
      | FNone, MNil => Some VNone
      | FBool, MBool b => Some (VBool b)
      | FInt, MInt z => Some (VInt z)
      | FStr, MStr s => Some (VStr s)
      | FEnum e, MStr s =>
          match assoc e (enums S) with
          | Some (EStr vals) => if mem_str s vals then Some (VEnumS e s) else None
          | _ => None
          end
      | FEnum e, MInt z =>
          match assoc e (enums S) with
          | Some (EFlag mask) => match decode_flag mask z with Some z' => Some (VEnumI e z') | None => None end
          | _ => None
          end
      | FTupleOf g, MArr l =>
          match map_opt (fun x => decode S hv g x) l with Some vs => Some (VTuple vs) | None => None end
      | FListOf g, MArr l =>
          match map_opt (fun x => decode S hv g x) l with Some vs => Some (VList vs) | None => None end
      | FSetOf g, MArr l =>
          match map_opt (fun x => decode S hv g x) l with
          | Some vs => match strs_of vs with
                       | Some ss => Some (VSet (map VStr (sset ss)))
                       | None => None
                       end
          | None => None
          end
      | FPair g h, MArr [a; b] =>
          match decode S hv g a, decode S hv h b with
          | Some x, Some y => Some (VTuple [x; y])
          | _, _ => None
          end
      | FDictOf g h, MMap kvs =>
          match g with
          | FStr =>
              match map_opt (fun kv => decode S hv h (snd kv)) kvs with
              | Some vs => Some (VDict (map fst kvs) vs)
              | None => None
              end
          | _ => None
          end
      | FStruct c, MMap kvs => dec_struct S hv (fun g x => decode S hv g x) c kvs
      | FUnion cs, MMap kvs =>
          match pick_class S cs kvs with
          | Some c => dec_struct S hv (fun g x => decode S hv g x) c kvs
          | None => None
          end
      | _, _ => None
      end
  end.
Proof. destruct m; reflexivity. Qed.

Lemma conforms_unfold S hv v f :
  conforms S hv v f =
  match resolve S f (vkind v) with
  | None => false
  | Some f0 =>
      match f0, v with
      | FAny, _ => conforms_any v
      | FNone, VNone => true
      | FBool, VBool _ => true
      | FInt, VInt z => in_range z
      | FStr, VStr _ => true
      | FEnum e, VEnumS e' s =>
          String.eqb e e' &&
          match assoc e (enums S) with Some (EStr vals) => mem_str s vals | _ => false end
      | FEnum e, VEnumI e' z =>
          String.eqb e e' &&
          match assoc e (enums S) with Some (EFlag mask) => (Z.leb 0 z && Z.leb z mask)%Z | _ => false end
      | FTupleOf g, VTuple l => forallb (fun x => conforms S hv x g) l
      | FListOf g, VList l => forallb (fun x => conforms S hv x g) l
      | FSetOf g, VSet l =>
          forallb (fun x => conforms S hv x g) l &&
          match strs_of l with Some ss => sorted_strict ss | None => false end
      | FPair g h, VTuple [a; b] => conforms S hv a g && conforms S hv b h
      | FDictOf FStr _, VDict [] [] => true
      | FStruct _, VStruct c fs | FUnion _, VStruct c fs =>
          class_ok S f0 c &&
          match lookup S c with
          | None => false
          | Some si => conf_fields (fun x g => conforms S hv x g) fs (s_fields si) && hook_ok S hv si fs
          end
      | _, _ => false
      end
  end.
Proof. destruct v; reflexivity. Qed.

(* a conforming struct value has a known class *)
Lemma conforms_struct_lookup S hv c fs f :
  conforms S hv (VStruct c fs) f = true -> lookup S c <> None.
Proof.
  rewrite conforms_unfold. destruct (resolve S f (vkind (VStruct c fs))) as [f0|]; try discriminate.
  destruct (lookup S c) eqn:E; try congruence.
  intros H. exfalso. destruct f0; simpl in H; try discriminate; rewrite ?andb_false_r in H; try discriminate.
  destruct f0_1; discriminate.
Qed.

(* schema well-formedness, unpacked *)
Lemma schema_wf_lookup S c si :
  schema_wf S = true -> lookup S c = Some si -> sinfo_wf S c si = true.
Proof.
  unfold schema_wf, lookup. intros H. apply andb_true_iff in H. destruct H as [_ H].
  rewrite forallb_forall in H. revert H. generalize (structs S) as l.
  induction l as [|[k a] t IH]; simpl; intros H E; try discriminate.
  destruct (String.eqb c k) eqn:Ek.
  - apply String.eqb_eq in Ek. inversion E. subst. apply (H (k, si)). now left.
  - apply IH; auto.
Qed.

(* the struct case of the round trip *)
Lemma dec_struct_roundtrip S hv c fs si :
  schema_wf S = true -> lookup S c = Some si ->
  Forall (fun v => forall f, conforms S hv v f = true -> decode S hv f (encode S v) = Some v) fs ->
  conf_fields (fun x g => conforms S hv x g) fs (s_fields si) = true ->
  hook_ok S hv si fs = true ->
  dec_struct S hv (fun g x => decode S hv g x) c
    (tag_entry S si ++ enc_fields (fun x => encode S x) (s_omit si) fs (s_fields si)) = Some (VStruct c fs).
Proof.
  intros Hwf Hl HF Hc Hh.
  pose proof (schema_wf_lookup S c si Hwf Hl) as Hs. unfold sinfo_wf in Hs.
  apply andb_true_iff in Hs. destruct Hs as [Hs Htagname].
  apply andb_true_iff in Hs. destruct Hs as [Hnd Htf].
  unfold dec_struct. rewrite Hl.
  assert (Htag : tag_ok S si (tag_entry S si ++ enc_fields (fun x => encode S x) (s_omit si) fs (s_fields si)) = true).
  { unfold tag_ok, tag_entry. destruct (s_tag si) as [t|]; auto. simpl.
    rewrite String.eqb_refl. apply String.eqb_refl. }
  rewrite Htag.
  assert (Hent : dec_entries (fun g x => decode S hv g x) (s_fields si)
                   (tag_entry S si ++ enc_fields (fun x => encode S x) (s_omit si) fs (s_fields si))
                 = Some (kept (s_omit si) fs (s_fields si))).
  { unfold tag_entry. destruct (s_tag si) as [t|] eqn:Et.
    - simpl. rewrite find_field_notin.
      + apply (dec_entries_kept (fun x => encode S x) (fun g x => decode S hv g x) (fun x g => conforms S hv x g) (s_omit si) (s_fields si) fs (s_fields si)); auto. apply incl_refl.
      + apply negb_true_iff in Htf. rewrite andb_true_r in Htf. exact Htf.
    - simpl. apply (dec_entries_kept (fun x => encode S x) (fun g x => decode S hv g x) (fun x g => conforms S hv x g) (s_omit si) (s_fields si) fs (s_fields si)); auto. apply incl_refl. }
  rewrite Hent.
  rewrite (assemble_kept (fun x => encode S x) (fun x g => conforms S hv x g) (s_omit si) fs (s_fields si) Hnd Hc).
  unfold hook_ok in Hh. destruct (post S hv si fs) as [fs'|]; try discriminate.
  apply list_veqb_eq in Hh. now subst.
Qed.

Lemma pick_class_encode S cs c si rest :
  lookup S c = Some si -> class_ok S (FUnion cs) c = true ->
  pick_class S cs (tag_entry S si ++ rest) = Some c.
Proof.
  intros Hl Hc. unfold class_ok, tag_of in Hc. rewrite Hl in Hc.
  unfold pick_class, tag_entry. destruct (s_tag si) as [t|]; try discriminate.
  simpl. rewrite String.eqb_refl.
  match goal with |- find ?p cs = _ => destruct (find p cs) as [c'|] eqn:E end.
  - match type of Hc with context [find ?q cs] => replace (find q cs) with (Some c') in Hc end.
    + apply String.eqb_eq in Hc. now subst.
  - match type of Hc with context [find ?q cs] => replace (find q cs) with (@None string) in Hc end.
    discriminate.
Qed.

(* ------------------------------------------------------------------------------------------- *)
(* ROUND TRIP *)
Theorem roundtrip_lemma : forall S hv, schema_wf S = true ->
  forall v f, conforms S hv v f = true -> decode S hv f (encode S v) = Some v.
Proof.
  intros S hv Hwf. induction v using value_ind'; intros f Hc;
    pose proof Hc as Hc0; rewrite conforms_unfold in Hc; rewrite decode_unfold;
    (rewrite mkind_encode; [| intros c0 fs0 E; try discriminate E; inversion E; subst; eapply conforms_struct_lookup; eauto]);
    destruct (resolve S f _) as [f0|]; try discriminate.
  - (* None *) destruct f0; try discriminate; try (destruct f0_1; discriminate); reflexivity.
  - (* bool *) destruct f0; try discriminate; try (destruct f0_1; discriminate); reflexivity.
  - (* int *) destruct f0; try discriminate; try (destruct f0_1; discriminate); reflexivity.
  - (* float *) destruct f0; try discriminate; try (destruct f0_1; discriminate); reflexivity.
  - (* str *) destruct f0; try discriminate; try (destruct f0_1; discriminate); reflexivity.
  - (* str enum *)
    destruct f0; try discriminate; try (exfalso; destruct f0_1; discriminate).
    apply andb_true_iff in Hc. destruct Hc as [He Hm]. apply String.eqb_eq in He. subst e0.
    simpl. destruct (assoc e (enums S)) as [[vals|mask]|]; try discriminate. now rewrite Hm.
  - (* flag *)
    destruct f0; try discriminate; try (exfalso; destruct f0_1; discriminate).
    apply andb_true_iff in Hc. destruct Hc as [He Hm]. apply String.eqb_eq in He. subst e0.
    simpl. destruct (assoc e (enums S)) as [[vals|mask]|]; try discriminate.
    unfold decode_flag. now rewrite Hm.
  - (* tuple *)
    destruct f0; try discriminate; try (exfalso; destruct f0_1; discriminate).
    + simpl. rewrite forallb_forall in Hc. rewrite Forall_forall in H.
      rewrite (map_opt_map (encode S) (fun x => decode S hv f0 x)); auto.
      apply Forall_forall. intros x Hx. apply H; auto.
    + (* pair *)
      destruct l as [|a [|b [|? ?]]]; try discriminate.
      apply andb_true_iff in Hc. destruct Hc as [Ha Hb].
      inversion H as [|? ? Pa H']. inversion H' as [|? ? Pb _]. subst.
      simpl. rewrite (Pa _ Ha), (Pb _ Hb). reflexivity.
  - (* list *)
    destruct f0; try discriminate; try (exfalso; destruct f0_1; discriminate).
    + change (Some (decode_any (encode S (VList l))) = Some (VList l)).
      f_equal. apply decode_any_encode. exact Hc.
    + simpl. rewrite forallb_forall in Hc. rewrite Forall_forall in H.
      rewrite (map_opt_map (encode S) (fun x => decode S hv f0 x)); auto.
      apply Forall_forall. intros x Hx. apply H; auto.
  - (* set *)
    destruct f0; try discriminate; try (exfalso; destruct f0_1; discriminate).
    apply andb_true_iff in Hc. destruct Hc as [Hall Hs].
    destruct (strs_of l) as [ss|] eqn:Ess; try discriminate.
    pose proof (strs_of_map _ _ Ess) as El.
    assert (Henc : map (encode S) l = map MStr ss).
    { subst l. rewrite map_map. reflexivity. }
    simpl. rewrite Henc.
    assert (Hsorted : (if deterministic S then msort (map MStr ss) else map MStr ss) = map MStr ss).
    { destruct (deterministic S); auto. now apply msort_sorted. }
    rewrite Hsorted. rewrite <- Henc.
    rewrite forallb_forall in Hall. rewrite Forall_forall in H.
    rewrite (map_opt_map (encode S) (fun x => decode S hv f0 x)).
    + rewrite Ess. rewrite (sset_sorted _ Hs). now subst l.
    + apply Forall_forall. intros x Hx. apply H; auto.
  - (* dict *)
    destruct f0; try discriminate; try (exfalso; destruct f0_1; discriminate).
    + change (Some (decode_any (encode S (VDict ks vs))) = Some (VDict ks vs)).
      f_equal. apply decode_any_encode. exact Hc.
    + destruct f0_1; try discriminate. destruct ks; try discriminate. destruct vs; try discriminate.
      simpl. destruct (deterministic S); reflexivity.
  - (* struct *)
    assert (Hst : forall f1, (f1 = f0) ->
              match f1 with FStruct _ | FUnion _ => True | _ => False end ->
              class_ok S f1 c &&
              match lookup S c with
              | None => false
              | Some si => conf_fields (fun x g => conforms S hv x g) fs (s_fields si) && hook_ok S hv si fs
              end = true ->
              match f1 with
              | FStruct c' => dec_struct S hv (fun g x => decode S hv g x) c'
              | FUnion cs => fun kvs => match pick_class S cs kvs with
                                        | Some c' => dec_struct S hv (fun g x => decode S hv g x) c' kvs
                                        | None => None end
              | _ => fun _ => None
              end (match lookup S c with
                   | Some si => tag_entry S si ++ enc_fields (fun x => encode S x) (s_omit si) fs (s_fields si)
                   | None => [] end) = Some (VStruct c fs)).
    { intros f1 _ Hshape Hcc.
      apply andb_true_iff in Hcc. destruct Hcc as [Hck Hrest].
      destruct (lookup S c) as [si|] eqn:Hl; try discriminate.
      apply andb_true_iff in Hrest. destruct Hrest as [Hcf Hhk].
      destruct f1; try tauto.
      - rewrite (pick_class_encode S cs c si _ Hl Hck).
        apply dec_struct_roundtrip; auto.
      - simpl in Hck. apply String.eqb_eq in Hck. subst c0.
        apply dec_struct_roundtrip; auto. }
    destruct f0; try discriminate; try (exfalso; destruct f0_1; discriminate).
    + specialize (Hst (FUnion cs) eq_refl I Hc). simpl in *.
      destruct (lookup S c) as [si|] eqn:Hl.
      * exact Hst.
      * rewrite andb_false_r in Hc. discriminate.
    + specialize (Hst (FStruct c0) eq_refl I Hc). simpl in *.
      destruct (lookup S c) as [si|] eqn:Hl.
      * exact Hst.
      * rewrite andb_false_r in Hc. discriminate.
Qed.

Corollary reencode_stable_lemma : forall S hv, schema_wf S = true ->
  forall v f, conforms S hv v f = true ->
  option_map (encode S) (decode S hv f (encode S v)) = Some (encode S v).
Proof. intros S hv Hwf v f Hc. now rewrite (roundtrip_lemma S hv Hwf v f Hc). Qed.
