(* C12 proofs, part 2: node equality implies equal hashes (for the fixed __hash__), and what remains true
   of the unchanged one. *)
From Coq Require Import List String Ascii ZArith Bool Arith Lia Permutation.
From PV Require Import Serial.Model Serial.Proofs.
Import ListNotations.
Local Open Scope string_scope.
Local Open Scope list_scope.

(* ------------------------------------------------------------------------------------------- *)
(* insertion sort over a total order: permutations sort to the same list *)
Section Sorting.
  Variable A : Type.
  Variable leb : A -> A -> bool.
  Hypothesis leb_total : forall a b, leb a b = true \/ leb b a = true.
  Hypothesis leb_antisym : forall a b, leb a b = true -> leb b a = true -> a = b.
  Hypothesis leb_trans : forall a b c, leb a b = true -> leb b c = true -> leb a c = true.

  Fixpoint insert (x : A) (l : list A) : list A :=
    match l with
    | [] => [x]
    | y :: t => if leb x y then x :: l else y :: insert x t
    end.
  Definition sort (l : list A) : list A := fold_right insert [] l.

  Inductive ssorted : list A -> Prop :=
  | ss_nil : ssorted []
  | ss_cons x l : Forall (fun y => leb x y = true) l -> ssorted l -> ssorted (x :: l).

  Lemma insert_perm x l : Permutation (x :: l) (insert x l).
  Proof.
    induction l as [|y t IH]; simpl; auto.
    destruct (leb x y); auto.
    eapply perm_trans; [apply perm_swap|]. now constructor.
  Qed.

  Lemma insert_sorted x l : ssorted l -> ssorted (insert x l).
  Proof.
    induction 1 as [|y t Hy Ht IH]; simpl.
    - constructor; constructor.
    - destruct (leb x y) eqn:E.
      + constructor; [|now constructor].
        constructor; auto. eapply Forall_impl; [|exact Hy]. intros z Hz. eapply leb_trans; eauto.
      + constructor; auto.
        eapply Permutation_Forall; [apply insert_perm|].
        constructor; auto. destruct (leb_total x y); congruence.
  Qed.

  Lemma sort_perm l : Permutation l (sort l).
  Proof.
    induction l as [|x t IH]; simpl; auto.
    eapply perm_trans; [|apply insert_perm]. now constructor.
  Qed.

  Lemma sort_sorted l : ssorted (sort l).
  Proof. induction l; simpl; [constructor | now apply insert_sorted]. Qed.

  Lemma leb_refl a : leb a a = true.
  Proof. destruct (leb_total a a); auto. Qed.

  Lemma sorted_perm_eq : forall l1 l2, ssorted l1 -> ssorted l2 -> Permutation l1 l2 -> l1 = l2.
  Proof.
    induction l1 as [|a t1 IH]; intros l2 H1 H2 P.
    - apply Permutation_nil in P. now subst.
    - destruct l2 as [|b t2].
      + apply Permutation_sym, Permutation_nil in P. discriminate.
      + inversion H1 as [|? ? Fa Sa]. inversion H2 as [|? ? Fb Sb]. subst.
        assert (Hab : leb a b = true).
        { assert (In b (a :: t1)) by (eapply Permutation_in; [apply Permutation_sym; exact P | now left]).
          destruct H as [->|H]; [apply leb_refl|]. rewrite Forall_forall in Fa. auto. }
        assert (Hba : leb b a = true).
        { assert (In a (b :: t2)) by (eapply Permutation_in; [exact P | now left]).
          destruct H as [->|H]; [apply leb_refl|]. rewrite Forall_forall in Fb. auto. }
        assert (a = b) by (apply leb_antisym; auto). subst b.
        f_equal. apply IH; auto. eapply Permutation_cons_inv; eauto.
  Qed.

  Lemma sort_perm_eq l l' : Permutation l l' -> sort l = sort l'.
  Proof.
    intros P. apply sorted_perm_eq; try apply sort_sorted.
    eapply perm_trans; [apply Permutation_sym, sort_perm|].
    eapply perm_trans; [exact P | apply sort_perm].
  Qed.

  (* neighbour-wise sortedness is strong sortedness *)
  Fixpoint nsorted (l : list A) : bool :=
    match l with
    | [] => true
    | x :: t => match t with [] => true | y :: _ => leb x y && nsorted t end
    end.

  Lemma nsorted_ssorted l : nsorted l = true -> ssorted l.
  Proof.
    induction l as [|x t IH]; intros H; [constructor|].
    simpl in H. destruct t as [|y t'].
    - constructor; constructor.
    - apply andb_true_iff in H. destruct H as [Hxy Ht]. specialize (IH Ht).
      constructor; auto. inversion IH as [|? ? Fy Sy]. subst.
      constructor; auto. eapply Forall_impl; [|exact Fy]. intros z Hz. eapply leb_trans; eauto.
  Qed.
End Sorting.

(* ------------------------------------------------------------------------------------------- *)
(* the lexicographic order on token strings *)
Lemma lex_total : forall a b, lex_leb a b = true \/ lex_leb b a = true.
Proof.
  induction a as [|x a IH]; intros [|y b]; simpl; auto.
  destruct (Z.ltb_spec x y), (Z.ltb_spec y x); auto; try lia.
  assert (x = y) by lia. subst. rewrite Z.eqb_refl. apply IH.
Qed.

Lemma lex_antisym : forall a b, lex_leb a b = true -> lex_leb b a = true -> a = b.
Proof.
  induction a as [|x a IH]; intros [|y b]; simpl; auto; try discriminate.
  destruct (Z.ltb_spec x y), (Z.ltb_spec y x); try lia; try discriminate.
  - destruct (Z.eqb_spec y x); try discriminate; lia.
  - destruct (Z.eqb_spec x y); try discriminate; lia.
  - destruct (Z.eqb_spec x y); try discriminate. subst. rewrite Z.eqb_refl.
    intros. f_equal. auto.
Qed.

Lemma lex_trans : forall a b c, lex_leb a b = true -> lex_leb b c = true -> lex_leb a c = true.
Proof.
  induction a as [|x a IH]; intros [|y b] [|z c]; simpl; auto; try discriminate.
  destruct (Z.ltb_spec x y), (Z.ltb_spec y z), (Z.ltb_spec x z); auto; try lia;
    destruct (Z.eqb_spec x y), (Z.eqb_spec y z), (Z.eqb_spec x z); try discriminate; try lia; eauto.
Qed.

Lemma ksort_is_sort l : ksort l = sort (list Z) lex_leb l.
Proof. reflexivity. Qed.

Lemma ksort_perm_eq l l' : Permutation l l' -> ksort l = ksort l'.
Proof.
  rewrite !ksort_is_sort. apply sort_perm_eq.
  - apply lex_total. - apply lex_antisym. - apply lex_trans.
Qed.

Lemma ksorted_is_nsorted l : ksorted l = nsorted (list Z) lex_leb l.
Proof. reflexivity. Qed.

Lemma ksorted_perm_eq l l' : ksorted l = true -> ksorted l' = true -> Permutation l l' -> l = l'.
Proof.
  rewrite !ksorted_is_nsorted. intros H1 H2.
  apply (sorted_perm_eq (list Z) lex_leb lex_total lex_antisym);
    apply nsorted_ssorted; auto; apply lex_trans.
Qed.

Lemma toks_eqb_eq a b : toks_eqb a b = true -> a = b.
Proof.
  apply list_eqb_eq. apply Forall_forall. intros x _ y H. now apply Z.eqb_eq.
Qed.

Lemma toks_eqb_refl a : toks_eqb a a = true.
Proof. induction a; simpl; auto. unfold toks_eqb in *. simpl. now rewrite Z.eqb_refl. Qed.

Lemma nodup_toks_NoDup l : nodup_toks l = true -> NoDup l.
Proof.
  induction l as [|x t IH]; simpl; intros H; constructor.
  - apply andb_true_iff in H. destruct H as [H _]. apply negb_true_iff in H.
    intros Hin. assert (existsb (toks_eqb x) t = true); [|congruence].
    apply existsb_exists. exists x. split; auto. apply toks_eqb_refl.
  - apply IH. apply andb_true_iff in H. tauto.
Qed.

(* ------------------------------------------------------------------------------------------- *)
(* side conditions of the law: members of a union hash differently (what dict.fromkeys leaves, up to
   collisions); for the unchanged hash additionally: members listed in hash order *)
Definition side (S : schema) (hv : hvariant) (v : value) : Prop :=
  members_hash_distinct S hv v = true /\ (hv = HvOrig -> members_hash_sorted S hv v = true).

Lemma side_forall S hv (l : list value) :
  forallb (members_hash_distinct S hv) l = true ->
  (hv = HvOrig -> forallb (members_hash_sorted S hv) l = true) ->
  Forall (side S hv) l.
Proof.
  intros H1 H2. apply Forall_forall. intros x Hx. split.
  - rewrite forallb_forall in H1. auto.
  - intros E. specialize (H2 E). rewrite forallb_forall in H2. auto.
Qed.

Lemma side_tuple S hv l : side S hv (VTuple l) -> Forall (side S hv) l.
Proof. intros [H1 H2]. apply side_forall; auto. Qed.

Lemma side_struct S hv c fs : side S hv (VStruct c fs) -> Forall (side S hv) fs.
Proof.
  intros [H1 H2]. simpl in *. apply andb_true_iff in H1. destruct H1 as [H1 _].
  apply side_forall; auto. intros E. specialize (H2 E). apply andb_true_iff in H2. tauto.
Qed.

Lemma list_eqb_hk S hv (l : list value) :
  Forall (fun a => forall b, side S hv a -> side S hv b -> node_eqb S hv a b = true -> hk S hv a = hk S hv b) l ->
  forall l', Forall (side S hv) l -> Forall (side S hv) l' ->
  list_eqb (fun x y => node_eqb S hv x y) l l' = true ->
  map (hk S hv) l = map (hk S hv) l' /\ List.length l = List.length l'.
Proof.
  induction 1 as [|x t Hx Ht IH]; intros [|y t'] Sa Sb He; simpl in He; try discriminate; auto.
  apply andb_true_iff in He. destruct He as [He1 He2].
  inversion Sa as [|? ? Sx St]. inversion Sb as [|? ? Sy St']. subst.
  destruct (IH t') as [E1 E2]; auto. simpl. split; [f_equal; auto | lia].
Qed.

Lemma mask_eqb_hk S hv (l : list value) :
  Forall (fun a => forall b, side S hv a -> side S hv b -> node_eqb S hv a b = true -> hk S hv a = hk S hv b) l ->
  forall l' m h, Forall (side S hv) l -> Forall (side S hv) l' ->
  mask_le h m = true ->
  mask_eqb (fun x y => node_eqb S hv x y) l l' m = true ->
  mask_concat h (map (hk S hv) l) = mask_concat h (map (hk S hv) l') /\ List.length l = List.length l'.
Proof.
  induction 1 as [|x t Hx Ht IH]; intros [|y t'] m h Sa Sb Hle He; simpl in He; try discriminate; auto.
  pose proof (Forall_inv Sa) as Sx. pose proof (Forall_inv_tail Sa) as St.
  pose proof (Forall_inv Sb) as Sy. pose proof (Forall_inv_tail Sb) as St'.
  assert (Hstep : forall m1 h1 (hb : bool), mask_le h1 m1 = true ->
            mask_eqb (fun x y => node_eqb S hv x y) t t' m1 = true ->
            (hb = true -> node_eqb S hv x y = true) ->
            (if hb then hk S hv x else [1%Z]) ++ mask_concat h1 (map (hk S hv) t) =
            (if hb then hk S hv y else [1%Z]) ++ mask_concat h1 (map (hk S hv) t') /\
            Datatypes.S (List.length t) = Datatypes.S (List.length t')).
  { intros m1 h1 hb Hle1 He1 Hb. destruct (IH t' m1 h1) as [E1 E2]; auto.
    split; [|lia]. rewrite E1. destruct hb; auto. rewrite (Hx y); auto. }
  destruct m as [|[|] m'], h as [|[|] h']; simpl in Hle; try discriminate; simpl.
  - (* m = [], h = [] *)
    apply andb_true_iff in He. destruct He as [He1 He2].
    apply (Hstep [] [] true); auto.
  - apply andb_true_iff in He. destruct He as [He1 He2].
    apply (Hstep [] h' true); auto.
  - apply andb_true_iff in He. destruct He as [He1 He2].
    apply (Hstep [] h' false); auto; discriminate.
  - apply andb_true_iff in He. destruct He as [He1 He2].
    apply (Hstep m' [] true); auto.
  - apply andb_true_iff in He. destruct He as [He1 He2].
    apply (Hstep m' h' true); auto.
  - apply andb_true_iff in He. destruct He as [He1 He2].
    apply (Hstep m' h' false); auto; discriminate.
  - apply (Hstep m' h' false); auto; discriminate.
Qed.

(* frozenset(a.type_list) == frozenset(b.type_list), with members that hash differently, makes the two
   lists of member hashes permutations of each other *)
Lemma set_eq_perm S hv (la lb : list value) :
  nodup_toks (map (hk S hv) la) = true -> nodup_toks (map (hk S hv) lb) = true ->
  Nat.eqb (List.length la) (List.length lb) = true ->
  forallb (fun x => existsb (fun y => toks_eqb (hk S hv x) (hk S hv y) && node_eqb S hv x y) lb) la = true ->
  Permutation (map (hk S hv) la) (map (hk S hv) lb).
Proof.
  intros Na Nb Hlen Hsub.
  apply NoDup_Permutation_bis.
  - now apply nodup_toks_NoDup.
  - rewrite !map_length. apply Nat.eqb_eq in Hlen. lia.
  - intros k Hk. apply in_map_iff in Hk. destruct Hk as [x [<- Hx]].
    rewrite forallb_forall in Hsub. specialize (Hsub x Hx).
    apply existsb_exists in Hsub. destruct Hsub as [y [Hy Hxy]].
    apply andb_true_iff in Hxy. destruct Hxy as [Hk _]. apply toks_eqb_eq in Hk.
    rewrite Hk. now apply in_map.
Qed.

Lemma schema_hash_ok_lookup S c si :
  schema_hash_ok S = true -> lookup S c = Some si -> sinfo_hash_ok si = true.
Proof.
  unfold schema_hash_ok, lookup. intros H. rewrite forallb_forall in H. revert H.
  generalize (structs S) as l.
  induction l as [|[k a] t IH]; simpl; intros H E; try discriminate.
  destruct (String.eqb c k) eqn:Ek.
  - inversion E. subst. apply (H (k, si)). now left.
  - apply IH; auto.
Qed.

Theorem eq_hash_general : forall S hv, schema_hash_ok S = true ->
  forall a b, side S hv a -> side S hv b -> node_eqb S hv a b = true -> hk S hv a = hk S hv b.
Proof.
  intros S hv Hok. induction a using value_ind'; intros bb Sa Sb He; destruct bb; simpl in He; try discriminate.
  - reflexivity.
  - apply Bool.eqb_prop in He. now subst.
  - apply Z.eqb_eq in He. subst. reflexivity.
  - apply Z.eqb_eq in He. subst. reflexivity.
  - apply Z.eqb_eq in He. now subst.
  - apply Z.eqb_eq in He. now subst.
  - apply String.eqb_eq in He. now subst.
  - apply andb_true_iff in He. destruct He as [H1 H2].
    apply String.eqb_eq in H1. apply String.eqb_eq in H2. now subst.
  - apply andb_true_iff in He. destruct He as [H1 H2].
    apply String.eqb_eq in H1. apply Z.eqb_eq in H2. now subst.
  - (* tuple *)
    destruct (list_eqb_hk S hv l H l0) as [E1 E2]; auto; try (eapply side_tuple; eauto).
    simpl. rewrite E1, E2. reflexivity.
  - reflexivity.
  - reflexivity.
  - reflexivity.
  - (* struct *)
    apply andb_true_iff in He. destruct He as [Hc He]. apply String.eqb_eq in Hc. subst c0.
    destruct (lookup S c) as [si|] eqn:Hl; try discriminate.
    pose proof (schema_hash_ok_lookup S c si Hok Hl) as Hsi. unfold sinfo_hash_ok in Hsi.
    simpl. rewrite Hl.
    destruct (s_eq si) as [m| |] eqn:Eeq; try discriminate.
    + (* field-wise *)
      destruct (s_hash si) as [h| | |] eqn:Eh; try discriminate; try reflexivity.
      destruct (mask_eqb_hk S hv fs H fs0 m h) as [E1 E2]; auto; try (eapply side_struct; eauto).
      rewrite E1, E2. reflexivity.
    + (* set-like *)
      destruct (s_hash si) eqn:Eh; try discriminate.
      destruct fs as [|[] [|? ?]]; try discriminate.
      destruct fs0 as [|[] [|? ?]]; try discriminate.
      apply andb_true_iff in He. destruct He as [Hlen Hsub].
      destruct Sa as [Da Oa]. destruct Sb as [Db Ob]. simpl in Da, Db, Oa, Ob.
      rewrite Hl, Eh in *.
      apply andb_true_iff in Da. destruct Da as [_ Da].
      apply andb_true_iff in Db. destruct Db as [_ Db].
      pose proof (set_eq_perm S hv l l0 Da Db Hlen Hsub) as P.
      apply Nat.eqb_eq in Hlen.
      destruct hv.
      * (* unchanged: hash(type_list); equal only because both lists are in hash order *)
        specialize (Oa eq_refl). specialize (Ob eq_refl).
        apply andb_true_iff in Oa. destruct Oa as [_ Oa].
        apply andb_true_iff in Ob. destruct Ob as [_ Ob].
        rewrite (ksorted_perm_eq _ _ Oa Ob P), Hlen. reflexivity.
      * (* fixed: hash(frozenset(type_list)) *)
        rewrite (ksort_perm_eq _ _ P), Hlen. reflexivity.
Qed.

(* the law for the fixed __hash__ *)
Theorem eq_hash_law_fixed_lemma : forall S, schema_hash_ok S = true ->
  forall a b,
  members_hash_distinct S HvFixed a = true -> members_hash_distinct S HvFixed b = true ->
  node_eqb S HvFixed a b = true -> hk S HvFixed a = hk S HvFixed b.
Proof.
  intros S Hok a b Ha Hb. apply eq_hash_general; auto; split; auto; discriminate.
Qed.

(* what is true of the unchanged __hash__: the law holds between nodes whose unions list their members
   in one canonical (hash) order *)
Theorem eq_hash_law_partial_lemma : forall S, schema_hash_ok S = true ->
  forall a b,
  members_hash_distinct S HvOrig a = true -> members_hash_distinct S HvOrig b = true ->
  members_hash_sorted S HvOrig a = true -> members_hash_sorted S HvOrig b = true ->
  node_eqb S HvOrig a b = true -> hk S HvOrig a = hk S HvOrig b.
Proof.
  intros S Hok a b Ha Hb Oa Ob. apply eq_hash_general; auto; split; auto.
Qed.
