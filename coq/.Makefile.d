Extract/ExtractReach.vo Extract/ExtractReach.glob Extract/ExtractReach.v.beautified Extract/ExtractReach.required_vo: Extract/ExtractReach.v Typegraph/Reach.vo
Extract/ExtractReach.vio: Extract/ExtractReach.v Typegraph/Reach.vio
Extract/ExtractReach.vos Extract/ExtractReach.vok Extract/ExtractReach.required_vos: Extract/ExtractReach.v Typegraph/Reach.vos
Props/C09.vo Props/C09.glob Props/C09.v.beautified Props/C09.required_vo: Props/C09.v Typegraph/Reach.vo Typegraph/ReachProofs.vo
Props/C09.vio: Props/C09.v Typegraph/Reach.vio Typegraph/ReachProofs.vio
Props/C09.vos Props/C09.vok Props/C09.required_vos: Props/C09.v Typegraph/Reach.vos Typegraph/ReachProofs.vos
Typegraph/Reach.vo Typegraph/Reach.glob Typegraph/Reach.v.beautified Typegraph/Reach.required_vo: Typegraph/Reach.v 
Typegraph/Reach.vio: Typegraph/Reach.v 
Typegraph/Reach.vos Typegraph/Reach.vok Typegraph/Reach.required_vos: Typegraph/Reach.v 
Typegraph/ReachProofs.vo Typegraph/ReachProofs.glob Typegraph/ReachProofs.v.beautified Typegraph/ReachProofs.required_vo: Typegraph/ReachProofs.v Typegraph/Reach.vo
Typegraph/ReachProofs.vio: Typegraph/ReachProofs.v Typegraph/Reach.vio
Typegraph/ReachProofs.vos Typegraph/ReachProofs.vok Typegraph/ReachProofs.required_vos: Typegraph/ReachProofs.v Typegraph/Reach.vos
