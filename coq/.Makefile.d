Bind/Model.vo Bind/Model.glob Bind/Model.v.beautified Bind/Model.required_vo: Bind/Model.v 
Bind/Model.vio: Bind/Model.v 
Bind/Model.vos Bind/Model.vok Bind/Model.required_vos: Bind/Model.v 
Bind/Proofs.vo Bind/Proofs.glob Bind/Proofs.v.beautified Bind/Proofs.required_vo: Bind/Proofs.v Bind/Model.vo
Bind/Proofs.vio: Bind/Proofs.v Bind/Model.vio
Bind/Proofs.vos Bind/Proofs.vok Bind/Proofs.required_vos: Bind/Proofs.v Bind/Model.vos
Bind/PytdModel.vo Bind/PytdModel.glob Bind/PytdModel.v.beautified Bind/PytdModel.required_vo: Bind/PytdModel.v Bind/Model.vo
Bind/PytdModel.vio: Bind/PytdModel.v Bind/Model.vio
Bind/PytdModel.vos Bind/PytdModel.vok Bind/PytdModel.required_vos: Bind/PytdModel.v Bind/Model.vos
Bind/PytdProofs.vo Bind/PytdProofs.glob Bind/PytdProofs.v.beautified Bind/PytdProofs.required_vo: Bind/PytdProofs.v Bind/Model.vo Bind/Proofs.vo Bind/PytdModel.vo
Bind/PytdProofs.vio: Bind/PytdProofs.v Bind/Model.vio Bind/Proofs.vio Bind/PytdModel.vio
Bind/PytdProofs.vos Bind/PytdProofs.vok Bind/PytdProofs.required_vos: Bind/PytdProofs.v Bind/Model.vos Bind/Proofs.vos Bind/PytdModel.vos
Blocks/ExcProofs.vo Blocks/ExcProofs.glob Blocks/ExcProofs.v.beautified Blocks/ExcProofs.required_vo: Blocks/ExcProofs.v Generated/C16_OpcodeFlags.vo Blocks/Model.vo
Blocks/ExcProofs.vio: Blocks/ExcProofs.v Generated/C16_OpcodeFlags.vio Blocks/Model.vio
Blocks/ExcProofs.vos Blocks/ExcProofs.vok Blocks/ExcProofs.required_vos: Blocks/ExcProofs.v Generated/C16_OpcodeFlags.vos Blocks/Model.vos
Blocks/Model.vo Blocks/Model.glob Blocks/Model.v.beautified Blocks/Model.required_vo: Blocks/Model.v Generated/C16_OpcodeFlags.vo
Blocks/Model.vio: Blocks/Model.v Generated/C16_OpcodeFlags.vio
Blocks/Model.vos Blocks/Model.vok Blocks/Model.required_vos: Blocks/Model.v Generated/C16_OpcodeFlags.vos
Blocks/Proofs.vo Blocks/Proofs.glob Blocks/Proofs.v.beautified Blocks/Proofs.required_vo: Blocks/Proofs.v Generated/C16_OpcodeFlags.vo Blocks/Model.vo
Blocks/Proofs.vio: Blocks/Proofs.v Generated/C16_OpcodeFlags.vio Blocks/Model.vio
Blocks/Proofs.vos Blocks/Proofs.vok Blocks/Proofs.required_vos: Blocks/Proofs.v Generated/C16_OpcodeFlags.vos Blocks/Model.vos
Blocks/Witness.vo Blocks/Witness.glob Blocks/Witness.v.beautified Blocks/Witness.required_vo: Blocks/Witness.v Generated/C16_OpcodeFlags.vo Blocks/Model.vo Blocks/Proofs.vo
Blocks/Witness.vio: Blocks/Witness.v Generated/C16_OpcodeFlags.vio Blocks/Model.vio Blocks/Proofs.vio
Blocks/Witness.vos Blocks/Witness.vok Blocks/Witness.required_vos: Blocks/Witness.v Generated/C16_OpcodeFlags.vos Blocks/Model.vos Blocks/Proofs.vos
Booleq/Model.vo Booleq/Model.glob Booleq/Model.v.beautified Booleq/Model.required_vo: Booleq/Model.v 
Booleq/Model.vio: Booleq/Model.v 
Booleq/Model.vos Booleq/Model.vok Booleq/Model.required_vos: Booleq/Model.v 
Booleq/Proofs.vo Booleq/Proofs.glob Booleq/Proofs.v.beautified Booleq/Proofs.required_vo: Booleq/Proofs.v Booleq/Model.vo
Booleq/Proofs.vio: Booleq/Proofs.v Booleq/Model.vio
Booleq/Proofs.vos Booleq/Proofs.vok Booleq/Proofs.required_vos: Booleq/Proofs.v Booleq/Model.vos
Canon/ErrorProofs.vo Canon/ErrorProofs.glob Canon/ErrorProofs.v.beautified Canon/ErrorProofs.required_vo: Canon/ErrorProofs.v Canon/Model.vo Canon/SortLemmas.vo
Canon/ErrorProofs.vio: Canon/ErrorProofs.v Canon/Model.vio Canon/SortLemmas.vio
Canon/ErrorProofs.vos Canon/ErrorProofs.vok Canon/ErrorProofs.required_vos: Canon/ErrorProofs.v Canon/Model.vos Canon/SortLemmas.vos
Canon/Model.vo Canon/Model.glob Canon/Model.v.beautified Canon/Model.required_vo: Canon/Model.v 
Canon/Model.vio: Canon/Model.v 
Canon/Model.vos Canon/Model.vok Canon/Model.required_vos: Canon/Model.v 
Canon/Proofs.vo Canon/Proofs.glob Canon/Proofs.v.beautified Canon/Proofs.required_vo: Canon/Proofs.v Canon/Model.vo Canon/SortLemmas.vo
Canon/Proofs.vio: Canon/Proofs.v Canon/Model.vio Canon/SortLemmas.vio
Canon/Proofs.vos Canon/Proofs.vok Canon/Proofs.required_vos: Canon/Proofs.v Canon/Model.vos Canon/SortLemmas.vos
Canon/SortLemmas.vo Canon/SortLemmas.glob Canon/SortLemmas.v.beautified Canon/SortLemmas.required_vo: Canon/SortLemmas.v Canon/Model.vo
Canon/SortLemmas.vio: Canon/SortLemmas.v Canon/Model.vio
Canon/SortLemmas.vos Canon/SortLemmas.vok Canon/SortLemmas.required_vos: Canon/SortLemmas.v Canon/Model.vos
Conv/Model.vo Conv/Model.glob Conv/Model.v.beautified Conv/Model.required_vo: Conv/Model.v 
Conv/Model.vio: Conv/Model.v 
Conv/Model.vos Conv/Model.vok Conv/Model.required_vos: Conv/Model.v 
Conv/Proofs.vo Conv/Proofs.glob Conv/Proofs.v.beautified Conv/Proofs.required_vo: Conv/Proofs.v Conv/Model.vo
Conv/Proofs.vio: Conv/Proofs.v Conv/Model.vio
Conv/Proofs.vos Conv/Proofs.vok Conv/Proofs.required_vos: Conv/Proofs.v Conv/Model.vos
Directors/Cases.vo Directors/Cases.glob Directors/Cases.v.beautified Directors/Cases.required_vo: Directors/Cases.v Generated/C03_ErrorClasses.vo Directors/Model.vo
Directors/Cases.vio: Directors/Cases.v Generated/C03_ErrorClasses.vio Directors/Model.vio
Directors/Cases.vos Directors/Cases.vok Directors/Cases.required_vos: Directors/Cases.v Generated/C03_ErrorClasses.vos Directors/Model.vos
Directors/Model.vo Directors/Model.glob Directors/Model.v.beautified Directors/Model.required_vo: Directors/Model.v Generated/C03_ErrorClasses.vo
Directors/Model.vio: Directors/Model.v Generated/C03_ErrorClasses.vio
Directors/Model.vos Directors/Model.vok Directors/Model.required_vos: Directors/Model.v Generated/C03_ErrorClasses.vos
Directors/Proofs.vo Directors/Proofs.glob Directors/Proofs.v.beautified Directors/Proofs.required_vo: Directors/Proofs.v Generated/C03_ErrorClasses.vo Directors/Model.vo Directors/Spec.vo
Directors/Proofs.vio: Directors/Proofs.v Generated/C03_ErrorClasses.vio Directors/Model.vio Directors/Spec.vio
Directors/Proofs.vos Directors/Proofs.vok Directors/Proofs.required_vos: Directors/Proofs.v Generated/C03_ErrorClasses.vos Directors/Model.vos Directors/Spec.vos
Directors/Spec.vo Directors/Spec.glob Directors/Spec.v.beautified Directors/Spec.required_vo: Directors/Spec.v Generated/C03_ErrorClasses.vo Directors/Model.vo
Directors/Spec.vio: Directors/Spec.v Generated/C03_ErrorClasses.vio Directors/Model.vio
Directors/Spec.vos Directors/Spec.vok Directors/Spec.required_vos: Directors/Spec.v Generated/C03_ErrorClasses.vos Directors/Model.vos
Extract/ExtractBind.vo Extract/ExtractBind.glob Extract/ExtractBind.v.beautified Extract/ExtractBind.required_vo: Extract/ExtractBind.v Bind/Model.vo Bind/PytdModel.vo
Extract/ExtractBind.vio: Extract/ExtractBind.v Bind/Model.vio Bind/PytdModel.vio
Extract/ExtractBind.vos Extract/ExtractBind.vok Extract/ExtractBind.required_vos: Extract/ExtractBind.v Bind/Model.vos Bind/PytdModel.vos
Extract/ExtractBlocks.vo Extract/ExtractBlocks.glob Extract/ExtractBlocks.v.beautified Extract/ExtractBlocks.required_vo: Extract/ExtractBlocks.v Blocks/Model.vo
Extract/ExtractBlocks.vio: Extract/ExtractBlocks.v Blocks/Model.vio
Extract/ExtractBlocks.vos Extract/ExtractBlocks.vok Extract/ExtractBlocks.required_vos: Extract/ExtractBlocks.v Blocks/Model.vos
Extract/ExtractMro.vo Extract/ExtractMro.glob Extract/ExtractMro.v.beautified Extract/ExtractMro.required_vo: Extract/ExtractMro.v Mro/Model.vo
Extract/ExtractMro.vio: Extract/ExtractMro.v Mro/Model.vio
Extract/ExtractMro.vos Extract/ExtractMro.vok Extract/ExtractMro.required_vos: Extract/ExtractMro.v Mro/Model.vos
Extract/ExtractOpt.vo Extract/ExtractOpt.glob Extract/ExtractOpt.v.beautified Extract/ExtractOpt.required_vo: Extract/ExtractOpt.v Opt/Syntax.vo Generated/C11_Passes.vo Opt/Model.vo Opt/Spec.vo
Extract/ExtractOpt.vio: Extract/ExtractOpt.v Opt/Syntax.vio Generated/C11_Passes.vio Opt/Model.vio Opt/Spec.vio
Extract/ExtractOpt.vos Extract/ExtractOpt.vok Extract/ExtractOpt.required_vos: Extract/ExtractOpt.v Opt/Syntax.vos Generated/C11_Passes.vos Opt/Model.vos Opt/Spec.vos
Extract/ExtractPlan.vo Extract/ExtractPlan.glob Extract/ExtractPlan.v.beautified Extract/ExtractPlan.required_vo: Extract/ExtractPlan.v Plan/Model.vo
Extract/ExtractPlan.vio: Extract/ExtractPlan.v Plan/Model.vio
Extract/ExtractPlan.vos Extract/ExtractPlan.vok Extract/ExtractPlan.required_vos: Extract/ExtractPlan.v Plan/Model.vos
Extract/ExtractPrint.vo Extract/ExtractPrint.glob Extract/ExtractPrint.v.beautified Extract/ExtractPrint.required_vo: Extract/ExtractPrint.v Print/Model.vo
Extract/ExtractPrint.vio: Extract/ExtractPrint.v Print/Model.vio
Extract/ExtractPrint.vos Extract/ExtractPrint.vok Extract/ExtractPrint.required_vos: Extract/ExtractPrint.v Print/Model.vos
Extract/ExtractReach.vo Extract/ExtractReach.glob Extract/ExtractReach.v.beautified Extract/ExtractReach.required_vo: Extract/ExtractReach.v Typegraph/Reach.vo
Extract/ExtractReach.vio: Extract/ExtractReach.v Typegraph/Reach.vio
Extract/ExtractReach.vos Extract/ExtractReach.vok Extract/ExtractReach.required_vos: Extract/ExtractReach.v Typegraph/Reach.vos
Extract/ExtractSerial.vo Extract/ExtractSerial.glob Extract/ExtractSerial.v.beautified Extract/ExtractSerial.required_vo: Extract/ExtractSerial.v Serial/Model.vo Serial/Grammar.vo Generated/C12_Schema.vo
Extract/ExtractSerial.vio: Extract/ExtractSerial.v Serial/Model.vio Serial/Grammar.vio Generated/C12_Schema.vio
Extract/ExtractSerial.vos Extract/ExtractSerial.vok Extract/ExtractSerial.required_vos: Extract/ExtractSerial.v Serial/Model.vos Serial/Grammar.vos Generated/C12_Schema.vos
Extract/ExtractSolver.vo Extract/ExtractSolver.glob Extract/ExtractSolver.v.beautified Extract/ExtractSolver.required_vo: Extract/ExtractSolver.v Typegraph/Graph.vo Typegraph/Solver.vo
Extract/ExtractSolver.vio: Extract/ExtractSolver.v Typegraph/Graph.vio Typegraph/Solver.vio
Extract/ExtractSolver.vos Extract/ExtractSolver.vok Extract/ExtractSolver.required_vos: Extract/ExtractSolver.v Typegraph/Graph.vos Typegraph/Solver.vos
Flow/Frame.vo Flow/Frame.glob Flow/Frame.v.beautified Flow/Frame.required_vo: Flow/Frame.v Flow/Model.vo
Flow/Frame.vio: Flow/Frame.v Flow/Model.vio
Flow/Frame.vos Flow/Frame.vok Flow/Frame.required_vos: Flow/Frame.v Flow/Model.vos
Flow/FrameProofs.vo Flow/FrameProofs.glob Flow/FrameProofs.v.beautified Flow/FrameProofs.required_vo: Flow/FrameProofs.v Flow/Model.vo Flow/Proofs.vo Flow/Frame.vo
Flow/FrameProofs.vio: Flow/FrameProofs.v Flow/Model.vio Flow/Proofs.vio Flow/Frame.vio
Flow/FrameProofs.vos Flow/FrameProofs.vok Flow/FrameProofs.required_vos: Flow/FrameProofs.v Flow/Model.vos Flow/Proofs.vos Flow/Frame.vos
Flow/Model.vo Flow/Model.glob Flow/Model.v.beautified Flow/Model.required_vo: Flow/Model.v 
Flow/Model.vio: Flow/Model.v 
Flow/Model.vos Flow/Model.vok Flow/Model.required_vos: Flow/Model.v 
Flow/Proofs.vo Flow/Proofs.glob Flow/Proofs.v.beautified Flow/Proofs.required_vo: Flow/Proofs.v Flow/Model.vo
Flow/Proofs.vio: Flow/Proofs.v Flow/Model.vio
Flow/Proofs.vos Flow/Proofs.vok Flow/Proofs.required_vos: Flow/Proofs.v Flow/Model.vos
Generated/C02_Builtins.vo Generated/C02_Builtins.glob Generated/C02_Builtins.v.beautified Generated/C02_Builtins.required_vo: Generated/C02_Builtins.v Match/Model.vo
Generated/C02_Builtins.vio: Generated/C02_Builtins.v Match/Model.vio
Generated/C02_Builtins.vos Generated/C02_Builtins.vok Generated/C02_Builtins.required_vos: Generated/C02_Builtins.v Match/Model.vos
Generated/C03_ErrorClasses.vo Generated/C03_ErrorClasses.glob Generated/C03_ErrorClasses.v.beautified Generated/C03_ErrorClasses.required_vo: Generated/C03_ErrorClasses.v 
Generated/C03_ErrorClasses.vio: Generated/C03_ErrorClasses.v 
Generated/C03_ErrorClasses.vos Generated/C03_ErrorClasses.vok Generated/C03_ErrorClasses.required_vos: Generated/C03_ErrorClasses.v 
Generated/C08_Invalidation.vo Generated/C08_Invalidation.glob Generated/C08_Invalidation.v.beautified Generated/C08_Invalidation.required_vo: Generated/C08_Invalidation.v Typegraph/History.vo
Generated/C08_Invalidation.vio: Generated/C08_Invalidation.v Typegraph/History.vio
Generated/C08_Invalidation.vos Generated/C08_Invalidation.vok Generated/C08_Invalidation.required_vos: Generated/C08_Invalidation.v Typegraph/History.vos
Generated/C11_Passes.vo Generated/C11_Passes.glob Generated/C11_Passes.v.beautified Generated/C11_Passes.required_vo: Generated/C11_Passes.v Opt/Syntax.vo
Generated/C11_Passes.vio: Generated/C11_Passes.v Opt/Syntax.vio
Generated/C11_Passes.vos Generated/C11_Passes.vok Generated/C11_Passes.required_vos: Generated/C11_Passes.v Opt/Syntax.vos
Generated/C12_Schema.vo Generated/C12_Schema.glob Generated/C12_Schema.v.beautified Generated/C12_Schema.required_vo: Generated/C12_Schema.v Serial/Model.vo
Generated/C12_Schema.vio: Generated/C12_Schema.v Serial/Model.vio
Generated/C12_Schema.vos Generated/C12_Schema.vok Generated/C12_Schema.required_vos: Generated/C12_Schema.v Serial/Model.vos
Generated/C14_Builtins.vo Generated/C14_Builtins.glob Generated/C14_Builtins.v.beautified Generated/C14_Builtins.required_vo: Generated/C14_Builtins.v Ops/Model.vo
Generated/C14_Builtins.vio: Generated/C14_Builtins.v Ops/Model.vio
Generated/C14_Builtins.vos Generated/C14_Builtins.vok Generated/C14_Builtins.required_vos: Generated/C14_Builtins.v Ops/Model.vos
Generated/C15_Handlers.vo Generated/C15_Handlers.glob Generated/C15_Handlers.v.beautified Generated/C15_Handlers.required_vo: Generated/C15_Handlers.v Io/Model.vo
Generated/C15_Handlers.vio: Generated/C15_Handlers.v Io/Model.vio
Generated/C15_Handlers.vos Generated/C15_Handlers.vok Generated/C15_Handlers.required_vos: Generated/C15_Handlers.v Io/Model.vos
Generated/C16_OpcodeFlags.vo Generated/C16_OpcodeFlags.glob Generated/C16_OpcodeFlags.v.beautified Generated/C16_OpcodeFlags.required_vo: Generated/C16_OpcodeFlags.v 
Generated/C16_OpcodeFlags.vio: Generated/C16_OpcodeFlags.v 
Generated/C16_OpcodeFlags.vos Generated/C16_OpcodeFlags.vok Generated/C16_OpcodeFlags.required_vos: Generated/C16_OpcodeFlags.v 
Io/LineProofs.vo Io/LineProofs.glob Io/LineProofs.v.beautified Io/LineProofs.required_vo: Io/LineProofs.v Io/Model.vo
Io/LineProofs.vio: Io/LineProofs.v Io/Model.vio
Io/LineProofs.vos Io/LineProofs.vok Io/LineProofs.required_vos: Io/LineProofs.v Io/Model.vos
Io/Model.vo Io/Model.glob Io/Model.v.beautified Io/Model.required_vo: Io/Model.v 
Io/Model.vio: Io/Model.v 
Io/Model.vos Io/Model.vok Io/Model.required_vos: Io/Model.v 
Io/Proofs.vo Io/Proofs.glob Io/Proofs.v.beautified Io/Proofs.required_vo: Io/Proofs.v Io/Model.vo Generated/C15_Handlers.vo
Io/Proofs.vio: Io/Proofs.v Io/Model.vio Generated/C15_Handlers.vio
Io/Proofs.vos Io/Proofs.vok Io/Proofs.required_vos: Io/Proofs.v Io/Model.vos Generated/C15_Handlers.vos
Match/Model.vo Match/Model.glob Match/Model.v.beautified Match/Model.required_vo: Match/Model.v 
Match/Model.vio: Match/Model.v 
Match/Model.vos Match/Model.vok Match/Model.required_vos: Match/Model.v 
Match/Proofs.vo Match/Proofs.glob Match/Proofs.v.beautified Match/Proofs.required_vo: Match/Proofs.v Match/Model.vo
Match/Proofs.vio: Match/Proofs.v Match/Model.vio
Match/Proofs.vos Match/Proofs.vok Match/Proofs.required_vos: Match/Proofs.v Match/Model.vos
Match/SliceExact.vo Match/SliceExact.glob Match/SliceExact.v.beautified Match/SliceExact.required_vo: Match/SliceExact.v Match/Model.vo Match/Proofs.vo
Match/SliceExact.vio: Match/SliceExact.v Match/Model.vio Match/Proofs.vio
Match/SliceExact.vos Match/SliceExact.vok Match/SliceExact.required_vos: Match/SliceExact.v Match/Model.vos Match/Proofs.vos
Match/Witnesses.vo Match/Witnesses.glob Match/Witnesses.v.beautified Match/Witnesses.required_vo: Match/Witnesses.v Match/Model.vo Generated/C02_Builtins.vo
Match/Witnesses.vio: Match/Witnesses.v Match/Model.vio Generated/C02_Builtins.vio
Match/Witnesses.vos Match/Witnesses.vok Match/Witnesses.required_vos: Match/Witnesses.v Match/Model.vos Generated/C02_Builtins.vos
Merge/Model.vo Merge/Model.glob Merge/Model.v.beautified Merge/Model.required_vo: Merge/Model.v 
Merge/Model.vio: Merge/Model.v 
Merge/Model.vos Merge/Model.vok Merge/Model.required_vos: Merge/Model.v 
Merge/Proofs.vo Merge/Proofs.glob Merge/Proofs.v.beautified Merge/Proofs.required_vo: Merge/Proofs.v Merge/Model.vo
Merge/Proofs.vio: Merge/Proofs.v Merge/Model.vio
Merge/Proofs.vos Merge/Proofs.vok Merge/Proofs.required_vos: Merge/Proofs.v Merge/Model.vos
Mro/Model.vo Mro/Model.glob Mro/Model.v.beautified Mro/Model.required_vo: Mro/Model.v 
Mro/Model.vio: Mro/Model.v 
Mro/Model.vos Mro/Model.vok Mro/Model.required_vos: Mro/Model.v 
Mro/Proofs.vo Mro/Proofs.glob Mro/Proofs.v.beautified Mro/Proofs.required_vo: Mro/Proofs.v Mro/Model.vo
Mro/Proofs.vio: Mro/Proofs.v Mro/Model.vio
Mro/Proofs.vos Mro/Proofs.vok Mro/Proofs.required_vos: Mro/Proofs.v Mro/Model.vos
Ops/Closed.vo Ops/Closed.glob Ops/Closed.v.beautified Ops/Closed.required_vo: Ops/Closed.v Ops/Model.vo Generated/C14_Builtins.vo Ops/Proofs.vo
Ops/Closed.vio: Ops/Closed.v Ops/Model.vio Generated/C14_Builtins.vio Ops/Proofs.vio
Ops/Closed.vos Ops/Closed.vok Ops/Closed.required_vos: Ops/Closed.v Ops/Model.vos Generated/C14_Builtins.vos Ops/Proofs.vos
Ops/Model.vo Ops/Model.glob Ops/Model.v.beautified Ops/Model.required_vo: Ops/Model.v 
Ops/Model.vio: Ops/Model.v 
Ops/Model.vos Ops/Model.vok Ops/Model.required_vos: Ops/Model.v 
Ops/Proofs.vo Ops/Proofs.glob Ops/Proofs.v.beautified Ops/Proofs.required_vo: Ops/Proofs.v Ops/Model.vo
Ops/Proofs.vio: Ops/Proofs.v Ops/Model.vio
Ops/Proofs.vos Ops/Proofs.vok Ops/Proofs.required_vos: Ops/Proofs.v Ops/Model.vos
Opt/Idem.vo Opt/Idem.glob Opt/Idem.v.beautified Opt/Idem.required_vo: Opt/Idem.v Opt/Syntax.vo Generated/C11_Passes.vo Opt/Model.vo Opt/Spec.vo Opt/Proofs.vo
Opt/Idem.vio: Opt/Idem.v Opt/Syntax.vio Generated/C11_Passes.vio Opt/Model.vio Opt/Spec.vio Opt/Proofs.vio
Opt/Idem.vos Opt/Idem.vok Opt/Idem.required_vos: Opt/Idem.v Opt/Syntax.vos Generated/C11_Passes.vos Opt/Model.vos Opt/Spec.vos Opt/Proofs.vos
Opt/Model.vo Opt/Model.glob Opt/Model.v.beautified Opt/Model.required_vo: Opt/Model.v Opt/Syntax.vo Generated/C11_Passes.vo
Opt/Model.vio: Opt/Model.v Opt/Syntax.vio Generated/C11_Passes.vio
Opt/Model.vos Opt/Model.vok Opt/Model.required_vos: Opt/Model.v Opt/Syntax.vos Generated/C11_Passes.vos
Opt/Proofs.vo Opt/Proofs.glob Opt/Proofs.v.beautified Opt/Proofs.required_vo: Opt/Proofs.v Opt/Syntax.vo Generated/C11_Passes.vo Opt/Model.vo Opt/Spec.vo
Opt/Proofs.vio: Opt/Proofs.v Opt/Syntax.vio Generated/C11_Passes.vio Opt/Model.vio Opt/Spec.vio
Opt/Proofs.vos Opt/Proofs.vok Opt/Proofs.required_vos: Opt/Proofs.v Opt/Syntax.vos Generated/C11_Passes.vos Opt/Model.vos Opt/Spec.vos
Opt/RewriteProofs.vo Opt/RewriteProofs.glob Opt/RewriteProofs.v.beautified Opt/RewriteProofs.required_vo: Opt/RewriteProofs.v Opt/Syntax.vo Generated/C11_Passes.vo Opt/Model.vo Opt/Spec.vo Opt/Proofs.vo Opt/Rewrites.vo
Opt/RewriteProofs.vio: Opt/RewriteProofs.v Opt/Syntax.vio Generated/C11_Passes.vio Opt/Model.vio Opt/Spec.vio Opt/Proofs.vio Opt/Rewrites.vio
Opt/RewriteProofs.vos Opt/RewriteProofs.vok Opt/RewriteProofs.required_vos: Opt/RewriteProofs.v Opt/Syntax.vos Generated/C11_Passes.vos Opt/Model.vos Opt/Spec.vos Opt/Proofs.vos Opt/Rewrites.vos
Opt/Rewrites.vo Opt/Rewrites.glob Opt/Rewrites.v.beautified Opt/Rewrites.required_vo: Opt/Rewrites.v Opt/Syntax.vo Generated/C11_Passes.vo Opt/Model.vo Opt/Spec.vo
Opt/Rewrites.vio: Opt/Rewrites.v Opt/Syntax.vio Generated/C11_Passes.vio Opt/Model.vio Opt/Spec.vio
Opt/Rewrites.vos Opt/Rewrites.vok Opt/Rewrites.required_vos: Opt/Rewrites.v Opt/Syntax.vos Generated/C11_Passes.vos Opt/Model.vos Opt/Spec.vos
Opt/Spec.vo Opt/Spec.glob Opt/Spec.v.beautified Opt/Spec.required_vo: Opt/Spec.v Opt/Syntax.vo Generated/C11_Passes.vo Opt/Model.vo
Opt/Spec.vio: Opt/Spec.v Opt/Syntax.vio Generated/C11_Passes.vio Opt/Model.vio
Opt/Spec.vos Opt/Spec.vok Opt/Spec.required_vos: Opt/Spec.v Opt/Syntax.vos Generated/C11_Passes.vos Opt/Model.vos
Opt/Stable.vo Opt/Stable.glob Opt/Stable.v.beautified Opt/Stable.required_vo: Opt/Stable.v Opt/Syntax.vo Generated/C11_Passes.vo Opt/Model.vo Opt/Spec.vo Opt/Proofs.vo
Opt/Stable.vio: Opt/Stable.v Opt/Syntax.vio Generated/C11_Passes.vio Opt/Model.vio Opt/Spec.vio Opt/Proofs.vio
Opt/Stable.vos Opt/Stable.vok Opt/Stable.required_vos: Opt/Stable.v Opt/Syntax.vos Generated/C11_Passes.vos Opt/Model.vos Opt/Spec.vos Opt/Proofs.vos
Opt/Syntax.vo Opt/Syntax.glob Opt/Syntax.v.beautified Opt/Syntax.required_vo: Opt/Syntax.v 
Opt/Syntax.vio: Opt/Syntax.v 
Opt/Syntax.vos Opt/Syntax.vok Opt/Syntax.required_vos: Opt/Syntax.v 
Plan/CoverProofs.vo Plan/CoverProofs.glob Plan/CoverProofs.v.beautified Plan/CoverProofs.required_vo: Plan/CoverProofs.v Plan/Model.vo Plan/Proofs.vo
Plan/CoverProofs.vio: Plan/CoverProofs.v Plan/Model.vio Plan/Proofs.vio
Plan/CoverProofs.vos Plan/CoverProofs.vok Plan/CoverProofs.required_vos: Plan/CoverProofs.v Plan/Model.vos Plan/Proofs.vos
Plan/GraphProofs.vo Plan/GraphProofs.glob Plan/GraphProofs.v.beautified Plan/GraphProofs.required_vo: Plan/GraphProofs.v Plan/Model.vo Plan/Proofs.vo Plan/CoverProofs.vo
Plan/GraphProofs.vio: Plan/GraphProofs.v Plan/Model.vio Plan/Proofs.vio Plan/CoverProofs.vio
Plan/GraphProofs.vos Plan/GraphProofs.vok Plan/GraphProofs.required_vos: Plan/GraphProofs.v Plan/Model.vos Plan/Proofs.vos Plan/CoverProofs.vos
Plan/Model.vo Plan/Model.glob Plan/Model.v.beautified Plan/Model.required_vo: Plan/Model.v 
Plan/Model.vio: Plan/Model.v 
Plan/Model.vos Plan/Model.vok Plan/Model.required_vos: Plan/Model.v 
Plan/Proofs.vo Plan/Proofs.glob Plan/Proofs.v.beautified Plan/Proofs.required_vo: Plan/Proofs.v Plan/Model.vo
Plan/Proofs.vio: Plan/Proofs.v Plan/Model.vio
Plan/Proofs.vos Plan/Proofs.vok Plan/Proofs.required_vos: Plan/Proofs.v Plan/Model.vos
Plan/StmtProofs.vo Plan/StmtProofs.glob Plan/StmtProofs.v.beautified Plan/StmtProofs.required_vo: Plan/StmtProofs.v Plan/Model.vo Plan/Proofs.vo
Plan/StmtProofs.vio: Plan/StmtProofs.v Plan/Model.vio Plan/Proofs.vio
Plan/StmtProofs.vos Plan/StmtProofs.vok Plan/StmtProofs.required_vos: Plan/StmtProofs.v Plan/Model.vos Plan/Proofs.vos
Print/Model.vo Print/Model.glob Print/Model.v.beautified Print/Model.required_vo: Print/Model.v 
Print/Model.vio: Print/Model.v 
Print/Model.vos Print/Model.vok Print/Model.required_vos: Print/Model.v 
Print/Proofs.vo Print/Proofs.glob Print/Proofs.v.beautified Print/Proofs.required_vo: Print/Proofs.v Print/Model.vo
Print/Proofs.vio: Print/Proofs.v Print/Model.vio
Print/Proofs.vos Print/Proofs.vok Print/Proofs.required_vos: Print/Proofs.v Print/Model.vos
Props/C01.vo Props/C01.glob Props/C01.v.beautified Props/C01.required_vo: Props/C01.v Vm/Model.vo Vm/Lemmas.vo Vm/TypesProofs.vo Vm/Proofs.vo
Props/C01.vio: Props/C01.v Vm/Model.vio Vm/Lemmas.vio Vm/TypesProofs.vio Vm/Proofs.vio
Props/C01.vos Props/C01.vok Props/C01.required_vos: Props/C01.v Vm/Model.vos Vm/Lemmas.vos Vm/TypesProofs.vos Vm/Proofs.vos
Props/C02.vo Props/C02.glob Props/C02.v.beautified Props/C02.required_vo: Props/C02.v Match/Model.vo Match/Proofs.vo Match/SliceExact.vo Match/Witnesses.vo Generated/C02_Builtins.vo
Props/C02.vio: Props/C02.v Match/Model.vio Match/Proofs.vio Match/SliceExact.vio Match/Witnesses.vio Generated/C02_Builtins.vio
Props/C02.vos Props/C02.vok Props/C02.required_vos: Props/C02.v Match/Model.vos Match/Proofs.vos Match/SliceExact.vos Match/Witnesses.vos Generated/C02_Builtins.vos
Props/C03.vo Props/C03.glob Props/C03.v.beautified Props/C03.required_vo: Props/C03.v Generated/C03_ErrorClasses.vo Directors/Model.vo Directors/Spec.vo Directors/Proofs.vo
Props/C03.vio: Props/C03.v Generated/C03_ErrorClasses.vio Directors/Model.vio Directors/Spec.vio Directors/Proofs.vio
Props/C03.vos Props/C03.vok Props/C03.required_vos: Props/C03.v Generated/C03_ErrorClasses.vos Directors/Model.vos Directors/Spec.vos Directors/Proofs.vos
Props/C04.vo Props/C04.glob Props/C04.v.beautified Props/C04.required_vo: Props/C04.v Canon/Model.vo Canon/SortLemmas.vo Canon/Proofs.vo Canon/ErrorProofs.vo
Props/C04.vio: Props/C04.v Canon/Model.vio Canon/SortLemmas.vio Canon/Proofs.vio Canon/ErrorProofs.vio
Props/C04.vos Props/C04.vok Props/C04.required_vos: Props/C04.v Canon/Model.vos Canon/SortLemmas.vos Canon/Proofs.vos Canon/ErrorProofs.vos
Props/C05.vo Props/C05.glob Props/C05.v.beautified Props/C05.required_vo: Props/C05.v Print/Model.vo Print/Proofs.vo
Props/C05.vio: Props/C05.v Print/Model.vio Print/Proofs.vio
Props/C05.vos Props/C05.vok Props/C05.required_vos: Props/C05.v Print/Model.vos Print/Proofs.vos
Props/C06.vo Props/C06.glob Props/C06.v.beautified Props/C06.required_vo: Props/C06.v Conv/Model.vo Conv/Proofs.vo
Props/C06.vio: Props/C06.v Conv/Model.vio Conv/Proofs.vio
Props/C06.vos Props/C06.vok Props/C06.required_vos: Props/C06.v Conv/Model.vos Conv/Proofs.vos
Props/C07.vo Props/C07.glob Props/C07.v.beautified Props/C07.required_vo: Props/C07.v Typegraph/Graph.vo Typegraph/Solver.vo Typegraph/Spec.vo Typegraph/SetLemmas.vo Typegraph/RfgProofs.vo Typegraph/PathProofs.vo Typegraph/SearchProofs.vo Typegraph/SolverProofs.vo Typegraph/ResolveMono.vo Typegraph/ExactProofs.vo Typegraph/WalkProofs.vo Typegraph/FuelProofs.vo Typegraph/SolverReach.vo Typegraph/Reach.vo
Props/C07.vio: Props/C07.v Typegraph/Graph.vio Typegraph/Solver.vio Typegraph/Spec.vio Typegraph/SetLemmas.vio Typegraph/RfgProofs.vio Typegraph/PathProofs.vio Typegraph/SearchProofs.vio Typegraph/SolverProofs.vio Typegraph/ResolveMono.vio Typegraph/ExactProofs.vio Typegraph/WalkProofs.vio Typegraph/FuelProofs.vio Typegraph/SolverReach.vio Typegraph/Reach.vio
Props/C07.vos Props/C07.vok Props/C07.required_vos: Props/C07.v Typegraph/Graph.vos Typegraph/Solver.vos Typegraph/Spec.vos Typegraph/SetLemmas.vos Typegraph/RfgProofs.vos Typegraph/PathProofs.vos Typegraph/SearchProofs.vos Typegraph/SolverProofs.vos Typegraph/ResolveMono.vos Typegraph/ExactProofs.vos Typegraph/WalkProofs.vos Typegraph/FuelProofs.vos Typegraph/SolverReach.vos Typegraph/Reach.vos
Props/C08.vo Props/C08.glob Props/C08.v.beautified Props/C08.required_vo: Props/C08.v Typegraph/History.vo Typegraph/HistoryProofs.vo Generated/C08_Invalidation.vo Typegraph/HistorySolver.vo
Props/C08.vio: Props/C08.v Typegraph/History.vio Typegraph/HistoryProofs.vio Generated/C08_Invalidation.vio Typegraph/HistorySolver.vio
Props/C08.vos Props/C08.vok Props/C08.required_vos: Props/C08.v Typegraph/History.vos Typegraph/HistoryProofs.vos Generated/C08_Invalidation.vos Typegraph/HistorySolver.vos
Props/C09.vo Props/C09.glob Props/C09.v.beautified Props/C09.required_vo: Props/C09.v Typegraph/Reach.vo Typegraph/ReachProofs.vo
Props/C09.vio: Props/C09.v Typegraph/Reach.vio Typegraph/ReachProofs.vio
Props/C09.vos Props/C09.vok Props/C09.required_vos: Props/C09.v Typegraph/Reach.vos Typegraph/ReachProofs.vos
Props/C10.vo Props/C10.glob Props/C10.v.beautified Props/C10.required_vo: Props/C10.v Mro/Model.vo Mro/Proofs.vo
Props/C10.vio: Props/C10.v Mro/Model.vio Mro/Proofs.vio
Props/C10.vos Props/C10.vok Props/C10.required_vos: Props/C10.v Mro/Model.vos Mro/Proofs.vos
Props/C11.vo Props/C11.glob Props/C11.v.beautified Props/C11.required_vo: Props/C11.v Opt/Syntax.vo Generated/C11_Passes.vo Opt/Model.vo Opt/Spec.vo Opt/Proofs.vo Opt/Idem.vo Opt/Stable.vo Opt/Rewrites.vo Opt/RewriteProofs.vo
Props/C11.vio: Props/C11.v Opt/Syntax.vio Generated/C11_Passes.vio Opt/Model.vio Opt/Spec.vio Opt/Proofs.vio Opt/Idem.vio Opt/Stable.vio Opt/Rewrites.vio Opt/RewriteProofs.vio
Props/C11.vos Props/C11.vok Props/C11.required_vos: Props/C11.v Opt/Syntax.vos Generated/C11_Passes.vos Opt/Model.vos Opt/Spec.vos Opt/Proofs.vos Opt/Idem.vos Opt/Stable.vos Opt/Rewrites.vos Opt/RewriteProofs.vos
Props/C12.vo Props/C12.glob Props/C12.v.beautified Props/C12.required_vo: Props/C12.v Serial/Model.vo Serial/Proofs.vo Serial/HashProofs.vo Serial/OrderProofs.vo Serial/Grammar.vo Serial/GrammarProofs.vo Serial/Ast.vo Serial/AstProofs.vo Generated/C12_Schema.vo Serial/SchemaFacts.vo
Props/C12.vio: Props/C12.v Serial/Model.vio Serial/Proofs.vio Serial/HashProofs.vio Serial/OrderProofs.vio Serial/Grammar.vio Serial/GrammarProofs.vio Serial/Ast.vio Serial/AstProofs.vio Generated/C12_Schema.vio Serial/SchemaFacts.vio
Props/C12.vos Props/C12.vok Props/C12.required_vos: Props/C12.v Serial/Model.vos Serial/Proofs.vos Serial/HashProofs.vos Serial/OrderProofs.vos Serial/Grammar.vos Serial/GrammarProofs.vos Serial/Ast.vos Serial/AstProofs.vos Generated/C12_Schema.vos Serial/SchemaFacts.vos
Props/C13.vo Props/C13.glob Props/C13.v.beautified Props/C13.required_vo: Props/C13.v Bind/Model.vo Bind/Proofs.vo Bind/PytdModel.vo Bind/PytdProofs.vo
Props/C13.vio: Props/C13.v Bind/Model.vio Bind/Proofs.vio Bind/PytdModel.vio Bind/PytdProofs.vio
Props/C13.vos Props/C13.vok Props/C13.required_vos: Props/C13.v Bind/Model.vos Bind/Proofs.vos Bind/PytdModel.vos Bind/PytdProofs.vos
Props/C14.vo Props/C14.glob Props/C14.v.beautified Props/C14.required_vo: Props/C14.v Ops/Model.vo Generated/C14_Builtins.vo Ops/Proofs.vo Ops/Closed.vo
Props/C14.vio: Props/C14.v Ops/Model.vio Generated/C14_Builtins.vio Ops/Proofs.vio Ops/Closed.vio
Props/C14.vos Props/C14.vok Props/C14.required_vos: Props/C14.v Ops/Model.vos Generated/C14_Builtins.vos Ops/Proofs.vos Ops/Closed.vos
Props/C15.vo Props/C15.glob Props/C15.v.beautified Props/C15.required_vo: Props/C15.v Io/Model.vo Generated/C15_Handlers.vo Io/Proofs.vo Io/LineProofs.vo
Props/C15.vio: Props/C15.v Io/Model.vio Generated/C15_Handlers.vio Io/Proofs.vio Io/LineProofs.vio
Props/C15.vos Props/C15.vok Props/C15.required_vos: Props/C15.v Io/Model.vos Generated/C15_Handlers.vos Io/Proofs.vos Io/LineProofs.vos
Props/C16.vo Props/C16.glob Props/C16.v.beautified Props/C16.required_vo: Props/C16.v Generated/C16_OpcodeFlags.vo Blocks/Model.vo Blocks/Proofs.vo Blocks/Witness.vo Blocks/ExcProofs.vo
Props/C16.vio: Props/C16.v Generated/C16_OpcodeFlags.vio Blocks/Model.vio Blocks/Proofs.vio Blocks/Witness.vio Blocks/ExcProofs.vio
Props/C16.vos Props/C16.vok Props/C16.required_vos: Props/C16.v Generated/C16_OpcodeFlags.vos Blocks/Model.vos Blocks/Proofs.vos Blocks/Witness.vos Blocks/ExcProofs.vos
Props/C17.vo Props/C17.glob Props/C17.v.beautified Props/C17.required_vo: Props/C17.v Booleq/Model.vo Booleq/Proofs.vo
Props/C17.vio: Props/C17.v Booleq/Model.vio Booleq/Proofs.vio
Props/C17.vos Props/C17.vok Props/C17.required_vos: Props/C17.v Booleq/Model.vos Booleq/Proofs.vos
Props/C18.vo Props/C18.glob Props/C18.v.beautified Props/C18.required_vo: Props/C18.v Flow/Model.vo Flow/Proofs.vo Flow/Frame.vo Flow/FrameProofs.vo
Props/C18.vio: Props/C18.v Flow/Model.vio Flow/Proofs.vio Flow/Frame.vio Flow/FrameProofs.vio
Props/C18.vos Props/C18.vok Props/C18.required_vos: Props/C18.v Flow/Model.vos Flow/Proofs.vos Flow/Frame.vos Flow/FrameProofs.vos
Props/C19.vo Props/C19.glob Props/C19.v.beautified Props/C19.required_vo: Props/C19.v Plan/Model.vo Plan/Proofs.vo Plan/StmtProofs.vo Plan/CoverProofs.vo Plan/GraphProofs.vo
Props/C19.vio: Props/C19.v Plan/Model.vio Plan/Proofs.vio Plan/StmtProofs.vio Plan/CoverProofs.vio Plan/GraphProofs.vio
Props/C19.vos Props/C19.vok Props/C19.required_vos: Props/C19.v Plan/Model.vos Plan/Proofs.vos Plan/StmtProofs.vos Plan/CoverProofs.vos Plan/GraphProofs.vos
Props/C20.vo Props/C20.glob Props/C20.v.beautified Props/C20.required_vo: Props/C20.v Merge/Model.vo Merge/Proofs.vo
Props/C20.vio: Props/C20.v Merge/Model.vio Merge/Proofs.vio
Props/C20.vos Props/C20.vok Props/C20.required_vos: Props/C20.v Merge/Model.vos Merge/Proofs.vos
Serial/Ast.vo Serial/Ast.glob Serial/Ast.v.beautified Serial/Ast.required_vo: Serial/Ast.v Serial/Model.vo Serial/Grammar.vo
Serial/Ast.vio: Serial/Ast.v Serial/Model.vio Serial/Grammar.vio
Serial/Ast.vos Serial/Ast.vok Serial/Ast.required_vos: Serial/Ast.v Serial/Model.vos Serial/Grammar.vos
Serial/AstProofs.vo Serial/AstProofs.glob Serial/AstProofs.v.beautified Serial/AstProofs.required_vo: Serial/AstProofs.v Serial/Model.vo Serial/Proofs.vo Serial/Grammar.vo Serial/GrammarProofs.vo Serial/Ast.vo
Serial/AstProofs.vio: Serial/AstProofs.v Serial/Model.vio Serial/Proofs.vio Serial/Grammar.vio Serial/GrammarProofs.vio Serial/Ast.vio
Serial/AstProofs.vos Serial/AstProofs.vok Serial/AstProofs.required_vos: Serial/AstProofs.v Serial/Model.vos Serial/Proofs.vos Serial/Grammar.vos Serial/GrammarProofs.vos Serial/Ast.vos
Serial/Grammar.vo Serial/Grammar.glob Serial/Grammar.v.beautified Serial/Grammar.required_vo: Serial/Grammar.v Serial/Model.vo
Serial/Grammar.vio: Serial/Grammar.v Serial/Model.vio
Serial/Grammar.vos Serial/Grammar.vok Serial/Grammar.required_vos: Serial/Grammar.v Serial/Model.vos
Serial/GrammarProofs.vo Serial/GrammarProofs.glob Serial/GrammarProofs.v.beautified Serial/GrammarProofs.required_vo: Serial/GrammarProofs.v Serial/Model.vo Serial/Proofs.vo Serial/Grammar.vo
Serial/GrammarProofs.vio: Serial/GrammarProofs.v Serial/Model.vio Serial/Proofs.vio Serial/Grammar.vio
Serial/GrammarProofs.vos Serial/GrammarProofs.vok Serial/GrammarProofs.required_vos: Serial/GrammarProofs.v Serial/Model.vos Serial/Proofs.vos Serial/Grammar.vos
Serial/HashProofs.vo Serial/HashProofs.glob Serial/HashProofs.v.beautified Serial/HashProofs.required_vo: Serial/HashProofs.v Serial/Model.vo Serial/Proofs.vo
Serial/HashProofs.vio: Serial/HashProofs.v Serial/Model.vio Serial/Proofs.vio
Serial/HashProofs.vos Serial/HashProofs.vok Serial/HashProofs.required_vos: Serial/HashProofs.v Serial/Model.vos Serial/Proofs.vos
Serial/Model.vo Serial/Model.glob Serial/Model.v.beautified Serial/Model.required_vo: Serial/Model.v 
Serial/Model.vio: Serial/Model.v 
Serial/Model.vos Serial/Model.vok Serial/Model.required_vos: Serial/Model.v 
Serial/OrderProofs.vo Serial/OrderProofs.glob Serial/OrderProofs.v.beautified Serial/OrderProofs.required_vo: Serial/OrderProofs.v Serial/Model.vo Serial/Proofs.vo Serial/HashProofs.vo
Serial/OrderProofs.vio: Serial/OrderProofs.v Serial/Model.vio Serial/Proofs.vio Serial/HashProofs.vio
Serial/OrderProofs.vos Serial/OrderProofs.vok Serial/OrderProofs.required_vos: Serial/OrderProofs.v Serial/Model.vos Serial/Proofs.vos Serial/HashProofs.vos
Serial/Proofs.vo Serial/Proofs.glob Serial/Proofs.v.beautified Serial/Proofs.required_vo: Serial/Proofs.v Serial/Model.vo
Serial/Proofs.vio: Serial/Proofs.v Serial/Model.vio
Serial/Proofs.vos Serial/Proofs.vok Serial/Proofs.required_vos: Serial/Proofs.v Serial/Model.vos
Serial/SchemaFacts.vo Serial/SchemaFacts.glob Serial/SchemaFacts.v.beautified Serial/SchemaFacts.required_vo: Serial/SchemaFacts.v Serial/Model.vo Serial/Proofs.vo Serial/HashProofs.vo Serial/OrderProofs.vo Serial/Grammar.vo Serial/GrammarProofs.vo Serial/Ast.vo Serial/AstProofs.vo Generated/C12_Schema.vo
Serial/SchemaFacts.vio: Serial/SchemaFacts.v Serial/Model.vio Serial/Proofs.vio Serial/HashProofs.vio Serial/OrderProofs.vio Serial/Grammar.vio Serial/GrammarProofs.vio Serial/Ast.vio Serial/AstProofs.vio Generated/C12_Schema.vio
Serial/SchemaFacts.vos Serial/SchemaFacts.vok Serial/SchemaFacts.required_vos: Serial/SchemaFacts.v Serial/Model.vos Serial/Proofs.vos Serial/HashProofs.vos Serial/OrderProofs.vos Serial/Grammar.vos Serial/GrammarProofs.vos Serial/Ast.vos Serial/AstProofs.vos Generated/C12_Schema.vos
Typegraph/ExactProofs.vo Typegraph/ExactProofs.glob Typegraph/ExactProofs.v.beautified Typegraph/ExactProofs.required_vo: Typegraph/ExactProofs.v Typegraph/Graph.vo Typegraph/Solver.vo Typegraph/Spec.vo Typegraph/SetLemmas.vo Typegraph/RfgProofs.vo Typegraph/PathProofs.vo Typegraph/SearchProofs.vo Typegraph/SolverProofs.vo Typegraph/ResolveMono.vo
Typegraph/ExactProofs.vio: Typegraph/ExactProofs.v Typegraph/Graph.vio Typegraph/Solver.vio Typegraph/Spec.vio Typegraph/SetLemmas.vio Typegraph/RfgProofs.vio Typegraph/PathProofs.vio Typegraph/SearchProofs.vio Typegraph/SolverProofs.vio Typegraph/ResolveMono.vio
Typegraph/ExactProofs.vos Typegraph/ExactProofs.vok Typegraph/ExactProofs.required_vos: Typegraph/ExactProofs.v Typegraph/Graph.vos Typegraph/Solver.vos Typegraph/Spec.vos Typegraph/SetLemmas.vos Typegraph/RfgProofs.vos Typegraph/PathProofs.vos Typegraph/SearchProofs.vos Typegraph/SolverProofs.vos Typegraph/ResolveMono.vos
Typegraph/FuelProofs.vo Typegraph/FuelProofs.glob Typegraph/FuelProofs.v.beautified Typegraph/FuelProofs.required_vo: Typegraph/FuelProofs.v Typegraph/Graph.vo Typegraph/Solver.vo Typegraph/Spec.vo Typegraph/SetLemmas.vo Typegraph/RfgProofs.vo Typegraph/ResolveMono.vo Typegraph/PathProofs.vo Typegraph/SearchProofs.vo Typegraph/SolverProofs.vo
Typegraph/FuelProofs.vio: Typegraph/FuelProofs.v Typegraph/Graph.vio Typegraph/Solver.vio Typegraph/Spec.vio Typegraph/SetLemmas.vio Typegraph/RfgProofs.vio Typegraph/ResolveMono.vio Typegraph/PathProofs.vio Typegraph/SearchProofs.vio Typegraph/SolverProofs.vio
Typegraph/FuelProofs.vos Typegraph/FuelProofs.vok Typegraph/FuelProofs.required_vos: Typegraph/FuelProofs.v Typegraph/Graph.vos Typegraph/Solver.vos Typegraph/Spec.vos Typegraph/SetLemmas.vos Typegraph/RfgProofs.vos Typegraph/ResolveMono.vos Typegraph/PathProofs.vos Typegraph/SearchProofs.vos Typegraph/SolverProofs.vos
Typegraph/Graph.vo Typegraph/Graph.glob Typegraph/Graph.v.beautified Typegraph/Graph.required_vo: Typegraph/Graph.v 
Typegraph/Graph.vio: Typegraph/Graph.v 
Typegraph/Graph.vos Typegraph/Graph.vok Typegraph/Graph.required_vos: Typegraph/Graph.v 
Typegraph/History.vo Typegraph/History.glob Typegraph/History.v.beautified Typegraph/History.required_vo: Typegraph/History.v 
Typegraph/History.vio: Typegraph/History.v 
Typegraph/History.vos Typegraph/History.vok Typegraph/History.required_vos: Typegraph/History.v 
Typegraph/HistoryProofs.vo Typegraph/HistoryProofs.glob Typegraph/HistoryProofs.v.beautified Typegraph/HistoryProofs.required_vo: Typegraph/HistoryProofs.v Typegraph/History.vo
Typegraph/HistoryProofs.vio: Typegraph/HistoryProofs.v Typegraph/History.vio
Typegraph/HistoryProofs.vos Typegraph/HistoryProofs.vok Typegraph/HistoryProofs.required_vos: Typegraph/HistoryProofs.v Typegraph/History.vos
Typegraph/HistorySolver.vo Typegraph/HistorySolver.glob Typegraph/HistorySolver.v.beautified Typegraph/HistorySolver.required_vo: Typegraph/HistorySolver.v Typegraph/Graph.vo Typegraph/Solver.vo Typegraph/Spec.vo Typegraph/SetLemmas.vo Typegraph/PathProofs.vo Typegraph/SolverProofs.vo Typegraph/ExactProofs.vo Typegraph/FuelProofs.vo Typegraph/History.vo Typegraph/HistoryProofs.vo
Typegraph/HistorySolver.vio: Typegraph/HistorySolver.v Typegraph/Graph.vio Typegraph/Solver.vio Typegraph/Spec.vio Typegraph/SetLemmas.vio Typegraph/PathProofs.vio Typegraph/SolverProofs.vio Typegraph/ExactProofs.vio Typegraph/FuelProofs.vio Typegraph/History.vio Typegraph/HistoryProofs.vio
Typegraph/HistorySolver.vos Typegraph/HistorySolver.vok Typegraph/HistorySolver.required_vos: Typegraph/HistorySolver.v Typegraph/Graph.vos Typegraph/Solver.vos Typegraph/Spec.vos Typegraph/SetLemmas.vos Typegraph/PathProofs.vos Typegraph/SolverProofs.vos Typegraph/ExactProofs.vos Typegraph/FuelProofs.vos Typegraph/History.vos Typegraph/HistoryProofs.vos
Typegraph/PathProofs.vo Typegraph/PathProofs.glob Typegraph/PathProofs.v.beautified Typegraph/PathProofs.required_vo: Typegraph/PathProofs.v Typegraph/Graph.vo Typegraph/Solver.vo Typegraph/Spec.vo Typegraph/SetLemmas.vo
Typegraph/PathProofs.vio: Typegraph/PathProofs.v Typegraph/Graph.vio Typegraph/Solver.vio Typegraph/Spec.vio Typegraph/SetLemmas.vio
Typegraph/PathProofs.vos Typegraph/PathProofs.vok Typegraph/PathProofs.required_vos: Typegraph/PathProofs.v Typegraph/Graph.vos Typegraph/Solver.vos Typegraph/Spec.vos Typegraph/SetLemmas.vos
Typegraph/Reach.vo Typegraph/Reach.glob Typegraph/Reach.v.beautified Typegraph/Reach.required_vo: Typegraph/Reach.v 
Typegraph/Reach.vio: Typegraph/Reach.v 
Typegraph/Reach.vos Typegraph/Reach.vok Typegraph/Reach.required_vos: Typegraph/Reach.v 
Typegraph/ReachProofs.vo Typegraph/ReachProofs.glob Typegraph/ReachProofs.v.beautified Typegraph/ReachProofs.required_vo: Typegraph/ReachProofs.v Typegraph/Reach.vo
Typegraph/ReachProofs.vio: Typegraph/ReachProofs.v Typegraph/Reach.vio
Typegraph/ReachProofs.vos Typegraph/ReachProofs.vok Typegraph/ReachProofs.required_vos: Typegraph/ReachProofs.v Typegraph/Reach.vos
Typegraph/ResolveMono.vo Typegraph/ResolveMono.glob Typegraph/ResolveMono.v.beautified Typegraph/ResolveMono.required_vo: Typegraph/ResolveMono.v Typegraph/Graph.vo Typegraph/Solver.vo Typegraph/Spec.vo Typegraph/SetLemmas.vo Typegraph/RfgProofs.vo Typegraph/PathProofs.vo
Typegraph/ResolveMono.vio: Typegraph/ResolveMono.v Typegraph/Graph.vio Typegraph/Solver.vio Typegraph/Spec.vio Typegraph/SetLemmas.vio Typegraph/RfgProofs.vio Typegraph/PathProofs.vio
Typegraph/ResolveMono.vos Typegraph/ResolveMono.vok Typegraph/ResolveMono.required_vos: Typegraph/ResolveMono.v Typegraph/Graph.vos Typegraph/Solver.vos Typegraph/Spec.vos Typegraph/SetLemmas.vos Typegraph/RfgProofs.vos Typegraph/PathProofs.vos
Typegraph/RfgProofs.vo Typegraph/RfgProofs.glob Typegraph/RfgProofs.v.beautified Typegraph/RfgProofs.required_vo: Typegraph/RfgProofs.v Typegraph/Graph.vo Typegraph/Solver.vo Typegraph/Spec.vo Typegraph/SetLemmas.vo
Typegraph/RfgProofs.vio: Typegraph/RfgProofs.v Typegraph/Graph.vio Typegraph/Solver.vio Typegraph/Spec.vio Typegraph/SetLemmas.vio
Typegraph/RfgProofs.vos Typegraph/RfgProofs.vok Typegraph/RfgProofs.required_vos: Typegraph/RfgProofs.v Typegraph/Graph.vos Typegraph/Solver.vos Typegraph/Spec.vos Typegraph/SetLemmas.vos
Typegraph/SearchProofs.vo Typegraph/SearchProofs.glob Typegraph/SearchProofs.v.beautified Typegraph/SearchProofs.required_vo: Typegraph/SearchProofs.v Typegraph/Graph.vo Typegraph/Solver.vo Typegraph/Spec.vo Typegraph/SetLemmas.vo Typegraph/RfgProofs.vo Typegraph/PathProofs.vo
Typegraph/SearchProofs.vio: Typegraph/SearchProofs.v Typegraph/Graph.vio Typegraph/Solver.vio Typegraph/Spec.vio Typegraph/SetLemmas.vio Typegraph/RfgProofs.vio Typegraph/PathProofs.vio
Typegraph/SearchProofs.vos Typegraph/SearchProofs.vok Typegraph/SearchProofs.required_vos: Typegraph/SearchProofs.v Typegraph/Graph.vos Typegraph/Solver.vos Typegraph/Spec.vos Typegraph/SetLemmas.vos Typegraph/RfgProofs.vos Typegraph/PathProofs.vos
Typegraph/SetLemmas.vo Typegraph/SetLemmas.glob Typegraph/SetLemmas.v.beautified Typegraph/SetLemmas.required_vo: Typegraph/SetLemmas.v Typegraph/Graph.vo Typegraph/Solver.vo
Typegraph/SetLemmas.vio: Typegraph/SetLemmas.v Typegraph/Graph.vio Typegraph/Solver.vio
Typegraph/SetLemmas.vos Typegraph/SetLemmas.vok Typegraph/SetLemmas.required_vos: Typegraph/SetLemmas.v Typegraph/Graph.vos Typegraph/Solver.vos
Typegraph/Solver.vo Typegraph/Solver.glob Typegraph/Solver.v.beautified Typegraph/Solver.required_vo: Typegraph/Solver.v Typegraph/Graph.vo
Typegraph/Solver.vio: Typegraph/Solver.v Typegraph/Graph.vio
Typegraph/Solver.vos Typegraph/Solver.vok Typegraph/Solver.required_vos: Typegraph/Solver.v Typegraph/Graph.vos
Typegraph/SolverProofs.vo Typegraph/SolverProofs.glob Typegraph/SolverProofs.v.beautified Typegraph/SolverProofs.required_vo: Typegraph/SolverProofs.v Typegraph/Graph.vo Typegraph/Solver.vo Typegraph/Spec.vo Typegraph/SetLemmas.vo Typegraph/RfgProofs.vo Typegraph/PathProofs.vo Typegraph/SearchProofs.vo
Typegraph/SolverProofs.vio: Typegraph/SolverProofs.v Typegraph/Graph.vio Typegraph/Solver.vio Typegraph/Spec.vio Typegraph/SetLemmas.vio Typegraph/RfgProofs.vio Typegraph/PathProofs.vio Typegraph/SearchProofs.vio
Typegraph/SolverProofs.vos Typegraph/SolverProofs.vok Typegraph/SolverProofs.required_vos: Typegraph/SolverProofs.v Typegraph/Graph.vos Typegraph/Solver.vos Typegraph/Spec.vos Typegraph/SetLemmas.vos Typegraph/RfgProofs.vos Typegraph/PathProofs.vos Typegraph/SearchProofs.vos
Typegraph/SolverReach.vo Typegraph/SolverReach.glob Typegraph/SolverReach.v.beautified Typegraph/SolverReach.required_vo: Typegraph/SolverReach.v Typegraph/Graph.vo Typegraph/Solver.vo Typegraph/Spec.vo Typegraph/SetLemmas.vo Typegraph/Reach.vo Typegraph/ReachProofs.vo
Typegraph/SolverReach.vio: Typegraph/SolverReach.v Typegraph/Graph.vio Typegraph/Solver.vio Typegraph/Spec.vio Typegraph/SetLemmas.vio Typegraph/Reach.vio Typegraph/ReachProofs.vio
Typegraph/SolverReach.vos Typegraph/SolverReach.vok Typegraph/SolverReach.required_vos: Typegraph/SolverReach.v Typegraph/Graph.vos Typegraph/Solver.vos Typegraph/Spec.vos Typegraph/SetLemmas.vos Typegraph/Reach.vos Typegraph/ReachProofs.vos
Typegraph/Spec.vo Typegraph/Spec.glob Typegraph/Spec.v.beautified Typegraph/Spec.required_vo: Typegraph/Spec.v Typegraph/Graph.vo Typegraph/Solver.vo
Typegraph/Spec.vio: Typegraph/Spec.v Typegraph/Graph.vio Typegraph/Solver.vio
Typegraph/Spec.vos Typegraph/Spec.vok Typegraph/Spec.required_vos: Typegraph/Spec.v Typegraph/Graph.vos Typegraph/Solver.vos
Typegraph/WalkProofs.vo Typegraph/WalkProofs.glob Typegraph/WalkProofs.v.beautified Typegraph/WalkProofs.required_vo: Typegraph/WalkProofs.v Typegraph/Graph.vo Typegraph/Solver.vo Typegraph/Spec.vo Typegraph/SetLemmas.vo Typegraph/RfgProofs.vo Typegraph/PathProofs.vo Typegraph/ResolveMono.vo Typegraph/SearchProofs.vo Typegraph/SolverProofs.vo Typegraph/ExactProofs.vo
Typegraph/WalkProofs.vio: Typegraph/WalkProofs.v Typegraph/Graph.vio Typegraph/Solver.vio Typegraph/Spec.vio Typegraph/SetLemmas.vio Typegraph/RfgProofs.vio Typegraph/PathProofs.vio Typegraph/ResolveMono.vio Typegraph/SearchProofs.vio Typegraph/SolverProofs.vio Typegraph/ExactProofs.vio
Typegraph/WalkProofs.vos Typegraph/WalkProofs.vok Typegraph/WalkProofs.required_vos: Typegraph/WalkProofs.v Typegraph/Graph.vos Typegraph/Solver.vos Typegraph/Spec.vos Typegraph/SetLemmas.vos Typegraph/RfgProofs.vos Typegraph/PathProofs.vos Typegraph/ResolveMono.vos Typegraph/SearchProofs.vos Typegraph/SolverProofs.vos Typegraph/ExactProofs.vos
Vm/Lemmas.vo Vm/Lemmas.glob Vm/Lemmas.v.beautified Vm/Lemmas.required_vo: Vm/Lemmas.v Vm/Model.vo
Vm/Lemmas.vio: Vm/Lemmas.v Vm/Model.vio
Vm/Lemmas.vos Vm/Lemmas.vok Vm/Lemmas.required_vos: Vm/Lemmas.v Vm/Model.vos
Vm/Model.vo Vm/Model.glob Vm/Model.v.beautified Vm/Model.required_vo: Vm/Model.v 
Vm/Model.vio: Vm/Model.v 
Vm/Model.vos Vm/Model.vok Vm/Model.required_vos: Vm/Model.v 
Vm/Proofs.vo Vm/Proofs.glob Vm/Proofs.v.beautified Vm/Proofs.required_vo: Vm/Proofs.v Vm/Model.vo Vm/Lemmas.vo Vm/TypesProofs.vo
Vm/Proofs.vio: Vm/Proofs.v Vm/Model.vio Vm/Lemmas.vio Vm/TypesProofs.vio
Vm/Proofs.vos Vm/Proofs.vok Vm/Proofs.required_vos: Vm/Proofs.v Vm/Model.vos Vm/Lemmas.vos Vm/TypesProofs.vos
Vm/TypesProofs.vo Vm/TypesProofs.glob Vm/TypesProofs.v.beautified Vm/TypesProofs.required_vo: Vm/TypesProofs.v Vm/Model.vo Vm/Lemmas.vo
Vm/TypesProofs.vio: Vm/TypesProofs.v Vm/Model.vio Vm/Lemmas.vio
Vm/TypesProofs.vos Vm/TypesProofs.vok Vm/TypesProofs.required_vos: Vm/TypesProofs.v Vm/Model.vos Vm/Lemmas.vos
