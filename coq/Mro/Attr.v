(* C10 model, part 2.  Definitions only (no proofs).

   (a) super() lookups
       pytype:  pytype/attribute.py _get_attribute_from_super_instance (choice of starting_cls, the skip SET built from
                starting_cls.mro up to and including current_cls), _lookup_from_mro/_lookup_from_mro_flat with `skip`;
                pytype/overlays/special_builtins.py Super.call (zero-, one- and two-argument forms build the same
                SuperInstance(cls, obj)).
       CPython: Objects/typeobject.c (3.12) supercheck, _super_lookup_descr (index walk over su_obj_type->tp_mro).
   (b) attribute read on an instance whose dictionary was filled by a cooperative chain of __init__ methods:
       pytype attribute.py _get_attribute (__getattribute__ hook, instance member, class MRO, __getattr__ hook);
       CPython: slot_tp_getattr_hook / PyObject_GenericGetAttr for a program without data descriptors.
   (c) Generic[...] / parameterised bases in class_mixin.Class.compute_mro: abstract_utils.get_mro_bases, the identity
       based duplicate check, the renaming parameterised class -> base_cls before MROMerge and base2cls afterwards;
       CPython: typing._GenericAlias.__mro_entries__ (types.resolve_bases) followed by mro_implementation.

   Classes are natural numbers as in Model.v; [attrs] maps a class to the names its body defines. *)
From Coq Require Import List Arith Bool.
From PV Require Import Mro.Model.
Import ListNotations.

(* ------------------------------------------------------------------------------------------------ *)
(* (a) super()                                                                                        *)

(* skip = set()
   for base in starting_cls.mro:
     skip.add(base)
     if base.full_name == current_cls.full_name: break *)
Fixpoint skip_set (mro : list nat) (cur : nat) : list nat :=
  match mro with
  | [] => []
  | b :: rest => if Nat.eqb b cur then [b] else b :: skip_set rest cur
  end.

(* _lookup_from_mro(node, cls, name, valself, skip): `for base in cls.mro:` _lookup_from_mro_flat returns None
   `if base in skip`, otherwise the member if the class body has it; the first hit ends the loop. *)
Definition lookup_skip (attrs : list (list nat)) (mro skip : list nat) (name : nat) : option nat :=
  find (fun b => negb (mem b skip) && defines attrs name b) mro.

Definition super_lookup_py (attrs : list (list nat)) (mro : list nat) (cur name : nat) : option nat :=
  lookup_skip attrs mro (skip_set mro cur) name.

(* _super_lookup_descr:
     mro = su_obj_type->tp_mro;  n = PyTuple_GET_SIZE(mro);
     // No need to check the last one: it's gonna be skipped anyway.
     for (i = 0; i+1 < n; i++) if (su_type == PyTuple_GET_ITEM(mro, i)) break;
   [c_find_index mro cur i] = value of i when the loop ends, started at i on the remaining tuple *)
Fixpoint c_find_index (mro : list nat) (cur : nat) (i : nat) : nat :=
  match mro with
  | [] => i
  | b :: rest =>
    match rest with
    | [] => i                                            (* i+1 < n is false *)
    | _ :: _ => if Nat.eqb b cur then i else c_find_index rest cur (S i)
    end
  end.

(*   i++;  // skip su->type (if any)
     if (i >= n) return NULL;
     do { dict = lookup_tp_dict(mro[i]); res = PyDict_GetItemWithError(dict, name); if (res != NULL) return res; i++; }
     while (i < n);  return NULL; *)
Definition super_lookup_c (attrs : list (list nat)) (mro : list nat) (cur name : nat) : option nat :=
  let i := S (c_find_index mro cur 0) in
  if length mro <=? i then None else find (defines attrs name) (skipn i mro).

(* the classes strictly after the first occurrence of [cur] (nothing if [cur] does not occur) *)
Fixpoint after (cur : nat) (mro : list nat) : list nat :=
  match mro with
  | [] => []
  | b :: rest => if Nat.eqb b cur then rest else after cur rest
  end.

(* The second argument of super (explicit, or the first argument of the calling function for the zero-argument form):
   an instance of class c (ordinary method, __init__) or the class object c itself (classmethod; metaclass = type). *)
Inductive sobj : Type := SInst (c : nat) | SCls (c : nat).

(* starting_cls in _get_attribute_from_super_instance for a metaclass-free program:
     if obj.super_obj.cls.full_name == "builtins.type" ...: starting_cls = obj.super_cls     <- super_obj is a class
     elif obj.super_cls in obj.super_obj.mro: ...   (an instance's mro is (instance,): never true; a class with a
                                                     custom metaclass: outside the model)
     else: starting_cls = obj.super_obj.cls                                                 <- super_obj is an instance *)
Definition start_py (o : sobj) (cur : nat) : nat :=
  match o with SInst c => c | SCls _ => cur end.

(* supercheck(type, obj): a class object that is a subtype of `type` is used as is (classmethod), otherwise Py_TYPE(obj) *)
Definition start_c (o : sobj) : nat := match o with SInst c => c | SCls c => c end.

(* super(cur, o).name in a program whose classes have the MROs [mros] *)
Definition super_attr_py (mros attrs : list (list nat)) (o : sobj) (cur name : nat) : option nat :=
  super_lookup_py attrs (mro_of mros (start_py o cur)) cur name.
Definition super_attr_c (mros attrs : list (list nat)) (o : sobj) (cur name : nat) : option nat :=
  super_lookup_c attrs (mro_of mros (start_c o)) cur name.

(* on a class table *)
Definition super_py (dupcheck : bool) (H attrs : list (list nat)) (o : sobj) (cur name : nat) : option nat :=
  super_attr_py (table_mros (mros_py dupcheck H)) attrs o cur name.
Definition super_c (H attrs : list (list nat)) (o : sobj) (cur name : nat) : option nat :=
  super_attr_c (table_mros (mros_c H)) attrs o cur name.

(* A cooperative chain: every definition of [name] calls super().name(...).  [sl c] = the definition that the super()
   call inside class c's definition resolves to; the chain of definitions that run, outermost first. *)
Fixpoint chain_from (sl : nat -> option nat) (fuel : nat) (cur : option nat) : list nat :=
  match fuel with
  | O => []
  | S f => match cur with None => [] | Some c => c :: chain_from sl f (sl c) end
  end.
Definition super_chain_py (attrs : list (list nat)) (mro : list nat) (name : nat) : list nat :=
  chain_from (fun c => super_lookup_py attrs mro c name) (S (length mro)) (lookup attrs mro name).
Definition super_chain_c (attrs : list (list nat)) (mro : list nat) (name : nat) : list nat :=
  chain_from (fun c => super_lookup_c attrs mro c name) (S (length mro)) (lookup attrs mro name).

(* ------------------------------------------------------------------------------------------------ *)
(* (b) instance dictionary filled by __init__, then an attribute read on the instance                 *)

(* how class c writes its __init__ ([inits] is indexed by class):
     0  no __init__ in the body
     1  def __init__(self): self.<n> = T_c() for n in names;  super().__init__()
     2  def __init__(self): super().__init__();  self.<n> = T_c() for n in names
     3  def __init__(self): self.<n> = T_c() for n in names                (no super call)
   object (class 0) has the __init__ that does nothing (kind 3, no names). *)
Definition init_kind (inits : list (nat * list nat)) (c : nat) : nat := fst (nth c inits (0, [])).
Definition init_names (inits : list (nat * list nat)) (c : nat) : list nat := snd (nth c inits (0, [])).
Definition has_init (inits : list (nat * list nat)) (c : nat) : bool := negb (Nat.eqb (init_kind inits c) 0).

(* the stores `self.n = T_c()` in execution order; [sl c] = what super().__init__ resolves to inside class c *)
Fixpoint run_init (inits : list (nat * list nat)) (sl : nat -> option nat) (fuel : nat) (cur : option nat)
  : list (nat * nat) :=
  match fuel with
  | O => []
  | S f =>
    match cur with
    | None => []
    | Some c =>
      let w := map (fun n => (n, c)) (init_names inits c) in
      match init_kind inits c with
      | 1 => w ++ run_init inits sl f (sl c)
      | 2 => run_init inits sl f (sl c) ++ w
      | 3 => w
      | _ => []
      end
    end
  end.

(* the value a later store leaves in the instance dictionary: the LAST store to [name] *)
Definition inst_get (writes : list (nat * nat)) (name : nat) : option nat :=
  match find (fun w => Nat.eqb (fst w) name) (rev writes) with Some w => Some (snd w) | None => None end.

(* __init__ lookups see the classes whose body defines __init__ *)
Definition init_attrs (inits : list (nat * list nat)) (n : nat) : list (list nat) :=
  map (fun c => if has_init inits c then [0] else []) (seq 0 n).

Definition inst_dict_py (inits : list (nat * list nat)) (mro : list nat) (n : nat) : list (nat * nat) :=
  run_init inits (fun c => super_lookup_py (init_attrs inits n) mro c 0) (S (length mro))
           (lookup (init_attrs inits n) mro 0).
Definition inst_dict_c (inits : list (nat * list nat)) (mro : list nat) (n : nat) : list (nat * nat) :=
  run_init inits (fun c => super_lookup_c (init_attrs inits n) mro c 0) (S (length mro))
           (lookup (init_attrs inits n) mro 0).

Inductive ares : Type :=
| AHook (hook : nat) (c : nat)   (* computed by class c's __getattribute__ (hook 0) / __getattr__ (hook 1) *)
| AInst (c : nat)                (* stored by class c's __init__ *)
| ACls (c : nat)                 (* found in the body of class c *)
| AMissing.

(* _lookup_from_mro(cls, "__getattribute__" / "__getattr__", skip={object}) / CPython: the type slot is the hook only if a
   class other than object defines the dunder.  [hooks] : class -> which hooks (0/1) its body defines. *)
Definition hook_lookup (hooks : list (list nat)) (mro : list nat) (hook : nat) : option nat :=
  find (fun b => negb (Nat.eqb b 0) && defines hooks hook b) mro.

(* attribute.py _get_attribute for an Instance (cls given, name not a dunder):
     __getattribute__ hook; else the instance's own member; else the class (first in MRO); else __getattr__ hook.
   CPython, no data descriptors: slot_tp_getattr_hook -> user __getattribute__ if any, else PyObject_GenericGetAttr
   (instance __dict__, then type MRO), AttributeError -> __getattr__ if any. *)
Definition getattr_inst (hooks attrs : list (list nat)) (mro : list nat) (dict : list (nat * nat)) (name : nat) : ares :=
  match hook_lookup hooks mro 0 with
  | Some c => AHook 0 c
  | None =>
    match inst_get dict name with
    | Some c => AInst c
    | None =>
      match lookup attrs mro name with
      | Some c => ACls c
      | None => match hook_lookup hooks mro 1 with Some c => AHook 1 c | None => AMissing end
      end
    end
  end.

(* `C<c>().name` *)
Definition read_inst_py (dupcheck : bool) (H attrs hooks : list (list nat)) (inits : list (nat * list nat))
                        (c name : nat) : ares :=
  let mro := mro_of (table_mros (mros_py dupcheck H)) c in
  getattr_inst hooks attrs mro (inst_dict_py inits mro (length H)) name.
Definition read_inst_c (H attrs hooks : list (list nat)) (inits : list (nat * list nat)) (c name : nat) : ares :=
  let mro := mro_of (table_mros (mros_c H)) c in
  getattr_inst hooks attrs mro (inst_dict_c inits mro (length H)) name.

(* ------------------------------------------------------------------------------------------------ *)
(* (c) Generic[...] and parameterised bases                                                            *)

(* A base as written: (class, tag); tag 0 = the plain class, tag > 0 = the class subscripted (A[T], A[int], Generic[T]):
   an abstract parameterised-class object in pytype, a typing._GenericAlias at run time.  Class [gen_id] is typing.Generic.
   Each written subscription is a fresh object (two occurrences of A[int] are not identical). *)
Definition gref : Type := (nat * nat)%type.
Definition gen_id : nat := 1.
Definition is_alias (e : gref) : bool := negb (Nat.eqb (snd e) 0).
Definition is_gen (e : gref) : bool := Nat.eqb (fst e) gen_id.

(* abstract_utils.get_mro_bases: has_user_generic = some base is a parameterised class other than typing.Generic[...];
   then every base whose full_name is typing.Generic is dropped *)
Definition get_mro_bases (bases : list gref) : list gref :=
  if existsb (fun e => is_alias e && negb (is_gen e)) bases
  then filter (fun e => negb (is_gen e)) bases
  else bases.

(* `base is b`: the same object *)
Definition same_obj (e1 e2 : gref) : bool :=
  Nat.eqb (snd e1) 0 && Nat.eqb (snd e2) 0 && Nat.eqb (fst e1) (fst e2).
Fixpoint ident_dup (seen : list gref) (bases : list gref) : bool :=
  match bases with
  | [] => false
  | b :: rest => existsb (same_obj b) seen || ident_dup (seen ++ [b]) rest
  end.

(* base.mro: a Class has the tuple computed at creation; the parameterised class: compute_mro = (self,) + base_cls.mro[1:] *)
Definition gmro_of (done : list (list gref)) (e : gref) : list gref :=
  if is_alias e then e :: tl (nth (fst e) done []) else nth (fst e) done [].

(* base2cls: dict keyed by base_cls, later rows overwrite *)
Fixpoint base2cls_get (rows_flat : list gref) (c : nat) (dflt : gref) : gref :=
  match rows_flat with
  | [] => dflt
  | e :: rest => base2cls_get rest c (if Nat.eqb (fst e) c then e else dflt)
  end.

Definition map_res {A B : Type} (f : A -> B) (r : res A) : res B :=
  match r with Ok a => Ok (f a) | Reject => Reject | OutOfFuel => OutOfFuel | Crash => Crash end.

(* class_mixin.Class.compute_mro, whole body *)
Definition class_mro_gen (done : list (list gref)) (self : nat) (written : list gref) : res (list gref) :=
  let bases := get_mro_bases written in
  if ident_dup [] bases then Reject
  else
    let rows := [(self, 0)] :: map (gmro_of done) bases ++ [bases] in
    map_res (map (fun c => base2cls_get (concat rows) c (c, 0)))
            (merge_py (map (map fst) rows)).

(* typing: _GenericAlias.__mro_entries__(bases) per written base (types.resolve_bases / __build_class__):
     Generic[...]  ->  ()  if a later base is a generic alias, else (Generic,);   A[...] -> (A,);   plain class stays *)
Fixpoint c_resolve (written : list gref) : list nat :=
  match written with
  | [] => []
  | e :: rest =>
    if is_alias e && is_gen e && existsb is_alias rest then c_resolve rest
    else fst e :: c_resolve rest
  end.
Definition class_mro_c_gen (done : list (list nat)) (self : nat) (written : list gref) : res (list nat) :=
  class_mro_c done self (c_resolve written).

(* what pytype merges, as a plain class statement: the classes of the bases kept by get_mro_bases *)
Definition py_resolve (written : list gref) : list nat := map fst (get_mro_bases written).

Inductive gtable_result : Type :=
| GOk (mros : list (list gref))
| GErr (mros : list (list gref)) (failing : nat)
| GBad (mros : list (list gref)) (failing : nat).

Fixpoint run_gtable (done : list (list gref)) (todo : list (list gref)) : gtable_result :=
  match todo with
  | [] => GOk done
  | written :: rest =>
    match class_mro_gen done (length done) written with
    | Ok m => run_gtable (done ++ [m]) rest
    | Reject => GErr done (length done)
    | _ => GBad done (length done)
    end
  end.
Definition gmros_py (G : list (list gref)) : gtable_result := run_gtable [] G.
Definition gmros_c (G : list (list gref)) : table_result :=
  run_table class_mro_c [] (map c_resolve G).

(* the comparison: the classes of pytype's MRO entries, in order, against CPython's __mro__ *)
Definition gproject (r : gtable_result) : table_result :=
  match r with
  | GOk m => TableOk (map (map fst) m)
  | GErr m i => TableErr (map (map fst) m) i
  | GBad m i => TableBad (map (map fst) m) i
  end.

(* hypotheses *)
Definition gwf_bases (self : nat) (written : list gref) : bool := forallb (fun e => fst e <? self) written.
Fixpoint gwf_from (i : nat) (G : list (list gref)) : bool :=
  match G with [] => true | w :: rest => gwf_bases i w && gwf_from (S i) rest end.
Definition gwf_table (G : list (list gref)) : bool := gwf_from 0 G.
Fixpoint list_eqb (l1 l2 : list nat) : bool :=
  match l1, l2 with
  | [], [] => true
  | a :: t1, b :: t2 => Nat.eqb a b && list_eqb t1 t2
  | _, _ => false
  end.
(* both sides read the class statement as the same list of distinct classes *)
Definition same_reading (written : list gref) : bool :=
  list_eqb (py_resolve written) (c_resolve written) && check_duplicates (c_resolve written).
Definition same_reading_table (G : list (list gref)) : bool := forallb same_reading G.

(* CPython run on the class statements as pytype reads them (Generic dropped by get_mro_bases, aliases -> their class) *)
Definition gmros_c_py_reading (G : list (list gref)) : table_result :=
  run_table class_mro_c [] (map py_resolve G).
(* the two readings of every class statement lead CPython to the same classes *)
Definition readings_agree (G : list (list gref)) : Prop := gmros_c_py_reading G = gmros_c G.
