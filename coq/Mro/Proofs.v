(* C10 proofs over Mro/Model.v.
   Method: both executable algorithms (pytype's list-deleting MergeSequences and CPython's index-vector
   pmerge) are shown equal, step for step and for every fuel, to one specification loop [spec_loop]
   ("take the first head that is in no tail; delete it from every sequence it heads"). *)
From Coq Require Import List Arith Bool Lia.
From PV Require Import Mro.Model.
Import ListNotations.

(* ------------------------------------------------------------------------------------------------ *)
(* basic facts *)

Lemma mem_In : forall x l, mem x l = true <-> In x l.
Proof.
  unfold mem; intros; rewrite existsb_exists; split.
  - intros [y [Hy He]]. apply Nat.eqb_eq in He. subst; auto.
  - intros Hi. exists x. split; auto. apply Nat.eqb_refl.
Qed.

Lemma mem_false : forall x l, mem x l = false <-> ~ In x l.
Proof.
  intros. rewrite <- mem_In. destruct (mem x l); split; intros H; try congruence.
Qed.

Lemma total_len_app : forall a b, total_len (a ++ b) = total_len a + total_len b.
Proof. induction a; simpl; intros; auto. rewrite IHa. lia. Qed.

Definition nodup_each (seqs : list (list nat)) : Prop := Forall (@NoDup nat) seqs.

(* ---- Dedup ---- *)
Lemma dedup_aux_spec : forall seq seen,
  NoDup (dedup_aux seen seq) /\
  (forall x, In x (dedup_aux seen seq) <-> In x seq /\ ~ In x seen).
Proof.
  induction seq as [|s t IH]; intros seen; simpl.
  - split. constructor. intros; tauto.
  - destruct (IH (s :: seen)) as [Hn Hi].
    destruct (mem s seen) eqn:E.
    + split; auto. intros x. rewrite Hi. apply mem_In in E. simpl.
      split.
      * intros [H1 H2]. split; auto.
      * intros [[H1|H1] H2]; subst; try tauto.
        split; auto. intros [H3|H3]; subst; tauto.
    + apply mem_false in E. split.
      * constructor; auto. rewrite Hi. simpl. tauto.
      * intros x. simpl. rewrite Hi. simpl.
        destruct (Nat.eq_dec s x) as [Heq|Hne]; [subst; tauto|tauto].
Qed.

Lemma dedup_nodup : forall s, NoDup (dedup s).
Proof. intros. apply dedup_aux_spec. Qed.

Lemma dedup_In : forall s x, In x (dedup s) <-> In x s.
Proof. intros. unfold dedup. rewrite (proj2 (dedup_aux_spec s [])). simpl; tauto. Qed.

Lemma dedup_aux_id : forall seq seen,
  NoDup seq -> (forall x, In x seq -> ~ In x seen) -> dedup_aux seen seq = seq.
Proof.
  induction seq as [|s t IH]; intros seen Hn Hd; simpl; auto.
  inversion Hn; subst.
  assert (E : mem s seen = false) by (apply mem_false; apply Hd; simpl; auto).
  rewrite E. f_equal. apply IH; auto.
  intros x Hx [H|H]; subst; auto. apply (Hd x); simpl; auto.
Qed.

Lemma dedup_id : forall s, NoDup s -> dedup s = s.
Proof. intros. apply dedup_aux_id; auto. Qed.

Lemma map_dedup_id : forall seqs, nodup_each seqs -> map dedup seqs = seqs.
Proof.
  induction 1; simpl; auto. rewrite dedup_id; auto. congruence.
Qed.

Lemma map_dedup_nodup : forall seqs, nodup_each (map dedup seqs).
Proof. induction seqs; simpl; constructor; auto. apply dedup_nodup. Qed.

(* ------------------------------------------------------------------------------------------------ *)
(* the specification loop *)

Definition in_tail (c : nat) (seqs : list (list nat)) : bool := existsb (fun s => mem c (tl s)) seqs.

Fixpoint pick (all todo : list (list nat)) : option nat :=
  match todo with
  | [] => None
  | [] :: rest => pick all rest
  | (c :: _) :: rest => if in_tail c all then pick all rest else Some c
  end.

Fixpoint spec_loop (fuel : nat) (seqs : list (list nat)) (acc : list nat) : res (list nat) :=
  match fuel with
  | O => OutOfFuel
  | S f =>
    if forallb is_nil seqs then Ok (rev acc)
    else match pick seqs seqs with
         | Some c => spec_loop f (remove_heads c seqs) (c :: acc)
         | None => Reject
         end
  end.

Definition spec_merge (acc0 : list nat) (seqs : list (list nat)) : res (list nat) :=
  spec_loop (S (total_len seqs)) seqs (rev acc0).

(* ---- pytype's loop equals the specification loop ---- *)

Lemma py_in_other_tail_spec : forall c i seqs j,
  (forall k, j + k = i -> mem c (tl (nth k seqs [])) = false) ->
  py_in_other_tail c i j seqs = in_tail c seqs.
Proof.
  induction seqs as [|s rest IH]; intros j Hk; simpl; auto.
  rewrite (IH (S j)).
  2:{ intros k Hjk. apply (Hk (S k)). lia. }
  f_equal.
  destruct (Nat.eqb j i) eqn:E.
  - apply Nat.eqb_eq in E. specialize (Hk 0). simpl in Hk. rewrite Hk by lia. reflexivity.
  - simpl. destruct s; simpl; auto. rewrite ?andb_true_r. reflexivity.
Qed.

Lemma py_pick_spec : forall todo pre,
  nodup_each (pre ++ todo) ->
  py_pick no_sing (pre ++ todo) (length pre) todo =
  match pick (pre ++ todo) todo with Some c => PickOk c | None => PickNone end.
Proof.
  induction todo as [|seq rest IH]; intros pre Hn; simpl; auto.
  assert (Hstep : py_pick no_sing (pre ++ seq :: rest) (S (length pre)) rest =
                  match pick (pre ++ seq :: rest) rest with Some c => PickOk c | None => PickNone end).
  { specialize (IH (pre ++ [seq])). rewrite <- app_assoc in IH. simpl in IH.
    rewrite app_length in IH. simpl in IH. rewrite Nat.add_1_r in IH. apply IH. exact Hn. }
  destruct seq as [|cand t]; auto.
  unfold no_sing at 1.
  rewrite py_in_other_tail_spec.
  - destruct (in_tail cand (pre ++ (cand :: t) :: rest)); auto.
  - intros k Hk. simpl in Hk. subst k. rewrite app_nth2 by lia. rewrite Nat.sub_diag. simpl.
    apply mem_false. unfold nodup_each in Hn. rewrite Forall_forall in Hn.
    assert (Hc : NoDup (cand :: t)) by (apply Hn; apply in_or_app; right; left; reflexivity).
    inversion Hc; auto.
Qed.

Lemma drop_head_nodup : forall c s, NoDup s -> NoDup (drop_head c s).
Proof.
  intros c [|h t] Hn; simpl; auto. destruct (Nat.eqb h c); auto. inversion Hn; auto.
Qed.

Lemma remove_heads_nodup : forall c seqs, nodup_each seqs -> nodup_each (remove_heads c seqs).
Proof.
  unfold nodup_each, remove_heads. intros c seqs H. induction H; simpl; constructor; auto.
  apply drop_head_nodup; auto.
Qed.

Lemma py_loop_spec : forall fuel seqs acc,
  nodup_each seqs -> py_loop no_sing fuel seqs acc = spec_loop fuel seqs acc.
Proof.
  induction fuel; intros seqs acc Hn; simpl; auto.
  destruct (forallb is_nil seqs); auto.
  pose proof (py_pick_spec seqs [] Hn) as Hp. simpl in Hp. rewrite Hp.
  destruct (pick seqs seqs); auto.
  apply IHfuel. apply remove_heads_nodup; auto.
Qed.

(* ---- CPython's loop equals the specification loop ---- *)

Definition cur (p : list nat * nat) : list nat := skipn (snd p) (fst p).
Definition abs (st : list (list nat * nat)) : list (list nat) := map cur st.

Lemma skipn_S_tl : forall (l : list nat) r, skipn (S r) l = tl (skipn r l).
Proof.
  induction l; intros; simpl.
  - destruct r; reflexivity.
  - destruct r; [reflexivity|]. change (skipn (S r) l = tl (skipn r l)). apply IHl.
Qed.

Lemma skipn_nil_iff : forall (l : list nat) r, skipn r l = [] <-> length l <= r.
Proof.
  induction l; intros; simpl.
  - destruct r; simpl; split; auto; lia.
  - destruct r; simpl.
    + split; intros; try discriminate; lia.
    + rewrite IHl. lia.
Qed.

Lemma skipn_cons_nth : forall (l : list nat) r, r < length l ->
  skipn r l = nth r l 0 :: skipn (S r) l.
Proof.
  induction l; intros r Hr; simpl in *; try lia.
  destruct r; simpl; auto. apply IHl. lia.
Qed.

Lemma tail_contains_abs : forall all c,
  existsb (fun p => tail_contains (fst p) (snd p) c) all = in_tail c (abs all).
Proof.
  induction all as [|[l r] rest IH]; intros; simpl; auto.
  rewrite IH. f_equal. unfold tail_contains, cur. cbn [fst snd]. rewrite skipn_S_tl. reflexivity.
Qed.

Fixpoint count_nil (seqs : list (list nat)) : nat :=
  match seqs with
  | [] => 0
  | s :: rest => (if is_nil s then 1 else 0) + count_nil rest
  end.

Lemma c_scan_spec : forall all todo e,
  c_scan all todo e =
  match pick (abs all) (abs todo) with
  | Some c => ScanFound c
  | None => ScanEnd (e + count_nil (abs todo))
  end.
Proof.
  induction todo as [|[l r] rest IH]; intros e; simpl.
  - f_equal. lia.
  - unfold cur. cbn [fst snd].
    destruct (length l <=? r) eqn:E.
    + apply Nat.leb_le in E. pose proof (proj2 (skipn_nil_iff l r) E) as Hs. rewrite Hs. simpl.
      rewrite IH. destruct (pick (abs all) (abs rest)); auto. f_equal. lia.
    + apply Nat.leb_gt in E. rewrite (skipn_cons_nth l r E). simpl.
      rewrite tail_contains_abs.
      destruct (in_tail (nth r l 0) (abs all)); auto.
Qed.

Lemma count_nil_all : forall seqs, Nat.eqb (count_nil seqs) (length seqs) = forallb is_nil seqs.
Proof.
  assert (Hle : forall seqs, count_nil seqs <= length seqs).
  { induction seqs; simpl; auto. destruct (is_nil a); lia. }
  induction seqs as [|s rest IH]; simpl; auto.
  destruct (is_nil s); simpl.
  - exact IH.
  - specialize (Hle rest). apply Nat.eqb_neq. lia.
Qed.

Lemma pick_all_nil : forall all todo, forallb is_nil todo = true -> pick all todo = None.
Proof.
  induction todo as [|s rest IH]; simpl; auto. destruct s; simpl; auto. discriminate.
Qed.

Lemma c_advance_abs : forall c st, abs (map (c_advance c) st) = remove_heads c (abs st).
Proof.
  unfold abs, remove_heads. intros. rewrite !map_map. apply map_ext.
  intros [l r]. unfold c_advance, cur. simpl.
  destruct (r <? length l) eqn:E; simpl.
  - apply Nat.ltb_lt in E. rewrite (skipn_cons_nth l r E). simpl.
    destruct (Nat.eqb (nth r l 0) c); simpl; auto. rewrite <- skipn_cons_nth; auto.
  - apply Nat.ltb_ge in E. rewrite (proj2 (skipn_nil_iff l r) E). reflexivity.
Qed.

Lemma c_loop_spec : forall fuel st acc, c_loop fuel st acc = spec_loop fuel (abs st) acc.
Proof.
  induction fuel; intros; simpl; auto.
  rewrite c_scan_spec. simpl.
  destruct (forallb is_nil (abs st)) eqn:E.
  - rewrite pick_all_nil by auto.
    rewrite <- (map_length cur st). fold (abs st). rewrite count_nil_all, E. reflexivity.
  - destruct (pick (abs st) (abs st)).
    + rewrite IHfuel, c_advance_abs. reflexivity.
    + rewrite <- (map_length cur st). fold (abs st). rewrite count_nil_all, E. reflexivity.
Qed.

Lemma abs_init : forall tm, abs (map (fun t => (t, 0)) tm) = tm.
Proof. unfold abs. intros. rewrite map_map. simpl. apply map_id. Qed.

Lemma pmerge_spec : forall acc0 tm, pmerge acc0 tm = spec_merge acc0 tm.
Proof. intros. unfold pmerge, spec_merge. rewrite c_loop_spec, abs_init. reflexivity. Qed.

Lemma merge_py_spec : forall seqs, merge_py seqs = spec_merge [] (map dedup seqs).
Proof.
  intros. unfold merge_py, merge_py_gen, merge_sequences, spec_merge. change (rev []) with (@nil nat).
  apply py_loop_spec. apply map_dedup_nodup.
Qed.

(* pytype's MROMerge = CPython's pmerge on the de-duplicated sequences, for ALL inputs *)
Lemma merge_agree_dedup_lemma : forall seqs, merge_py seqs = merge_c (map dedup seqs).
Proof. intros. unfold merge_c. rewrite pmerge_spec. apply merge_py_spec. Qed.

Lemma merge_agree_lemma : forall seqs, nodup_each seqs -> merge_py seqs = merge_c seqs.
Proof. intros. rewrite merge_agree_dedup_lemma, map_dedup_id; auto. Qed.

(* ------------------------------------------------------------------------------------------------ *)
(* SINGLETON branch is dead when no class is a singleton *)

Definition no_sing_in (sing : nat -> bool) (seqs : list (list nat)) : Prop :=
  forall s x, In s seqs -> In x s -> sing x = false.

Lemma py_pick_nosing : forall sing all todo i,
  no_sing_in sing todo -> py_pick sing all i todo = py_pick no_sing all i todo.
Proof.
  induction todo as [|seq rest IH]; intros i Hs; simpl; auto.
  assert (Hr : no_sing_in sing rest) by (intros s x H1 H2; apply (Hs s x); simpl; auto).
  destruct seq as [|cand t]; auto.
  rewrite (Hs (cand :: t) cand) by (simpl; auto). change (no_sing cand) with false.
  rewrite IH by auto. reflexivity.
Qed.

Lemma drop_head_incl : forall c s x, In x (drop_head c s) -> In x s.
Proof. intros c [|h t] x; simpl; auto. destruct (Nat.eqb h c); simpl; auto. Qed.

Lemma remove_heads_no_sing : forall sing c seqs, no_sing_in sing seqs -> no_sing_in sing (remove_heads c seqs).
Proof.
  intros sing c seqs H s x Hs Hx. unfold remove_heads in Hs. apply in_map_iff in Hs.
  destruct Hs as [s0 [E Hs0]]. subst. apply (H s0 x); auto. eapply drop_head_incl; eauto.
Qed.

Lemma py_pick_no_singleton : forall all todo i c, py_pick no_sing all i todo <> PickSingleton c.
Proof.
  induction todo as [|seq rest IH]; simpl; intros i c; try discriminate.
  destruct seq as [|cand t]; auto. change (no_sing cand) with false.
  destruct (py_in_other_tail cand i 0 all); auto. discriminate.
Qed.

Lemma py_loop_nosing : forall sing fuel seqs acc,
  no_sing_in sing seqs -> py_loop sing fuel seqs acc = py_loop no_sing fuel seqs acc.
Proof.
  induction fuel; intros seqs acc Hs; simpl; auto.
  destruct (forallb is_nil seqs); auto.
  rewrite py_pick_nosing by auto.
  destruct (py_pick no_sing seqs 0 seqs) eqn:E; auto.
  - exfalso. eapply py_pick_no_singleton; eauto.
  - apply IHfuel. apply remove_heads_no_sing; auto.
Qed.

Lemma merge_py_gen_nosing_lemma : forall sing seqs,
  no_sing_in sing seqs -> merge_py_gen sing seqs = merge_py seqs.
Proof.
  intros. unfold merge_py, merge_py_gen, merge_sequences. apply py_loop_nosing.
  intros s x Hs Hx. apply in_map_iff in Hs. destruct Hs as [s0 [E Hs0]]. subst.
  apply (proj1 (dedup_In _ _)) in Hx. eapply H; eauto.
Qed.

(* ------------------------------------------------------------------------------------------------ *)
(* fuel sufficiency *)

Lemma drop_head_len : forall c s, length (drop_head c s) <= length s.
Proof. intros c [|h t]; simpl; auto. destruct (Nat.eqb h c); simpl; lia. Qed.

Lemma remove_heads_len : forall c seqs, total_len (remove_heads c seqs) <= total_len seqs.
Proof. induction seqs; simpl; auto. pose proof (drop_head_len c a). lia. Qed.

Lemma remove_heads_lt : forall c seqs t,
  In (c :: t) seqs -> total_len (remove_heads c seqs) < total_len seqs.
Proof.
  induction seqs as [|s rest IH]; simpl; intros t Hi; [tauto|].
  destruct Hi as [E|Hi].
  - subst. simpl. rewrite Nat.eqb_refl. pose proof (remove_heads_len c rest). unfold remove_heads in *. lia.
  - specialize (IH t Hi). pose proof (drop_head_len c s). lia.
Qed.

Lemma filter_len : forall (f : nat -> bool) l, length (filter f l) <= length l.
Proof. induction l; simpl; auto. destruct (f a); simpl; lia. Qed.

Lemma remove_all_len : forall c seqs, total_len (remove_all c seqs) <= total_len seqs.
Proof. induction seqs; simpl; auto. pose proof (filter_len (fun s => negb (Nat.eqb s c)) a). lia. Qed.

Lemma remove_all_lt : forall c seqs t,
  In (c :: t) seqs -> total_len (remove_all c seqs) < total_len seqs.
Proof.
  induction seqs as [|s rest IH]; simpl; intros t Hi; [tauto|].
  destruct Hi as [E|Hi].
  - subst. simpl. rewrite Nat.eqb_refl. simpl.
    pose proof (filter_len (fun s => negb (Nat.eqb s c)) t).
    pose proof (remove_all_len c rest). unfold remove_all in *. lia.
  - specialize (IH t Hi). pose proof (filter_len (fun s => negb (Nat.eqb s c)) s). lia.
Qed.

Lemma py_pick_head : forall sing all todo i c,
  py_pick sing all i todo = PickOk c \/ py_pick sing all i todo = PickSingleton c ->
  exists t, In (c :: t) todo.
Proof.
  induction todo as [|seq rest IH]; simpl; intros i c H.
  - destruct H; discriminate.
  - destruct seq as [|cand t].
    + destruct (IH _ _ H) as [t' Ht]. eauto.
    + destruct (sing cand).
      * destruct H as [H|H]; inversion H; subst. eauto.
      * destruct (py_in_other_tail cand i 0 all).
        -- destruct (IH _ _ H) as [t' Ht]. eauto.
        -- destruct H as [H|H]; inversion H; subst. eauto.
Qed.

Lemma py_loop_fuel : forall sing fuel seqs acc,
  total_len seqs < fuel ->
  py_loop sing fuel seqs acc <> OutOfFuel /\ py_loop sing fuel seqs acc <> Crash.
Proof.
  induction fuel; intros seqs acc Hf; [lia|]. simpl.
  destruct (forallb is_nil seqs). { split; discriminate. }
  destruct (py_pick sing seqs 0 seqs) eqn:E.
  - destruct (py_pick_head sing seqs seqs 0 c (or_intror E)) as [t Ht].
    apply IHfuel. pose proof (remove_all_lt c seqs t Ht). lia.
  - destruct (py_pick_head sing seqs seqs 0 c (or_introl E)) as [t Ht].
    apply IHfuel. pose proof (remove_heads_lt c seqs t Ht). lia.
  - split; discriminate.
Qed.

Lemma merge_py_gen_fuel_lemma : forall sing seqs,
  merge_py_gen sing seqs <> OutOfFuel /\ merge_py_gen sing seqs <> Crash.
Proof. intros. unfold merge_py_gen, merge_sequences. apply py_loop_fuel. lia. Qed.

Lemma pick_head : forall all todo c, pick all todo = Some c ->
  (exists t, In (c :: t) todo) /\ in_tail c all = false.
Proof.
  induction todo as [|seq rest IH]; simpl; intros c H; try discriminate.
  destruct seq as [|cand t].
  - destruct (IH _ H) as [[t' Ht] Hn]. eauto.
  - destruct (in_tail cand all) eqn:E.
    + destruct (IH _ H) as [[t' Ht] Hn]. eauto.
    + inversion H; subst. eauto.
Qed.

Lemma spec_loop_fuel : forall fuel seqs acc,
  total_len seqs < fuel -> spec_loop fuel seqs acc <> OutOfFuel /\ spec_loop fuel seqs acc <> Crash.
Proof.
  induction fuel; intros seqs acc Hf; [lia|]. simpl.
  destruct (forallb is_nil seqs). { split; discriminate. }
  destruct (pick seqs seqs) eqn:E.
  - destruct (pick_head _ _ _ E) as [[t Ht] _].
    apply IHfuel. pose proof (remove_heads_lt n seqs t Ht). lia.
  - split; discriminate.
Qed.

Lemma pmerge_fuel_lemma : forall acc0 tm, pmerge acc0 tm <> OutOfFuel /\ pmerge acc0 tm <> Crash.
Proof. intros. rewrite pmerge_spec. unfold spec_merge. apply spec_loop_fuel. lia. Qed.

(* more fuel does not change a result: the fuel chosen by the model is not what makes merges agree *)
Lemma spec_loop_more_fuel : forall fuel seqs acc k,
  total_len seqs < fuel -> spec_loop (fuel + k) seqs acc = spec_loop fuel seqs acc.
Proof.
  induction fuel; intros seqs acc k Hf; [lia|]. simpl.
  destruct (forallb is_nil seqs); auto.
  destruct (pick seqs seqs) eqn:E; auto.
  destruct (pick_head _ _ _ E) as [[t Ht] _].
  apply IHfuel. pose proof (remove_heads_lt n seqs t Ht). lia.
Qed.
