(* C10 proofs over Mro/Model.v.
   Method: both executable algorithms (pytype's list-deleting MergeSequences and CPython's index-vector
   pmerge) are shown equal, step for step and for every fuel, to one specification loop [spec_loop]
   ("take the first head that is in no tail; delete it from every sequence it heads"). *)
From Coq Require Import List Arith Bool Lia.
From PV Require Import Mro.Model.
Import ListNotations.

(* ------------------------------------------------------------------------------------------------ *)
(* basic facts *)

Lemma mem_In : forall x l, mem x l = true <-> In x l.
Proof.
  unfold mem; intros; rewrite existsb_exists; split.
  - intros [y [Hy He]]. apply Nat.eqb_eq in He. subst; auto.
  - intros Hi. exists x. split; auto. apply Nat.eqb_refl.
Qed.

Lemma mem_false : forall x l, mem x l = false <-> ~ In x l.
Proof.
  intros. rewrite <- mem_In. destruct (mem x l); split; intros H; try congruence.
Qed.

Lemma total_len_app : forall a b, total_len (a ++ b) = total_len a + total_len b.
Proof. induction a; simpl; intros; auto. rewrite IHa. lia. Qed.

Definition nodup_each (seqs : list (list nat)) : Prop := Forall (@NoDup nat) seqs.

(* ---- Dedup ---- *)
Lemma dedup_aux_spec : forall seq seen,
  NoDup (dedup_aux seen seq) /\
  (forall x, In x (dedup_aux seen seq) <-> In x seq /\ ~ In x seen).
Proof.
  induction seq as [|s t IH]; intros seen; simpl.
  - split. constructor. intros; tauto.
  - destruct (IH (s :: seen)) as [Hn Hi].
    destruct (mem s seen) eqn:E.
    + split; auto. intros x. rewrite Hi. apply mem_In in E. simpl.
      split.
      * intros [H1 H2]. split; auto.
      * intros [[H1|H1] H2]; subst; try tauto.
        split; auto. intros [H3|H3]; subst; tauto.
    + apply mem_false in E. split.
      * constructor; auto. rewrite Hi. simpl. tauto.
      * intros x. simpl. rewrite Hi. simpl.
        destruct (Nat.eq_dec s x) as [Heq|Hne]; [subst; tauto|tauto].
Qed.

Lemma dedup_nodup : forall s, NoDup (dedup s).
Proof. intros. apply dedup_aux_spec. Qed.

Lemma dedup_In : forall s x, In x (dedup s) <-> In x s.
Proof. intros. unfold dedup. rewrite (proj2 (dedup_aux_spec s [])). simpl; tauto. Qed.

Lemma dedup_aux_id : forall seq seen,
  NoDup seq -> (forall x, In x seq -> ~ In x seen) -> dedup_aux seen seq = seq.
Proof.
  induction seq as [|s t IH]; intros seen Hn Hd; simpl; auto.
  inversion Hn; subst.
  assert (E : mem s seen = false) by (apply mem_false; apply Hd; simpl; auto).
  rewrite E. f_equal. apply IH; auto.
  intros x Hx [H|H]; subst; auto. apply (Hd x); simpl; auto.
Qed.

Lemma dedup_id : forall s, NoDup s -> dedup s = s.
Proof. intros. apply dedup_aux_id; auto. Qed.

Lemma map_dedup_id : forall seqs, nodup_each seqs -> map dedup seqs = seqs.
Proof.
  induction 1; simpl; auto. rewrite dedup_id; auto. congruence.
Qed.

Lemma map_dedup_nodup : forall seqs, nodup_each (map dedup seqs).
Proof. induction seqs; simpl; constructor; auto. apply dedup_nodup. Qed.

(* ------------------------------------------------------------------------------------------------ *)
(* the specification loop *)

Definition in_tail (c : nat) (seqs : list (list nat)) : bool := existsb (fun s => mem c (tl s)) seqs.

Fixpoint pick (all todo : list (list nat)) : option nat :=
  match todo with
  | [] => None
  | [] :: rest => pick all rest
  | (c :: _) :: rest => if in_tail c all then pick all rest else Some c
  end.

Fixpoint spec_loop (fuel : nat) (seqs : list (list nat)) (acc : list nat) : res (list nat) :=
  match fuel with
  | O => OutOfFuel
  | S f =>
    if forallb is_nil seqs then Ok (rev acc)
    else match pick seqs seqs with
         | Some c => spec_loop f (remove_heads c seqs) (c :: acc)
         | None => Reject
         end
  end.

Definition spec_merge (acc0 : list nat) (seqs : list (list nat)) : res (list nat) :=
  spec_loop (S (total_len seqs)) seqs (rev acc0).

(* ---- pytype's loop equals the specification loop ---- *)

Lemma py_in_other_tail_spec : forall c i seqs j,
  (forall k, j + k = i -> mem c (tl (nth k seqs [])) = false) ->
  py_in_other_tail c i j seqs = in_tail c seqs.
Proof.
  induction seqs as [|s rest IH]; intros j Hk; simpl; auto.
  rewrite (IH (S j)).
  2:{ intros k Hjk. apply (Hk (S k)). lia. }
  f_equal.
  destruct (Nat.eqb j i) eqn:E.
  - apply Nat.eqb_eq in E. specialize (Hk 0). simpl in Hk. rewrite Hk by lia. reflexivity.
  - simpl. destruct s; simpl; auto. rewrite ?andb_true_r. reflexivity.
Qed.

Lemma py_pick_spec : forall todo pre,
  nodup_each (pre ++ todo) ->
  py_pick no_sing (pre ++ todo) (length pre) todo =
  match pick (pre ++ todo) todo with Some c => PickOk c | None => PickNone end.
Proof.
  induction todo as [|seq rest IH]; intros pre Hn; simpl; auto.
  assert (Hstep : py_pick no_sing (pre ++ seq :: rest) (S (length pre)) rest =
                  match pick (pre ++ seq :: rest) rest with Some c => PickOk c | None => PickNone end).
  { specialize (IH (pre ++ [seq])). rewrite <- app_assoc in IH. simpl in IH.
    rewrite app_length in IH. simpl in IH. rewrite Nat.add_1_r in IH. apply IH. exact Hn. }
  destruct seq as [|cand t]; auto.
  unfold no_sing at 1.
  rewrite py_in_other_tail_spec.
  - destruct (in_tail cand (pre ++ (cand :: t) :: rest)); auto.
  - intros k Hk. simpl in Hk. subst k. rewrite app_nth2 by lia. rewrite Nat.sub_diag. simpl.
    apply mem_false. unfold nodup_each in Hn. rewrite Forall_forall in Hn.
    assert (Hc : NoDup (cand :: t)) by (apply Hn; apply in_or_app; right; left; reflexivity).
    inversion Hc; auto.
Qed.

Lemma drop_head_nodup : forall c s, NoDup s -> NoDup (drop_head c s).
Proof.
  intros c [|h t] Hn; simpl; auto. destruct (Nat.eqb h c); auto. inversion Hn; auto.
Qed.

Lemma remove_heads_nodup : forall c seqs, nodup_each seqs -> nodup_each (remove_heads c seqs).
Proof.
  unfold nodup_each, remove_heads. intros c seqs H. induction H; simpl; constructor; auto.
  apply drop_head_nodup; auto.
Qed.

Lemma py_loop_spec : forall fuel seqs acc,
  nodup_each seqs -> py_loop no_sing fuel seqs acc = spec_loop fuel seqs acc.
Proof.
  induction fuel; intros seqs acc Hn; simpl; auto.
  destruct (forallb is_nil seqs); auto.
  pose proof (py_pick_spec seqs [] Hn) as Hp. simpl in Hp. rewrite Hp.
  destruct (pick seqs seqs); auto.
  apply IHfuel. apply remove_heads_nodup; auto.
Qed.

(* ---- CPython's loop equals the specification loop ---- *)

Definition cur (p : list nat * nat) : list nat := skipn (snd p) (fst p).
Definition abs (st : list (list nat * nat)) : list (list nat) := map cur st.

Lemma skipn_S_tl : forall (l : list nat) r, skipn (S r) l = tl (skipn r l).
Proof.
  induction l; intros; simpl.
  - destruct r; reflexivity.
  - destruct r; [reflexivity|]. change (skipn (S r) l = tl (skipn r l)). apply IHl.
Qed.

Lemma skipn_nil_iff : forall (l : list nat) r, skipn r l = [] <-> length l <= r.
Proof.
  induction l; intros; simpl.
  - destruct r; simpl; split; auto; lia.
  - destruct r; simpl.
    + split; intros; try discriminate; lia.
    + rewrite IHl. lia.
Qed.

Lemma skipn_cons_nth : forall (l : list nat) r, r < length l ->
  skipn r l = nth r l 0 :: skipn (S r) l.
Proof.
  induction l; intros r Hr; simpl in *; try lia.
  destruct r; simpl; auto. apply IHl. lia.
Qed.

Lemma tail_contains_abs : forall all c,
  existsb (fun p => tail_contains (fst p) (snd p) c) all = in_tail c (abs all).
Proof.
  induction all as [|[l r] rest IH]; intros; simpl; auto.
  rewrite IH. f_equal. unfold tail_contains, cur. cbn [fst snd]. rewrite skipn_S_tl. reflexivity.
Qed.

Fixpoint count_nil (seqs : list (list nat)) : nat :=
  match seqs with
  | [] => 0
  | s :: rest => (if is_nil s then 1 else 0) + count_nil rest
  end.

Lemma c_scan_spec : forall all todo e,
  c_scan all todo e =
  match pick (abs all) (abs todo) with
  | Some c => ScanFound c
  | None => ScanEnd (e + count_nil (abs todo))
  end.
Proof.
  induction todo as [|[l r] rest IH]; intros e; simpl.
  - f_equal. lia.
  - unfold cur. cbn [fst snd].
    destruct (length l <=? r) eqn:E.
    + apply Nat.leb_le in E. pose proof (proj2 (skipn_nil_iff l r) E) as Hs. rewrite Hs. simpl.
      rewrite IH. destruct (pick (abs all) (abs rest)); auto. f_equal. lia.
    + apply Nat.leb_gt in E. rewrite (skipn_cons_nth l r E). simpl.
      rewrite tail_contains_abs.
      destruct (in_tail (nth r l 0) (abs all)); auto.
Qed.

Lemma count_nil_all : forall seqs, Nat.eqb (count_nil seqs) (length seqs) = forallb is_nil seqs.
Proof.
  assert (Hle : forall seqs, count_nil seqs <= length seqs).
  { induction seqs; simpl; auto. destruct (is_nil a); lia. }
  induction seqs as [|s rest IH]; simpl; auto.
  destruct (is_nil s); simpl.
  - exact IH.
  - specialize (Hle rest). apply Nat.eqb_neq. lia.
Qed.

Lemma pick_all_nil : forall all todo, forallb is_nil todo = true -> pick all todo = None.
Proof.
  induction todo as [|s rest IH]; simpl; auto. destruct s; simpl; auto. discriminate.
Qed.

Lemma c_advance_abs : forall c st, abs (map (c_advance c) st) = remove_heads c (abs st).
Proof.
  unfold abs, remove_heads. intros. rewrite !map_map. apply map_ext.
  intros [l r]. unfold c_advance, cur. simpl.
  destruct (r <? length l) eqn:E; simpl.
  - apply Nat.ltb_lt in E. rewrite (skipn_cons_nth l r E). simpl.
    destruct (Nat.eqb (nth r l 0) c); simpl; auto. rewrite <- skipn_cons_nth; auto.
  - apply Nat.ltb_ge in E. rewrite (proj2 (skipn_nil_iff l r) E). reflexivity.
Qed.

Lemma c_loop_spec : forall fuel st acc, c_loop fuel st acc = spec_loop fuel (abs st) acc.
Proof.
  induction fuel; intros; simpl; auto.
  rewrite c_scan_spec. simpl.
  destruct (forallb is_nil (abs st)) eqn:E.
  - rewrite pick_all_nil by auto.
    rewrite <- (map_length cur st). fold (abs st). rewrite count_nil_all, E. reflexivity.
  - destruct (pick (abs st) (abs st)).
    + rewrite IHfuel, c_advance_abs. reflexivity.
    + rewrite <- (map_length cur st). fold (abs st). rewrite count_nil_all, E. reflexivity.
Qed.

Lemma abs_init : forall tm, abs (map (fun t => (t, 0)) tm) = tm.
Proof. unfold abs. intros. rewrite map_map. simpl. apply map_id. Qed.

Lemma pmerge_spec : forall acc0 tm, pmerge acc0 tm = spec_merge acc0 tm.
Proof. intros. unfold pmerge, spec_merge. rewrite c_loop_spec, abs_init. reflexivity. Qed.

Lemma merge_py_spec : forall seqs, merge_py seqs = spec_merge [] (map dedup seqs).
Proof.
  intros. unfold merge_py, merge_py_gen, merge_sequences, spec_merge. change (rev []) with (@nil nat).
  apply py_loop_spec. apply map_dedup_nodup.
Qed.

(* pytype's MROMerge = CPython's pmerge on the de-duplicated sequences, for ALL inputs *)
Lemma merge_agree_dedup_lemma : forall seqs, merge_py seqs = merge_c (map dedup seqs).
Proof. intros. unfold merge_c. rewrite pmerge_spec. apply merge_py_spec. Qed.

Lemma merge_agree_lemma : forall seqs, nodup_each seqs -> merge_py seqs = merge_c seqs.
Proof. intros. rewrite merge_agree_dedup_lemma, map_dedup_id; auto. Qed.

(* ------------------------------------------------------------------------------------------------ *)
(* SINGLETON branch is dead when no class is a singleton *)

Definition no_sing_in (sing : nat -> bool) (seqs : list (list nat)) : Prop :=
  forall s x, In s seqs -> In x s -> sing x = false.

Lemma py_pick_nosing : forall sing all todo i,
  no_sing_in sing todo -> py_pick sing all i todo = py_pick no_sing all i todo.
Proof.
  induction todo as [|seq rest IH]; intros i Hs; simpl; auto.
  assert (Hr : no_sing_in sing rest) by (intros s x H1 H2; apply (Hs s x); simpl; auto).
  destruct seq as [|cand t]; auto.
  rewrite (Hs (cand :: t) cand) by (simpl; auto). change (no_sing cand) with false.
  rewrite IH by auto. reflexivity.
Qed.

Lemma drop_head_incl : forall c s x, In x (drop_head c s) -> In x s.
Proof. intros c [|h t] x; simpl; auto. destruct (Nat.eqb h c); simpl; auto. Qed.

Lemma remove_heads_no_sing : forall sing c seqs, no_sing_in sing seqs -> no_sing_in sing (remove_heads c seqs).
Proof.
  intros sing c seqs H s x Hs Hx. unfold remove_heads in Hs. apply in_map_iff in Hs.
  destruct Hs as [s0 [E Hs0]]. subst. apply (H s0 x); auto. eapply drop_head_incl; eauto.
Qed.

Lemma py_pick_no_singleton : forall all todo i c, py_pick no_sing all i todo <> PickSingleton c.
Proof.
  induction todo as [|seq rest IH]; simpl; intros i c; try discriminate.
  destruct seq as [|cand t]; auto. change (no_sing cand) with false.
  destruct (py_in_other_tail cand i 0 all); auto. discriminate.
Qed.

Lemma py_loop_nosing : forall sing fuel seqs acc,
  no_sing_in sing seqs -> py_loop sing fuel seqs acc = py_loop no_sing fuel seqs acc.
Proof.
  induction fuel; intros seqs acc Hs; simpl; auto.
  destruct (forallb is_nil seqs); auto.
  rewrite py_pick_nosing by auto.
  destruct (py_pick no_sing seqs 0 seqs) eqn:E; auto.
  - exfalso. eapply py_pick_no_singleton; eauto.
  - apply IHfuel. apply remove_heads_no_sing; auto.
Qed.

Lemma merge_py_gen_nosing_lemma : forall sing seqs,
  no_sing_in sing seqs -> merge_py_gen sing seqs = merge_py seqs.
Proof.
  intros. unfold merge_py, merge_py_gen, merge_sequences. apply py_loop_nosing.
  intros s x Hs Hx. apply in_map_iff in Hs. destruct Hs as [s0 [E Hs0]]. subst.
  apply (proj1 (dedup_In _ _)) in Hx. eapply H; eauto.
Qed.

(* ------------------------------------------------------------------------------------------------ *)
(* fuel sufficiency *)

Lemma drop_head_len : forall c s, length (drop_head c s) <= length s.
Proof. intros c [|h t]; simpl; auto. destruct (Nat.eqb h c); simpl; lia. Qed.

Lemma remove_heads_len : forall c seqs, total_len (remove_heads c seqs) <= total_len seqs.
Proof. induction seqs; simpl; auto. pose proof (drop_head_len c a). lia. Qed.

Lemma remove_heads_lt : forall c seqs t,
  In (c :: t) seqs -> total_len (remove_heads c seqs) < total_len seqs.
Proof.
  induction seqs as [|s rest IH]; simpl; intros t Hi; [tauto|].
  destruct Hi as [E|Hi].
  - subst. simpl. rewrite Nat.eqb_refl. pose proof (remove_heads_len c rest). unfold remove_heads in *. lia.
  - specialize (IH t Hi). pose proof (drop_head_len c s). lia.
Qed.

Lemma filter_len : forall (f : nat -> bool) l, length (filter f l) <= length l.
Proof. induction l; simpl; auto. destruct (f a); simpl; lia. Qed.

Lemma remove_all_len : forall c seqs, total_len (remove_all c seqs) <= total_len seqs.
Proof. induction seqs; simpl; auto. pose proof (filter_len (fun s => negb (Nat.eqb s c)) a). lia. Qed.

Lemma remove_all_lt : forall c seqs t,
  In (c :: t) seqs -> total_len (remove_all c seqs) < total_len seqs.
Proof.
  induction seqs as [|s rest IH]; simpl; intros t Hi; [tauto|].
  destruct Hi as [E|Hi].
  - subst. simpl. rewrite Nat.eqb_refl. simpl.
    pose proof (filter_len (fun s => negb (Nat.eqb s c)) t).
    pose proof (remove_all_len c rest). unfold remove_all in *. lia.
  - specialize (IH t Hi). pose proof (filter_len (fun s => negb (Nat.eqb s c)) s). lia.
Qed.

Lemma py_pick_head : forall sing all todo i c,
  py_pick sing all i todo = PickOk c \/ py_pick sing all i todo = PickSingleton c ->
  exists t, In (c :: t) todo.
Proof.
  induction todo as [|seq rest IH]; simpl; intros i c H.
  - destruct H; discriminate.
  - destruct seq as [|cand t].
    + destruct (IH _ _ H) as [t' Ht]. eauto.
    + destruct (sing cand).
      * destruct H as [H|H]; inversion H; subst. eauto.
      * destruct (py_in_other_tail cand i 0 all).
        -- destruct (IH _ _ H) as [t' Ht]. eauto.
        -- destruct H as [H|H]; inversion H; subst. eauto.
Qed.

Lemma py_loop_fuel : forall sing fuel seqs acc,
  total_len seqs < fuel ->
  py_loop sing fuel seqs acc <> OutOfFuel /\ py_loop sing fuel seqs acc <> Crash.
Proof.
  induction fuel; intros seqs acc Hf; [lia|]. simpl.
  destruct (forallb is_nil seqs). { split; discriminate. }
  destruct (py_pick sing seqs 0 seqs) eqn:E.
  - destruct (py_pick_head sing seqs seqs 0 c (or_intror E)) as [t Ht].
    apply IHfuel. pose proof (remove_all_lt c seqs t Ht). lia.
  - destruct (py_pick_head sing seqs seqs 0 c (or_introl E)) as [t Ht].
    apply IHfuel. pose proof (remove_heads_lt c seqs t Ht). lia.
  - split; discriminate.
Qed.

Lemma merge_py_gen_fuel_lemma : forall sing seqs,
  merge_py_gen sing seqs <> OutOfFuel /\ merge_py_gen sing seqs <> Crash.
Proof. intros. unfold merge_py_gen, merge_sequences. apply py_loop_fuel. lia. Qed.

Lemma pick_head : forall all todo c, pick all todo = Some c ->
  (exists t, In (c :: t) todo) /\ in_tail c all = false.
Proof.
  induction todo as [|seq rest IH]; simpl; intros c H; try discriminate.
  destruct seq as [|cand t].
  - destruct (IH _ H) as [[t' Ht] Hn]. eauto.
  - destruct (in_tail cand all) eqn:E.
    + destruct (IH _ H) as [[t' Ht] Hn]. eauto.
    + inversion H; subst. eauto.
Qed.

Lemma spec_loop_fuel : forall fuel seqs acc,
  total_len seqs < fuel -> spec_loop fuel seqs acc <> OutOfFuel /\ spec_loop fuel seqs acc <> Crash.
Proof.
  induction fuel; intros seqs acc Hf; [lia|]. simpl.
  destruct (forallb is_nil seqs). { split; discriminate. }
  destruct (pick seqs seqs) eqn:E.
  - destruct (pick_head _ _ _ E) as [[t Ht] _].
    apply IHfuel. pose proof (remove_heads_lt n seqs t Ht). lia.
  - split; discriminate.
Qed.

Lemma pmerge_fuel_lemma : forall acc0 tm, pmerge acc0 tm <> OutOfFuel /\ pmerge acc0 tm <> Crash.
Proof. intros. rewrite pmerge_spec. unfold spec_merge. apply spec_loop_fuel. lia. Qed.

(* more fuel does not change a result: the fuel chosen by the model is not what makes merges agree *)
Lemma spec_loop_more_fuel : forall fuel seqs acc k,
  total_len seqs < fuel -> spec_loop (fuel + k) seqs acc = spec_loop fuel seqs acc.
Proof.
  induction fuel; intros seqs acc k Hf; [lia|]. simpl.
  destruct (forallb is_nil seqs); auto.
  destruct (pick seqs seqs) eqn:E; auto.
  destruct (pick_head _ _ _ E) as [[t Ht] _].
  apply IHfuel. pose proof (remove_heads_lt n seqs t Ht). lia.
Qed.

(* ------------------------------------------------------------------------------------------------ *)
(* properties of the specification loop needed at the class-table level *)

Lemma in_tail_false : forall c seqs, in_tail c seqs = false <-> (forall s, In s seqs -> ~ In c (tl s)).
Proof.
  unfold in_tail. induction seqs as [|s rest IH]; simpl.
  - split; auto.
  - rewrite orb_false_iff, IH, mem_false. split.
    + intros [H1 H2] s0 [E|Hi]; subst; auto.
    + intros H. split; auto.
Qed.

Lemma remove_heads_id : forall c Y, (forall s, In s Y -> ~ In c s) -> remove_heads c Y = Y.
Proof.
  induction Y as [|s rest IH]; simpl; intros H; auto.
  rewrite IH by (intros; apply H; auto). f_equal.
  destruct s as [|h t]; simpl; auto.
  destruct (Nat.eqb h c) eqn:E; auto. apply Nat.eqb_eq in E. subst.
  exfalso. apply (H (c :: t)); simpl; auto.
Qed.

Lemma spec_cons : forall f c Y acc, (forall s, In s Y -> ~ In c s) ->
  spec_loop (S f) ([c] :: Y) acc = spec_loop f ([] :: Y) (c :: acc).
Proof.
  intros f c Y acc H. cbn [spec_loop forallb is_nil andb pick].
  assert (E : in_tail c ([c] :: Y) = false).
  { apply in_tail_false. intros s [Es|Hi]; subst; simpl; auto.
    intros Hc. apply (H s Hi). destruct s; simpl in *; auto. }
  rewrite E. cbn [remove_heads map drop_head]. rewrite Nat.eqb_refl.
  fold (remove_heads c Y). rewrite remove_heads_id; auto.
Qed.

Lemma pick_nil_all : forall Y todo, pick ([] :: Y) todo = pick Y todo.
Proof.
  induction todo as [|s rest IH]; simpl; auto. destruct s; auto. rewrite IH. reflexivity.
Qed.

Lemma spec_nil_cons : forall f Y acc, spec_loop f ([] :: Y) acc = spec_loop f Y acc.
Proof.
  induction f; intros; simpl; auto.
  destruct (forallb is_nil Y); auto.
  rewrite pick_nil_all. destruct (pick Y Y); auto.
Qed.

Lemma spec_single : forall m fuel acc, NoDup m -> length m < fuel ->
  spec_loop fuel [m; []] acc = Ok (rev acc ++ m).
Proof.
  induction m as [|h t IH]; intros fuel acc Hn Hf; destruct fuel; try (simpl in Hf; lia).
  - simpl. rewrite app_nil_r. reflexivity.
  - inversion Hn; subst.
    cbn [spec_loop forallb is_nil andb pick].
    assert (E : in_tail h [h :: t; []] = false).
    { apply in_tail_false. intros s [Es|[Es|[]]]; subst; simpl; auto. }
    rewrite E. cbn [remove_heads map drop_head]. rewrite Nat.eqb_refl.
    rewrite IH; auto. 2:{ simpl in Hf. lia. }
    simpl. rewrite <- app_assoc. reflexivity.
Qed.

Lemma spec_loop_props : forall fuel Y acc l,
  spec_loop fuel Y acc = Ok l -> nodup_each Y -> NoDup acc ->
  (forall x s, In x acc -> In s Y -> ~ In x s) ->
  NoDup l /\ (forall x, In x l -> In x acc \/ exists s, In s Y /\ In x s) /\ exists l', l = rev acc ++ l'.
Proof.
  induction fuel; intros Y acc l Hs Hn Ha Hd; simpl in Hs; try discriminate.
  destruct (forallb is_nil Y).
  - inversion Hs; subst. split; [|split].
    + apply NoDup_rev; auto.
    + intros x Hx. left. apply in_rev; auto.
    + exists []. rewrite app_nil_r; auto.
  - destruct (pick Y Y) as [c|] eqn:E; try discriminate.
    destruct (pick_head _ _ _ E) as [[t Ht] Hnt].
    assert (Hca : ~ In c acc). { intros Hc. apply (Hd c (c :: t)); simpl; auto. }
    pose proof (proj1 (in_tail_false c Y) Hnt) as Htl.
    destruct (IHfuel _ _ _ Hs) as [H1 [H2 [l' H3]]].
    + apply remove_heads_nodup; auto.
    + constructor; auto.
    + intros x s Hx Hs'. unfold remove_heads in Hs'. apply in_map_iff in Hs'.
      destruct Hs' as [s0 [Es Hs0]]. subst s. intros Hin.
      destruct Hx as [Ex|Hx].
      * subst x. specialize (Htl s0 Hs0). destruct s0 as [|h t0]; simpl in *; auto.
        destruct (Nat.eqb h c) eqn:Eh; auto.
        apply Nat.eqb_neq in Eh. destruct Hin; auto.
      * apply (Hd x s0 Hx Hs0). eapply drop_head_incl; eauto.
    + split; [auto|split].
      * intros x Hx. destruct (H2 x Hx) as [[Ex|Hx']|[s [Hs1 Hs2]]].
        -- subst. right. exists (x :: t). simpl; auto.
        -- auto.
        -- right. unfold remove_heads in Hs1. apply in_map_iff in Hs1.
           destruct Hs1 as [s0 [Es Hs0]]. subst s. exists s0. split; auto.
           eapply drop_head_incl; eauto.
      * exists (c :: l'). rewrite H3. simpl. rewrite <- app_assoc. reflexivity.
Qed.

(* ------------------------------------------------------------------------------------------------ *)
(* class tables *)

Definition good_mro (i : nat) (m : list nat) : Prop :=
  exists m', m = i :: m' /\ NoDup m /\ forall x, In x m' -> x < i.
Definition good_done (done : list (list nat)) : Prop :=
  forall i, i < length done -> good_mro i (nth i done []).

Lemma check_duplicates_NoDup : forall l, check_duplicates l = true <-> NoDup l.
Proof.
  induction l as [|o rest IH]; simpl.
  - split; auto. constructor.
  - rewrite andb_true_iff, negb_true_iff, mem_false, IH. split.
    + intros [H1 H2]. constructor; auto.
    + intros H. inversion H; auto.
Qed.

Lemma wf_bases_lt : forall n bases, wf_bases n bases = true <-> (forall b, In b bases -> b < n).
Proof.
  unfold wf_bases. intros. rewrite forallb_forall. split; intros H b Hb.
  - apply Nat.ltb_lt. auto.
  - apply Nat.ltb_lt. auto.
Qed.

Section ClassStep.
  Variable done : list (list nat).
  Variable bases : list nat.
  Hypothesis Hgood : good_done done.
  Hypothesis Hwf : wf_bases (length done) bases = true.
  Hypothesis Hnd : check_duplicates bases = true.

  Let n := length done.
  Let Y := map (mro_of done) bases ++ [bases].

  Lemma step_Y_lt : forall s x, In s Y -> In x s -> x < n.
  Proof.
    intros s x Hs Hx. unfold Y in Hs. apply in_app_or in Hs. destruct Hs as [Hs|[Hs|[]]].
    - apply in_map_iff in Hs. destruct Hs as [b [Eb Hb]]. subst s.
      pose proof (proj1 (wf_bases_lt _ _) Hwf b Hb) as Hlt.
      destruct (Hgood b Hlt) as [m' [Em [_ Hm]]]. unfold mro_of in Hx. rewrite Em in Hx.
      destruct Hx as [Ex|Hx]; subst; auto. specialize (Hm x Hx). unfold n. lia.
    - subst s. apply (proj1 (wf_bases_lt _ _) Hwf x Hx).
  Qed.

  Lemma step_Y_nodup : nodup_each Y.
  Proof.
    unfold nodup_each, Y. apply Forall_app. split.
    - apply Forall_forall. intros s Hs. apply in_map_iff in Hs. destruct Hs as [b [Eb Hb]]. subst s.
      pose proof (proj1 (wf_bases_lt _ _) Hwf b Hb) as Hlt.
      destruct (Hgood b Hlt) as [m' [Em [Hn _]]]. exact Hn.
    - constructor; auto. apply check_duplicates_NoDup; auto.
  Qed.

  Lemma step_self_fresh : forall s, In s Y -> ~ In n s.
  Proof. intros s Hs Hn. pose proof (step_Y_lt s n Hs Hn). lia. Qed.

  (* pytype's compute_mro (without the duplicate check firing) is pmerge with acc = [self] *)
  Lemma step_py_is_pmerge : forall dupcheck, class_mro_py dupcheck done n bases = pmerge [n] Y.
  Proof.
    intros dupcheck. unfold class_mro_py, class_mro_py_gen. rewrite Hnd. rewrite andb_false_r.
    fold Y. fold (merge_py ([n] :: Y)). rewrite merge_py_spec, pmerge_spec.
    assert (Hnd' : nodup_each ([n] :: Y)).
    { constructor; [repeat constructor; simpl; tauto | exact step_Y_nodup]. }
    rewrite (map_dedup_id _ Hnd').
    unfold spec_merge. change (total_len ([n] :: Y)) with (S (total_len Y)).
    rewrite spec_cons by apply step_self_fresh. rewrite spec_nil_cons. reflexivity.
  Qed.

  Lemma step_agree : forall dupcheck,
    class_mro_py dupcheck done n bases = class_mro_c done n bases.
  Proof.
    intros dupcheck. rewrite step_py_is_pmerge. unfold class_mro_c. fold n.
    destruct bases as [|b [|b2 rest]] eqn:Eb.
    - rewrite Hnd. reflexivity.
    - (* single base: the fast path *)
      assert (Hlt : b < length done).
      { apply (proj1 (wf_bases_lt _ _) Hwf). simpl; auto. }
      destruct (Hgood b Hlt) as [m' [Em [Hn Hm]]].
      rewrite pmerge_spec. unfold spec_merge, Y. simpl map. simpl app. unfold mro_of at 1 2. rewrite Em.
      rewrite Em in Hn. inversion Hn as [|? ? Hnb Hnm]; subst.
      cbn [spec_loop forallb is_nil andb pick total_len fold_right].
      assert (E : in_tail b [b :: m'; [b]] = false).
      { apply in_tail_false. intros s [Es|[Es|[]]]; subst; simpl; auto. }
      rewrite E. cbn [remove_heads map drop_head]. rewrite Nat.eqb_refl.
      rewrite spec_single; auto. 2:{ simpl. lia. }
      unfold mro_of. rewrite Em. reflexivity.
    - rewrite Hnd. reflexivity.
  Qed.

  Lemma step_good : forall m, class_mro_c done n bases = Ok m -> good_done (done ++ [m]).
  Proof.
    intros m Hm. rewrite <- (step_agree false), step_py_is_pmerge, pmerge_spec in Hm.
    unfold spec_merge in Hm.
    destruct (spec_loop_props _ _ _ _ Hm step_Y_nodup) as [H1 [H2 [l' H3]]].
    - simpl. repeat constructor. simpl; auto.
    - intros x s [Ex|[]] Hs. subst x. apply step_self_fresh; auto.
    - simpl in H3. intros i Hi. rewrite app_length in Hi. simpl in Hi.
      destruct (Nat.eq_dec i (length done)) as [Ei|Ni].
      + subst i. rewrite app_nth2 by lia. rewrite Nat.sub_diag. simpl.
        exists l'. split; [exact H3|]. split; [exact H1|].
        intros x Hx. assert (Hxl : In x m) by (rewrite H3; simpl; auto).
        destruct (H2 x Hxl) as [[Ex|[]]|[s [Hs1 Hs2]]].
        * subst x. rewrite H3 in H1. inversion H1; subst. tauto.
        * apply (step_Y_lt s x Hs1 Hs2).
      + rewrite app_nth1 by lia. apply Hgood. lia.
  Qed.
End ClassStep.

Lemma run_table_agree : forall dupcheck todo done,
  good_done done -> wf_table_from (length done) todo = true -> no_dup_bases todo = true ->
  run_table (class_mro_py dupcheck) done todo = run_table class_mro_c done todo /\
  good_done (table_mros (run_table class_mro_c done todo)).
Proof.
  induction todo as [|bases rest IH]; intros done Hg Hwf Hnd; simpl.
  - split; auto.
  - simpl in Hwf, Hnd. apply andb_true_iff in Hwf. destruct Hwf as [Hw1 Hw2].
    apply andb_true_iff in Hnd. destruct Hnd as [Hn1 Hn2].
    rewrite (step_agree done bases Hg Hw1 Hn1 dupcheck).
    destruct (class_mro_c done (length done) bases) as [m| | |] eqn:E; simpl; auto.
    apply IH; auto.
    + eapply step_good; eauto.
    + rewrite app_length. simpl. rewrite Nat.add_1_r. exact Hw2.
Qed.

Lemma good_done_nil : good_done [].
Proof. intros i Hi. simpl in Hi. lia. Qed.

Lemma mro_agree_lemma : forall dupcheck H,
  wf_table H = true -> no_dup_bases H = true -> mros_py dupcheck H = mros_c H.
Proof. intros. unfold mros_py, mros_c. apply run_table_agree; auto. apply good_done_nil. Qed.

Lemma mros_good_lemma : forall H i,
  wf_table H = true -> no_dup_bases H = true -> i < length (table_mros (mros_c H)) ->
  exists m', nth i (table_mros (mros_c H)) [] = i :: m' /\ NoDup (i :: m') /\ forall x, In x m' -> x < i.
Proof.
  intros H i Hw Hn Hi.
  destruct (run_table_agree false H [] good_done_nil Hw Hn) as [_ Hg].
  destruct (Hg i Hi) as [m' [E [H1 H2]]]. exists m'. rewrite <- E. auto.
Qed.

(* with the duplicate check, agreement needs no hypothesis on the bases *)
Lemma step_agree_dupcheck : forall done bases,
  good_done done -> wf_bases (length done) bases = true ->
  class_mro_py true done (length done) bases = class_mro_c done (length done) bases.
Proof.
  intros done bases Hg Hw. destruct (check_duplicates bases) eqn:E.
  - apply step_agree; auto.
  - unfold class_mro_py, class_mro_py_gen, class_mro_c. rewrite E. simpl.
    destruct bases as [|b [|b2 rest]]; simpl in E; try discriminate; reflexivity.
Qed.

Lemma check_duplicates_step_good : forall done bases m,
  good_done done -> wf_bases (length done) bases = true ->
  class_mro_c done (length done) bases = Ok m -> good_done (done ++ [m]).
Proof.
  intros done bases m Hg Hw Hm. destruct (check_duplicates bases) eqn:E.
  - eapply step_good; eauto.
  - unfold class_mro_c in Hm. rewrite E in Hm.
    destruct bases as [|b [|b2 rest]]; simpl in E; try discriminate.
Qed.

Lemma run_table_agree_dupcheck : forall todo done,
  good_done done -> wf_table_from (length done) todo = true ->
  run_table (class_mro_py true) done todo = run_table class_mro_c done todo.
Proof.
  induction todo as [|bases rest IH]; intros done Hg Hwf; simpl; auto.
  simpl in Hwf. apply andb_true_iff in Hwf. destruct Hwf as [Hw1 Hw2].
  rewrite (step_agree_dupcheck done bases Hg Hw1).
  destruct (class_mro_c done (length done) bases) as [m| | |] eqn:E; simpl; auto.
  apply IH.
  - eapply check_duplicates_step_good; eauto.
  - rewrite app_length. simpl. rewrite Nat.add_1_r. exact Hw2.
Qed.

Lemma mro_agree_fixed_lemma : forall H, wf_table H = true -> mros_py true H = mros_c H.
Proof. intros. unfold mros_py, mros_c. apply run_table_agree_dupcheck; auto. apply good_done_nil. Qed.

(* neither run ever ends in the model-artefact outcome *)
Lemma run_table_not_bad : forall f,
  (forall d s b, f d s b <> OutOfFuel /\ f d s b <> Crash) ->
  forall todo done m i, run_table f done todo <> TableBad m i.
Proof.
  intros f Hf. induction todo as [|bases rest IH]; intros done m i; simpl; try discriminate.
  destruct (f done (length done) bases) eqn:E; try discriminate; auto.
  - exfalso. apply (proj1 (Hf done (length done) bases)); auto.
  - exfalso. apply (proj2 (Hf done (length done) bases)); auto.
Qed.

Lemma class_mro_py_total : forall sing dupcheck d s b,
  class_mro_py_gen sing dupcheck d s b <> OutOfFuel /\ class_mro_py_gen sing dupcheck d s b <> Crash.
Proof.
  intros. unfold class_mro_py_gen.
  destruct (dupcheck && negb (check_duplicates b)).
  - split; discriminate.
  - apply merge_py_gen_fuel_lemma.
Qed.

Lemma class_mro_c_total : forall d s b, class_mro_c d s b <> OutOfFuel /\ class_mro_c d s b <> Crash.
Proof.
  intros. unfold class_mro_c. destruct b as [|b1 [|b2 rest]].
  - destruct (check_duplicates []); [apply pmerge_fuel_lemma|split; discriminate].
  - split; discriminate.
  - destruct (check_duplicates (b1 :: b2 :: rest)); [apply pmerge_fuel_lemma|split; discriminate].
Qed.

Lemma tables_not_bad_lemma : forall dupcheck H m i,
  mros_py dupcheck H <> TableBad m i /\ mros_c H <> TableBad m i.
Proof.
  intros. split.
  - apply run_table_not_bad. intros. apply class_mro_py_total.
  - apply run_table_not_bad. apply class_mro_c_total.
Qed.

(* ------------------------------------------------------------------------------------------------ *)
(* stub classes outside the VM: _ComputeMRO / GetBasesInMRO *)

Lemma nth_firstn_lt : forall (l : list (list nat)) t b, b < t -> nth b (firstn t l) [] = nth b l [].
Proof.
  induction l as [|x l IH]; intros t b Hb.
  - rewrite firstn_nil. reflexivity.
  - destruct t; [lia|]. destruct b; simpl; auto. apply IH. lia.
Qed.

Lemma run_table_spec : forall f todo d0 done,
  run_table f d0 todo = TableOk done ->
  length done = length d0 + length todo /\
  forall k, k < length todo ->
    f (firstn (length d0 + k) done) (length d0 + k) (nth k todo []) = Ok (nth (length d0 + k) done []).
Proof.
  intros f. induction todo as [|bases rest IH]; intros d0 done Hr; simpl in Hr.
  - inversion Hr; subst. split; [simpl; lia|]. intros k Hk. simpl in Hk. lia.
  - destruct (f d0 (length d0) bases) as [m| | |] eqn:E; try discriminate.
    destruct (IH _ _ Hr) as [Hl Hk]. rewrite app_length in Hl, Hk. simpl in Hl, Hk.
    assert (Hpre : firstn (length d0) done = d0 /\ nth (length d0) done [] = m).
    { clear - Hr. revert d0 m done Hr. induction rest as [|b r IHr]; intros d0 m done Hr; simpl in Hr.
      - inversion Hr; subst. split.
        + rewrite firstn_app, Nat.sub_diag, firstn_all. simpl. apply app_nil_r.
        + rewrite app_nth2 by lia. rewrite Nat.sub_diag. reflexivity.
      - destruct (f (d0 ++ [m]) (length (d0 ++ [m])) b) as [m2| | |]; try discriminate.
        destruct (IHr _ _ _ Hr) as [H1 H2]. rewrite app_length in H1, H2. simpl in H1, H2.
        split.
        + assert (E : firstn (length d0) done = firstn (length d0) (firstn (length d0 + 1) done)).
          { rewrite firstn_firstn. f_equal. lia. }
          rewrite E, H1. rewrite firstn_app, Nat.sub_diag, firstn_all. simpl. apply app_nil_r.
        + rewrite <- (nth_firstn_lt done (length d0 + 1) (length d0)) by lia.
          rewrite H1. rewrite app_nth2 by lia. rewrite Nat.sub_diag. reflexivity. }
    destruct Hpre as [Hp1 Hp2].
    split; [simpl; lia|].
    intros k Hlt. destruct k.
    + rewrite Nat.add_0_r. simpl. rewrite Hp1, Hp2. exact E.
    + simpl in Hlt. specialize (Hk k ltac:(lia)).
      replace (length d0 + S k) with (length d0 + 1 + k) by lia. exact Hk.
Qed.

Lemma wf_table_from_nth : forall H i k,
  wf_table_from i H = true -> k < length H -> wf_bases (i + k) (nth k H []) = true.
Proof.
  induction H as [|b rest IH]; intros i k Hw Hk; simpl in *; [lia|].
  apply andb_true_iff in Hw. destruct Hw as [H1 H2].
  destruct k.
  - rewrite Nat.add_0_r. exact H1.
  - replace (i + S k) with (S i + k) by lia. apply IH; auto. lia.
Qed.

Lemma good_done_firstn : forall done t, good_done done -> t <= length done -> good_done (firstn t done).
Proof.
  intros done t Hg Ht i Hi. rewrite firstn_length_le in Hi by auto.
  rewrite nth_firstn_lt by auto. apply Hg. lia.
Qed.

Lemma spec_loop_acc : forall fuel Y acc x,
  spec_loop fuel Y (acc ++ [x]) = match spec_loop fuel Y acc with Ok l => Ok (x :: l) | r => r end.
Proof.
  induction fuel; intros; simpl; auto.
  destruct (forallb is_nil Y).
  - rewrite rev_unit. reflexivity.
  - destruct (pick Y Y); auto. rewrite <- IHfuel. reflexivity.
Qed.

Section Pytd.
  Variable H : list (list nat).
  Variable done : list (list nat).
  Hypothesis Hwf : wf_table H = true.
  Hypothesis Hnd : no_dup_bases H = true.
  Hypothesis Hok : mros_c H = TableOk done.

  Let M (t : nat) : list nat := nth t done [].

  Lemma pytd_len : length done = length H.
  Proof. destruct (run_table_spec _ _ _ _ Hok) as [Hl _]. simpl in Hl. exact Hl. Qed.

  Lemma pytd_good : good_done done.
  Proof.
    destruct (run_table_agree false H [] good_done_nil Hwf Hnd) as [_ Hg].
    fold (mros_c H) in Hg. rewrite Hok in Hg. exact Hg.
  Qed.

  Lemma pytd_bases_wf : forall t, t < length H -> wf_bases t (nth t H []) = true.
  Proof. intros t Ht. apply (wf_table_from_nth H 0 t Hwf Ht). Qed.

  Lemma pytd_bases_nodup : forall t, t < length H -> check_duplicates (nth t H []) = true.
  Proof.
    intros t Ht. unfold no_dup_bases in Hnd. rewrite forallb_forall in Hnd. apply Hnd. apply nth_In; auto.
  Qed.

  Lemma map_mro_of_firstn : forall t bases, wf_bases t bases = true ->
    map (mro_of (firstn t done)) bases = map M bases.
  Proof.
    intros t bases Hb. apply map_ext_in. intros b Hin. unfold mro_of, M.
    apply nth_firstn_lt. apply (proj1 (wf_bases_lt _ _) Hb); auto.
  Qed.

  (* the merge performed inside _ComputeMRO for class t yields the table's MRO of t *)
  Lemma pytd_merge_fact : forall t, t < length H ->
    merge_py ([t] :: map M (nth t H []) ++ [nth t H []]) = Ok (M t).
  Proof.
    intros t Ht.
    destruct (run_table_spec _ _ _ _ Hok) as [_ Hk]. specialize (Hk t Ht). simpl in Hk.
    assert (Hlen : length (firstn t done) = t). { apply firstn_length_le. rewrite pytd_len. lia. }
    assert (Hg : good_done (firstn t done)).
    { apply good_done_firstn. apply pytd_good. rewrite pytd_len. lia. }
    pose proof (pytd_bases_wf t Ht) as Hb.
    pose proof (step_agree (firstn t done) (nth t H [])) as Hs. rewrite Hlen in Hs.
    specialize (Hs Hg Hb (pytd_bases_nodup t Ht) false).
    rewrite Hk in Hs. unfold class_mro_py, class_mro_py_gen in Hs. simpl in Hs.
    rewrite map_mro_of_firstn in Hs by auto. exact Hs.
  Qed.

  Definition memo_ok (P : nat -> Prop) (m : memo) : Prop :=
    forall k v, memo_get m k = Some v ->
      match v with Some l => k < length H /\ l = M k | None => P k end.

  Lemma memo_get_set : forall m t v k,
    memo_get (memo_set m t v) k = if Nat.eqb t k then Some v else memo_get m k.
  Proof. reflexivity. Qed.

  Lemma compute_mro_pytd_ok : forall fuel t (mros : memo) (P : nat -> Prop),
    t < fuel -> t < length H -> (forall k, P k -> t < k) -> memo_ok P mros ->
    exists mros', compute_mro_pytd fuel H t mros = Ok (Some (M t), mros') /\ memo_ok P mros'.
  Proof.
    induction fuel; intros t mros P Hf Ht HP Hm; [lia|]. simpl.
    destruct (memo_get mros t) as [v|] eqn:Eg.
    - pose proof (Hm t v Eg) as Hv. destruct v as [l|].
      + destruct Hv as [_ El]. subst l. exists mros. split; auto.
      + exfalso. specialize (HP t Hv). lia.
    - set (P' := fun k => P k \/ k = t).
      assert (Hloop : forall bs mros1 acc,
                (forall b, In b bs -> b < t) -> memo_ok P' mros1 ->
                exists mros2, pytd_bases_loop (compute_mro_pytd fuel H) bs mros1 acc
                              = Ok (rev acc ++ map (fun b => Some (M b)) bs, mros2) /\ memo_ok P' mros2).
      { induction bs as [|b rest IHb]; intros mros1 acc Hb Hm1; simpl.
        - exists mros1. rewrite app_nil_r. auto.
        - assert (Hbt : b < t) by (apply Hb; simpl; auto).
          assert (Hrest : forall b0, In b0 rest -> b0 < t) by (intros; apply Hb; simpl; auto).
          destruct (memo_get mros1 b) as [[l|]|] eqn:Eb.
          + destruct (Hm1 b _ Eb) as [_ El]. subst l.
            destruct (IHb mros1 (Some (M b) :: acc) Hrest Hm1) as [m2 [E2 H2]].
            exists m2. split; auto. rewrite E2. simpl. rewrite <- app_assoc. reflexivity.
          + exfalso. destruct (Hm1 b _ Eb) as [Hp|Hp]; [specialize (HP b Hp)|]; lia.
          + destruct (IHfuel b mros1 P') as [m1' [E1 H1]]; auto; try lia.
            { intros k [Hk|Hk]; [specialize (HP k Hk)|]; lia. }
            rewrite E1.
            destruct (IHb m1' (Some (M b) :: acc) Hrest H1) as [m2 [E2 H2]].
            exists m2. split; auto. rewrite E2. simpl. rewrite <- app_assoc. reflexivity. }
      destruct (Hloop (nth t H []) (memo_set mros t None) []) as [m2 [E2 H2]].
      + apply wf_bases_lt. apply pytd_bases_wf; auto.
      + intros k v Hk. rewrite memo_get_set in Hk. destruct (Nat.eqb t k) eqn:Ek.
        * inversion Hk; subst. apply Nat.eqb_eq in Ek. right. auto.
        * specialize (Hm k v Hk). destruct v; auto. left; auto.
      + rewrite E2. simpl app.
        assert (Eall : all_some (map (fun b => Some (M b)) (nth t H [])) = true).
        { unfold all_some. apply forallb_forall. intros o Ho. apply in_map_iff in Ho.
          destruct Ho as [b [Eo _]]. subst; auto. }
        rewrite Eall. unfold unsome. rewrite map_map. rewrite pytd_merge_fact by auto.
        eexists. split; [reflexivity|].
        intros k v Hk. rewrite memo_get_set in Hk. destruct (Nat.eqb t k) eqn:Ek.
        * inversion Hk; subst. apply Nat.eqb_eq in Ek. subst. auto.
        * specialize (H2 k v Hk). destruct v; auto. destruct H2 as [Hp|Hp]; auto.
          apply Nat.eqb_neq in Ek. congruence.
  Qed.

  Lemma bases_in_mro_loop_ok : forall bs mros acc,
    (forall b, In b bs -> b < length H) -> memo_ok (fun _ => False) mros ->
    bases_in_mro_loop (S (length H)) H bs mros acc = Ok (rev acc ++ map (fun b => Some (M b)) bs).
  Proof.
    induction bs as [|b rest IH]; intros mros acc Hb Hm.
    - simpl. rewrite app_nil_r. reflexivity.
    - cbn [bases_in_mro_loop].
      destruct (compute_mro_pytd_ok (S (length H)) b mros (fun _ => False)) as [m' [E Hm']]; auto.
      + assert (b < length H) by (apply Hb; simpl; auto). lia.
      + apply Hb; simpl; auto.
      + intros k [].
      + rewrite E. rewrite IH; auto.
        * simpl. rewrite <- app_assoc. reflexivity.
        * intros; apply Hb; simpl; auto.
  Qed.

  Lemma get_bases_in_mro_is_merge : forall bases,
    wf_bases (length H) bases = true ->
    get_bases_in_mro H bases = merge_py (map M bases ++ [bases]).
  Proof.
    intros bases Hb. unfold get_bases_in_mro.
    rewrite bases_in_mro_loop_ok.
    - simpl app.
      assert (Eall : all_some (map (fun b => Some (M b)) bases) = true).
      { unfold all_some. apply forallb_forall. intros o Ho. apply in_map_iff in Ho.
        destruct Ho as [b [Eo _]]. subst; auto. }
      rewrite Eall. unfold unsome. rewrite map_map. reflexivity.
    - apply wf_bases_lt; auto.
    - intros k v Hk. simpl in Hk. discriminate.
  Qed.

  Lemma pytd_agree_lemma : forall bases,
    wf_bases (length H) bases = true -> check_duplicates bases = true ->
    class_mro_c done (length H) bases =
    match get_bases_in_mro H bases with Ok l => Ok (length H :: l) | r => r end.
  Proof.
    intros bases Hb Hd. rewrite get_bases_in_mro_is_merge by auto.
    rewrite <- pytd_len in *.
    rewrite <- (step_agree done bases pytd_good Hb Hd false).
    rewrite (step_py_is_pmerge done bases pytd_good Hb Hd false).
    rewrite pmerge_spec, merge_py_spec.
    assert (Hn : nodup_each (map (mro_of done) bases ++ [bases])).
    { apply step_Y_nodup; auto. apply pytd_good. }
    change (map M bases) with (map (mro_of done) bases).
    rewrite (map_dedup_id _ Hn).
    unfold spec_merge. change (rev [length done]) with ([] ++ [length done]).
    rewrite spec_loop_acc. reflexivity.
  Qed.
End Pytd.

(* ------------------------------------------------------------------------------------------------ *)
(* statements used by Props/C10.v *)

Lemma fuel_enough_lemma : forall sing seqs acc0 tm,
  merge_py_gen sing seqs <> OutOfFuel /\ merge_py_gen sing seqs <> Crash /\
  pmerge acc0 tm <> OutOfFuel /\ pmerge acc0 tm <> Crash.
Proof.
  intros. destruct (merge_py_gen_fuel_lemma sing seqs). destruct (pmerge_fuel_lemma acc0 tm). auto.
Qed.

Lemma mro_error_iff_partial_lemma : forall dupcheck H i,
  wf_table H = true -> no_dup_bases H = true ->
  (table_error (mros_py dupcheck H) = Some i <-> table_error (mros_c H) = Some i).
Proof. intros. rewrite mro_agree_lemma by auto. tauto. Qed.

Lemma mro_error_iff_dupcheck_lemma : forall H i,
  wf_table H = true ->
  (table_error (mros_py true H) = Some i <-> table_error (mros_c H) = Some i).
Proof. intros. rewrite mro_agree_fixed_lemma by auto. tauto. Qed.

(* object, class A(object), class B(A, A) *)
Definition dup_witness : list (list nat) := [[]; [0]; [1; 1]].

Lemma mro_error_iff_refuted_lemma :
  exists H, wf_table H = true /\
            table_error (mros_py false H) = None /\ table_error (mros_c H) = Some 2.
Proof. exists dup_witness. vm_compute. auto. Qed.

Lemma mro_agree_refuted_lemma :
  exists H, wf_table H = true /\ mros_py false H <> mros_c H.
Proof. exists dup_witness. vm_compute. split; auto. discriminate. Qed.

Lemma lookup_agree_partial_lemma : forall dupcheck H attrs c name,
  wf_table H = true -> no_dup_bases H = true ->
  lookup_py dupcheck H attrs c name = lookup_c H attrs c name.
Proof. intros. unfold lookup_py, lookup_c. rewrite mro_agree_lemma by auto. reflexivity. Qed.

Lemma lookup_agree_dupcheck_lemma : forall H attrs c name,
  wf_table H = true -> lookup_py true H attrs c name = lookup_c H attrs c name.
Proof. intros. unfold lookup_py, lookup_c. rewrite mro_agree_fixed_lemma by auto. reflexivity. Qed.

(* the looked-up class is the first one in the MRO that defines the name *)
Lemma lookup_first_lemma : forall attrs mro name c,
  lookup attrs mro name = Some c ->
  exists pre post, mro = pre ++ c :: post /\ defines attrs name c = true /\
                   forall x, In x pre -> defines attrs name x = false.
Proof.
  unfold lookup. induction mro as [|h t IH]; simpl; intros name c Hf; try discriminate.
  destruct (defines attrs name h) eqn:E.
  - inversion Hf; subst. exists [], t. simpl. repeat split; auto. intros x [].
  - destruct (IH _ _ Hf) as [pre [post [E1 [E2 E3]]]]. exists (h :: pre), post. subst. simpl.
    repeat split; auto. intros x [Ex|Hx]; subst; auto.
Qed.

(* GetBasesInMRO (which has no duplicate check in either tree) accepts a repeated base *)
Lemma pytd_agree_refuted_lemma :
  exists H done bases,
    wf_table H = true /\ no_dup_bases H = true /\ mros_c H = TableOk done /\
    wf_bases (length H) bases = true /\
    class_mro_c done (length H) bases = Reject /\ get_bases_in_mro H bases = Ok [1; 0].
Proof. exists [[]; [0]], [[0]; [1; 0]], [1; 1]. vm_compute. repeat split; reflexivity. Qed.
