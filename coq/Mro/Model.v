(* C10 model.  Definitions only (no proofs), so that the model still evaluates when a proof breaks.

   Two independent executable algorithms and what is built on top of them:

   * pytype:   pytype/pytd/mro.py  MergeSequences, Dedup, MROMerge, _ComputeMRO, GetBasesInMRO;
               pytype/abstract/class_mixin.py  Class.compute_mro   (interpreter classes and stub classes seen
               through the VM), pytype/vm_utils.py make_class (MROError -> mro-error, class becomes Any);
               pytype/attribute.py _lookup_from_mro (first class in cls.mro that has the member).
   * CPython:  Objects/typeobject.c (3.12)  tail_contains, pmerge, check_duplicates, mro_implementation.

   Classes are natural numbers.  A class table is a [list (list nat)]: class [i] is the i-th entry, its
   value is the tuple of its bases as written in the class statement.  *)
From Coq Require Import List Arith Bool.
Import ListNotations.

(* outcome of a fuelled computation that may also raise *)
Inductive res (A : Type) : Type :=
| Ok (a : A)        (* returned normally *)
| Reject            (* pytype: ValueError/MROError;  CPython: TypeError *)
| OutOfFuel         (* model artefact; proved unreachable (fuel_enough theorems) *)
| Crash.            (* an exception other than MROError (e.g. Dedup(None)); proved unreachable on wf tables *)
Arguments Ok {A} a. Arguments Reject {A}. Arguments OutOfFuel {A}. Arguments Crash {A}.

Definition mem (x : nat) (l : list nat) : bool := existsb (Nat.eqb x) l.
Definition total_len (seqs : list (list nat)) : nat := fold_right (fun s n => length s + n) 0 seqs.
Definition is_nil (s : list nat) : bool := match s with [] => true | _ => false end.

(* ------------------------------------------------------------------------------------------------ *)
(* pytype/pytd/mro.py                                                                                *)

(* def Dedup(seq): keep the first occurrence of every element, in order *)
Fixpoint dedup_aux (seen : list nat) (seq : list nat) : list nat :=
  match seq with
  | [] => []
  | s :: t => if mem s seen then dedup_aux (s :: seen) t else s :: dedup_aux (s :: seen) t
  end.
Definition dedup (seq : list nat) : list nat := dedup_aux [] seq.

(* `any(s for s in seqs if cand in s[1:] and s is not seq)`: [i] is the position of `seq` in `seqs`
   (object identity of the list `seq`), [j] counts the position of `s`. *)
Fixpoint py_in_other_tail (cand : nat) (i j : nat) (seqs : list (list nat)) : bool :=
  match seqs with
  | [] => false
  | s :: rest =>
    (mem cand (tl s) && negb (Nat.eqb j i) && negb (is_nil s)) || py_in_other_tail cand i (S j) rest
  end.

Inductive py_pick_result : Type :=
| PickSingleton (c : nat)   (* the `SINGLETON` branch: break with cand, seqs rebuilt *)
| PickOk (c : nat)          (* accepted candidate: break *)
| PickNone.                 (* for loop ran to completion; cand is None (every head rejected) *)

(* the `for seq in seqs:` loop of MergeSequences; [all] is the whole list, [i] the index of the head of [todo] *)
Fixpoint py_pick (sing : nat -> bool) (all : list (list nat)) (i : nat) (todo : list (list nat))
  : py_pick_result :=
  match todo with
  | [] => PickNone
  | seq :: rest =>
    match seq with
    | [] => py_pick sing all (S i) rest                         (* if not seq: continue *)
    | cand :: _ =>
      if sing cand then PickSingleton cand                       (* getattr(cand, "SINGLETON", False) *)
      else if py_in_other_tail cand i 0 all
           then py_pick sing all (S i) rest                      (* cand = None  # reject candidate *)
           else PickOk cand
    end
  end.

(* for other_seq in seqs: if other_seq and other_seq[0] == cand: del other_seq[0] *)
Definition drop_head (c : nat) (s : list nat) : list nat :=
  match s with
  | h :: t => if Nat.eqb h c then t else s
  | [] => []
  end.
Definition remove_heads (c : nat) (seqs : list (list nat)) : list (list nat) := map (drop_head c) seqs.

(* seqs = [[s for s in seq if s != cand] for seq in seqs] *)
Definition remove_all (c : nat) (seqs : list (list nat)) : list (list nat) :=
  map (filter (fun s => negb (Nat.eqb s c))) seqs.

(* the `while True:` loop of MergeSequences; [acc] is `res` reversed *)
Fixpoint py_loop (sing : nat -> bool) (fuel : nat) (seqs : list (list nat)) (acc : list nat)
  : res (list nat) :=
  match fuel with
  | O => OutOfFuel
  | S f =>
    if forallb is_nil seqs then Ok (rev acc)                     (* if not any(seqs): return res *)
    else match py_pick sing seqs 0 seqs with
         | PickSingleton c => py_loop sing f (remove_all c seqs) (c :: acc)
         | PickOk c => py_loop sing f (remove_heads c seqs) (c :: acc)
         | PickNone => Reject                                    (* if cand is None: raise ValueError *)
         end
  end.

Definition merge_sequences (sing : nat -> bool) (seqs : list (list nat)) : res (list nat) :=
  py_loop sing (S (total_len seqs)) seqs [].

(* def MROMerge(input_seqs): seqs = [Dedup(s) for s in input_seqs]; MergeSequences(seqs), ValueError -> MROError *)
Definition merge_py_gen (sing : nat -> bool) (input_seqs : list (list nat)) : res (list nat) :=
  merge_sequences sing (map dedup input_seqs).

(* no class with a SINGLETON attribute (abstract.Unsolvable) among the classes *)
Definition no_sing : nat -> bool := fun _ => false.
Definition merge_py (input_seqs : list (list nat)) : res (list nat) := merge_py_gen no_sing input_seqs.

(* ------------------------------------------------------------------------------------------------ *)
(* CPython 3.12 Objects/typeobject.c                                                                 *)

(* static int tail_contains(PyObject *tuple, int whence, PyObject *o):
     for (j = whence+1; j < size; j++) if (PyTuple_GET_ITEM(tuple, j) == o) return 1;  return 0; *)
Definition tail_contains (tuple : list nat) (whence : nat) (o : nat) : bool :=
  mem o (skipn (S whence) tuple).

Inductive c_scan_result : Type :=
| ScanFound (candidate : nat)
| ScanEnd (empty_cnt : nat).

(* the `for (i = 0; i < to_merge_size; i++)` loop of pmerge.  [todo] = the (to_merge[i], remain[i]) pairs
   still to visit; [all] = all pairs (for the inner j loop). *)
Fixpoint c_scan (all todo : list (list nat * nat)) (empty_cnt : nat) : c_scan_result :=
  match todo with
  | [] => ScanEnd empty_cnt
  | (cur_tuple, r) :: rest =>
    if length cur_tuple <=? r then c_scan all rest (S empty_cnt)        (* remain[i] >= size: empty_cnt++; continue *)
    else
      let candidate := nth r cur_tuple 0 in
      if existsb (fun p => tail_contains (fst p) (snd p) candidate) all
      then c_scan all rest empty_cnt                                    (* goto skip *)
      else ScanFound candidate
  end.

(* for (j...) if (remain[j] < size(j_lst) && j_lst[remain[j]] == candidate) remain[j]++; *)
Definition c_advance (candidate : nat) (p : list nat * nat) : list nat * nat :=
  let (j_lst, r) := p in
  if (r <? length j_lst) && Nat.eqb (nth r j_lst 0) candidate then (j_lst, S r) else (j_lst, r).

(* the `again:` loop; [acc] is the list `acc` reversed *)
Fixpoint c_loop (fuel : nat) (st : list (list nat * nat)) (acc : list nat) : res (list nat) :=
  match fuel with
  | O => OutOfFuel
  | S f =>
    match c_scan st st 0 with
    | ScanFound c => c_loop f (map (c_advance c) st) (c :: acc)          (* PyList_Append; goto again *)
    | ScanEnd empty_cnt =>
      if Nat.eqb empty_cnt (length st) then Ok (rev acc)
      else Reject                                                        (* set_mro_error: "Cannot create a consistent MRO" *)
    end
  end.

(* static int pmerge(PyObject *acc, PyObject **to_merge, Py_ssize_t to_merge_size); remain[i] = 0 initially.
   [acc0] is the initial content of acc in order. *)
Definition pmerge (acc0 : list nat) (to_merge : list (list nat)) : res (list nat) :=
  c_loop (S (total_len to_merge)) (map (fun t => (t, 0)) to_merge) (rev acc0).

Definition merge_c (to_merge : list (list nat)) : res (list nat) := pmerge [] to_merge.

(* static int check_duplicates(PyObject *tuple): "duplicate base class %U" *)
Fixpoint check_duplicates (tuple : list nat) : bool :=   (* true = ok *)
  match tuple with
  | [] => true
  | o :: rest => negb (mem o rest) && check_duplicates rest
  end.

(* ------------------------------------------------------------------------------------------------ *)
(* MRO of one class statement, given the MROs of the classes created so far ([done], indexed by class) *)

Definition mro_of (done : list (list nat)) (b : nat) : list nat := nth b done [].

(* class_mixin.Class.compute_mro (no ParameterizedClass among the bases):
     bases = [[self]] + [list(base.mro) for base in bases] + [list(bases)];  mro.MROMerge(bases)
   vm_utils.make_class / convert._pytd_class_to_value turn MROError into an mro-error and the class into Any.
   [dupcheck] says whether compute_mro raises MROError when the same class object is listed twice among the
   bases: false on the unchanged tree (no such check exists), true with fixes/C10-duplicate-base.patch.
   Which value describes the tree under test is established by the correspondence run on every check. *)
Definition class_mro_py_gen (sing : nat -> bool) (dupcheck : bool)
                            (done : list (list nat)) (self : nat) (bases : list nat) : res (list nat) :=
  if dupcheck && negb (check_duplicates bases) then Reject
  else merge_py_gen sing ([self] :: map (mro_of done) bases ++ [bases]).
Definition class_mro_py := class_mro_py_gen no_sing.

(* mro_implementation(type) *)
Definition class_mro_c (done : list (list nat)) (self : nat) (bases : list nat) : res (list nat) :=
  match bases with
  | [base] => Ok (self :: mro_of done base)                              (* n == 1 fast path *)
  | _ =>
    if check_duplicates bases
    then pmerge [self] (map (mro_of done) bases ++ [bases])             (* result = [type]; pmerge(result, to_merge, n+1) *)
    else Reject                                                          (* TypeError: duplicate base class *)
  end.

(* A program is a sequence of class statements.  CPython stops at the first TypeError; after pytype's first
   mro-error the class is Any, and what follows is no longer comparable.  Both runs therefore return the
   MROs of the classes created before the first error, and the index of the failing statement if any. *)
Inductive table_result : Type :=
| TableOk (mros : list (list nat))
| TableErr (mros : list (list nat)) (failing : nat)
| TableBad (mros : list (list nat)) (failing : nat).      (* OutOfFuel / Crash: proved unreachable *)

Fixpoint run_table (f : list (list nat) -> nat -> list nat -> res (list nat))
                   (done : list (list nat)) (todo : list (list nat)) : table_result :=
  match todo with
  | [] => TableOk done
  | bases :: rest =>
    match f done (length done) bases with
    | Ok m => run_table f (done ++ [m]) rest
    | Reject => TableErr done (length done)
    | _ => TableBad done (length done)
    end
  end.

Definition mros_py (dupcheck : bool) (H : list (list nat)) : table_result :=
  run_table (class_mro_py dupcheck) [] H.
Definition mros_c (H : list (list nat)) : table_result := run_table class_mro_c [] H.

(* hypotheses on class tables *)
Definition wf_bases (self : nat) (bases : list nat) : bool := forallb (fun b => b <? self) bases.
Fixpoint wf_table_from (i : nat) (H : list (list nat)) : bool :=
  match H with
  | [] => true
  | bases :: rest => wf_bases i bases && wf_table_from (S i) rest
  end.
(* every base is a class created by an earlier statement *)
Definition wf_table (H : list (list nat)) : bool := wf_table_from 0 H.
(* no class statement lists the same base twice *)
Definition no_dup_bases (H : list (list nat)) : bool := forallb check_duplicates H.

(* ------------------------------------------------------------------------------------------------ *)
(* attribute lookup: attribute.py _lookup_from_mro: `for base in cls.mro: var = flat lookup; if var has
   bindings: return`  /  CPython _PyType_Lookup: first type in tp_mro whose __dict__ has the name.
   [attrs] : class -> names defined in its body. *)
Definition defines (attrs : list (list nat)) (name : nat) (c : nat) : bool := mem name (nth c attrs []).
Definition lookup (attrs : list (list nat)) (mro : list nat) (name : nat) : option nat :=
  find (defines attrs name) mro.

Definition table_mros (r : table_result) : list (list nat) :=
  match r with TableOk m => m | TableErr m _ => m | TableBad m _ => m end.
Definition table_error (r : table_result) : option nat :=
  match r with TableOk _ => None | TableErr _ i => Some i | TableBad _ i => Some i end.

(* attribute [name] read through class [c] (or an instance of it without instance attributes) *)
Definition lookup_py (dupcheck : bool) (H attrs : list (list nat)) (c name : nat) : option nat :=
  lookup attrs (mro_of (table_mros (mros_py dupcheck H)) c) name.
Definition lookup_c (H attrs : list (list nat)) (c name : nat) : option nat :=
  lookup attrs (mro_of (table_mros (mros_c H)) c) name.

(* ------------------------------------------------------------------------------------------------ *)
(* Stub classes outside the VM: mro.py _ComputeMRO / GetBasesInMRO over pytd.ClassType (no GenericType).
   [H] plays the role of `_GetClass(t, lookup_ast).bases`.  `mros` is a dict: association list,
   value None = "being computed". *)
Definition memo := list (nat * option (list nat)).
Fixpoint memo_get (m : memo) (t : nat) : option (option (list nat)) :=
  match m with
  | [] => None
  | (k, v) :: rest => if Nat.eqb k t then Some v else memo_get rest t
  end.
Definition memo_set (m : memo) (t : nat) (v : option (list nat)) : memo := (t, v) :: m.

(* the loop `for base in _GetClass(t).bases: ... base_mros.append(base_mro)` of _ComputeMRO;
   [rec] is the recursive call _ComputeMRO(base, mros, lookup_ast) *)
Fixpoint pytd_bases_loop (rec : nat -> memo -> res (option (list nat) * memo))
                         (bs : list nat) (mros : memo) (base_mros : list (option (list nat)))
  : res (list (option (list nat)) * memo) :=
  match bs with
  | [] => Ok (rev base_mros, mros)
  | base :: rest =>
    match memo_get mros base with
    | Some None => Reject                                                (* raise MROError([[t]]) *)
    | Some (Some m) => pytd_bases_loop rec rest mros (Some m :: base_mros)
    | None =>
      match rec base mros with
      | Ok (base_mro, mros') => pytd_bases_loop rec rest mros' (base_mro :: base_mros)
      | Reject => Reject | OutOfFuel => OutOfFuel | Crash => Crash
      end
    end
  end.

Definition all_some (l : list (option (list nat))) : bool :=
  forallb (fun o => match o with Some _ => true | None => false end) l.
Definition unsome (l : list (option (list nat))) : list (list nat) :=
  map (fun o => match o with Some m => m | None => [] end) l.

(* _ComputeMRO returns mros[t], which is None only if t is still being computed *)
Fixpoint compute_mro_pytd (fuel : nat) (H : list (list nat)) (t : nat) (mros : memo)
  : res (option (list nat) * memo) :=
  match fuel with
  | O => OutOfFuel
  | S f =>
    match memo_get mros t with
    | Some v => Ok (v, mros)                                             (* `if t not in mros` is false: return mros[t] *)
    | None =>
      let bases := nth t H [] in
      match pytd_bases_loop (compute_mro_pytd f H) bases (memo_set mros t None) [] with   (* mros[t] = None *)
      | Ok (base_mros, mros') =>
        (* mros[t] = tuple(MROMerge([[t]] + base_mros + [bases])); Dedup(None) would raise TypeError *)
        if all_some base_mros
        then match merge_py ([t] :: unsome base_mros ++ [bases]) with
             | Ok m => Ok (Some m, memo_set mros' t (Some m))
             | Reject => Reject | OutOfFuel => OutOfFuel | Crash => Crash
             end
        else Crash
      | Reject => Reject | OutOfFuel => OutOfFuel | Crash => Crash
      end
    end
  end.

(* def GetBasesInMRO(cls): mros = {}; base_mros = [_ComputeMRO(p, mros) for p in cls.bases];
                           MROMerge(base_mros + [cls.bases]) *)
Fixpoint bases_in_mro_loop (fuel : nat) (H : list (list nat)) (bs : list nat) (mros : memo)
                           (base_mros : list (option (list nat))) : res (list (option (list nat))) :=
  match bs with
  | [] => Ok (rev base_mros)
  | p :: rest =>
    match compute_mro_pytd fuel H p mros with
    | Ok (m, mros') => bases_in_mro_loop fuel H rest mros' (m :: base_mros)
    | Reject => Reject | OutOfFuel => OutOfFuel | Crash => Crash
    end
  end.

Definition get_bases_in_mro (H : list (list nat)) (bases : list nat) : res (list nat) :=
  match bases_in_mro_loop (S (length H)) H bases [] [] with
  | Ok base_mros =>
    if all_some base_mros then merge_py (unsome base_mros ++ [bases]) else Crash
  | Reject => Reject | OutOfFuel => OutOfFuel | Crash => Crash
  end.
