(* C10 proofs, part 2: super() lookups, instance dictionaries filled by cooperative __init__ chains, Generic bases. *)
From Coq Require Import List Arith Bool Lia.
From PV Require Import Mro.Model Mro.Proofs Mro.Attr.
Import ListNotations.

(* ------------------------------------------------------------------------------------------------ *)
(* (a) super()                                                                                        *)

Lemma find_ext_in : forall (A : Type) (f g : A -> bool) l,
  (forall x, In x l -> f x = g x) -> find f l = find g l.
Proof.
  induction l as [|h t IH]; simpl; intros Hfg; auto.
  rewrite (Hfg h) by auto. destruct (g h); auto.
Qed.

Lemma mem_app : forall x a b, mem x (a ++ b) = mem x a || mem x b.
Proof. intros. unfold mem. apply existsb_app. Qed.

(* pytype's skip-set walk finds the first definition strictly after [cur]; [pre] = classes already put in the set *)
Lemma lookup_skip_after_gen : forall attrs name cur mro pre,
  NoDup mro -> (forall x, In x pre -> ~ In x mro) ->
  find (fun b => negb (mem b (pre ++ skip_set mro cur)) && defines attrs name b) mro =
  find (defines attrs name) (after cur mro).
Proof.
  induction mro as [|b rest IH]; intros pre Hn Hd; simpl; auto.
  inversion Hn as [|? ? Hb Hr]; subst.
  destruct (Nat.eqb b cur) eqn:E.
  - (* b is the calling class: it is skipped, nothing of the rest is in the set *)
    rewrite mem_app. simpl. rewrite Nat.eqb_refl. simpl. rewrite orb_true_r. simpl.
    apply find_ext_in. intros x Hx.
    assert (Hm : mem x (pre ++ [b]) = false).
    { apply mem_false. intros Hi. apply in_app_or in Hi. destruct Hi as [Hi|[Hi|[]]].
      - apply (Hd x Hi). simpl; auto.
      - subst. auto. }
    rewrite Hm. reflexivity.
  - rewrite mem_app. simpl. rewrite Nat.eqb_refl. simpl. rewrite orb_true_r. simpl.
    replace (pre ++ b :: skip_set rest cur) with ((pre ++ [b]) ++ skip_set rest cur)
      by (rewrite <- app_assoc; reflexivity).
    apply IH; auto.
    intros x Hi Hx. apply in_app_or in Hi. destruct Hi as [Hi|[Hi|[]]].
    + apply (Hd x Hi). simpl; auto.
    + subst. auto.
Qed.

Lemma super_lookup_py_after : forall attrs mro cur name,
  NoDup mro -> super_lookup_py attrs mro cur name = find (defines attrs name) (after cur mro).
Proof.
  intros. unfold super_lookup_py, lookup_skip.
  apply (lookup_skip_after_gen attrs name cur mro []); auto.
Qed.

Lemma c_find_index_shift : forall mro cur i, c_find_index mro cur i = i + c_find_index mro cur 0.
Proof.
  induction mro as [|b rest IH]; intros cur i; simpl; try lia.
  destruct rest as [|b2 r]; try lia.
  destruct (Nat.eqb b cur); try lia.
  rewrite (IH cur (S i)), (IH cur 1). lia.
Qed.

Lemma c_find_index_cons : forall b b2 r cur, Nat.eqb b cur = false ->
  c_find_index (b :: b2 :: r) cur 0 = S (c_find_index (b2 :: r) cur 0).
Proof.
  intros b b2 r cur E. simpl. rewrite E. destruct r as [|b3 r']; [reflexivity|].
  destruct (Nat.eqb b2 cur); [reflexivity|].
  rewrite (c_find_index_shift _ _ 2), (c_find_index_shift _ _ 1). lia.
Qed.

(* CPython's index walk does the same, for every tuple (no hypothesis) *)
Lemma super_lookup_c_after : forall attrs mro cur name,
  super_lookup_c attrs mro cur name = find (defines attrs name) (after cur mro).
Proof.
  intros attrs mro cur name. unfold super_lookup_c.
  induction mro as [|b rest IH]; auto.
  destruct rest as [|b2 r].
  - simpl. destruct (Nat.eqb b cur); reflexivity.
  - change (after cur (b :: b2 :: r)) with (if Nat.eqb b cur then b2 :: r else after cur (b2 :: r)).
    destruct (Nat.eqb b cur) eqn:E.
    + simpl. rewrite E. reflexivity.
    + rewrite (c_find_index_cons b b2 r cur E).
      set (l := b2 :: r) in *. set (k := c_find_index l cur 0) in *.
      change (length (b :: l) <=? S (S k)) with (length l <=? S k).
      change (skipn (S (S k)) (b :: l)) with (skipn (S k) l).
      exact IH.
Qed.

Lemma super_lookup_agree_lemma : forall attrs mro cur name,
  NoDup mro -> super_lookup_py attrs mro cur name = super_lookup_c attrs mro cur name.
Proof. intros. rewrite super_lookup_py_after, super_lookup_c_after; auto. Qed.

(* without NoDup the set-based walk and the index walk differ *)
Lemma super_lookup_needs_nodup_lemma :
  exists attrs mro cur name, super_lookup_py attrs mro cur name <> super_lookup_c attrs mro cur name.
Proof. exists [[]; [7]; []], [1; 2; 1], 2, 7. vm_compute. discriminate. Qed.

Lemma after_split : forall c pre post, ~ In c pre -> after c (pre ++ c :: post) = post.
Proof.
  induction pre as [|h t IH]; intros post Hn; simpl.
  - rewrite Nat.eqb_refl. reflexivity.
  - destruct (Nat.eqb h c) eqn:E.
    + apply Nat.eqb_eq in E. subst. exfalso. apply Hn. simpl; auto.
    + apply IH. intros Hi. apply Hn. simpl; auto.
Qed.

Lemma find_split : forall (f : nat -> bool) l c, find f l = Some c ->
  exists l1 l2, l = l1 ++ c :: l2 /\ f c = true /\ filter f l1 = [].
Proof.
  induction l as [|h t IH]; simpl; intros c Hf; try discriminate.
  destruct (f h) eqn:E.
  - inversion Hf; subst. exists [], t. simpl. auto.
  - destruct (IH _ Hf) as [l1 [l2 [E1 [E2 E3]]]]. exists (h :: l1), l2. subst. simpl. rewrite E. auto.
Qed.

Lemma find_none_filter : forall (f : nat -> bool) l, find f l = None -> filter f l = [].
Proof.
  induction l as [|h t IH]; simpl; intros Hf; auto.
  destruct (f h); try discriminate. auto.
Qed.

(* the chain of definitions reached by successive super() calls = all definitions, in MRO order, each once *)
Lemma chain_filter_gen : forall attrs name (sl : nat -> option nat) mro,
  NoDup mro ->
  (forall c, sl c = find (defines attrs name) (after c mro)) ->
  forall fuel pre l, mro = pre ++ l -> length l < fuel ->
  chain_from sl fuel (find (defines attrs name) l) = filter (defines attrs name) l.
Proof.
  intros attrs name sl mro Hn Hsl. induction fuel as [|f IH]; intros pre l Hm Hl; try lia.
  simpl. destruct (find (defines attrs name) l) as [c|] eqn:E.
  - destruct (find_split _ _ _ E) as [l1 [l2 [E1 [E2 E3]]]]. subst l.
    rewrite filter_app. rewrite E3. simpl. rewrite E2. f_equal.
    assert (Hm' : mro = (pre ++ l1) ++ c :: l2) by (rewrite <- app_assoc; exact Hm).
    assert (Hc : ~ In c (pre ++ l1)).
    { rewrite Hm' in Hn. apply NoDup_remove_2 in Hn. intros Hi. apply Hn. apply in_or_app. auto. }
    rewrite Hsl. rewrite Hm'. rewrite after_split by exact Hc.
    apply (IH ((pre ++ l1) ++ [c]) l2).
    + rewrite <- app_assoc. exact Hm'.
    + rewrite app_length in Hl. simpl in Hl. lia.
  - symmetry. apply find_none_filter. exact E.
Qed.

Lemma super_chain_c_lemma : forall attrs mro name,
  NoDup mro -> super_chain_c attrs mro name = filter (defines attrs name) mro.
Proof.
  intros. unfold super_chain_c, lookup.
  apply (chain_filter_gen attrs name _ mro H) with (pre := []); auto.
  intros c. apply super_lookup_c_after.
Qed.

Lemma super_chain_py_lemma : forall attrs mro name,
  NoDup mro -> super_chain_py attrs mro name = filter (defines attrs name) mro.
Proof.
  intros. unfold super_chain_py, lookup.
  apply (chain_filter_gen attrs name _ mro H) with (pre := []); auto.
  intros c. apply super_lookup_py_after; auto.
Qed.

(* ---- on class tables: every MRO of a created class is duplicate-free ---- *)

Lemma run_table_c_good : forall todo done,
  good_done done -> wf_table_from (length done) todo = true ->
  good_done (table_mros (run_table class_mro_c done todo)).
Proof.
  induction todo as [|bases rest IH]; intros done Hg Hwf; simpl; auto.
  simpl in Hwf. apply andb_true_iff in Hwf. destruct Hwf as [Hw1 Hw2].
  destruct (class_mro_c done (length done) bases) as [m| | |] eqn:E; simpl; auto.
  apply IH.
  - eapply check_duplicates_step_good; eauto.
  - rewrite app_length. simpl. rewrite Nat.add_1_r. exact Hw2.
Qed.

Lemma mros_c_nodup : forall H c, wf_table H = true -> NoDup (mro_of (table_mros (mros_c H)) c).
Proof.
  intros H c Hw. unfold mro_of.
  destruct (Nat.lt_ge_cases c (length (table_mros (mros_c H)))) as [Hlt|Hge].
  - destruct (run_table_c_good H [] good_done_nil Hw c Hlt) as [m' [E [Hn _]]]. exact Hn.
  - rewrite nth_overflow by exact Hge. constructor.
Qed.

Lemma super_agree_inst_dupcheck_lemma : forall H attrs c cur name,
  wf_table H = true -> super_py true H attrs (SInst c) cur name = super_c H attrs (SInst c) cur name.
Proof.
  intros. unfold super_py, super_c, super_attr_py, super_attr_c, start_py, start_c.
  rewrite mro_agree_fixed_lemma by auto. apply super_lookup_agree_lemma. apply mros_c_nodup; auto.
Qed.

Lemma super_agree_inst_partial_lemma : forall dupcheck H attrs c cur name,
  wf_table H = true -> no_dup_bases H = true ->
  super_py dupcheck H attrs (SInst c) cur name = super_c H attrs (SInst c) cur name.
Proof.
  intros. unfold super_py, super_c, super_attr_py, super_attr_c, start_py, start_c.
  rewrite mro_agree_lemma by auto. apply super_lookup_agree_lemma. apply mros_c_nodup; auto.
Qed.

(* super() inside a classmethod: pytype starts from the CALLING class's MRO.  Diamond:
   object; A (defines f); B(A) (defines f, calls super().f()); C(A) (defines f); D(B, C);  D.f() *)
Definition cm_table : list (list nat) := [[]; [0]; [1]; [1]; [2; 3]].
Definition cm_attrs : list (list nat) := [[]; [7]; [7]; [7]; []].
Lemma super_classmethod_refuted_lemma :
  wf_table cm_table = true /\ no_dup_bases cm_table = true /\
  In 2 (mro_of (table_mros (mros_c cm_table)) 4) /\
  super_py true cm_table cm_attrs (SCls 4) 2 7 = Some 1 /\
  super_c cm_table cm_attrs (SCls 4) 2 7 = Some 3.
Proof. vm_compute. repeat split; auto. Qed.

(* ... and agrees when the class object is the calling class itself (a single super call, no sibling in between) *)
Lemma super_agree_cls_same_lemma : forall H attrs cur name,
  wf_table H = true -> super_py true H attrs (SCls cur) cur name = super_c H attrs (SCls cur) cur name.
Proof.
  intros. unfold super_py, super_c, super_attr_py, super_attr_c, start_py, start_c.
  rewrite mro_agree_fixed_lemma by auto. apply super_lookup_agree_lemma. apply mros_c_nodup; auto.
Qed.

(* ------------------------------------------------------------------------------------------------ *)
(* (b) instance dictionaries                                                                          *)

Lemma run_init_ext : forall inits (sl1 sl2 : nat -> option nat) fuel cur,
  (forall c, sl1 c = sl2 c) -> run_init inits sl1 fuel cur = run_init inits sl2 fuel cur.
Proof.
  induction fuel as [|f IH]; intros cur Hs; simpl; auto.
  destruct cur as [c|]; auto.
  rewrite (Hs c). rewrite (IH (sl2 c) Hs). reflexivity.
Qed.

Lemma inst_dict_agree_lemma : forall inits mro n,
  NoDup mro -> inst_dict_py inits mro n = inst_dict_c inits mro n.
Proof.
  intros. unfold inst_dict_py, inst_dict_c. apply run_init_ext.
  intros c. apply super_lookup_agree_lemma; auto.
Qed.

Lemma read_inst_agree_dupcheck_lemma : forall H attrs hooks inits c name,
  wf_table H = true -> read_inst_py true H attrs hooks inits c name = read_inst_c H attrs hooks inits c name.
Proof.
  intros. unfold read_inst_py, read_inst_c. rewrite mro_agree_fixed_lemma by auto.
  rewrite inst_dict_agree_lemma by (apply mros_c_nodup; auto). reflexivity.
Qed.

Lemma read_inst_agree_partial_lemma : forall dupcheck H attrs hooks inits c name,
  wf_table H = true -> no_dup_bases H = true ->
  read_inst_py dupcheck H attrs hooks inits c name = read_inst_c H attrs hooks inits c name.
Proof.
  intros. unfold read_inst_py, read_inst_c. rewrite mro_agree_lemma by auto.
  rewrite inst_dict_agree_lemma by (apply mros_c_nodup; auto). reflexivity.
Qed.

(* What the chain leaves in the dictionary when every __init__ is written "super().__init__() first, own stores after"
   (kind 2): the stores of the classes of the MRO that define __init__, LAST class first -- so the value read back comes
   from the FIRST class in MRO order whose __init__ stores the name. *)
Definition all_post (inits : list (nat * list nat)) (l : list nat) : Prop :=
  forall c, In c l -> init_kind inits c = 0 \/ init_kind inits c = 2.

Fixpoint stores_post (inits : list (nat * list nat)) (l : list nat) : list (nat * nat) :=
  match l with
  | [] => []
  | c :: rest => stores_post inits rest ++
                 (if has_init inits c then map (fun n => (n, c)) (init_names inits c) else [])
  end.

Lemma run_init_S : forall inits sl f c,
  run_init inits sl (S f) (Some c) =
  match init_kind inits c with
  | 1 => map (fun n => (n, c)) (init_names inits c) ++ run_init inits sl f (sl c)
  | 2 => run_init inits sl f (sl c) ++ map (fun n => (n, c)) (init_names inits c)
  | 3 => map (fun n => (n, c)) (init_names inits c)
  | _ => []
  end.
Proof. reflexivity. Qed.

Lemma nth_map_seq : forall (f : nat -> list nat) n c, c < n -> nth c (map f (seq 0 n)) [] = f c.
Proof.
  intros f n c Hc. rewrite (nth_indep _ [] (f 0)) by (rewrite map_length, seq_length; exact Hc).
  rewrite map_nth. rewrite seq_nth by exact Hc. reflexivity.
Qed.

Lemma run_init_post_gen : forall inits n (sl : nat -> option nat) mro,
  NoDup mro ->
  (forall c, sl c = find (defines (init_attrs inits n) 0) (after c mro)) ->
  (forall c, In c mro -> c < n) ->
  all_post inits mro ->
  forall fuel pre l, mro = pre ++ l -> length l < fuel ->
  run_init inits sl fuel (find (defines (init_attrs inits n) 0) l) = stores_post inits l.
Proof.
  intros inits n sl mro Hn Hsl Hlt Hpost.
  assert (Hdef : forall c, c < n -> defines (init_attrs inits n) 0 c = has_init inits c).
  { intros c Hc. unfold defines, init_attrs.
    rewrite (nth_map_seq (fun c0 => if has_init inits c0 then [0] else []) n c Hc).
    destruct (has_init inits c); reflexivity. }
  induction fuel as [|f IH]; intros pre l Hm Hl; try lia.
  destruct l as [|h t].
  - reflexivity.
  - assert (Hh : In h mro) by (subst mro; apply in_or_app; simpl; auto).
    assert (IHt : run_init inits sl f (find (defines (init_attrs inits n) 0) t) = stores_post inits t).
    { apply (IH (pre ++ [h]) t). rewrite <- app_assoc. exact Hm. simpl in Hl. lia. }
    assert (Hafter : after h mro = t).
    { subst mro. apply after_split. apply NoDup_remove_2 in Hn. intros Hi. apply Hn. apply in_or_app. auto. }
    cbn [find stores_post]. rewrite (Hdef h (Hlt h Hh)).
    destruct (has_init inits h) eqn:Eh.
    + cbn [run_init]. unfold has_init in Eh.
      destruct (Hpost h Hh) as [K|K]; rewrite K in Eh; simpl in Eh; try discriminate.
      rewrite K. rewrite Hsl, Hafter, IHt. reflexivity.
    + rewrite app_nil_r.
      (* h has no __init__: the lookup continues in t; one more unit of fuel does not matter *)
      destruct f as [|f']; [simpl in Hl; lia|].
      assert (Hmore : forall fuel' pre' l', mro = pre' ++ l' -> length l' < fuel' ->
                 run_init inits sl (S fuel') (find (defines (init_attrs inits n) 0) l') =
                 run_init inits sl fuel' (find (defines (init_attrs inits n) 0) l')).
      { clear - Hn Hsl Hlt Hpost Hdef. induction fuel' as [|g IHg]; intros pre' l' Hm' Hl'; try lia.
        destruct (find (defines (init_attrs inits n) 0) l') as [c|] eqn:E; [|reflexivity].
        destruct (find_split _ _ _ E) as [l1 [l2 [E1 [E2 E3]]]]. subst l'.
        assert (Hc : In c mro) by (subst mro; apply in_or_app; right; apply in_or_app; simpl; auto).
        assert (Ha : after c mro = l2).
        { subst mro. rewrite app_assoc. apply after_split. rewrite app_assoc in Hn.
          apply NoDup_remove_2 in Hn. intros Hi. apply Hn. apply in_or_app. auto. }
        rewrite !run_init_S. rewrite Hsl, Ha.
        rewrite (IHg ((pre' ++ l1) ++ [c]) l2).
        - reflexivity.
        - rewrite <- !app_assoc. exact Hm'.
        - rewrite app_length in Hl'. simpl in Hl'. lia. }
      rewrite (Hmore (S f') (pre ++ [h]) t).
      * exact IHt.
      * rewrite <- app_assoc. exact Hm.
      * simpl in Hl. lia.
Qed.

Lemma inst_dict_post_lemma : forall inits mro n,
  NoDup mro -> (forall c, In c mro -> c < n) -> all_post inits mro ->
  inst_dict_c inits mro n = stores_post inits mro /\ inst_dict_py inits mro n = stores_post inits mro.
Proof.
  intros inits mro n Hn Hlt Hp. split.
  - unfold inst_dict_c, lookup.
    apply (run_init_post_gen inits n _ mro Hn) with (pre := []); auto.
    intros c. apply super_lookup_c_after.
  - unfold inst_dict_py, lookup.
    apply (run_init_post_gen inits n _ mro Hn) with (pre := []); auto.
    intros c. apply super_lookup_py_after; auto.
Qed.

(* reading back: the first class in MRO order whose __init__ stores the name *)
Definition stores_name (inits : list (nat * list nat)) (name : nat) (c : nat) : bool :=
  has_init inits c && mem name (init_names inits c).

Lemma find_rev_app : forall (A : Type) (f : A -> bool) l1 l2,
  find f (rev (l1 ++ l2)) = match find f (rev l2) with Some x => Some x | None => find f (rev l1) end.
Proof.
  intros. rewrite rev_app_distr. induction (rev l2) as [|h t IH]; simpl; auto.
  destruct (f h); auto.
Qed.

Lemma find_rev_map_store : forall name c names,
  (match find (fun w : nat * nat => Nat.eqb (fst w) name) (rev (map (fun n => (n, c)) names)) with
   | Some w => Some (snd w) | None => None end) = if mem name names then Some c else None.
Proof.
  intros name c names. rewrite <- map_rev.
  assert (Hm : mem name names = mem name (rev names)).
  { unfold mem. destruct (existsb (Nat.eqb name) names) eqn:E.
    - symmetry. apply existsb_exists. apply existsb_exists in E. destruct E as [x [Hx Ex]].
      exists x. split; auto. apply in_rev. rewrite rev_involutive. exact Hx.
    - symmetry. apply not_true_is_false. intros K. apply existsb_exists in K. destruct K as [x [Hx Ex]].
      apply in_rev in Hx. assert (existsb (Nat.eqb name) names = true) by (apply existsb_exists; eauto).
      congruence. }
  rewrite Hm. clear Hm. induction (rev names) as [|h t IH]; simpl; auto.
  rewrite (Nat.eqb_sym h name). destruct (Nat.eqb name h); simpl; auto.
Qed.

Lemma inst_get_stores_post : forall inits name l,
  inst_get (stores_post inits l) name = find (stores_name inits name) l.
Proof.
  intros inits name. unfold inst_get. induction l as [|c rest IH]; simpl; auto.
  rewrite find_rev_app. unfold stores_name at 1.
  destruct (has_init inits c) eqn:Eh; simpl.
  - pose proof (find_rev_map_store name c (init_names inits c)) as K.
    destruct (find (fun w : nat * nat => Nat.eqb (fst w) name) (rev (map (fun n => (n, c)) (init_names inits c)))) as [w|] eqn:Ew.
    + destruct (mem name (init_names inits c)); try discriminate. exact K.
    + destruct (mem name (init_names inits c)); try discriminate. exact IH.
  - exact IH.
Qed.

Lemma inst_attr_first_in_mro_lemma : forall inits mro n name,
  NoDup mro -> (forall c, In c mro -> c < n) -> all_post inits mro ->
  inst_get (inst_dict_py inits mro n) name = find (stores_name inits name) mro /\
  inst_get (inst_dict_c inits mro n) name = find (stores_name inits name) mro.
Proof.
  intros inits mro n name Hn Hlt Hp.
  destruct (inst_dict_post_lemma inits mro n Hn Hlt Hp) as [Ec Ep].
  rewrite Ec, Ep. split; apply inst_get_stores_post.
Qed.

(* ------------------------------------------------------------------------------------------------ *)
(* (c) Generic[...] and parameterised bases                                                            *)

Lemma base2cls_fst : forall flat c d, fst d = c -> fst (base2cls_get flat c d) = c.
Proof.
  induction flat as [|e rest IH]; intros c d Hd; simpl; auto.
  apply IH. destruct (Nat.eqb (fst e) c) eqn:E; auto. apply Nat.eqb_eq in E. exact E.
Qed.

(* mapping the merged classes back through base2cls and projecting again is the identity *)
Lemma base2cls_project : forall flat l, map fst (map (fun c => base2cls_get flat c (c, 0)) l) = l.
Proof.
  intros. rewrite map_map. induction l as [|c t IH]; simpl; auto.
  rewrite base2cls_fst by reflexivity. rewrite IH. reflexivity.
Qed.

Lemma ident_dup_false : forall bases seen,
  NoDup (map fst (seen ++ bases)) -> ident_dup seen bases = false.
Proof.
  induction bases as [|b rest IH]; intros seen Hn; simpl; auto.
  apply orb_false_iff. split.
  - apply not_true_is_false. intros K. apply existsb_exists in K. destruct K as [e [He Hs]].
    unfold same_obj in Hs. apply andb_true_iff in Hs. destruct Hs as [_ Hs]. apply Nat.eqb_eq in Hs.
    rewrite map_app in Hn. simpl in Hn. apply NoDup_remove_2 in Hn. apply Hn.
    apply in_or_app. left. rewrite Hs. apply in_map. exact He.
  - apply IH. rewrite <- app_assoc. exact Hn.
Qed.

Lemma map_tl : forall (A B : Type) (f : A -> B) l, map f (tl l) = tl (map f l).
Proof. destruct l; reflexivity. Qed.

Lemma gmro_project : forall done doneC e,
  map (map fst) done = doneC -> good_done doneC -> fst e < length doneC ->
  map fst (gmro_of done e) = mro_of doneC (fst e).
Proof.
  intros done doneC e Hp Hg Hlt. unfold gmro_of, mro_of. subst doneC.
  assert (E : map fst (nth (fst e) done []) = nth (fst e) (map (map fst) done) []).
  { change (@nil nat) with (map (@fst nat nat) []). rewrite map_nth. reflexivity. }
  destruct (is_alias e).
  - cbn [map]. rewrite map_tl. unfold gref in *. rewrite E.
    destruct (Hg (fst e) Hlt) as [m' [Em _]]. rewrite Em. reflexivity.
  - exact E.
Qed.

Lemma gwf_bases_wf : forall n w l, gwf_bases n w = true -> (forall e, In e l -> In e w) ->
  wf_bases n (map fst l) = true.
Proof.
  intros n w l Hw Hin. unfold wf_bases. apply forallb_forall. intros x Hx.
  apply in_map_iff in Hx. destruct Hx as [e [Ee He]]. subst x.
  unfold gwf_bases in Hw. rewrite forallb_forall in Hw. apply Hw. apply Hin. exact He.
Qed.

Lemma get_mro_bases_incl : forall w e, In e (get_mro_bases w) -> In e w.
Proof.
  intros w e. unfold get_mro_bases. destruct (existsb _ w); auto.
  intros Hi. apply filter_In in Hi. tauto.
Qed.

(* one class statement: pytype's compute_mro on Generic/parameterised bases, projected to classes, is the plain
   compute_mro on the classes of the bases kept by get_mro_bases *)
Lemma class_mro_gen_project : forall (done : list (list gref)) doneC written,
  map (map fst) done = doneC -> good_done doneC -> gwf_bases (length doneC) written = true ->
  check_duplicates (py_resolve written) = true ->
  map_res (map fst) (class_mro_gen done (length done) written) =
  class_mro_py false doneC (length doneC) (py_resolve written).
Proof.
  intros done doneC written Hp Hg Hw Hd. unfold class_mro_gen, py_resolve in *.
  set (bases := get_mro_bases written) in *.
  rewrite ident_dup_false by (simpl; apply check_duplicates_NoDup; exact Hd).
  unfold class_mro_py, class_mro_py_gen. simpl andb.
  assert (Hlen : length done = length doneC) by (subst doneC; rewrite map_length; reflexivity).
  assert (Hrows : map (map fst) ([(length done, 0)] :: map (gmro_of done) bases ++ [bases]) =
                  [length doneC] :: map (mro_of doneC) (map fst bases) ++ [map fst bases]).
  { simpl. rewrite Hlen. f_equal. rewrite map_app. simpl. f_equal.
    rewrite !map_map. apply map_ext_in. intros e He.
    apply gmro_project; auto.
    unfold gwf_bases in Hw. rewrite forallb_forall in Hw.
    apply Nat.ltb_lt. apply Hw. apply get_mro_bases_incl. exact He. }
  rewrite Hrows. fold (merge_py ([length doneC] :: map (mro_of doneC) (map fst bases) ++ [map fst bases])).
  destruct (merge_py ([length doneC] :: map (mro_of doneC) (map fst bases) ++ [map fst bases])); cbn [map_res]; auto.
  f_equal. apply base2cls_project.
Qed.

Lemma run_gtable_agree : forall todo (done : list (list gref)) doneC,
  map (map (@fst nat nat)) done = doneC -> good_done doneC ->
  gwf_from (length doneC) todo = true -> no_dup_bases (map py_resolve todo) = true ->
  gproject (run_gtable done todo) = run_table class_mro_c doneC (map py_resolve todo).
Proof.
  induction todo as [|w rest IH]; intros done doneC Hp Hg Hwf Hnd.
  - simpl. rewrite Hp. reflexivity.
  - simpl in Hwf, Hnd. apply andb_true_iff in Hwf. destruct Hwf as [Hw1 Hw2].
    apply andb_true_iff in Hnd. destruct Hnd as [Hn1 Hn2].
    assert (Hlen : length done = length doneC) by (subst doneC; rewrite map_length; reflexivity).
    unfold gref in *.
    assert (Hwb : wf_bases (length doneC) (py_resolve w) = true).
    { unfold py_resolve. eapply gwf_bases_wf; eauto. apply get_mro_bases_incl. }
    pose proof (class_mro_gen_project done doneC w Hp Hg Hw1 Hn1) as Hstep.
    rewrite (step_agree doneC (py_resolve w) Hg Hwb Hn1 false) in Hstep.
    cbn [run_gtable map run_table]. unfold gref in *. rewrite <- Hstep. clear Hstep.
    destruct (class_mro_gen done (length done) w) as [m| | |] eqn:Eg; cbn [map_res gproject].
    + apply IH.
      * rewrite map_app, Hp. reflexivity.
      * eapply step_good; eauto.
        pose proof (class_mro_gen_project done doneC w Hp Hg Hw1 Hn1) as Hs.
        rewrite (step_agree doneC (py_resolve w) Hg Hwb Hn1 false) in Hs. unfold gref in *.
        rewrite Eg in Hs. symmetry. exact Hs.
      * rewrite app_length. simpl. rewrite Nat.add_1_r. exact Hw2.
      * exact Hn2.
    + simpl. rewrite Hp, Hlen. reflexivity.
    + simpl. rewrite Hp, Hlen. reflexivity.
    + simpl. rewrite Hp, Hlen. reflexivity.
Qed.

Lemma generic_rename_lemma : forall G,
  gwf_table G = true -> no_dup_bases (map py_resolve G) = true ->
  gproject (gmros_py G) = gmros_c_py_reading G.
Proof.
  intros. unfold gmros_py, gmros_c_py_reading. apply run_gtable_agree; auto. apply good_done_nil.
Qed.

Lemma generic_agree_partial_lemma : forall G,
  gwf_table G = true -> no_dup_bases (map py_resolve G) = true -> readings_agree G ->
  gproject (gmros_py G) = gmros_c G.
Proof. intros G Hw Hn Hr. rewrite generic_rename_lemma by auto. exact Hr. Qed.

Lemma list_eqb_eq : forall l1 l2, list_eqb l1 l2 = true -> l1 = l2.
Proof.
  induction l1 as [|a t IH]; destruct l2 as [|b t2]; simpl; intros H; try discriminate; auto.
  apply andb_true_iff in H. destruct H as [H1 H2]. apply Nat.eqb_eq in H1. subst. f_equal. auto.
Qed.

Lemma same_reading_agree_lemma : forall G,
  gwf_table G = true -> same_reading_table G = true -> gproject (gmros_py G) = gmros_c G.
Proof.
  intros G Hw Hs.
  assert (Hmap : map py_resolve G = map c_resolve G).
  { apply map_ext_in. intros w Hi. unfold same_reading_table in Hs. rewrite forallb_forall in Hs.
    specialize (Hs w Hi). unfold same_reading in Hs. apply andb_true_iff in Hs. apply list_eqb_eq. tauto. }
  apply generic_agree_partial_lemma; auto.
  - unfold no_dup_bases. rewrite Hmap. apply forallb_forall. intros bs Hb.
    apply in_map_iff in Hb. destruct Hb as [w [Ew Hi]]. subst bs.
    unfold same_reading_table in Hs. rewrite forallb_forall in Hs. specialize (Hs w Hi).
    unfold same_reading in Hs. apply andb_true_iff in Hs. tauto.
  - unfold readings_agree, gmros_c_py_reading, gmros_c. rewrite Hmap. reflexivity.
Qed.

(* object; Generic; A(Generic[T]); Bp; X(A[T], Bp); Y(X[T], Bp, Generic[T]):  typing keeps the trailing Generic[T] as the
   base `Generic` (no later alias), which contradicts X's MRO (Generic before Bp): TypeError.  get_mro_bases drops it. *)
Definition gen_witness : list (list gref) :=
  [[]; [(0, 0)]; [(1, 1)]; [(0, 0)]; [(2, 1); (3, 0)]; [(4, 1); (3, 0); (1, 1)]].
Lemma generic_dropped_refuted_lemma :
  gwf_table gen_witness = true /\ no_dup_bases (map py_resolve gen_witness) = true /\
  table_error (gproject (gmros_py gen_witness)) = None /\ table_error (gmros_c gen_witness) = Some 5.
Proof. vm_compute. repeat split; reflexivity. Qed.

(* object; Generic; A(Generic[T]); E(A[int], A[int]): two subscriptions are two objects for the identity-based duplicate
   check, MROMerge de-duplicates after the renaming; CPython: duplicate base class A *)
Definition alias_dup_witness : list (list gref) := [[]; [(0, 0)]; [(1, 1)]; [(2, 2); (2, 2)]].
Lemma alias_duplicate_refuted_lemma :
  gwf_table alias_dup_witness = true /\
  table_error (gproject (gmros_py alias_dup_witness)) = None /\ table_error (gmros_c alias_dup_witness) = Some 3.
Proof. vm_compute. repeat split; reflexivity. Qed.
