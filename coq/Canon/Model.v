(* C04 model (definitions only, no proofs):

   (a) pytype/pytd/parse/node.py      Node.__iter__/_ToTuple/__lt__, _VisitNode
       pytype/pytd/pytd.py            ClassType.__str__/__repr__/__eq__, NamedType/LateType.__str__,
                                      _SetOfTypes.__post_init__ (_FlattenTypes)
       pytype/pytd/pytd_visitors.py   CanonicalOrderingVisitor, IsNamedTuple
       pytype/pytd/base_visitor.py    Visitor.visit_class_names (table, checked against the real one)
   (b) pytype/errors/errors.py        ErrorLog.unique_sorted_errors/_sorted_errors,
                                      Error.get_unique_representation/_position,
                                      _compare_traceback_strings, MAX_TRACEBACKS

   Representation.  The real visitor, msgspec's struct repr and Node._ToTuple are all *generic* over
   the node classes, so the model is generic too: a pytd tree is a [value]; a node is its class name
   plus its struct fields in __struct_fields__ order (this includes the private lookup cache
   `_name2item` of Class/TypeDeclUnit, which Node.__iter__ - and hence the sort key - really sees).
   Non-node leaves (str, int, bool, None, enums, dict) carry the three strings the code looks at:
   type(x).__name__, str(x), repr(x) (these are CPython's, supplied by the harness projection).
   Strings are Coq byte strings (UTF-8); String.compare is byte-lexicographic, which for UTF-8
   coincides with Python's code-point order. *)
From Coq Require Import List String Ascii Bool Arith ZArith Permutation.
Import ListNotations.
Local Open Scope string_scope.

(* ------------------------------------------------------------------------------------------ *)
(* comparison combinators: Python's tuple ordering is lexicographic                            *)

Fixpoint lex_cmp {A} (c : A -> A -> comparison) (l1 l2 : list A) : comparison :=
  match l1, l2 with
  | [], [] => Eq
  | [], _ :: _ => Lt
  | _ :: _, [] => Gt
  | x :: t1, y :: t2 => match c x y with Eq => lex_cmp c t1 t2 | r => r end
  end.

Definition pair_cmp {A B} (ca : A -> A -> comparison) (cb : B -> B -> comparison)
           (p q : A * B) : comparison :=
  match ca (fst p) (fst q) with Eq => cb (snd p) (snd q) | r => r end.

(* ------------------------------------------------------------------------------------------ *)
(* Python's sorted(): a stable sort that only ever calls __lt__.  Stable insertion sort; any    *)
(* correct stable sort computes the same list when __lt__ is a strict weak order.              *)

Section Sort.
  Context {A : Type} (ltb : A -> A -> bool).
  (* insert x in front of an already sorted list: x goes before the first y with not (y < x) *)
  Fixpoint insert (x : A) (l : list A) : list A :=
    match l with
    | [] => [x]
    | y :: t => if ltb y x then y :: insert x t else x :: l
    end.
  Definition sort (l : list A) : list A := fold_right insert [] l.
End Sort.

Definition mem (s : string) (l : list string) : bool := existsb (String.eqb s) l.

(* ------------------------------------------------------------------------------------------ *)
(* pytd trees                                                                                  *)

Inductive value :=
| VAtom (cls s r : string)                          (* leaf: type(x).__name__, str(x), repr(x) *)
| VClassType (name : string) (cls : option (string * string))
                                                    (* pytd.ClassType; cls = (cls.name, str(cls)) *)
| VTup (l : list value)                             (* a tuple field *)
| VNode (cls : string) (fs : list (string * value)) (* any other Node: class name, struct fields *).

Definition class_name (v : value) : string :=
  match v with
  | VAtom c _ _ => c
  | VClassType _ _ => "ClassType"
  | VTup _ => "tuple"
  | VNode c _ => c
  end.

Fixpoint field (n : string) (fs : list (string * value)) : option value :=
  match fs with
  | [] => None
  | (m, v) :: t => if String.eqb n m then Some v else field n t
  end.

Definition tup_items (o : option value) : list value :=
  match o with Some (VTup l) => l | _ => [] end.

Definition atom_str (v : value) : string := match v with VAtom _ s _ => s | _ => "" end.

Fixpoint join (sep : string) (l : list string) : string :=
  match l with
  | [] => ""
  | [x] => x
  | x :: t => x ++ sep ++ join sep t
  end.

(* repr of a Python tuple, given the reprs of its items *)
Definition tuple_repr (l : list string) : string :=
  match l with
  | [] => "()"
  | [x] => "(" ++ x ++ ",)"
  | _ => "(" ++ join ", " l ++ ")"
  end.

(* repr(x): msgspec.Struct.__repr__ = Cls(f1=repr(v1), ...) over __struct_fields__;
   pytd.ClassType overrides __repr__ *)
Fixpoint repr (v : value) : string :=
  match v with
  | VAtom _ _ r => r
  | VClassType n c =>
      "ClassType" ++ (match c with None => "<unresolved>" | Some _ => "" end) ++ "(" ++ n ++ ")"
  | VTup l => tuple_repr (map repr l)
  | VNode c fs => c ++ "(" ++ join ", " (map (fun p => fst p ++ "=" ++ repr (snd p)) fs) ++ ")"
  end.

(* str(x): object.__str__ falls back to __repr__; NamedType, LateType and ClassType override it *)
Definition str (v : value) : string :=
  match v with
  | VAtom _ s _ => s
  | VClassType n c => match c with Some (cn, _) => cn | None => n end
  | VTup _ => repr v
  | VNode c fs =>
      if (c =? "NamedType") || (c =? "LateType")
      then match field "name" fs with Some x => atom_str x | None => repr v end
      else repr v
  end.

(* Node._ToTuple: tuple((x.__class__.__name__, str(x)) for x in self), self iterating over
   __struct_fields__ (for ClassType: name, cls).  For a non-Node str leaf (the items of
   Class.slots) the comparison is str.__lt__, rendered here as the one-component key [("", s)]. *)
Definition totuple (v : value) : list (string * string) :=
  match v with
  | VNode _ fs => map (fun p => (class_name (snd p), str (snd p))) fs
  | VClassType n c =>
      [("str", n); match c with Some (_, s) => ("Class", s) | None => ("NoneType", "None") end]
  | VAtom _ s _ => [("", s)]
  | VTup _ => [("", repr v)]
  end.

Definition key (v : value) : string * list (string * string) := (class_name v, totuple v).

Definition key_cmp (a b : value) : comparison :=
  pair_cmp String.compare (lex_cmp (pair_cmp String.compare String.compare)) (key a) (key b).

(* Node.__lt__: same class -> tuple.__lt__ of the _ToTuple()s, else compare the class names *)
Definition node_lt (a b : value) : bool :=
  match key_cmp a b with Lt => true | _ => false end.

Definition sort_vals (l : list value) : list value := sort node_lt l.

(* the `.name` attribute as read by _PreserveConstantsOrdering / IsNamedTuple:
   a struct field `name`, or the property of GenericType & co. (base_type.name) and of
   TemplateItem (type_param.name); Node.name defaults to "" *)
Definition name1 (v : value) : string :=
  match v with
  | VClassType n _ => n
  | VNode _ fs => match field "name" fs with Some x => atom_str x | None => "" end
  | _ => ""
  end.

Definition is_generic (c : string) : bool :=
  mem c ["GenericType"; "TupleType"; "CallableType"; "Concatenate"].

Definition name_of (v : value) : string :=
  match v with
  | VNode c fs =>
      match field "name" fs with
      | Some x => atom_str x
      | None =>
          if is_generic c then match field "base_type" fs with Some b => name1 b | None => "" end
          else if c =? "TemplateItem"
               then match field "type_param" fs with Some b => name1 b | None => "" end
          else ""
      end
  | _ => name1 v
  end.

(* Python == on pytd values as far as _FlattenTypes' dict.fromkeys needs it: structural (msgspec
   eq over the fields), except that ClassType.__eq__ compares the name only *)
Fixpoint veqb (a b : value) {struct a} : bool :=
  match a, b with
  | VAtom c s r, VAtom c' s' r' => (c =? c') && (s =? s') && (r =? r')
  | VClassType n _, VClassType n' _ => n =? n'
  | VTup l, VTup l' =>
      (fix go (l l' : list value) : bool :=
         match l, l' with
         | [], [] => true
         | x :: t, y :: t' => veqb x y && go t t'
         | _, _ => false
         end) l l'
  | VNode c fs, VNode c' fs' =>
      (c =? c') &&
      (fix go (fs fs' : list (string * value)) : bool :=
         match fs, fs' with
         | [], [] => true
         | p :: t, q :: t' => (fst p =? fst q) && veqb (snd p) (snd q) && go t t'
         | _, _ => false
         end) fs fs'
  | _, _ => false
  end.

(* _SetOfTypes.__post_init__ = _FlattenTypes: splice the members of directly nested
   UnionType/IntersectionType nodes, then drop duplicates keeping first occurrences *)
Definition is_setof (c : string) : bool := (c =? "UnionType") || (c =? "IntersectionType").

Definition is_setof_node (v : value) : bool :=
  match v with VNode c _ => is_setof c | _ => false end.

Definition flatten (l : list value) : list value :=
  flat_map (fun t => match t with
                     | VNode c fs =>
                         if is_setof c
                         then match field "type_list" fs with Some (VTup m) => m | _ => [t] end
                         else [t]
                     | _ => [t]
                     end) l.

Fixpoint dedup (l : list value) : list value :=
  match l with
  | [] => []
  | x :: t => x :: filter (fun y => negb (veqb x y)) (dedup t)
  end.

Definition post_init (l : list value) : list value := dedup (flatten l).

(* ------------------------------------------------------------------------------------------ *)
(* CanonicalOrderingVisitor                                                                    *)

(* base_visitor.Visitor.visit_class_names for this visitor: the classes under which one of
   TypeDeclUnit / Class / Signature / UnionType can occur.  Any other node is returned
   untouched by _VisitNode.  (Checked against the real visitor on every run.) *)
Definition visit_class_names : list string :=
  ["Alias"; "Annotated"; "CallableType"; "Class"; "Concatenate"; "Constant"; "Function";
   "GenericType"; "IntersectionType"; "Literal"; "ParamSpec"; ("Paramete" ++ "r")%string; "Signature";
   "TemplateItem"; "TupleType"; "TypeDeclUnit"; "TypeParameter"; "UnionType"; "_SetOfTypes"].

(* _PreserveConstantsOrdering(node), evaluated on the node whose children are already visited *)
Definition preserve_constants (fs : list (string * value)) : bool :=
  existsb (fun x => mem (name_of x) ["attr.s"; "dataclasses.dataclass"])
          (tup_items (field "decorators" fs))
  || existsb (fun b => mem (name_of b) ["collections.namedtuple"; "typing.NamedTuple"])
             (tup_items (field "bases" fs)).

(* which tuple fields Visit<c> passes through sorted(); everything else is kept in order:
   Function.signatures, Signature.params, Class.bases/keywords/template, GenericType.parameters,
   TypeParameter.constraints, and Class.constants of dataclass-like / namedtuple classes
   ([pc] = _PreserveConstantsOrdering(node)) *)
Definition sorts (c : string) (pc : bool) (n : string) : bool :=
  if c =? "TypeDeclUnit" then mem n ["constants"; "type_params"; "functions"; "classes"; "aliases"]
  else if c =? "Class" then
    mem n ["methods"; "decorators"; "classes"; "slots"] || ((n =? "constants") && negb pc)
  else if c =? "Signature" then mem n ["template"; "exceptions"]
  else if c =? "UnionType" then n =? "type_list"
  else false.

(* VisitTypeDeclUnit / VisitClass build a fresh node, whose lookup cache is the default {} *)
Definition resets (c n : string) : bool :=
  ((c =? "TypeDeclUnit") || (c =? "Class")) && (n =? "_name2item").

Definition empty_dict : value := VAtom "dict" "{}" "{}".

(* tuple(sorted(x)); `slots` may be None, which is kept *)
Definition sort_tup (v : value) : value :=
  match v with VTup l => VTup (sort_vals l) | _ => v end.

Definition post_tup (v : value) : value :=
  match v with VTup l => VTup (post_init l) | _ => v end.

(* What happens to one field [v] (its children already visited) of a visited node:
   1. _VisitNode: new_node = node_class( *new_children ) - only the _SetOfTypes classes have a
      __post_init__, which renormalises type_list                                    [isset]
   2. visitor.Visit(new_node): VisitTypeDeclUnit / VisitClass / VisitSignature / VisitUnionType
      pass some tuples through sorted()                                                [srt]
      (pytd.UnionType(tuple(sorted(node.type_list))) runs __post_init__ once more      [uni])
      and the freshly built TypeDeclUnit / Class has an empty lookup cache             [rst] *)
Definition tr_flags (isset srt rst uni : bool) (v : value) : value :=
  let v1 := if isset then post_tup v else v in
  if srt then (if uni then post_tup (sort_tup v1) else sort_tup v1)
  else if rst then empty_dict
  else v1.

Definition tr (c : string) (pc : bool) (n : string) (v : value) : value :=
  tr_flags (is_setof c && (n =? "type_list")) (sorts c pc n) (resets c n) (c =? "UnionType") v.

(* the children of a visited node after the recursive visit (what the Visit function sees) *)
Definition tr_fields (c : string) (g : list (string * value)) : list (string * value) :=
  map (fun p => (fst p, tr c (preserve_constants g) (fst p) (snd p))) g.

(* _VisitNode: post-order; tuples are mapped; classes outside visit_class_names are returned
   as they are.  The `changed` flag of the real code only decides whether node_class( ... ) is
   called again, which is unobservable except through __post_init__; the model always applies it,
   which agrees with the real code on every value whose set-types are already flattened and
   duplicate-free (true of everything the pytd constructors can build; monitored).
   _PreserveConstantsOrdering is evaluated on the node rebuilt from the visited children. *)
Fixpoint canon (v : value) : value :=
  match v with
  | VAtom _ _ _ => v
  | VClassType _ _ => v
  | VTup l => VTup (map canon l)
  | VNode c fs =>
      if mem c visit_class_names
      then VNode c (tr_fields c (map (fun p => (fst p, canon (snd p))) fs))
      else v
  end.

(* ------------------------------------------------------------------------------------------ *)
(* the hypotheses of the theorems, as predicates on the input tree                             *)

(* true structural equality (unlike [veqb] it also compares ClassType.cls) *)
Fixpoint value_eqb (a b : value) {struct a} : bool :=
  match a, b with
  | VAtom c s r, VAtom c' s' r' => (c =? c') && (s =? s') && (r =? r')
  | VClassType n c, VClassType n' c' =>
      (n =? n') &&
      match c, c' with
      | None, None => true
      | Some (x, y), Some (x', y') => (x =? x') && (y =? y')
      | _, _ => false
      end
  | VTup l, VTup l' =>
      (fix go (l l' : list value) : bool :=
         match l, l' with
         | [], [] => true
         | x :: t, y :: t' => value_eqb x y && go t t'
         | _, _ => false
         end) l l'
  | VNode c fs, VNode c' fs' =>
      (c =? c') &&
      (fix go (fs fs' : list (string * value)) : bool :=
         match fs, fs' with
         | [], [] => true
         | p :: t, q :: t' => (fst p =? fst q) && value_eqb (snd p) (snd q) && go t t'
         | _, _ => false
         end) fs fs'
  | _, _ => false
  end.

(* siblings that the sort cannot tell apart are identical *)
Definition key_separated (l : list value) : Prop :=
  forall x y, In x l -> In y l -> key_cmp x y = Eq -> x = y.
(* members of a set-type that Python's == identifies are identical, and none is itself a set-type
   (what _FlattenTypes establishes at construction time) *)
Definition eq_separated (l : list value) : Prop :=
  forall x y, In x l -> In y l -> veqb x y = true -> x = y.
Definition flat (l : list value) : Prop := forall x, In x l -> is_setof_node x = false.

Definition key_separatedb (l : list value) : bool :=
  forallb (fun x => forallb (fun y => match key_cmp x y with Eq => value_eqb x y | _ => true end) l) l.
Definition eq_separatedb (l : list value) : bool :=
  forallb (fun x => forallb (fun y => implb (veqb x y) (value_eqb x y)) l) l.
Definition flatb (l : list value) : bool := forallb (fun x => negb (is_setof_node x)) l.

Definition visited_children (fs : list (string * value)) : list (string * value) :=
  map (fun p => (fst p, canon (snd p))) fs.

(* [ok k v]: at every node the visitor reaches,
     - the member list of every set-type is flat and ==-separated   (after visiting the members)
     - if k: every tuple about to be sorted is key-separated         (after visiting its items) *)
Inductive ok (k : bool) : value -> Prop :=
| ok_atom : forall c s r, ok k (VAtom c s r)
| ok_ct : forall n c, ok k (VClassType n c)
| ok_tup : forall l, Forall (ok k) l -> ok k (VTup l)
| ok_skip : forall c fs, mem c visit_class_names = false -> ok k (VNode c fs)
| ok_node : forall c fs,
    mem c visit_class_names = true ->
    Forall (fun p => ok k (snd p)) fs ->
    (is_setof c = true ->
     forall l, In ("type_list", VTup l) (visited_children fs) -> flat l /\ eq_separated l) ->
    (k = true ->
     forall n l, In (n, VTup l) (visited_children fs) ->
                 sorts c (preserve_constants (visited_children fs)) n = true -> key_separated l) ->
    ok k (VNode c fs).

Definition keys_separate (u : value) : Prop := ok true u.
Definition sets_normal (u : value) : Prop := ok false u.

(* executable version (sound for [ok]; used for the non-vacuity examples and evaluated by the
   harness on every generated case) *)
Fixpoint okb (k : bool) (v : value) {struct v} : bool :=
  match v with
  | VAtom _ _ _ => true
  | VClassType _ _ => true
  | VTup l => forallb (okb k) l
  | VNode c fs =>
      if mem c visit_class_names then
        forallb (fun p => okb k (snd p)) fs
        && (if is_setof c
            then forallb (fun p => if fst p =? "type_list"
                                   then match snd p with
                                        | VTup l => flatb l && eq_separatedb l
                                        | _ => true
                                        end
                                   else true) (visited_children fs)
            else true)
        && (if k
            then forallb (fun p => match snd p with
                                   | VTup l => if sorts c (preserve_constants (visited_children fs)) (fst p)
                                               then key_separatedb l else true
                                   | _ => true
                                   end) (visited_children fs)
            else true)
      else true
  end.

(* [deep_perm u u']: u' is u with the items of tuples that CanonicalOrderingVisitor sorts
   permuted, at any depth the visitor reaches *)
Inductive deep_perm : value -> value -> Prop :=
| dp_refl : forall v, deep_perm v v
| dp_tup : forall l l', Forall2 deep_perm l l' -> deep_perm (VTup l) (VTup l')
| dp_node : forall c fs fs',
    mem c visit_class_names = true ->
    Forall2 (fun p q =>
               fst p = fst q /\
               (deep_perm (snd p) (snd q) \/
                (sorts c (preserve_constants (visited_children fs)) (fst p) = true /\
                 exists l l1 l', snd p = VTup l /\ Forall2 deep_perm l l1 /\
                                 Permutation l1 l' /\ snd q = VTup l'))) fs fs' ->
    deep_perm (VNode c fs) (VNode c fs').

(* ------------------------------------------------------------------------------------------ *)
(* (b) errors.py                                                                               *)

Record error := mkError {
  e_file : option string;     (* _filename *)
  e_line : Z;                 (* _line *)
  e_col : Z;                  (* _col *)
  e_method : option string;   (* _methodname *)
  e_message : string;         (* _message *)
  e_details : option string;  (* _details *)
  e_name : string;            (* _name *)
  e_tb : option string        (* _traceback *)
}.

(* Max number of tracebacks to show for the same error (checked against errors.MAX_TRACEBACKS) *)
Definition MAX_TRACEBACKS : nat := 3.
(* len(TRACEBACK_MARKER) (checked against the real constant) *)
Definition TRACEBACK_MARKER : string := "Called from (traceback):".

(* key=lambda x: (x.filename or "", x.line) *)
Definition file_or_empty (e : error) : string :=
  match e_file e with Some f => f | None => "" end.
Definition sort_key (e : error) : string * Z := (file_or_empty e, e_line e).
Definition sk_cmp (a b : string * Z) : comparison := pair_cmp String.compare Z.compare a b.
Definition err_lt (a b : error) : bool :=
  match sk_cmp (sort_key a) (sort_key b) with Lt => true | _ => false end.

(* ErrorLog._sorted_errors *)
Definition sorted_errors (es : list error) : list error := sort err_lt es.

(* Error._position.  The real function formats a string
      "%s:%d:%d: error: in %s" | "%d:%d: error: in %s" | ""
   the model keeps the components (the formatting is injective on them as long as the method
   name contains no ": "; trusted, exercised by the correspondence run on real Error objects) *)
Inductive position :=
| PFile (f : string) (line col1 : Z) (m : string)
| PLine (line col1 : Z) (m : string)
| PNone.

Definition method_part (e : error) : string :=
  match e_method e with
  | Some m => if m =? "" then "" else "in " ++ m
  | None => ""
  end.

Definition position_of (e : error) : position :=
  if negb (file_or_empty e =? "")
  then PFile (file_or_empty e) (e_line e) (e_col e + 1) (method_part e)
  else if negb (e_line e =? 0)%Z
       then PLine (e_line e) (e_col e + 1) (method_part e)
       else PNone.

(* Error.get_unique_representation: (self._position(), self._message, self._details, self._name) *)
Definition urepr (e : error) : position * string * option string * string :=
  (position_of e, e_message e, e_details e, e_name e).

Definition opt_string_eqb (a b : option string) : bool :=
  match a, b with
  | None, None => true
  | Some x, Some y => x =? y
  | _, _ => false
  end.

Definition position_eqb (p q : position) : bool :=
  match p, q with
  | PFile f l c m, PFile f' l' c' m' => (f =? f') && (l =? l')%Z && (c =? c')%Z && (m =? m')
  | PLine l c m, PLine l' c' m' => (l =? l')%Z && (c =? c')%Z && (m =? m')
  | PNone, PNone => true
  | _, _ => false
  end.

Definition urepr_eqb (a b : position * string * option string * string) : bool :=
  match a, b with
  | (p, m, d, n), (p', m', d', n') =>
      position_eqb p p' && (m =? m') && opt_string_eqb d d' && (n =? n')
  end.

(* s.endswith(suf) *)
Fixpoint list_eqb (a b : list ascii) : bool :=
  match a, b with
  | [], [] => true
  | x :: t, y :: t' => Ascii.eqb x y && list_eqb t t'
  | _, _ => false
  end.
Definition ends_with (s suf : string) : bool :=
  let a := list_ascii_of_string s in
  let b := list_ascii_of_string suf in
  (List.length b <=? List.length a)%nat && list_eqb (skipn (List.length a - List.length b) a) b.

(* left[len(TRACEBACK_MARKER):] if left else "" *)
Definition strip_marker (t : option string) : string :=
  match t with
  | Some s => if s =? "" then ""
              else string_of_list_ascii (skipn (String.length TRACEBACK_MARKER) (list_ascii_of_string s))
  | None => ""
  end.

(* _compare_traceback_strings: Some 0 / Some 1 / Some (-1) / None (not comparable) *)
Definition compare_tb (l r : option string) : option Z :=
  if opt_string_eqb l r then Some 0%Z
  else let l' := strip_marker l in
       let r' := strip_marker r in
       if ends_with l' r' then Some 1%Z
       else if ends_with r' l' then Some (-1)%Z
       else None.

(* the `for previous_error in list(errors)` loop: walks a copy of the group; [kept_rev] are the
   members walked so far that were not removed.  Result: (did we break?, the live list `errors`) *)
Fixpoint scan (cur : error) (prevs kept_rev : list error) : bool * list error :=
  match prevs with
  | [] => (false, rev kept_rev)
  | p :: rest =>
      match compare_tb (e_tb cur) (e_tb p) with
      | None => scan cur rest (p :: kept_rev)                 (* continue *)
      | Some c => if (c <? 0)%Z
                  then scan cur rest kept_rev                  (* errors.remove(previous_error) *)
                  else (true, (rev kept_rev ++ p :: rest)%list)       (* break: current is discarded *)
      end
  end.

(* for ... else: if len(errors) < MAX_TRACEBACKS: errors.append(error) *)
Definition add_to_group (cur : error) (errs : list error) : list error :=
  let '(broke, errs') := scan cur errs [] in
  if broke then errs'
  else if (List.length errs' <? MAX_TRACEBACKS)%nat then (errs' ++ [cur])%list else errs'.

(* unique_errors: an insertion-ordered dict from unique representation to its list of errors *)
Definition groups := list ((position * string * option string * string) * list error).

Fixpoint insert_group (cur : error) (gs : groups) : groups :=
  match gs with
  | [] => [(urepr cur, [cur])]
  | (k, g) :: t => if urepr_eqb k (urepr cur) then (k, add_to_group cur g) :: t
                   else (k, g) :: insert_group cur t
  end.

Definition group_all (es : list error) : groups :=
  fold_left (fun gs e => insert_group e gs) es [].

(* ErrorLog.unique_sorted_errors: sum(unique_errors.values(), []) *)
Definition unique_sorted_errors (es : list error) : list error :=
  List.concat (map snd (group_all (sorted_errors es))).

(* The same algorithm over an arbitrary carrier [A] of which only the projection [pe] to the eight
   modelled fields is consulted.  A real Error object has more state (identity, severity, source
   text, keyword, bad_call, opcode name, end line/column); [errors_function_of_sequence] shows that
   none of it can influence which errors are reported or in which order.  The harness runs this
   version on (index, error) pairs, so the model's answer is a list of indices into the log. *)
Section OnCarrier.
  Context {A : Type} (pe : A -> error).

  Definition sorted_on (xs : list A) : list A := sort (fun a b => err_lt (pe a) (pe b)) xs.

  Fixpoint scan_on (cur : A) (prevs kept_rev : list A) : bool * list A :=
    match prevs with
    | [] => (false, rev kept_rev)
    | p :: rest =>
        match compare_tb (e_tb (pe cur)) (e_tb (pe p)) with
        | None => scan_on cur rest (p :: kept_rev)
        | Some c => if (c <? 0)%Z
                    then scan_on cur rest kept_rev
                    else (true, (rev kept_rev ++ p :: rest)%list)
        end
    end.

  Definition add_to_group_on (cur : A) (errs : list A) : list A :=
    let '(broke, errs') := scan_on cur errs [] in
    if broke then errs'
    else if (List.length errs' <? MAX_TRACEBACKS)%nat then (errs' ++ [cur])%list else errs'.

  Fixpoint insert_group_on (cur : A)
           (gs : list ((position * string * option string * string) * list A)) :=
    match gs with
    | [] => [(urepr (pe cur), [cur])]
    | (k, g) :: t => if urepr_eqb k (urepr (pe cur)) then (k, add_to_group_on cur g) :: t
                     else (k, g) :: insert_group_on cur t
    end.

  Definition group_all_on (xs : list A) :=
    fold_left (fun gs e => insert_group_on e gs) xs [].

  Definition unique_sorted_on (xs : list A) : list A :=
    List.concat (map snd (group_all_on (sorted_on xs))).
End OnCarrier.
