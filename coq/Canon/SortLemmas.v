(* C04: generic facts about comparison functions and about the stable insertion sort of Model.v.
   Main results:
     good_string / good_Z / good_pair / good_lex : the key comparisons are total preorders whose
                                                   Eq is Leibniz equality
     sort_perm, sort_sorted                       : sort l is a sorted permutation of l
     sort_perm_invariant                          : Permutation l l' -> key-equal elements of l are
                                                   equal -> sort l = sort l'
     sort_sorted_id, sort_idem                    : sorting a sorted list changes nothing *)
From Coq Require Import List String Ascii Bool Arith ZArith NArith Permutation Sorted Lia.
From PV Require Import Canon.Model.
Import ListNotations.

(* ------------------------------------------------------------------------------------------ *)
(* good comparisons                                                                            *)

Definition good {A} (c : A -> A -> comparison) : Prop :=
  (forall a b, c a b = Eq -> a = b) /\
  (forall a, c a a = Eq) /\
  (forall a b, c a b = CompOpp (c b a)) /\
  (forall a b d, c a b = Lt -> c b d = Lt -> c a d = Lt).

Lemma good_N : good N.compare.
Proof.
  repeat split.
  - intros a b. apply N.compare_eq.
  - apply N.compare_refl.
  - intros; apply N.compare_antisym.
  - intros a b d. rewrite !N.compare_lt_iff. apply N.lt_trans.
Qed.

Lemma good_Z : good Z.compare.
Proof.
  repeat split.
  - intros a b. apply Z.compare_eq.
  - apply Z.compare_refl.
  - intros; apply Z.compare_antisym.
  - intros a b d. rewrite !Z.compare_lt_iff. apply Z.lt_trans.
Qed.

Lemma good_ascii : good Ascii.compare.
Proof.
  destruct good_N as (_ & R & S & T).
  repeat split.
  - apply Ascii.compare_eq_iff.
  - intros a. unfold Ascii.compare. apply R.
  - intros; apply Ascii.compare_antisym.
  - intros a b d. unfold Ascii.compare. apply T.
Qed.

Lemma string_cmp_refl : forall s, String.compare s s = Eq.
Proof.
  induction s as [|a s IH]; simpl; auto.
  destruct good_ascii as (_ & R & _). rewrite R. exact IH.
Qed.

Lemma string_cmp_trans : forall a b d,
  String.compare a b = Lt -> String.compare b d = Lt -> String.compare a d = Lt.
Proof.
  destruct good_ascii as (E & R & S & T).
  induction a as [|x a IH]; intros b d H1 H2.
  - destruct b; simpl in *; try discriminate. destruct d; simpl in *; try discriminate. reflexivity.
  - destruct b as [|y b]; simpl in *; try discriminate.
    destruct d as [|z d]; simpl in *; try discriminate.
    destruct (Ascii.compare x y) eqn:Hxy; try discriminate.
    + apply E in Hxy; subst y.
      destruct (Ascii.compare x z) eqn:Hxz; try discriminate; auto.
      eapply IH; eauto.
    + destruct (Ascii.compare y z) eqn:Hyz; try discriminate.
      * apply E in Hyz; subst z. rewrite Hxy. reflexivity.
      * rewrite (T _ _ _ Hxy Hyz). reflexivity.
Qed.

Lemma good_string : good String.compare.
Proof.
  repeat split.
  - apply String.compare_eq_iff.
  - apply string_cmp_refl.
  - apply String.compare_antisym.
  - apply string_cmp_trans.
Qed.

Lemma good_pair {A B} (ca : A -> A -> comparison) (cb : B -> B -> comparison) :
  good ca -> good cb -> good (pair_cmp ca cb).
Proof.
  intros (Ea & Ra & Sa & Ta) (Eb & Rb & Sb & Tb). unfold pair_cmp.
  repeat split.
  - intros [a1 b1] [a2 b2]; simpl. destruct (ca a1 a2) eqn:H; try discriminate.
    intros H2. apply Ea in H. apply Eb in H2. congruence.
  - intros [a b]; simpl. rewrite Ra. apply Rb.
  - intros [a1 b1] [a2 b2]; simpl. rewrite (Sa a1 a2).
    destruct (ca a2 a1); simpl; auto.
  - intros [a1 b1] [a2 b2] [a3 b3]; simpl.
    destruct (ca a1 a2) eqn:H12; try discriminate.
    + apply Ea in H12; subst a2. destruct (ca a1 a3) eqn:H13; try discriminate; auto.
      intros; eapply Tb; eauto.
    + intros _. destruct (ca a2 a3) eqn:H23; try discriminate.
      * apply Ea in H23; subst a3. rewrite H12. auto.
      * rewrite (Ta _ _ _ H12 H23). auto.
Qed.

Lemma good_lex {A} (c : A -> A -> comparison) : good c -> good (lex_cmp c).
Proof.
  intros (E & R & S & T).
  repeat split.
  - induction a as [|x a IH]; destruct b as [|y b]; simpl; try discriminate; auto.
    destruct (c x y) eqn:H; try discriminate. intros H2. apply E in H. f_equal; auto.
  - induction a as [|x a IH]; simpl; auto. rewrite R. exact IH.
  - induction a as [|x a IH]; destruct b as [|y b]; simpl; auto.
    rewrite (S x y). destruct (c y x); simpl; auto.
  - induction a as [|x a IH]; intros b d H1 H2.
    + destruct b; simpl in *; try discriminate. destruct d; simpl in *; try discriminate; auto.
    + destruct b as [|y b]; simpl in *; try discriminate.
      destruct d as [|z d]; simpl in *; try discriminate.
      destruct (c x y) eqn:Hxy; try discriminate.
      * apply E in Hxy; subst y. destruct (c x z) eqn:Hxz; try discriminate; auto.
        eapply IH; eauto.
      * destruct (c y z) eqn:Hyz; try discriminate.
        -- apply E in Hyz; subst z. rewrite Hxy. auto.
        -- rewrite (T _ _ _ Hxy Hyz). auto.
Qed.

(* ------------------------------------------------------------------------------------------ *)
(* sorting by a key                                                                            *)

Section KeySort.
  Context {A K : Type} (kc : K -> K -> comparison) (kf : A -> K).
  Hypothesis Hgood : good kc.

  Definition klt (a b : A) : bool := match kc (kf a) (kf b) with Lt => true | _ => false end.
  (* a <= b  :=  not (b < a) *)
  Definition kle (a b : A) : Prop := klt b a = false.
  Definition keq (a b : A) : Prop := kc (kf a) (kf b) = Eq.

  Lemma kle_spec : forall a b, kle a b <-> kc (kf a) (kf b) <> Gt.
  Proof.
    destruct Hgood as (E & R & S & T). intros a b. unfold kle, klt.
    rewrite (S (kf b) (kf a)). destruct (kc (kf a) (kf b)); simpl; split; intros; try congruence; auto.
  Qed.

  Lemma kle_total : forall a b, kle a b \/ kle b a.
  Proof.
    destruct Hgood as (E & R & S & T). intros a b. unfold kle, klt.
    rewrite (S (kf b) (kf a)). destruct (kc (kf a) (kf b)); simpl; auto.
  Qed.

  Lemma kle_refl : forall a, kle a a.
  Proof. destruct Hgood as (E & R & S & T). intros a. unfold kle, klt. rewrite R. reflexivity. Qed.

  Lemma kle_trans : forall a b d, kle a b -> kle b d -> kle a d.
  Proof.
    destruct Hgood as (E & R & S & T). intros a b d. rewrite !kle_spec.
    intros H1 H2 H3.
    (* a > d, i.e. d < a *)
    assert (Hda : kc (kf d) (kf a) = Lt) by (rewrite S, H3; reflexivity).
    destruct (kc (kf a) (kf b)) eqn:Hab; try congruence.
    - apply E in Hab. rewrite <- Hab in H2. congruence.
    - destruct (kc (kf b) (kf d)) eqn:Hbd; try congruence.
      + apply E in Hbd. rewrite Hbd in Hab. rewrite S, Hda in Hab. discriminate.
      + pose proof (T _ _ _ Hab Hbd) as Had. congruence.
  Qed.

  Lemma kle_antisym_keq : forall a b, kle a b -> kle b a -> keq a b.
  Proof.
    destruct Hgood as (E & R & S & T). intros a b. rewrite !kle_spec. unfold keq.
    intros H1 H2. destruct (kc (kf a) (kf b)) eqn:Hab; auto; try congruence.
    exfalso. apply H2. rewrite S, Hab. reflexivity.
  Qed.

  Lemma keq_kle : forall a b, keq a b -> kle a b.
  Proof. intros a b H. apply kle_spec. unfold keq in H. congruence. Qed.

  Lemma keq_sym : forall a b, keq a b -> keq b a.
  Proof.
    destruct Hgood as (E & R & S & T). unfold keq. intros a b H. rewrite S, H. reflexivity.
  Qed.

  Notation ksort := (sort klt).
  Notation kinsert := (insert klt).

  Lemma insert_perm : forall x l, Permutation (kinsert x l) (x :: l).
  Proof.
    induction l as [|y t IH]; simpl; auto.
    destruct (klt y x); auto.
    rewrite IH. apply perm_swap.
  Qed.

  Lemma sort_perm : forall l, Permutation (ksort l) l.
  Proof.
    induction l as [|x t IH]; simpl; auto.
    unfold sort in *. simpl. rewrite insert_perm. auto.
  Qed.

  Lemma sort_in : forall l x, In x (ksort l) <-> In x l.
  Proof.
    intros l x; split; apply Permutation_in; [apply sort_perm | symmetry; apply sort_perm].
  Qed.

  Lemma sort_length : forall l, List.length (ksort l) = List.length l.
  Proof. intros. apply Permutation_length, sort_perm. Qed.

  Lemma insert_sorted : forall x l, StronglySorted kle l -> StronglySorted kle (kinsert x l).
  Proof.
    induction l as [|y t IH]; intros Hs; simpl.
    - constructor; constructor.
    - inversion Hs as [|? ? Hst Hall]; subst.
      destruct (klt y x) eqn:Hyx.
      + constructor; auto.
        (* y <= everything in insert x t: y <= x since y < x *)
        apply Forall_forall. intros z Hz.
        apply (Permutation_in _ (insert_perm x t)) in Hz. destruct Hz as [<-|Hz].
        * destruct (kle_total y x) as [H|H]; auto. unfold kle in H. congruence.
        * rewrite Forall_forall in Hall. auto.
      + constructor; auto.
        constructor.
        * exact Hyx.
        * rewrite Forall_forall in *. intros z Hz. eapply kle_trans; [exact Hyx|auto].
  Qed.

  Lemma sort_sorted : forall l, StronglySorted kle (ksort l).
  Proof.
    induction l as [|x t IH]; unfold sort in *; simpl.
    - constructor.
    - apply insert_sorted. exact IH.
  Qed.

  (* two sorted permutations of each other are equal when the order is antisymmetric on them *)
  Lemma sorted_perm_eq : forall l l',
    StronglySorted kle l -> StronglySorted kle l' -> Permutation l l' ->
    (forall x y, In x l -> In y l -> keq x y -> x = y) ->
    l = l'.
  Proof.
    induction l as [|x t IH]; intros l' Hs Hs' Hp Hsep.
    - apply Permutation_nil in Hp. auto.
    - destruct l' as [|y t'].
      + symmetry in Hp. apply Permutation_nil in Hp. discriminate.
      + inversion Hs as [|? ? Hst Hall]; subst.
        inversion Hs' as [|? ? Hst' Hall']; subst.
        rewrite Forall_forall in Hall, Hall'.
        assert (Hxy : x = y).
        { assert (Hx : In x (y :: t')) by (eapply Permutation_in; [exact Hp|left; auto]).
          assert (Hy : In y (x :: t)) by (eapply Permutation_in; [symmetry; exact Hp|left; auto]).
          destruct Hx as [Hx|Hx]; auto.
          destruct Hy as [Hy|Hy]; auto.
          apply Hsep; [left; auto|right; auto|].
          apply kle_antisym_keq; auto. }
        subst y. f_equal.
        apply IH; auto.
        * eapply Permutation_cons_inv; eauto.
        * intros; apply Hsep; auto; right; auto.
  Qed.

  (* THE core fact: a stable sort by a total preorder is a function of the multiset as soon as
     key-equal elements are equal *)
  Lemma sort_perm_invariant : forall l l',
    Permutation l l' ->
    (forall x y, In x l -> In y l -> keq x y -> x = y) ->
    ksort l = ksort l'.
  Proof.
    intros l l' Hp Hsep.
    apply sorted_perm_eq; try apply sort_sorted.
    - rewrite sort_perm, Hp. symmetry. apply sort_perm.
    - intros x y Hx Hy. apply Hsep; apply sort_in; auto.
  Qed.

  Lemma sort_sorted_id : forall l, StronglySorted kle l -> ksort l = l.
  Proof.
    induction l as [|x t IH]; intros Hs; auto.
    inversion Hs as [|? ? Hst Hall]; subst.
    unfold sort in *. simpl. rewrite IH; auto.
    destruct t as [|y t']; simpl; auto.
    rewrite Forall_forall in Hall. specialize (Hall y (or_introl eq_refl)).
    unfold kle in Hall. rewrite Hall. reflexivity.
  Qed.

  Lemma sort_idem : forall l, ksort (ksort l) = ksort l.
  Proof. intros. apply sort_sorted_id, sort_sorted. Qed.

  (* a sublist-like filter of a sorted list stays sorted *)
  Lemma filter_sorted : forall (f : A -> bool) l, StronglySorted kle l -> StronglySorted kle (filter f l).
  Proof.
    induction l as [|x t IH]; intros Hs; simpl; auto.
    inversion Hs as [|? ? Hst Hall]; subst.
    destruct (f x); auto.
    constructor; auto.
    rewrite Forall_forall in *. intros z Hz. apply filter_In in Hz. apply Hall, Hz.
  Qed.
End KeySort.
