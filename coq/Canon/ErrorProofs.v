(* C04: proofs about [unique_sorted_errors] (errors.py).
     errors_sorted_lemma       : the report is sorted by (filename or "", line)
     errors_unique_lemma       : two reported errors with the same unique representation have
                                 incomparable tracebacks (so no error is reported twice)
     errors_bounded_lemma      : at most MAX_TRACEBACKS errors per unique representation
     errors_from_log_lemma     : every reported error was logged
     errors_on_carrier_lemma   : the selection/order only depends on the eight modelled fields
     errors_perm_lemma         : a function of the multiset when key-equal errors are equal *)
From Coq Require Import List String Ascii Bool Arith ZArith Permutation Sorted Lia.
From PV Require Import Canon.Model Canon.SortLemmas.
Import ListNotations.
Local Open Scope string_scope.

(* ------------------------------------------------------------------------------------------ *)
(* generic list facts                                                                          *)

Inductive subseq {A} : list A -> list A -> Prop :=
| sub_nil : subseq [] []
| sub_keep : forall x l l', subseq l l' -> subseq (x :: l) (x :: l')
| sub_drop : forall x l l', subseq l l' -> subseq l (x :: l').

Lemma subseq_refl {A} : forall l : list A, subseq l l.
Proof. induction l; constructor; auto. Qed.

Lemma subseq_in {A} : forall (l l' : list A) x, subseq l l' -> In x l -> In x l'.
Proof. induction 1; simpl; intuition. Qed.

Lemma subseq_length {A} : forall l l' : list A, subseq l l' -> (List.length l <= List.length l')%nat.
Proof. induction 1; simpl; lia. Qed.

Lemma subseq_fop {A} (R : A -> A -> Prop) : forall l l',
  subseq l l' -> ForallOrdPairs R l' -> ForallOrdPairs R l.
Proof.
  induction 1; intros H'; auto.
  - inversion H' as [|? ? Hall Hrest]; subst. constructor; auto.
    rewrite Forall_forall in *. intros y Hy. apply Hall. eapply subseq_in; eauto.
  - inversion H'; subst; auto.
Qed.

Lemma fop_app {A} (R : A -> A -> Prop) : forall l1 l2,
  ForallOrdPairs R l1 -> ForallOrdPairs R l2 ->
  (forall a b, In a l1 -> In b l2 -> R a b) -> ForallOrdPairs R (l1 ++ l2)%list.
Proof.
  induction l1 as [|x t IH]; intros l2 H1 H2 Hc; simpl; auto.
  inversion H1 as [|? ? Hall Hrest]; subst. constructor.
  - apply Forall_app. split; auto.
    apply Forall_forall. intros; apply Hc; simpl; auto.
  - apply IH; auto. intros; apply Hc; simpl; auto.
Qed.

Lemma ss_app {A} (R : A -> A -> Prop) : forall l1 l2,
  StronglySorted R l1 -> StronglySorted R l2 ->
  (forall a b, In a l1 -> In b l2 -> R a b) -> StronglySorted R (l1 ++ l2)%list.
Proof.
  induction l1 as [|x t IH]; intros l2 H1 H2 Hc; simpl; auto.
  inversion H1 as [|? ? Hrest Hall]; subst. constructor.
  - apply IH; auto. intros; apply Hc; simpl; auto.
  - apply Forall_app. split; auto.
    apply Forall_forall. intros; apply Hc; simpl; auto.
Qed.

Lemma nodup_map_inj {A B} (f : A -> B) : forall l a b,
  NoDup (map f l) -> In a l -> In b l -> f a = f b -> a = b.
Proof.
  induction l as [|x t IH]; simpl; intros a b Hn Ha Hb E; [contradiction|].
  inversion Hn as [|? ? Hx Ht]; subst.
  destruct Ha as [<-|Ha], Hb as [<-|Hb]; auto.
  - exfalso. apply Hx. rewrite E. apply in_map; auto.
  - exfalso. apply Hx. rewrite <- E. apply in_map; auto.
Qed.

(* ------------------------------------------------------------------------------------------ *)
(* keys                                                                                        *)

Lemma good_sk : good sk_cmp.
Proof. apply good_pair; [apply good_string|apply good_Z]. Qed.

(* "a does not come after b" in (filename or "", line) order *)
Definition err_le (a b : error) : Prop := err_lt b a = false.

Lemma err_le_kle : forall a b, err_le a b <-> kle sk_cmp sort_key a b.
Proof. intros; split; intros H; exact H. Qed.

Lemma sorted_errors_eq : forall es, sorted_errors es = sort (klt sk_cmp sort_key) es.
Proof. reflexivity. Qed.

Definition ukey_t : Type := (position * string * option string * string)%type.

Definition pos_key (p : position) : string * Z :=
  match p with
  | PFile f l _ _ => (f, l)
  | PLine l _ _ => ("", l)
  | PNone => ("", 0%Z)
  end.

Definition ukey (k : ukey_t) : string * Z := pos_key (fst (fst (fst k))).

(* errors with the same unique representation have the same sort key *)
Lemma pos_key_sort_key : forall e, pos_key (position_of e) = sort_key e.
Proof.
  intros e. unfold position_of, sort_key.
  destruct (file_or_empty e =? "") eqn:Ef; simpl.
  - apply String.eqb_eq in Ef. rewrite Ef.
    destruct (e_line e =? 0)%Z eqn:El; simpl; auto.
    apply Z.eqb_eq in El. rewrite El. reflexivity.
  - reflexivity.
Qed.

Lemma ukey_urepr : forall e, ukey (urepr e) = sort_key e.
Proof. intros. unfold ukey, urepr. simpl. apply pos_key_sort_key. Qed.

Lemma opt_string_eqb_eq : forall a b, opt_string_eqb a b = true <-> a = b.
Proof.
  intros [a|] [b|]; simpl; split; intros H; try discriminate; auto.
  - apply String.eqb_eq in H. congruence.
  - injection H as ->. apply String.eqb_refl.
Qed.

Lemma opt_string_eqb_sym : forall a b, opt_string_eqb a b = opt_string_eqb b a.
Proof. intros [a|] [b|]; simpl; auto. apply String.eqb_sym. Qed.

Lemma position_eqb_eq : forall p q, position_eqb p q = true <-> p = q.
Proof.
  intros p q; split.
  - destruct p, q; simpl; try discriminate; auto; intros H;
      repeat (apply andb_prop in H as [H ?]);
      repeat match goal with
             | X : (_ =? _)%string = true |- _ => apply String.eqb_eq in X
             | X : (_ =? _)%Z = true |- _ => apply Z.eqb_eq in X
             end; congruence.
  - intros <-. destruct p; simpl; auto; rewrite ?String.eqb_refl, ?Z.eqb_refl; reflexivity.
Qed.

Lemma urepr_eqb_eq : forall a b : ukey_t, urepr_eqb a b = true <-> a = b.
Proof.
  intros [[[p m] d] n] [[[p' m'] d'] n']. unfold urepr_eqb. split.
  - intros H. repeat (apply andb_prop in H as [H ?]).
    apply position_eqb_eq in H. apply opt_string_eqb_eq in H1.
    apply String.eqb_eq in H0, H2. congruence.
  - intros E. injection E as -> -> -> ->.
    rewrite (proj2 (position_eqb_eq _ _) eq_refl), (proj2 (opt_string_eqb_eq _ _) eq_refl),
      !String.eqb_refl. reflexivity.
Qed.

(* ------------------------------------------------------------------------------------------ *)
(* tracebacks                                                                                  *)

Definition incomparable (a b : error) : Prop := compare_tb (e_tb a) (e_tb b) = None.

Lemma compare_tb_none_sym : forall l r, compare_tb l r = None -> compare_tb r l = None.
Proof.
  intros l r. unfold compare_tb. rewrite (opt_string_eqb_sym r l).
  destruct (opt_string_eqb l r); [discriminate|].
  destruct (ends_with (strip_marker l) (strip_marker r)); [discriminate|].
  destruct (ends_with (strip_marker r) (strip_marker l)); [discriminate|]. reflexivity.
Qed.

Lemma compare_tb_refl : forall t, compare_tb t t = Some 0%Z.
Proof.
  intros t. unfold compare_tb. rewrite (proj2 (opt_string_eqb_eq t t) eq_refl). reflexivity.
Qed.

(* ------------------------------------------------------------------------------------------ *)
(* the inner loop                                                                              *)

Lemma scan_spec : forall cur prevs kept,
  exists b res',
    scan cur prevs kept = (b, (rev kept ++ res')%list) /\ subseq res' prevs /\
    (b = false -> forall p, In p res' -> incomparable cur p).
Proof.
  intros cur. induction prevs as [|p rest IH]; intros kept; simpl.
  - exists false, []. rewrite app_nil_r. repeat split; [constructor|]. intros _ p [].
  - destruct (compare_tb (e_tb cur) (e_tb p)) as [c|] eqn:Ec.
    + destruct (c <? 0)%Z.
      * destruct (IH kept) as (b & res' & E & Hs & Hi).
        exists b, res'. repeat split; auto. constructor; auto.
      * exists true, (p :: rest). repeat split; [apply subseq_refl|discriminate].
    + destruct (IH (p :: kept)) as (b & res' & E & Hs & Hi).
      exists b, (p :: res'). simpl in E. rewrite <- app_assoc in E. simpl in E.
      repeat split; auto.
      * constructor; auto.
      * intros Hb q [<-|Hq]; auto.
Qed.

Lemma add_to_group_spec : forall cur g,
  let g' := add_to_group cur g in
  (forall e, In e g' -> e = cur \/ In e g) /\
  (ForallOrdPairs incomparable g -> ForallOrdPairs incomparable g') /\
  ((List.length g <= MAX_TRACEBACKS)%nat -> (List.length g' <= MAX_TRACEBACKS)%nat).
Proof.
  intros cur g. unfold add_to_group.
  destruct (scan_spec cur g []) as (b & res' & E & Hs & Hi). simpl in E. rewrite E.
  destruct b.
  - repeat split.
    + intros e He. right. eapply subseq_in; eauto.
    + apply subseq_fop; auto.
    + pose proof (subseq_length _ _ Hs). lia.
  - destruct (List.length res' <? MAX_TRACEBACKS)%nat eqn:El.
    + repeat split.
      * intros e He. apply in_app_or in He as [He|[<-|[]]]; auto. right. eapply subseq_in; eauto.
      * intros Hf. apply fop_app.
        -- eapply subseq_fop; eauto.
        -- constructor; constructor.
        -- intros a c Ha [<-|[]]. apply compare_tb_none_sym. apply Hi; auto.
      * intros _. rewrite app_length. simpl. apply Nat.ltb_lt in El. lia.
    + repeat split.
      * intros e He. right. eapply subseq_in; eauto.
      * apply subseq_fop; auto.
      * pose proof (subseq_length _ _ Hs). lia.
Qed.

(* ------------------------------------------------------------------------------------------ *)
(* the dict of groups                                                                          *)

Definition grp_ok (kg : ukey_t * list error) : Prop :=
  (forall e, In e (snd kg) -> urepr e = fst kg) /\
  ForallOrdPairs incomparable (snd kg) /\
  (List.length (snd kg) <= MAX_TRACEBACKS)%nat.

Definition inv (gs : groups) : Prop := Forall grp_ok gs /\ NoDup (map fst gs).

Lemma insert_keys : forall cur gs k,
  In k (map fst (insert_group cur gs)) -> In k (map fst gs) \/ k = urepr cur.
Proof.
  intros cur. induction gs as [|[k0 g] t IH]; intros k; simpl.
  - intros [<-|[]]; auto.
  - destruct (urepr_eqb k0 (urepr cur)); simpl.
    + intros [<-|H]; auto.
    + intros [<-|H]; auto. apply IH in H as [H|H]; auto.
Qed.

Lemma insert_inv : forall cur gs, inv gs -> inv (insert_group cur gs).
Proof.
  intros cur. induction gs as [|[k g] t IH]; intros [Hg Hn]; simpl.
  - split.
    + constructor; [|constructor]. repeat split; simpl.
      * intros e [<-|[]]; auto.
      * constructor; constructor.
      * unfold MAX_TRACEBACKS. lia.
    + constructor; [intros []|constructor].
  - apply Forall_cons_iff in Hg as [Hk Ht]. simpl in Hn. inversion Hn as [|? ? Hnk Hnt]; subst.
    destruct (urepr_eqb k (urepr cur)) eqn:Ek.
    + apply urepr_eqb_eq in Ek. split; [|exact Hn].
      constructor; auto.
      destruct Hk as (H1 & H2 & H3). simpl in *.
      destruct (add_to_group_spec cur g) as (A1 & A2 & A3).
      repeat split; simpl; auto.
      intros e He. apply A1 in He as [->|He]; auto.
    + destruct (IH (conj Ht Hnt)) as [Hg' Hn'].
      split; [constructor; auto|]. simpl. constructor; auto.
      intros Hin. apply insert_keys in Hin as [Hin|Hin]; auto.
      subst k. rewrite (proj2 (urepr_eqb_eq _ _) eq_refl) in Ek. discriminate.
Qed.

Lemma insert_members : forall cur gs e,
  In e (List.concat (map snd (insert_group cur gs))) ->
  e = cur \/ In e (List.concat (map snd gs)).
Proof.
  intros cur. induction gs as [|[k g] t IH]; intros e; simpl.
  - intros [<-|[]]; auto.
  - destruct (urepr_eqb k (urepr cur)); simpl; intros H; apply in_app_or in H as [H|H].
    + destruct (add_to_group_spec cur g) as (A1 & _). apply A1 in H as [->|H]; auto.
      right. apply in_or_app; auto.
    + right. apply in_or_app; auto.
    + right. apply in_or_app; auto.
    + apply IH in H as [->|H]; auto. right. apply in_or_app; auto.
Qed.

Lemma group_all_inv : forall es gs, inv gs -> inv (fold_left (fun gs e => insert_group e gs) es gs).
Proof.
  induction es as [|e t IH]; intros gs H; simpl; auto. apply IH. apply insert_inv; auto.
Qed.

Lemma group_all_members : forall es gs x,
  In x (List.concat (map snd (fold_left (fun gs e => insert_group e gs) es gs))) ->
  In x es \/ In x (List.concat (map snd gs)).
Proof.
  induction es as [|e t IH]; intros gs x; simpl; auto.
  intros H. apply IH in H as [H|H]; auto.
  apply insert_members in H as [->|H]; auto.
Qed.

(* sort keys of the groups, in dict order *)
Definition ks (gs : groups) : list (string * Z) := map (fun kg => ukey (fst kg)) gs.
Definition kl (a b : string * Z) : Prop := kle sk_cmp (fun x => x) a b.

Lemma ks_insert : forall cur gs,
  ks (insert_group cur gs) = ks gs \/ ks (insert_group cur gs) = (ks gs ++ [sort_key cur])%list.
Proof.
  intros cur. induction gs as [|[k g] t IH]; simpl.
  - right. unfold ks. simpl. rewrite ukey_urepr. reflexivity.
  - destruct (urepr_eqb k (urepr cur)); simpl; auto.
    destruct IH as [E|E]; unfold ks in *; simpl; rewrite E; auto.
Qed.

Lemma ss_snoc {A} (R : A -> A -> Prop) : forall l y,
  StronglySorted R l -> (forall x, In x l -> R x y) -> StronglySorted R (l ++ [y])%list.
Proof.
  intros l y H Hy. apply ss_app; auto.
  - constructor; constructor.
  - intros a b Ha [<-|[]]. auto.
Qed.

Lemma group_all_sorted : forall es gs,
  StronglySorted err_le es ->
  StronglySorted kl (ks gs) ->
  (forall x e, In x (ks gs) -> In e es -> kl x (sort_key e)) ->
  StronglySorted kl (ks (fold_left (fun gs e => insert_group e gs) es gs)).
Proof.
  induction es as [|e t IH]; intros gs Hes Hgs Hb; simpl; auto.
  inversion Hes as [|? ? Ht Hall]; subst. rewrite Forall_forall in Hall.
  apply IH; auto.
  - destruct (ks_insert e gs) as [->| ->]; auto.
    apply ss_snoc; auto. intros x Hx. apply Hb; simpl; auto.
  - intros x e' Hx He'.
    destruct (ks_insert e gs) as [E|E]; rewrite E in Hx.
    + apply Hb; simpl; auto.
    + apply in_app_or in Hx as [Hx|[<-|[]]].
      * apply Hb; simpl; auto.
      * apply (Hall e' He').
Qed.

Lemma concat_sorted : forall gs,
  Forall grp_ok gs -> StronglySorted kl (ks gs) ->
  StronglySorted err_le (List.concat (map snd gs)).
Proof.
  induction gs as [|[k g] t IH]; intros Hg Hs; simpl; [constructor|].
  apply Forall_cons_iff in Hg as [(H1 & _ & _) Ht]. simpl in *.
  inversion Hs as [|? ? Hst Hall]; subst. rewrite Forall_forall in Hall.
  assert (Hk : forall e, In e g -> sort_key e = ukey k).
  { intros e He. rewrite <- (H1 e He). symmetry. apply ukey_urepr. }
  apply ss_app; auto.
  - (* one group: all members share the sort key *)
    clear -Hk. induction g as [|x g IH]; constructor.
    + apply IH. intros; apply Hk; simpl; auto.
    + apply Forall_forall. intros y Hy. apply err_le_kle. unfold kle, klt.
      rewrite (Hk x), (Hk y) by (simpl; auto).
      destruct good_sk as (_ & R & _). rewrite R. reflexivity.
  - intros a b Ha Hb.
    apply in_concat in Hb as (g' & Hg' & Hb). apply in_map_iff in Hg' as ([k' g''] & <- & Hin).
    simpl in Hb. rewrite Forall_forall in Ht. destruct (Ht _ Hin) as (H1' & _ & _). simpl in H1'.
    assert (Hkb : sort_key b = ukey k') by (rewrite <- (H1' b Hb); symmetry; apply ukey_urepr).
    apply err_le_kle. unfold kle, klt. rewrite (Hk a Ha), Hkb.
    apply (Hall (ukey k')). unfold ks. apply in_map_iff. exists (k', g''). auto.
Qed.

Lemma sorted_errors_sorted : forall es, StronglySorted err_le (sorted_errors es).
Proof.
  intros es. rewrite sorted_errors_eq.
  eapply StronglySorted_ind with (P := fun l => StronglySorted err_le l);
    [constructor| |apply (sort_sorted sk_cmp sort_key good_sk es)].
  intros a l _ IH Hall. constructor; auto.
Qed.

Lemma errors_sorted_lemma : forall es, StronglySorted err_le (unique_sorted_errors es).
Proof.
  intros es. unfold unique_sorted_errors, group_all.
  apply concat_sorted.
  - apply group_all_inv. split; constructor.
  - apply group_all_sorted.
    + apply sorted_errors_sorted.
    + constructor.
    + intros x e [].
Qed.

(* ------------------------------------------------------------------------------------------ *)
(* uniqueness                                                                                  *)

Definition distinct_reports (a b : error) : Prop := urepr a = urepr b -> incomparable a b.

Lemma concat_unique : forall gs, inv gs -> ForallOrdPairs distinct_reports (List.concat (map snd gs)).
Proof.
  induction gs as [|[k g] t IH]; intros [Hg Hn]; simpl; [constructor|].
  apply Forall_cons_iff in Hg as [(H1 & H2 & _) Ht]. simpl in *.
  inversion Hn as [|? ? Hnk Hnt]; subst.
  apply fop_app.
  - clear -H2. induction H2; constructor; auto.
    eapply Forall_impl; [|eassumption]. intros b Hb _. exact Hb.
  - apply IH. split; auto.
  - intros a b Ha Hb E. exfalso. apply Hnk.
    apply in_concat in Hb as (g' & Hg' & Hb). apply in_map_iff in Hg' as ([k' g''] & <- & Hin).
    simpl in Hb. rewrite Forall_forall in Ht. destruct (Ht _ Hin) as (H1' & _ & _). simpl in H1'.
    rewrite <- (H1 a Ha), E, (H1' b Hb). apply in_map_iff. exists (k', g''). auto.
Qed.

Lemma errors_unique_lemma : forall es,
  ForallOrdPairs distinct_reports (unique_sorted_errors es).
Proof.
  intros es. apply concat_unique. apply group_all_inv. split; constructor.
Qed.

Lemma filter_len {A} (f : A -> bool) : forall l, (List.length (filter f l) <= List.length l)%nat.
Proof. induction l as [|x t IH]; simpl; auto. destruct (f x); simpl; lia. Qed.

Lemma filter_none : forall (g : list error) k u,
  (forall e, In e g -> urepr e = k) -> urepr_eqb k u = false ->
  filter (fun e => urepr_eqb (urepr e) u) g = [].
Proof.
  induction g as [|x g IH]; intros k u H E; cbn [filter]; auto.
  rewrite (H x) by (left; auto). rewrite E. apply (IH k); auto. intros; apply H; right; auto.
Qed.

Lemma filter_none_concat : forall (t : groups) u,
  Forall grp_ok t -> ~ In u (map fst t) ->
  filter (fun e => urepr_eqb (urepr e) u) (List.concat (map snd t)) = [].
Proof.
  induction t as [|[k' g'] t' IH]; intros u Ht Hn; cbn [map List.concat fst snd]; auto.
  apply Forall_cons_iff in Ht as [(H1' & _) Ht']. cbn [fst snd] in H1'.
  rewrite filter_app, IH; auto.
  - rewrite app_nil_r. apply (filter_none g' k'); auto.
    destruct (urepr_eqb k' u) eqn:E; auto. apply urepr_eqb_eq in E. subst. exfalso. apply Hn. left; auto.
  - intros Hin. apply Hn. right; auto.
Qed.

Lemma concat_bounded : forall gs u, inv gs ->
  (List.length (filter (fun e => urepr_eqb (urepr e) u) (List.concat (map snd gs))) <= MAX_TRACEBACKS)%nat.
Proof.
  induction gs as [|[k g] t IH]; intros u [Hg Hn]; cbn [map List.concat fst snd]; [simpl; lia|].
  apply Forall_cons_iff in Hg as [(H1 & _ & H3) Ht]. cbn [fst snd map] in *.
  inversion Hn as [|? ? Hnk Hnt]; subst.
  rewrite filter_app, app_length.
  destruct (urepr_eqb k u) eqn:Ek.
  - apply urepr_eqb_eq in Ek. subst u.
    rewrite (filter_none_concat t k) by auto. cbn [List.length].
    pose proof (filter_len (fun e => urepr_eqb (urepr e) k) g). lia.
  - rewrite (filter_none g k u) by auto. cbn [List.length]. apply IH. split; auto.
Qed.

Lemma errors_bounded_lemma : forall es u,
  (List.length (filter (fun e => urepr_eqb (urepr e) u) (unique_sorted_errors es)) <= MAX_TRACEBACKS)%nat.
Proof.
  intros es u. apply concat_bounded. apply group_all_inv. split; constructor.
Qed.

Lemma errors_from_log_lemma : forall es e, In e (unique_sorted_errors es) -> In e es.
Proof.
  intros es e H. unfold unique_sorted_errors, group_all in H.
  apply group_all_members in H as [H|[]].
  rewrite sorted_errors_eq in H. apply (proj1 (sort_in sk_cmp sort_key _ _)) in H. exact H.
Qed.

(* ------------------------------------------------------------------------------------------ *)
(* the algorithm only looks at the projection                                                  *)

Section Carrier.
  Context {A : Type} (pe : A -> error).

  Lemma insert_on : forall x l,
    map pe (insert (fun a b => err_lt (pe a) (pe b)) x l) = insert err_lt (pe x) (map pe l).
  Proof.
    induction l as [|y t IH]; simpl; auto.
    destruct (err_lt (pe y) (pe x)); simpl; congruence.
  Qed.

  Lemma sorted_on_map : forall xs, map pe (sorted_on pe xs) = sorted_errors (map pe xs).
  Proof.
    unfold sorted_on, sorted_errors, sort.
    induction xs as [|x t IH]; simpl; auto. rewrite insert_on, IH. reflexivity.
  Qed.

  Lemma scan_on_map : forall cur prevs kept,
    (fst (scan_on pe cur prevs kept), map pe (snd (scan_on pe cur prevs kept)))
    = scan (pe cur) (map pe prevs) (map pe kept).
  Proof.
    intros cur. induction prevs as [|p rest IH]; intros kept; simpl.
    - rewrite map_rev. reflexivity.
    - destruct (compare_tb (e_tb (pe cur)) (e_tb (pe p))) as [c|].
      + destruct (c <? 0)%Z; [apply IH|].
        simpl. rewrite map_app, map_rev. reflexivity.
      + apply (IH (p :: kept)).
  Qed.

  Lemma add_to_group_on_map : forall cur g,
    map pe (add_to_group_on pe cur g) = add_to_group (pe cur) (map pe g).
  Proof.
    intros cur g. unfold add_to_group_on, add_to_group.
    pose proof (scan_on_map cur g []) as E. simpl in E.
    destruct (scan_on pe cur g []) as [b r]. simpl in E. rewrite <- E.
    destruct b; auto. rewrite map_length.
    destruct (List.length r <? MAX_TRACEBACKS)%nat; auto.
    rewrite map_app. reflexivity.
  Qed.

  Definition gmap (gs : list (ukey_t * list A)) : groups := map (fun kg => (fst kg, map pe (snd kg))) gs.

  Lemma insert_group_on_map : forall cur gs,
    gmap (insert_group_on pe cur gs) = insert_group (pe cur) (gmap gs).
  Proof.
    intros cur. induction gs as [|[k g] t IH]; simpl; auto.
    destruct (urepr_eqb k (urepr (pe cur))); simpl.
    - rewrite add_to_group_on_map. reflexivity.
    - rewrite IH. reflexivity.
  Qed.

  Lemma fold_on_map : forall xs gs,
    gmap (fold_left (fun gs e => insert_group_on pe e gs) xs gs)
    = fold_left (fun gs e => insert_group e gs) (map pe xs) (gmap gs).
  Proof.
    induction xs as [|x t IH]; intros gs; simpl; auto.
    rewrite IH, insert_group_on_map. reflexivity.
  Qed.

  Lemma concat_gmap : forall gs, map pe (List.concat (map snd gs)) = List.concat (map snd (gmap gs)).
  Proof.
    induction gs as [|[k g] t IH]; simpl; auto. rewrite map_app, IH. reflexivity.
  Qed.

  Lemma errors_on_carrier_lemma : forall xs,
    map pe (unique_sorted_on pe xs) = unique_sorted_errors (map pe xs).
  Proof.
    intros xs. unfold unique_sorted_on, unique_sorted_errors, group_all_on, group_all.
    rewrite concat_gmap, fold_on_map, sorted_on_map. reflexivity.
  Qed.
End Carrier.

(* ------------------------------------------------------------------------------------------ *)
(* permutations of the log                                                                     *)

Lemma errors_perm_lemma : forall es es',
  Permutation es es' ->
  (forall a b, In a es -> In b es -> sort_key a = sort_key b -> a = b) ->
  unique_sorted_errors es = unique_sorted_errors es'.
Proof.
  intros es es' Hp Hsep. unfold unique_sorted_errors. rewrite !sorted_errors_eq.
  rewrite (sort_perm_invariant sk_cmp sort_key good_sk es es'); auto.
  intros x y Hx Hy Hk. apply Hsep; auto.
  destruct good_sk as (E & _). apply E. exact Hk.
Qed.
