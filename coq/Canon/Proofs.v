(* C04: proofs about [canon] (CanonicalOrderingVisitor).
     canonical_perm_invariant_lemma : ok true u -> deep_perm u u' -> canon u = canon u'
     canon_idempotent_lemma         : ok false u -> canon (canon u) = canon u
     okb_sound                      : okb k u = true -> ok k u
     ok_true_false                  : ok true u -> ok false u *)
From Coq Require Import List String Ascii Bool Arith ZArith Permutation Sorted Lia.
From PV Require Import Canon.Model Canon.SortLemmas.
Import ListNotations.
Local Open Scope string_scope.

(* ------------------------------------------------------------------------------------------ *)
(* induction over values with the nested lists                                                 *)

Section ValueInd.
  Variable P : value -> Prop.
  Hypothesis Hatom : forall c s r, P (VAtom c s r).
  Hypothesis Hct : forall n c, P (VClassType n c).
  Hypothesis Htup : forall l, Forall P l -> P (VTup l).
  Hypothesis Hnode : forall c fs, Forall (fun p => P (snd p)) fs -> P (VNode c fs).

  Fixpoint value_ind' (v : value) : P v :=
    match v with
    | VAtom c s r => Hatom c s r
    | VClassType n c => Hct n c
    | VTup l =>
        Htup l ((fix go (l : list value) : Forall P l :=
                   match l with
                   | [] => Forall_nil _
                   | x :: t => Forall_cons _ (value_ind' x) (go t)
                   end) l)
    | VNode c fs =>
        Hnode c fs ((fix go (fs : list (string * value)) : Forall (fun p => P (snd p)) fs :=
                       match fs with
                       | [] => Forall_nil _
                       | p :: t => Forall_cons _ (value_ind' (snd p)) (go t)
                       end) fs)
    end.
End ValueInd.

(* ------------------------------------------------------------------------------------------ *)
(* the sort on values is the key sort of SortLemmas                                            *)

Definition kcmp : (string * list (string * string)) -> (string * list (string * string)) -> comparison :=
  pair_cmp String.compare (lex_cmp (pair_cmp String.compare String.compare)).

Lemma good_kcmp : good kcmp.
Proof.
  apply good_pair; [apply good_string|].
  apply good_lex. apply good_pair; apply good_string.
Qed.

Lemma sort_vals_eq : forall l, sort_vals l = sort (klt kcmp key) l.
Proof. reflexivity. Qed.

Lemma key_separated_keq : forall l,
  key_separated l <-> (forall x y, In x l -> In y l -> keq kcmp key x y -> x = y).
Proof. intros; split; intros H; exact H. Qed.

Lemma sort_vals_perm : forall l, Permutation (sort_vals l) l.
Proof. intros. rewrite sort_vals_eq. apply sort_perm. Qed.

Lemma sort_vals_in : forall l x, In x (sort_vals l) <-> In x l.
Proof. intros. rewrite sort_vals_eq. apply sort_in. Qed.

Lemma sort_vals_idem : forall l, sort_vals (sort_vals l) = sort_vals l.
Proof. intros. rewrite !sort_vals_eq. apply sort_idem. exact good_kcmp. Qed.

Lemma sort_vals_perm_invariant : forall l l',
  Permutation l l' -> key_separated l -> sort_vals l = sort_vals l'.
Proof.
  intros. rewrite !sort_vals_eq. apply sort_perm_invariant; auto. exact good_kcmp.
Qed.

(* ------------------------------------------------------------------------------------------ *)
(* small list facts                                                                            *)

Lemma map_fixed : forall {A} (f : A -> A) l, (forall x, In x l -> f x = x) -> map f l = l.
Proof.
  induction l as [|a t IH]; intros H; simpl; auto.
  rewrite H by (left; auto). f_equal. apply IH. intros; apply H; right; auto.
Qed.

Lemma map_fixed_inv : forall {A} (f : A -> A) l, map f l = l -> forall x, In x l -> f x = x.
Proof.
  induction l as [|a t IH]; intros H x Hx; simpl in *; [contradiction|].
  injection H as H1 H2. destruct Hx as [<-|Hx]; auto.
Qed.

Lemma filter_all : forall {A} (f : A -> bool) l, (forall x, In x l -> f x = true) -> filter f l = l.
Proof.
  induction l as [|a t IH]; intros H; simpl; auto.
  rewrite H by (left; auto). f_equal. apply IH. intros; apply H; right; auto.
Qed.

Lemma existsb_perm : forall {A} (f : A -> bool) l l', Permutation l l' -> existsb f l = existsb f l'.
Proof.
  induction 1; simpl; auto.
  - congruence.
  - destruct (f x), (f y); auto.
  - congruence.
Qed.

Lemma field_map : forall (f : string -> value -> value) n fs,
  field n (map (fun p => (fst p, f (fst p) (snd p))) fs) = option_map (f n) (field n fs).
Proof.
  induction fs as [|[m v] t IH]; simpl; auto.
  destruct (n =? m) eqn:E; auto.
  apply String.eqb_eq in E. subst. reflexivity.
Qed.

(* ------------------------------------------------------------------------------------------ *)
(* equality tests                                                                              *)

Lemma veqb_refl : forall v, veqb v v = true.
Proof.
  induction v using value_ind'; simpl.
  - rewrite !String.eqb_refl. reflexivity.
  - apply String.eqb_refl.
  - induction H as [|x t Hx Ht IH]; auto. rewrite Hx, IH. reflexivity.
  - rewrite String.eqb_refl. simpl.
    induction H as [|p t Hp Ht IH]; auto. rewrite String.eqb_refl, Hp, IH. reflexivity.
Qed.

Lemma value_eqb_eq : forall a b, value_eqb a b = true -> a = b.
Proof.
  induction a using value_ind'; intros b Hb; destruct b; simpl in Hb; try discriminate.
  - apply andb_prop in Hb as [Hb H3]. apply andb_prop in Hb as [H1 H2].
    apply String.eqb_eq in H1, H2, H3. congruence.
  - apply andb_prop in Hb as [H1 H2]. apply String.eqb_eq in H1. subst.
    destruct c as [[x y]|], cls as [[x' y']|]; try discriminate; auto.
    apply andb_prop in H2 as [H2 H3]. apply String.eqb_eq in H2, H3. congruence.
  - f_equal. revert l0 Hb.
    induction H as [|x t Hx Ht IH]; intros [|y t'] Hb; try discriminate; auto.
    apply andb_prop in Hb as [H1 H2]. f_equal; auto.
  - apply andb_prop in Hb as [H1 H2]. apply String.eqb_eq in H1. subst. f_equal.
    revert fs0 H2.
    induction H as [|p t Hp Ht IH]; intros [|q t'] Hb; try discriminate; auto.
    apply andb_prop in Hb as [Hb H3]. apply andb_prop in Hb as [H1 H2].
    apply String.eqb_eq in H1. apply Hp in H2.
    destruct p, q; simpl in *; subst. f_equal; auto.
Qed.

Lemma key_separatedb_sound : forall l, key_separatedb l = true -> key_separated l.
Proof.
  unfold key_separatedb, key_separated. intros l H x y Hx Hy Hk.
  rewrite forallb_forall in H. specialize (H x Hx). rewrite forallb_forall in H.
  specialize (H y Hy). rewrite Hk in H. apply value_eqb_eq; auto.
Qed.

Lemma eq_separatedb_sound : forall l, eq_separatedb l = true -> eq_separated l.
Proof.
  unfold eq_separatedb, eq_separated. intros l H x y Hx Hy Hk.
  rewrite forallb_forall in H. specialize (H x Hx). rewrite forallb_forall in H.
  specialize (H y Hy). rewrite Hk in H. simpl in H. apply value_eqb_eq; auto.
Qed.

Lemma flatb_sound : forall l, flatb l = true -> flat l.
Proof.
  unfold flatb, flat. intros l H x Hx. rewrite forallb_forall in H. specialize (H x Hx).
  destruct (is_setof_node x); auto; discriminate.
Qed.

(* ------------------------------------------------------------------------------------------ *)
(* flatten / dedup on normalised member lists                                                  *)

Lemma incl_flat : forall l l', (forall x, In x l' -> In x l) -> flat l -> flat l'.
Proof. unfold flat; auto. Qed.
Lemma incl_eq_separated : forall l l', (forall x, In x l' -> In x l) -> eq_separated l -> eq_separated l'.
Proof. unfold eq_separated; auto. Qed.
Lemma incl_key_separated : forall l l', (forall x, In x l' -> In x l) -> key_separated l -> key_separated l'.
Proof. unfold key_separated; auto. Qed.

Lemma flatten_flat : forall l, flat l -> flatten l = l.
Proof.
  unfold flatten. induction l as [|x t IH]; intros H; simpl; auto.
  rewrite IH by (intros y Hy; apply H; right; auto).
  assert (Hx : is_setof_node x = false) by (apply H; left; auto).
  destruct x; simpl in *; auto. rewrite Hx. reflexivity.
Qed.

Lemma dedup_incl : forall l x, In x (dedup l) -> In x l.
Proof.
  induction l as [|a t IH]; simpl; auto.
  intros x [<-|Hx]; auto. apply filter_In in Hx. right. apply IH. tauto.
Qed.

Lemma dedup_in : forall l x, eq_separated l -> In x l -> In x (dedup l).
Proof.
  induction l as [|a t IH]; simpl; auto.
  intros x Hs [<-|Hx]; auto.
  destruct (veqb a x) eqn:E.
  - left. apply Hs; simpl; auto.
  - right. apply filter_In. split.
    + apply IH; auto. eapply incl_eq_separated; [|exact Hs]. simpl; auto.
    + rewrite E. reflexivity.
Qed.

Lemma dedup_nodup : forall l, NoDup (dedup l).
Proof.
  induction l as [|a t IH]; simpl; constructor.
  - intros H. apply filter_In in H. destruct H as [_ H]. rewrite veqb_refl in H. discriminate.
  - apply NoDup_filter. exact IH.
Qed.

Lemma dedup_id : forall l, NoDup l -> eq_separated l -> dedup l = l.
Proof.
  induction l as [|a t IH]; intros Hn Hs; simpl; auto.
  inversion Hn as [|? ? Hna Hnt]; subst.
  rewrite IH; auto.
  - f_equal. apply filter_all. intros y Hy.
    destruct (veqb a y) eqn:E; auto.
    exfalso. apply Hna. replace a with y; auto. symmetry. apply Hs; simpl; auto.
  - eapply incl_eq_separated; [|exact Hs]. simpl; auto.
Qed.

Lemma dedup_perm : forall l l', Permutation l l' -> eq_separated l -> Permutation (dedup l) (dedup l').
Proof.
  intros l l' Hp Hs.
  assert (Hs' : eq_separated l').
  { eapply incl_eq_separated; [|exact Hs]. intros x Hx. eapply Permutation_in; [symmetry; exact Hp|auto]. }
  apply NoDup_Permutation; try apply dedup_nodup.
  intros x; split; intros Hx.
  - apply dedup_in; auto. eapply Permutation_in; [exact Hp|]. apply dedup_incl; auto.
  - apply dedup_in; auto. eapply Permutation_in; [symmetry; exact Hp|]. apply dedup_incl; auto.
Qed.

Lemma post_init_normal : forall l, flat l -> post_init l = dedup l.
Proof. intros. unfold post_init. rewrite flatten_flat; auto. Qed.

Lemma post_init_id : forall l, flat l -> NoDup l -> eq_separated l -> post_init l = l.
Proof. intros. rewrite post_init_normal; auto. apply dedup_id; auto. Qed.

(* ------------------------------------------------------------------------------------------ *)
(* facts about the flags of [tr]                                                               *)

Lemma is_setof_cases : forall c, is_setof c = true -> c = "UnionType" \/ c = "IntersectionType".
Proof.
  unfold is_setof. intros c H. apply orb_prop in H as [H|H]; apply String.eqb_eq in H; auto.
Qed.

(* UnionType: the only sorted field is the set-type's own type_list *)
Lemma flags_union : forall c pc n,
  (c =? "UnionType") = true -> sorts c pc n = (is_setof c && (n =? "type_list")).
Proof.
  intros c pc n H. apply String.eqb_eq in H. subst. reflexivity.
Qed.

(* IntersectionType has no sorted field *)
Lemma flags_inter : forall c pc n,
  is_setof c = true -> (c =? "UnionType") = false -> sorts c pc n = false.
Proof.
  intros c pc n H1 H2. apply is_setof_cases in H1 as [->| ->]; [discriminate|reflexivity].
Qed.

Lemma sorts_pc_irrel : forall c pc pc' n, (c =? "Class") = false -> sorts c pc n = sorts c pc' n.
Proof.
  intros c pc pc' n H. unfold sorts. rewrite H. reflexivity.
Qed.

(* ------------------------------------------------------------------------------------------ *)
(* one field: permuted items                                                                   *)

Lemma tr_flags_perm : forall isset srt rst uni m m',
  (uni = true -> srt = isset) ->
  (isset = true -> uni = false -> srt = false) ->
  srt = true ->
  Permutation m m' ->
  (isset = true -> flat m /\ eq_separated m) ->
  key_separated m ->
  tr_flags isset srt rst uni (VTup m) = tr_flags isset srt rst uni (VTup m').
Proof.
  intros isset srt rst uni m m' F1 F2 Hs Hp Hset Hkey. subst srt. unfold tr_flags.
  destruct isset.
  - destruct uni; [|specialize (F2 eq_refl eq_refl); discriminate].
    destruct (Hset eq_refl) as [Hf He].
    assert (Hf' : flat m').
    { eapply incl_flat; [|exact Hf]. intros x Hx. eapply Permutation_in; [symmetry; exact Hp|auto]. }
    cbn [post_tup sort_tup]. rewrite (post_init_normal m), (post_init_normal m') by auto.
    f_equal. f_equal.
    apply sort_vals_perm_invariant.
    + apply dedup_perm; auto.
    + eapply incl_key_separated; [|exact Hkey]. apply dedup_incl.
  - destruct uni; [specialize (F1 eq_refl); discriminate|].
    simpl. f_equal. apply sort_vals_perm_invariant; auto.
Qed.

(* one field: second application *)
Lemma tr_flags_idem : forall isset srt rst uni w,
  (uni = true -> srt = isset) ->
  (isset = true -> uni = false -> srt = false) ->
  canon w = w ->
  (forall m, w = VTup m -> isset = true -> flat m /\ eq_separated m) ->
  let t := tr_flags isset srt rst uni w in
  canon t = t /\ tr_flags isset srt rst uni t = t.
Proof.
  intros isset srt rst uni w F1 F2 Hw Hset.
  destruct w as [c s r|n c|m|c fs].
  1,2,4: (cbv zeta; unfold tr_flags;
          destruct isset, srt, rst, uni; cbn [post_tup sort_tup];
          (split; [first [exact Hw|reflexivity]|reflexivity])).
  (* w = VTup m *)
  simpl in Hw. injection Hw as Hm.
  assert (Hfix : forall x, In x m -> canon x = x) by (apply map_fixed_inv; auto).
  assert (Hcan : forall l, (forall x, In x l -> In x m) -> canon (VTup l) = VTup l).
  { intros l Hl. simpl. f_equal. apply map_fixed. intros; apply Hfix, Hl; auto. }
  specialize (Hset m eq_refl).
  unfold tr_flags.
  destruct srt.
  - destruct uni.
    + (* UnionType.type_list: post (sort (post m)) *)
      rewrite (F1 eq_refl) in *. destruct isset; [|discriminate (F1 eq_refl)].
      clear F1 F2. destruct (Hset eq_refl) as [Hf He].
      cbn [post_tup sort_tup].
      rewrite (post_init_normal m) by auto.
      set (d := dedup m).
      assert (Hd : forall x, In x d -> In x m) by apply dedup_incl.
      assert (Hsd : forall x, In x (sort_vals d) -> In x m) by (intros x Hx; apply Hd, sort_vals_in; auto).
      assert (Hpost : post_init (sort_vals d) = sort_vals d).
      { apply post_init_id.
        - eapply incl_flat; eauto.
        - eapply Permutation_NoDup; [symmetry; apply sort_vals_perm|apply dedup_nodup].
        - eapply incl_eq_separated; eauto. }
      rewrite Hpost. split; [apply Hcan; auto|].
      rewrite Hpost, sort_vals_idem, Hpost. reflexivity.
    + (* plain sorted tuple *)
      destruct isset; [specialize (F2 eq_refl eq_refl); discriminate|].
      cbn [post_tup sort_tup]. split.
      * apply Hcan. intros x Hx. apply sort_vals_in; auto.
      * rewrite sort_vals_idem. reflexivity.
  - destruct rst; [split; reflexivity|].
    destruct isset.
    + destruct (Hset eq_refl) as [Hf He].
      cbn [post_tup]. rewrite (post_init_normal m) by auto.
      split; [apply Hcan; apply dedup_incl|].
      rewrite post_init_id; auto.
      * eapply incl_flat; [apply dedup_incl|auto].
      * apply dedup_nodup.
      * eapply incl_eq_separated; [apply dedup_incl|auto].
    + split; [apply Hcan; auto|reflexivity].
Qed.

Lemma flags_ok : forall c pc n,
  ((c =? "UnionType") = true -> sorts c pc n = (is_setof c && (n =? "type_list"))) /\
  (is_setof c && (n =? "type_list") = true -> (c =? "UnionType") = false -> sorts c pc n = false).
Proof.
  intros; split.
  - apply flags_union.
  - intros H. apply andb_prop in H as [H _]. apply flags_inter; auto.
Qed.

(* ------------------------------------------------------------------------------------------ *)
(* canon: structural facts                                                                     *)

Lemma canon_node : forall c fs,
  mem c visit_class_names = true ->
  canon (VNode c fs) = VNode c (tr_fields c (visited_children fs)).
Proof. intros c fs H. cbn [canon]. rewrite H. reflexivity. Qed.

Lemma canon_node_skip : forall c fs,
  mem c visit_class_names = false -> canon (VNode c fs) = VNode c fs.
Proof. intros c fs H. cbn [canon]. rewrite H. reflexivity. Qed.

Lemma tr_pc_eq : forall c pc pc' n v,
  (forall n, sorts c pc n = sorts c pc' n) -> tr c pc n v = tr c pc' n v.
Proof. intros c pc pc' n v H. unfold tr. rewrite H. reflexivity. Qed.

(* ------------------------------------------------------------------------------------------ *)
(* permutation invariance                                                                      *)

(* relation between the visited children of two deep-permuted nodes *)
Definition rel2 (c : string) (pc : bool) (p q : string * value) : Prop :=
  fst p = fst q /\
  (snd p = snd q \/
   (sorts c pc (fst p) = true /\
    exists m m', snd p = VTup m /\ snd q = VTup m' /\ Permutation m m')).

Definition side (c : string) (pc : bool) (p : string * value) : Prop :=
  (forall m, snd p = VTup m -> sorts c pc (fst p) = true -> key_separated m) /\
  (is_setof c = true -> fst p = "type_list" ->
   forall m, snd p = VTup m -> flat m /\ eq_separated m).

Lemma rel2_field : forall c pc g g' n,
  Forall2 (rel2 c pc) g g' ->
  Permutation (tup_items (field n g)) (tup_items (field n g')).
Proof.
  induction 1 as [|[a v] [b w] g g' [Hn Hr] HF IH]; simpl in *; auto.
  subst b. destruct (n =? a); auto.
  destruct Hr as [->|(_ & m & m' & -> & -> & Hp)]; auto.
Qed.

Lemma rel2_preserve : forall c pc g g',
  Forall2 (rel2 c pc) g g' -> preserve_constants g = preserve_constants g'.
Proof.
  intros c pc g g' H. unfold preserve_constants.
  rewrite (existsb_perm _ _ _ (rel2_field c pc g g' "decorators" H)).
  rewrite (existsb_perm _ _ _ (rel2_field c pc g g' "bases" H)).
  reflexivity.
Qed.

Lemma rel2_map : forall c pc g g',
  Forall2 (rel2 c pc) g g' -> Forall (side c pc) g ->
  map (fun p => (fst p, tr c pc (fst p) (snd p))) g =
  map (fun p => (fst p, tr c pc (fst p) (snd p))) g'.
Proof.
  induction 1 as [|[a v] [b w] g g' [Hn Hr] HF IH]; intros Hs; simpl in *; auto.
  subst b. apply Forall_cons_iff in Hs as [[Hk Hset] Hs']. simpl in *.
  f_equal; auto.
  f_equal.
  destruct Hr as [->|(Hsrt & m & m' & -> & -> & Hp)]; auto.
  unfold tr. destruct (flags_ok c pc a) as [F1 F2].
  apply tr_flags_perm; auto.
  intros Hi. apply andb_prop in Hi as [Hi Hn]. apply String.eqb_eq in Hn. eauto.
Qed.

Lemma Forall2_canon : forall l l',
  Forall (fun u => forall u', ok true u -> deep_perm u u' -> canon u = canon u') l ->
  Forall (ok true) l -> Forall2 deep_perm l l' -> map canon l = map canon l'.
Proof.
  intros l l' HP Hok H2. revert HP Hok.
  induction H2 as [|x y l l' Hxy H2 IH]; intros HP Hok; simpl; auto.
  inversion HP; inversion Hok; subst. f_equal; auto.
Qed.

Lemma rel_children : forall c pc fs fs',
  Forall (fun p => forall u', ok true (snd p) -> deep_perm (snd p) u' -> canon (snd p) = canon u') fs ->
  Forall (fun p => ok true (snd p)) fs ->
  Forall2 (fun p q =>
             fst p = fst q /\
             (deep_perm (snd p) (snd q) \/
              (sorts c pc (fst p) = true /\
               exists l l1 l', snd p = VTup l /\ Forall2 deep_perm l l1 /\
                               Permutation l1 l' /\ snd q = VTup l'))) fs fs' ->
  Forall2 (rel2 c pc) (visited_children fs) (visited_children fs').
Proof.
  intros c pc fs fs' HP Hoks H2. unfold visited_children.
  revert HP Hoks. induction H2 as [|[a v] [b w] t t' [Hn Hr] HF IH]; intros HP Hoks; simpl; auto.
  apply Forall_cons_iff in HP as [HPv HPt]. apply Forall_cons_iff in Hoks as [Hokv Hokt].
  simpl in *. subst b.
  constructor; auto.
  split; simpl; auto.
  destruct Hr as [Hd|(Hs & l & l1 & l' & -> & Hl & Hp & ->)].
  - left. apply HPv; auto.
  - right. split; auto.
    exists (map canon l), (map canon l'). repeat split; auto.
    assert (E : canon (VTup l) = canon (VTup l1)) by (apply HPv; auto; constructor; auto).
    simpl in E. injection E as E. rewrite E. apply Permutation_map; auto.
Qed.

Lemma canonical_perm_invariant_lemma : forall u u',
  ok true u -> deep_perm u u' -> canon u = canon u'.
Proof.
  induction u using value_ind'; intros u' Hok Hdp.
  - inversion Hdp; subst; reflexivity.
  - inversion Hdp; subst; reflexivity.
  - inversion Hdp as [|l1 l2 H2|]; subst; [reflexivity|].
    simpl. f_equal. inversion Hok; subst. apply Forall2_canon; auto.
  - inversion Hdp as [| |c1 fs1 fs' Hmem H2]; subst; [reflexivity|].
    inversion Hok as [| | |? ? Hno|? ? _ Hoks Hset Hkey]; subst; [congruence|].
    rewrite !canon_node by auto.
    f_equal. unfold tr_fields.
    set (pc := preserve_constants (visited_children fs)) in *.
    (* elementwise side conditions on fs *)
    assert (Hside : Forall (side c pc) (visited_children fs)).
    { apply Forall_forall. intros [n v] Hin. split; simpl.
      - intros m -> Hs. eapply (Hkey eq_refl); eauto.
      - intros Hi -> m ->. eapply Hset; eauto. }
    assert (Hrel : Forall2 (rel2 c pc) (visited_children fs) (visited_children fs')).
    { apply rel_children; auto. }
    rewrite <- (rel2_preserve c pc _ _ Hrel). fold pc.
    apply rel2_map; auto.
Qed.

(* ------------------------------------------------------------------------------------------ *)
(* idempotence                                                                                 *)

Lemma field_fixed : forall g,
  (forall p, In p g -> canon (snd p) = snd p) ->
  forall n v, field n g = Some v -> canon v = v.
Proof.
  intros g Hfix n v. induction g as [|[a x] t IH]; simpl; [discriminate|].
  destruct (n =? a).
  - intros E; injection E as <-. apply (Hfix (a, x)). left; auto.
  - apply IH. intros; apply Hfix; right; auto.
Qed.

Lemma pc_stable : forall pc g,
  (forall p, In p g -> canon (snd p) = snd p) ->
  preserve_constants (map (fun p => (fst p, canon (tr "Class" pc (fst p) (snd p)))) g)
  = preserve_constants g.
Proof.
  intros pc g Hfix. pose proof (field_fixed g Hfix) as Hin.
  unfold preserve_constants.
  rewrite !(field_map (fun n v => canon (tr "Class" pc n v))).
  f_equal.
  - (* decorators: sorted *)
    destruct (field "decorators" g) as [v|] eqn:E; [|reflexivity].
    apply Hin in E. cbn [option_map].
    unfold tr. change (sorts "Class" pc "decorators") with true.
    change (is_setof "Class" && ("decorators" =? "type_list")) with false.
    change ("Class" =? "UnionType") with false.
    unfold tr_flags. destruct v as [? ? ?|? ?|m|? ?]; cbn [sort_tup]; try (rewrite E; reflexivity).
    cbn [canon] in E. injection E as E. cbn [canon tup_items]. apply existsb_perm.
    rewrite (map_fixed canon).
    + apply sort_vals_perm.
    + intros x Hx. apply (proj1 (sort_vals_in _ _)) in Hx. eapply map_fixed_inv; eauto.
  - (* bases: kept *)
    destruct (field "bases" g) as [v|] eqn:E; [|reflexivity].
    apply Hin in E. cbn [option_map].
    unfold tr. change (sorts "Class" pc "bases") with false.
    change (is_setof "Class" && ("bases" =? "type_list")) with false.
    change (resets "Class" "bases") with false.
    unfold tr_flags. rewrite E. reflexivity.
Qed.

Lemma preserve_tr_fields : forall c g,
  (forall p, In p g -> canon (snd p) = snd p) ->
  preserve_constants
    (visited_children (tr_fields c g)) = preserve_constants g \/ (c =? "Class") = false.
Proof.
  intros c g Hfix.
  destruct (c =? "Class") eqn:Ec; [left|right; reflexivity].
  apply String.eqb_eq in Ec. subst c.
  unfold visited_children, tr_fields. rewrite map_map. cbn [fst snd].
  apply pc_stable; auto.
Qed.

Lemma canon_idempotent_lemma : forall u, ok false u -> canon (canon u) = canon u.
Proof.
  induction u using value_ind'; intros Hok.
  - reflexivity.
  - reflexivity.
  - simpl. f_equal. rewrite map_map. inversion Hok; subst.
    apply map_ext_in. intros x Hx. rewrite Forall_forall in *. auto.
  - inversion Hok as [| | |? ? Hno|? ? Hmem Hoks Hset _]; subst.
    + rewrite !canon_node_skip by auto. reflexivity.
    + rewrite canon_node by auto. rewrite canon_node by auto. f_equal.
      set (g := visited_children fs) in *.
      assert (Hfix : forall p, In p g -> canon (snd p) = snd p).
      { intros p Hp. unfold g, visited_children in Hp. apply in_map_iff in Hp as (q & <- & Hq).
        simpl. rewrite Forall_forall in *. auto. }
      assert (Hpc : forall n, sorts c (preserve_constants (visited_children (tr_fields c g))) n
                              = sorts c (preserve_constants g) n).
      { intros n. destruct (preserve_tr_fields c g Hfix) as [->|E]; auto. apply sorts_pc_irrel; auto. }
      unfold tr_fields at 1.
      set (pc2 := preserve_constants (visited_children (tr_fields c g))) in *.
      set (pc := preserve_constants g) in *.
      unfold visited_children at 1. unfold tr_fields. rewrite !map_map. simpl.
      apply map_ext_in. intros [n w] Hin. simpl.
      f_equal. rewrite (tr_pc_eq c pc2 pc) by auto.
      subst pc. set (pc := preserve_constants g) in *.
      unfold tr. destruct (flags_ok c pc n) as [F1 F2].
      pose proof (tr_flags_idem (is_setof c && (n =? "type_list")) (sorts c pc n) (resets c n)
                                (c =? "UnionType") w F1 F2 (Hfix _ Hin)) as T.
      simpl in T. destruct T as [T1 T2].
      * intros m -> Hi. apply andb_prop in Hi as [Hi Hn]. apply String.eqb_eq in Hn. subst n.
        eapply Hset; eauto.
      * rewrite T1. exact T2.
Qed.

(* ------------------------------------------------------------------------------------------ *)
(* the executable hypothesis checker is sound, and keys_separate implies sets_normal           *)

Lemma okb_sound : forall k u, okb k u = true -> ok k u.
Proof.
  intros k. induction u using value_ind'; intros Hb.
  - constructor.
  - constructor.
  - constructor. cbn [okb] in Hb. rewrite forallb_forall in Hb. rewrite Forall_forall in *. auto.
  - cbn [okb] in Hb. destruct (mem c visit_class_names) eqn:Hmem; [|apply ok_skip; auto].
    apply andb_prop in Hb as [Hb Hkey]. apply andb_prop in Hb as [Hch Hset].
    apply ok_node; auto.
    + rewrite forallb_forall in Hch. rewrite Forall_forall in *. auto.
    + intros Hi l Hin. rewrite Hi in Hset. rewrite forallb_forall in Hset.
      specialize (Hset _ Hin). simpl in Hset.
      apply andb_prop in Hset as [H1 H2]. split; [apply flatb_sound|apply eq_separatedb_sound]; auto.
    + intros -> n l Hin Hs. rewrite forallb_forall in Hkey. specialize (Hkey _ Hin). simpl in Hkey.
      rewrite Hs in Hkey. apply key_separatedb_sound; auto.
Qed.

Lemma ok_true_false : forall u, ok true u -> ok false u.
Proof.
  induction u using value_ind'; intros Hok.
  - constructor.
  - constructor.
  - inversion Hok; subst. constructor. rewrite Forall_forall in *. auto.
  - inversion Hok as [| | |? ? Hno|? ? Hmem Hoks Hset Hkey]; subst.
    + apply ok_skip; auto.
    + apply ok_node; auto.
      * rewrite Forall_forall in *. auto.
      * discriminate.
Qed.
