(* C15 model (definitions only, no proofs).

   Three pieces of pytype that are logic rather than search:
   (1) the opcode dispatch table      - vm.VirtualMachine.run_instruction: getattr(self, "byte_" + op.name),
                                        pyc/opcodes.py _make_opcodes: globals()[op.name]; the table itself is
                                        REGENERATED into Generated/C15_Handlers.v on every run.
   (2) the except chain               - io.check_or_generate_pyi (io.py:198-248); the clause list and the
                                        subclass matrix are REGENERATED from io.py's AST and the live classes.
   (3) locating/rendering a line      - errors.Error._find_all_line_split, _find_line_boundaries,
                                        _visualize_failed_lines (errors.py:337-423).
   Source text is a list of code points (nat); "\n" is 10. *)
From Coq Require Import String.
From Coq Require Import List Arith NArith ZArith Bool.
Import ListNotations.

(* ------------------------------------------------------------------------------------------ *)
(* (1) dispatch table rows *)

Record oprow := mkOp {
  op_name     : string;
  op_versions : list nat;   (* minor versions 3.x whose pycnite opcode table contains the name *)
  op_absorbed : bool;       (* pycnite.bytecode.wordcode_reader never yields it (EXTENDED_ARG is folded into the
                               next instruction's argument), so it cannot reach opcodes.py or the VM *)
  op_class    : bool;       (* for every listed version: opcodes.py globals()[name] is an Opcode class and
                               .for_python_version(v) returns a class *)
  op_handler  : bool        (* for every listed version: the analysing VM class (tracer_vm.CallTracer, which
                               inherits vm.VirtualMachine) has a callable byte_<that class's __name__> *)
}.

Definition reaches_vm (r : oprow) : bool := negb (op_absorbed r).
Definition row_ok (r : oprow) : bool := op_absorbed r || (op_class r && op_handler r).

(* second-level dispatch of CALL_INTRINSIC_1/2: getattr(self, "byte_" + op.argval) *)
Record intrinsic_row := mkIntr { in_name : string; in_handler : bool }.

(* ------------------------------------------------------------------------------------------ *)
(* (2) the except chain of io.check_or_generate_pyi *)

(* what the body of one `except` clause does *)
Inductive action :=
| ActReraise                 (* `raise`                                                   (UsageError)      *)
| ActCompilerError           (* compiler_error = (options.input, e.<line attr>, e.<msg attr>)              *)
| ActSkip                    (* other_error_info = "# skip-file found, file not analyzed"                  *)
| ActNofailBranch.           (* `except Exception`: if options.nofail ... else: e.args = ...; raise        *)

(* one clause: the id (in the generated class universe) of the class it names, and its action *)
Record clause := mkClause { cl_class : nat; cl_action : action }.

(* subclass matrix: row = class id of the raised exception, column = class id of a clause's class *)
Definition issub (m : list (list bool)) (c h : nat) : bool := nth h (nth c m []) false.

(* Python's try/except: the first clause whose class the exception is an instance of *)
Fixpoint find_clause (m : list (list bool)) (c : nat) (ch : list clause) : option action :=
  match ch with
  | [] => None
  | cl :: rest => if issub m c (cl_class cl) then Some (cl_action cl) else find_clause m c rest
  end.

(* what check_py / generate_pyi did *)
Inductive event :=
| Returned                                   (* no exception: the `else:` clause returns the analysis result *)
| Raised (cls : nat) (line : option nat).    (* exception of class `cls`; `line` is the value of the attribute
                                                the matching clause reads (lineno / line / raw_line), None = None *)

Inductive info := InfoNone | InfoSkip | InfoCaught.

Inductive outcome :=
| OResult                                       (* AnalysisResult(ctx, ast, result) of the real analysis *)
| OEscape (annotated : bool)                    (* the exception leaves check_or_generate_pyi; annotated = its
                                                   args[0] got "\nFile: <input>" appended *)
| ODefault (compiler_errors : list nat) (i : info).
    (* fresh Context; errorlog = one python-compiler-error per listed line; ast = default ast;
       pyi = DEFAULT_SRC + (nothing | skip-file comment | "# Caught error in pytype: ...") *)

(* Error.__init__: self._line = line or 0 *)
Definition line_or_0 (l : option nat) : nat := match l with Some n => n | None => 0 end.

Definition outcome_of (m : list (list bool)) (ch : list clause) (ev : event) (nofail check : bool) : outcome :=
  match ev with
  | Returned => OResult
  | Raised c line =>
    match find_clause m c ch with
    | None => OEscape false                                   (* not an Exception: no clause matches *)
    | Some ActReraise => OEscape false
    | Some ActCompilerError => ODefault [line_or_0 line] InfoNone   (* `if compiler_error:` a 3-tuple is truthy *)
    | Some ActSkip => ODefault [] InfoSkip
    | Some ActNofailBranch =>
        if nofail then ODefault [] (if check then InfoNone else InfoCaught)
        else OEscape true
    end
  end.

Definition escapes (o : outcome) : bool := match o with OEscape _ => true | _ => false end.

(* compact encoding for the correspondence run *)
Definition encode_outcome (o : outcome) : list nat :=
  match o with
  | OResult => [0]
  | OEscape a => [1; if a then 1 else 0]
  | ODefault errs i => 2 :: (match i with InfoNone => 0 | InfoSkip => 1 | InfoCaught => 2 end) :: errs
  end.

(* ------------------------------------------------------------------------------------------ *)
(* (3) errors.Error._find_all_line_split / _find_line_boundaries / _visualize_failed_lines *)

Definition NL : nat := 10.

(* index of the first "\n" *)
Fixpoint find0 (s : list nat) : option nat :=
  match s with
  | [] => None
  | c :: t => if c =? NL then Some 0 else option_map S (find0 t)
  end.

(* self._src.find("\n", start) for start >= 0: the index, or -1 *)
Definition py_find (s : list nat) (start : nat) : Z :=
  match find0 (skipn start s) with
  | Some j => Z.of_nat (start + j)
  | None => (-1)%Z
  end.

(* curr_idx = self._src.find("\n", curr_idx) + 1      (so "not found" wraps to index 0) *)
Definition next_idx (s : list nat) (i : nat) : nat := Z.to_nat (py_find s i + 1).

(* while curr_line < begin_line: curr_idx = next; curr_line += 1 *)
Fixpoint skip_lines (s : list nat) (n : nat) (idx : nat) : nat :=
  match n with
  | O => idx
  | S n' => skip_lines s n' (next_idx s idx)
  end.

(* while curr_line < end_line: curr_idx = next; point_idx.append(curr_idx); curr_line += 1 *)
Fixpoint collect_lines (s : list nat) (n : nat) (idx : nat) : list nat * nat :=
  match n with
  | O => ([], idx)
  | S n' => let idx' := next_idx s idx in
            let (l, last) := collect_lines s n' idx' in (idx' :: l, last)
  end.

(* _find_all_line_split(begin_line, end_line), both 0-based and >= 0 *)
Definition find_all_line_split (s : list nat) (b e : nat) : list nat :=
  let i0 := skip_lines s b 0 in
  let (mid, i1) := collect_lines s (e - b) i0 in
  let f := py_find s i1 in
  let last := if (f =? -1)%Z then length s else Z.to_nat f in
  i0 :: mid ++ [last].

Definition find_line_boundaries (s : list nat) (line : nat) : list nat := find_all_line_split s line line.

(* s[a:b] for a, b >= 0 *)
Definition slice (s : list nat) (a b : nat) : list nat := firstn (b - a) (skipn a s).

(* output of _visualize_failed_lines as segments; STilde n is COLOR_ERROR_NAME_TEMPLATE % ("~" * n)
   (Python: a negative repeat count gives "") *)
Inductive seg := SText (t : list nat) | STilde (n : Z).

Definition visualize (src : list nat) (has_filename : bool) (line endline col endcol : nat) : list seg :=
  if negb has_filename || (line =? 0) || (length src =? 0) then [] else
  let pts := if endline =? 0 then find_line_boundaries src (line - 1)
             else find_all_line_split src (line - 1) (endline - 1) in
  let n := length pts in
  let p := fun i => nth i pts 0 in
  if n =? 2 then
    let bh := if endcol =? 0 then col + p 0 else col in
    let eh := if endcol =? 0 then p 1 else endcol in
    [SText (slice src (p 0) (p (n - 1))); SText [NL]; SText (repeat 32 col);
     STilde (Z.of_nat eh - Z.of_nat bh)]
  else
    [SText (slice src (p 0) (p 1)); SText (repeat 32 col);
     STilde (Z.of_nat (p 1) - Z.of_nat (p 0) - Z.of_nat col - 1); SText [NL]]
    ++ flat_map (fun i => [SText (slice src (p i) (p (i + 1)));
                           STilde (Z.of_nat (p (i + 1)) - Z.of_nat (p i) - 1); SText [NL]])
                (seq 1 (n - 3))
    ++ [SText (slice src (p (n - 2)) (p (n - 1))); SText [NL]; STilde (Z.of_nat endcol)].

Definition render (pre post : list nat) (segs : list seg) : list nat :=
  flat_map (fun sg => match sg with
                      | SText t => t
                      | STilde n => pre ++ repeat 126 (Z.to_nat n) ++ post
                      end) segs.

(* ---- specification side: the lines of a text ---- *)

(* src.split("\n") *)
Fixpoint lines (s : list nat) : list (list nat) :=
  match s with
  | [] => [[]]
  | c :: t => if c =? NL then [] :: lines t
              else match lines t with
                   | l :: r => (c :: l) :: r
                   | [] => [[c]]
                   end
  end.

Definition nlines (s : list nat) : nat := length (lines s).

(* offset of the first character of the k-th (0-based) line *)
Fixpoint starts_from (ls : list (list nat)) (k : nat) {struct k} : nat :=
  match k, ls with
  | O, _ => 0
  | S k', l :: r => S (length l) + starts_from r k'
  | S _, [] => 0
  end.

Definition line_start (s : list nat) (k : nat) : nat := starts_from (lines s) k.
Definition line_text (s : list nat) (k : nat) : list nat := nth k (lines s) [].
