(* C15 (a): lemmas about the compile-error path (Io/Compile.v).  Generic in the digit table and in the int() limit. *)
From Coq Require Import List Arith NArith Bool Lia.
From PV Require Import Io.Compile.
Import ListNotations.
Local Open Scope N_scope.

(* ---- list helpers ---- *)

Lemma forallb_rev : forall (p : N -> bool) l, forallb p (rev l) = forallb p l.
Proof.
  intros p l. induction l as [|a l IH]; [reflexivity|].
  cbn [rev]. rewrite forallb_app, IH. cbn. rewrite andb_true_r. apply andb_comm.
Qed.

Lemma span_spec : forall p s a b, span p s = (a, b) ->
  s = a ++ b /\ forallb p a = true /\ match b with [] => True | c :: _ => p c = false end.
Proof.
  intros p s. induction s as [|c s IH]; intros a b H; cbn in H.
  - injection H as <- <-. auto.
  - destruct (p c) eqn:E.
    + destruct (span p s) as [a1 b1] eqn:E2. injection H as <- <-.
      destruct (IH _ _ eq_refl) as (-> & F & T). cbn. rewrite E, F. auto.
    + injection H as <- <-. cbn. rewrite E. auto.
Qed.

Lemma span_app : forall p a b, forallb p a = true -> match b with [] => True | c :: _ => p c = false end ->
  span p (a ++ b) = (a, b).
Proof.
  intros p a. induction a as [|x a IH]; cbn; intros b H H0.
  - destruct b; cbn; [reflexivity|]. rewrite H0. reflexivity.
  - apply andb_true_iff in H as [H1 H2]. rewrite H1, IH by assumption. reflexivity.
Qed.

Lemma starts_with_spec : forall pre s, starts_with pre s = true -> s = pre ++ skipn (length pre) s.
Proof.
  intros pre. induction pre as [|a pre IH]; intros s H; destruct s; cbn in *; try discriminate; auto.
  apply andb_true_iff in H as [H1 H2]. apply N.eqb_eq in H1. subst. f_equal. auto.
Qed.

Lemma starts_with_app : forall pre s, starts_with pre (pre ++ s) = true.
Proof. intros pre s. induction pre as [|a pre IH]; cbn; auto. rewrite N.eqb_refl. auto. Qed.

Lemma find_sub2_some : forall a b s u v, find_sub2 a b s = Some (u, v) -> s = u ++ a :: b :: v.
Proof.
  intros a b s. induction s as [|x s IH]; intros u v H; cbn in H; [discriminate|].
  destruct ((x =? a) && match s with y :: _ => y =? b | [] => false end) eqn:E.
  - injection H as <- <-. apply andb_true_iff in E as [E1 E2]. destruct s; [discriminate|].
    apply N.eqb_eq in E1, E2. subst. reflexivity.
  - destruct (find_sub2 a b s) as [[u1 v1]|] eqn:E2; [|discriminate]. injection H as <- <-.
    cbn. f_equal. auto.
Qed.

(* it is the FIRST occurrence *)
Lemma find_sub2_first : forall a b s u' v', s = u' ++ a :: b :: v' ->
  exists u v, find_sub2 a b s = Some (u, v) /\ (length u <= length u')%nat.
Proof.
  intros a b s. induction s as [|x s IH]; intros u' v' H.
  - destruct u'; discriminate.
  - cbn [find_sub2].
    destruct ((x =? a) && match s with y :: _ => y =? b | [] => false end) eqn:E.
    + exists [], (tl s). split; [reflexivity|]. cbn. lia.
    + destruct u' as [|y u'].
      * cbn in H. injection H as -> ->. rewrite !N.eqb_refl in E. discriminate.
      * cbn in H. injection H as -> ->. destruct (IH u' v' eq_refl) as (u & v & F & L).
        rewrite F. exists (y :: u), v. split; [reflexivity|]. cbn. lia.
Qed.

Lemma find_sub2_none : forall a b s, find_sub2 a b s = None -> forall u v, s <> u ++ a :: b :: v.
Proof.
  intros a b s H u v E. destruct (find_sub2_first a b s u v E) as (u1 & v1 & F & _). congruence.
Qed.

(* ---- the language of the pattern ---- *)

(* msg = group1 " (" group2 ", line " digits ")" ["\n"], no "\n" inside groups 1 and 2, at least one digit *)
Definition decomp (nd : list N) (msg g1 g2 d : text) : Prop :=
  (msg = g1 ++ sep_open ++ g2 ++ sep_line ++ d ++ [RP] \/
   msg = (g1 ++ sep_open ++ g2 ++ sep_line ++ d ++ [RP]) ++ [NL]) /\
  no_nl g1 = true /\ no_nl g2 = true /\ d <> [] /\ forallb (is_digit nd) d = true.

Lemma rev_shape : forall g1 g2 d : text,
  rev (g1 ++ sep_open ++ g2 ++ sep_line ++ d ++ [RP]) =
  RP :: rev d ++ sep_line_rev ++ rev g2 ++ LP :: SP :: rev g1.
Proof.
  intros. rewrite !rev_app_distr. cbn [rev app]. rewrite <- !app_assoc. reflexivity.
Qed.

Lemma rev_shape_inv : forall dr g2r g1r : text,
  rev (RP :: dr ++ sep_line_rev ++ g2r ++ LP :: SP :: g1r) =
  rev g1r ++ sep_open ++ rev g2r ++ sep_line ++ rev dr ++ [RP].
Proof.
  intros. rewrite <- (rev_involutive (rev g1r ++ sep_open ++ rev g2r ++ sep_line ++ rev dr ++ [RP])).
  rewrite rev_shape, !rev_involutive. reflexivity.
Qed.

Lemma strip_spec : forall msg br, strip_final_nl_rev (rev msg) = br -> msg = rev br \/ msg = rev br ++ [NL].
Proof.
  intros msg br H. unfold strip_final_nl_rev in H. destruct (rev msg) as [|c t] eqn:E.
  - subst br. left. rewrite <- (rev_involutive msg), E. reflexivity.
  - destruct (c =? NL) eqn:Ec.
    + apply N.eqb_eq in Ec. subst. right. rewrite <- (rev_involutive msg), E. reflexivity.
    + subst br. left. rewrite <- (rev_involutive msg), E. reflexivity.
Qed.

Lemma no_nl_rev : forall s, no_nl (rev s) = no_nl s.
Proof. intro s. apply forallb_rev. Qed.

(* soundness: whatever the matcher returns is a decomposition of the message *)
Lemma re_match_sound : forall nd msg g1 g2 d, re_match nd msg = Some (g1, g2, d) -> decomp nd msg g1 g2 d.
Proof.
  intros nd msg g1 g2 d H. unfold re_match in H.
  destruct (strip_final_nl_rev (rev msg)) as [|c r1] eqn:Eb; [discriminate|].
  destruct (c =? RP) eqn:Ec; [|discriminate]. apply N.eqb_eq in Ec. subst c.
  destruct (span (is_digit nd) r1) as [drev r2] eqn:Es.
  destruct drev as [|d0 drev]; [discriminate|].
  destruct (starts_with sep_line_rev r2) eqn:Est; [|discriminate].
  destruct (no_nl (skipn 7 r2)) eqn:Enl; [|discriminate].
  destruct (find_sub2 LP SP (skipn 7 r2)) as [[g2r g1r]|] eqn:Ef; [|discriminate].
  injection H as <- <- <-.
  apply span_spec in Es. destruct Es as (-> & Fd & _).
  apply starts_with_spec in Est. change (length sep_line_rev) with 7%nat in Est.
  apply find_sub2_some in Ef.
  rewrite Ef in Enl. unfold no_nl in Enl. rewrite forallb_app in Enl. apply andb_true_iff in Enl as [N2 N1].
  cbn [forallb] in N1. apply andb_true_iff in N1 as [_ N1]. apply andb_true_iff in N1 as [_ N1].
  rewrite Ef in Est. rewrite Est in Eb.
  assert (Hshape : rev (RP :: (d0 :: drev) ++ sep_line_rev ++ g2r ++ LP :: SP :: g1r) =
                   rev g1r ++ sep_open ++ rev g2r ++ sep_line ++ rev (d0 :: drev) ++ [RP]) by apply rev_shape_inv.
  unfold decomp. split; [|split; [|split; [|split]]].
  - apply strip_spec in Eb. rewrite Hshape in Eb. exact Eb.
  - rewrite no_nl_rev. exact N1.
  - rewrite no_nl_rev. exact N2.
  - assert (Hne : forall (x : N) l, rev (x :: l) <> []) by (intros x l E; cbn in E; destruct (rev l); discriminate).
    exact (Hne d0 drev).
  - change (forallb (is_digit nd) (rev (d0 :: drev)) = true). rewrite forallb_rev. exact Fd.
Qed.

(* completeness, with the greedy choice: any decomposition makes the matcher succeed, with the same digits, and
   the matcher's group 1 is at least as long as the decomposition's *)
Lemma re_match_complete : forall nd msg g1' g2' d', is_digit nd SP = false -> decomp nd msg g1' g2' d' ->
  exists g1 g2, re_match nd msg = Some (g1, g2, d') /\ (length g1' <= length g1)%nat /\
                g1 ++ sep_open ++ g2 = g1' ++ sep_open ++ g2'.
Proof.
  intros nd msg g1' g2' d' Hsp (Hm & N1 & N2 & Dne & Dd).
  assert (Eb : strip_final_nl_rev (rev msg) = RP :: rev d' ++ sep_line_rev ++ rev g2' ++ LP :: SP :: rev g1').
  { destruct Hm as [-> | ->].
    - rewrite rev_shape. reflexivity.
    - rewrite rev_app_distr, rev_shape. reflexivity. }
  unfold re_match. rewrite Eb. change (RP =? RP) with true. cbv iota.
  rewrite (span_app (is_digit nd) (rev d') (sep_line_rev ++ rev g2' ++ LP :: SP :: rev g1')).
  2:{ rewrite forallb_rev. exact Dd. }
  2:{ exact Hsp. }
  destruct (rev d') as [|x xs] eqn:Er.
  { exfalso. apply Dne. rewrite <- (rev_involutive d'), Er. reflexivity. }
  rewrite starts_with_app.
  change (skipn 7 (sep_line_rev ++ rev g2' ++ LP :: SP :: rev g1')) with (rev g2' ++ LP :: SP :: rev g1').
  assert (Hnl : no_nl (rev g2' ++ LP :: SP :: rev g1') = true).
  { unfold no_nl. rewrite forallb_app. cbn [forallb]. fold (no_nl (rev g2')). fold (no_nl (rev g1')).
    rewrite !no_nl_rev, N1, N2. reflexivity. }
  rewrite Hnl.
  destruct (find_sub2_first LP SP _ (rev g2') (rev g1') eq_refl) as (u & v & F & L).
  rewrite F. exists (rev v), (rev u). split.
  - rewrite <- Er, rev_involutive. reflexivity.
  - apply find_sub2_some in F.
    assert (Hlen : (length u + length v = length g2' + length g1')%nat).
    { apply (f_equal (@length N)) in F. rewrite !app_length in F. cbn [length] in F.
      rewrite !rev_length in F. lia. }
    rewrite rev_length in L. split.
    + rewrite rev_length. lia.
    + transitivity (rev (u ++ LP :: SP :: v)).
      * rewrite rev_app_distr. cbn [rev]. rewrite <- !app_assoc. reflexivity.
      * rewrite <- F. rewrite rev_app_distr. cbn [rev]. rewrite !rev_involutive, <- !app_assoc. reflexivity.
Qed.

Lemma re_match_none_iff : forall nd msg, is_digit nd SP = false ->
  (re_match nd msg = None <-> forall g1 g2 d, ~ decomp nd msg g1 g2 d).
Proof.
  intros nd msg Hsp. split.
  - intros H g1 g2 d D. destruct (re_match_complete nd msg g1 g2 d Hsp D) as (a & b & E & _). congruence.
  - intro H. destruct (re_match nd msg) as [[[g1 g2] d]|] eqn:E; [|reflexivity].
    exfalso. exact (H g1 g2 d (re_match_sound _ _ _ _ _ E)).
Qed.

(* the digits are the same in every reading of the message *)
Lemma line_unambiguous_lemma : forall nd msg g1 g2 d g1' g2' d', is_digit nd SP = false ->
  decomp nd msg g1 g2 d -> decomp nd msg g1' g2' d' -> d = d'.
Proof.
  intros nd msg g1 g2 d g1' g2' d' Hsp D D'.
  destruct (re_match_complete _ _ _ _ _ Hsp D) as (a & b & E & _).
  destruct (re_match_complete _ _ _ _ _ Hsp D') as (a' & b' & E' & _).
  congruence.
Qed.

(* ---- CompileError.__init__ ---- *)

Lemma compile_error_init_cases_lemma : forall nd maxd msg, is_digit nd SP = false ->
  (* matched *)
  (exists g1 g2 d, decomp nd msg g1 g2 d /\
     (forall g1' g2' d', decomp nd msg g1' g2' d' -> d' = d /\ (length g1' <= length g1)%nat) /\
     compile_error_init nd maxd msg =
       if int_refuses maxd d then CEvalue_error else CEok g1 (Some g2) (int_of nd d)) \/
  (* fallback *)
  ((forall g1 g2 d, ~ decomp nd msg g1 g2 d) /\ compile_error_init nd maxd msg = CEok msg None 1).
Proof.
  intros nd maxd msg Hsp. unfold compile_error_init.
  destruct (re_match nd msg) as [[[g1 g2] d]|] eqn:E.
  - left. exists g1, g2, d. split; [exact (re_match_sound _ _ _ _ _ E)|]. split; [|reflexivity].
    intros g1' g2' d' D'. destruct (re_match_complete _ _ _ _ _ Hsp D') as (a & b & E' & L & _).
    rewrite E in E'. injection E' as <- <- <-. split; [reflexivity|exact L].
  - right. split; [|reflexivity]. apply re_match_none_iff; assumption.
Qed.

Lemma compile_error_raises_iff_lemma : forall nd maxd msg, is_digit nd SP = false ->
  (compile_error_init nd maxd msg = CEvalue_error <->
   exists g1 g2 d, decomp nd msg g1 g2 d /\ (0 < maxd)%nat /\ (maxd < length d)%nat).
Proof.
  intros nd maxd msg Hsp. unfold compile_error_init. split.
  - destruct (re_match nd msg) as [[[g1 g2] d]|] eqn:E; [|discriminate].
    destruct (int_refuses maxd d) eqn:R; [|discriminate]. intros _.
    exists g1, g2, d. split; [exact (re_match_sound _ _ _ _ _ E)|].
    unfold int_refuses in R. apply andb_true_iff in R as [R1 R2].
    apply Nat.ltb_lt in R1, R2. split; assumption.
  - intros (g1 & g2 & d & D & R1 & R2).
    destruct (re_match_complete _ _ _ _ _ Hsp D) as (a & b & E & _). rewrite E.
    unfold int_refuses. apply Nat.ltb_lt in R1, R2. rewrite R1, R2. reflexivity.
Qed.

(* ---- ASCII numerals under a well-formed table ---- *)

Lemma wf_nd_sp : forall nd, wf_nd nd = true -> is_digit nd SP = false.
Proof.
  intros nd H. unfold wf_nd in H. apply andb_true_iff in H as [H _]. apply andb_true_iff in H as [H _].
  apply negb_true_iff in H. exact H.
Qed.

Lemma wf_nd_minus : forall nd, wf_nd nd = true -> is_digit nd 45 = false.
Proof.
  intros nd H. unfold wf_nd in H. apply andb_true_iff in H as [H _]. apply andb_true_iff in H as [_ H].
  apply negb_true_iff in H. exact H.
Qed.

Lemma wf_nd_ascii : forall nd c, wf_nd nd = true -> ascii_digit c = true -> block_of nd c = Some 48.
Proof.
  intros nd c H A. unfold wf_nd in H. apply andb_true_iff in H as [_ H].
  unfold ascii_digit in A. apply andb_true_iff in A as [A1 A2]. apply N.leb_le in A1. apply N.ltb_lt in A2.
  assert (Hin : In c [48; 49; 50; 51; 52; 53; 54; 55; 56; 57]).
  { cbn [In].
    destruct (N.eq_dec c 48); [auto|]. destruct (N.eq_dec c 49); [auto|]. destruct (N.eq_dec c 50); [auto 10|].
    destruct (N.eq_dec c 51); [auto 10|]. destruct (N.eq_dec c 52); [auto 10|]. destruct (N.eq_dec c 53); [auto 10|].
    destruct (N.eq_dec c 54); [auto 10|]. destruct (N.eq_dec c 55); [auto 10|]. destruct (N.eq_dec c 56); [auto 10|].
    destruct (N.eq_dec c 57); [auto 12|]. lia. }
  pose proof (proj1 (forallb_forall _ _) H c Hin) as Hc. cbv beta in Hc.
  destruct (block_of nd c) as [s|]; [|discriminate]. apply N.eqb_eq in Hc. subst. reflexivity.
Qed.

Lemma ascii_digits_lemma : forall nd d, wf_nd nd = true -> forallb ascii_digit d = true ->
  forallb (is_digit nd) d = true /\ int_of nd d = ascii_value d.
Proof.
  intros nd d H A. split.
  - apply forallb_forall. intros c Hc. pose proof (proj1 (forallb_forall _ _) A c Hc) as Ac.
    unfold is_digit. rewrite (wf_nd_ascii nd c H Ac). reflexivity.
  - unfold int_of, ascii_value. generalize 0. induction d as [|c d IH]; intro acc; [reflexivity|].
    cbn [forallb] in A. apply andb_true_iff in A as [Ac A]. cbn [fold_left].
    rewrite IH by assumption. f_equal. unfold int_step, digit_val. rewrite (wf_nd_ascii nd c H Ac). reflexivity.
Qed.

(* ---- messages produced by SyntaxError.__str__ ---- *)

Lemma no_open_split : forall E F g1 g2 : text,
  g1 ++ sep_open ++ g2 = E ++ sep_open ++ F -> (length E <= length g1)%nat ->
  (forall u v, F <> u ++ sep_open ++ v) -> g1 = E /\ g2 = F.
Proof.
  intros E. induction E as [|e E IH]; intros F g1 g2 H L NF.
  - destruct g1 as [|x g1].
    + cbn in H. injection H as ->. auto.
    + exfalso. cbn in H. injection H as -> H.
      destruct g1 as [|y g1].
      * cbn in H. discriminate.
      * cbn in H. injection H as -> H. apply (NF g1 g2). symmetry. exact H.
  - destruct g1 as [|x g1]; [cbn in L; lia|].
    cbn in H. injection H as -> H. cbn in L.
    destruct (IH F g1 g2 H ltac:(lia) NF) as [-> ->]. auto.
Qed.

Lemma syntax_error_line_lemma : forall nd maxd msg f d,
  wf_nd nd = true -> no_nl msg = true -> no_nl (basename f) = true ->
  d <> [] -> forallb ascii_digit d = true -> int_refuses maxd d = false ->
  exists e' f',
    compile_error_init nd maxd (syntax_error_str msg (Some f) (Some d)) = CEok e' (Some f') (ascii_value d) /\
    e' ++ sep_open ++ f' = msg ++ sep_open ++ basename f /\
    ((forall u v, basename f <> u ++ sep_open ++ v) -> e' = msg /\ f' = basename f).
Proof.
  intros nd maxd msg f d W N1 N2 Dne Da R.
  destruct (ascii_digits_lemma nd d W Da) as [Dd Dv].
  assert (D : decomp nd (syntax_error_str msg (Some f) (Some d)) msg (basename f) d).
  { unfold decomp, syntax_error_str. split; [left; reflexivity|]. auto. }
  destruct (re_match_complete _ _ _ _ _ (wf_nd_sp _ W) D) as (g1 & g2 & E & L & S).
  exists g1, g2. unfold compile_error_init. rewrite E, R, Dv. split; [reflexivity|]. split; [exact S|].
  intro NF. exact (no_open_split _ _ _ _ S L NF).
Qed.

(* a digit text that starts with "-" (a negative lineno) is never matched: the fallback reports line 1 *)
Lemma last_nonempty : forall (d : text), d <> [] -> exists d0 x, d = d0 ++ [x].
Proof. intros d H. destruct (exists_last H) as (d0 & x & ->). eauto. Qed.

Lemma decomp_tail : forall nd msg g1 g2 d, decomp nd msg g1 g2 d ->
  exists p, (msg = p ++ sep_line ++ d ++ [RP] \/ msg = (p ++ sep_line ++ d ++ [RP]) ++ [NL]).
Proof.
  intros nd msg g1 g2 d ([-> | ->] & _).
  - exists (g1 ++ sep_open ++ g2). left. rewrite <- !app_assoc. reflexivity.
  - exists (g1 ++ sep_open ++ g2). right. rewrite <- !app_assoc. reflexivity.
Qed.

(* ---- computing the matcher on a text that ends in ", line " digits ")" ---- *)

Lemma rev_nonempty : forall (d : text), d <> [] -> exists x xs, rev d = x :: xs.
Proof.
  intros d H. destruct (rev d) as [|x xs] eqn:E.
  - exfalso. apply H. rewrite <- (rev_involutive d), E. reflexivity.
  - eauto.
Qed.

Lemma re_match_shape : forall nd X d, is_digit nd SP = false -> d <> [] -> forallb (is_digit nd) d = true ->
  re_match nd (X ++ sep_line ++ d ++ [RP]) =
    if no_nl X then
      match find_sub2 LP SP (rev X) with
      | Some (g2r, g1r) => Some (rev g1r, rev g2r, d)
      | None => None
      end
    else None.
Proof.
  intros nd X d Hsp Dne Dd.
  assert (Eb : strip_final_nl_rev (rev (X ++ sep_line ++ d ++ [RP])) = RP :: rev d ++ sep_line_rev ++ rev X).
  { rewrite !rev_app_distr. cbn [rev app]. rewrite <- !app_assoc. reflexivity. }
  unfold re_match. rewrite Eb. change (RP =? RP) with true. cbv iota.
  rewrite (span_app (is_digit nd) (rev d) (sep_line_rev ++ rev X)).
  2:{ rewrite forallb_rev. exact Dd. }
  2:{ exact Hsp. }
  destruct (rev_nonempty d Dne) as (x & xs & Er). rewrite Er.
  rewrite starts_with_app.
  change (skipn 7 (sep_line_rev ++ rev X)) with (rev X).
  rewrite no_nl_rev. destruct (no_nl X); [|reflexivity].
  destruct (find_sub2 LP SP (rev X)) as [[g2r g1r]|]; [|reflexivity].
  rewrite <- Er, rev_involutive. reflexivity.
Qed.

(* the character in front of the digits is not the space of ", line " *)
Lemma re_match_bad_prefix : forall nd Y c d, is_digit nd c = false -> c <> SP ->
  forallb (is_digit nd) d = true -> re_match nd (Y ++ c :: d ++ [RP]) = None.
Proof.
  intros nd Y c d Hc Hsp Dd.
  assert (Eb : strip_final_nl_rev (rev (Y ++ c :: d ++ [RP])) = RP :: rev d ++ c :: rev Y).
  { rewrite rev_app_distr. cbn [rev]. rewrite rev_app_distr. cbn [rev app]. rewrite <- !app_assoc. reflexivity. }
  unfold re_match. rewrite Eb. change (RP =? RP) with true. cbv iota.
  rewrite (span_app (is_digit nd) (rev d) (c :: rev Y)).
  2:{ rewrite forallb_rev. exact Dd. }
  2:{ exact Hc. }
  destruct (rev d) as [|x xs]; [reflexivity|].
  cbn [starts_with sep_line_rev]. destruct (32 =? c) eqn:E; [|reflexivity].
  apply N.eqb_eq in E. exfalso. apply Hsp. symmetry. exact E.
Qed.

(* SyntaxError.__str__ without a file name: "msg (line N)" *)
Lemma re_match_noname : forall nd msg d, is_digit nd SP = false -> forallb (is_digit nd) d = true ->
  re_match nd (msg ++ sep_noname ++ d ++ [RP]) = None.
Proof.
  intros nd msg d Hsp Dd.
  assert (Eb : strip_final_nl_rev (rev (msg ++ sep_noname ++ d ++ [RP])) =
               RP :: rev d ++ [32; 101; 110; 105; 108; 40; 32] ++ rev msg).
  { rewrite !rev_app_distr. cbn [rev app]. rewrite <- !app_assoc. reflexivity. }
  unfold re_match. rewrite Eb. change (RP =? RP) with true. cbv iota.
  rewrite (span_app (is_digit nd) (rev d) ([32; 101; 110; 105; 108; 40; 32] ++ rev msg)).
  2:{ rewrite forallb_rev. exact Dd. }
  2:{ exact Hsp. }
  destruct (rev d) as [|x xs]; reflexivity.
Qed.

(* ---- the malformed shapes of SyntaxError.__str__ ---- *)

Lemma syntax_error_newline_lemma : forall nd maxd msg f d,
  wf_nd nd = true -> no_nl (msg ++ sep_open ++ basename f) = false ->
  d <> [] -> forallb ascii_digit d = true ->
  compile_error_init nd maxd (syntax_error_str msg (Some f) (Some d)) =
    CEok (syntax_error_str msg (Some f) (Some d)) None 1.
Proof.
  intros nd maxd msg f d W Nn Dne Da.
  destruct (ascii_digits_lemma nd d W Da) as [Dd _].
  unfold compile_error_init.
  assert (E : syntax_error_str msg (Some f) (Some d) = (msg ++ sep_open ++ basename f) ++ sep_line ++ d ++ [RP]).
  { unfold syntax_error_str. rewrite <- !app_assoc. reflexivity. }
  rewrite E at 1. rewrite (re_match_shape nd _ d (wf_nd_sp _ W) Dne Dd), Nn. reflexivity.
Qed.

Lemma syntax_error_negative_lemma : forall nd maxd msg f d,
  wf_nd nd = true -> forallb ascii_digit d = true ->
  compile_error_init nd maxd (syntax_error_str msg (Some f) (Some (45 :: d))) =
    CEok (syntax_error_str msg (Some f) (Some (45 :: d))) None 1.
Proof.
  intros nd maxd msg f d W Da.
  destruct (ascii_digits_lemma nd d W Da) as [Dd _].
  unfold compile_error_init.
  assert (E : syntax_error_str msg (Some f) (Some (45 :: d)) =
              (msg ++ sep_open ++ basename f ++ sep_line) ++ 45 :: d ++ [RP]).
  { unfold syntax_error_str. rewrite <- !app_assoc. reflexivity. }
  rewrite E at 1. rewrite (re_match_bad_prefix nd _ 45 d (wf_nd_minus _ W)); [reflexivity| |exact Dd].
  unfold SP. discriminate.
Qed.

Lemma syntax_error_noname_lemma : forall nd maxd msg d,
  wf_nd nd = true -> forallb ascii_digit d = true ->
  compile_error_init nd maxd (syntax_error_str msg None (Some d)) =
    CEok (syntax_error_str msg None (Some d)) None 1.
Proof.
  intros nd maxd msg d W Da.
  destruct (ascii_digits_lemma nd d W Da) as [Dd _].
  unfold compile_error_init, syntax_error_str.
  rewrite (re_match_noname nd msg d (wf_nd_sp _ W) Dd). reflexivity.
Qed.

(* ---- the native compile step ---- *)

Lemma compile_native_cases_lemma : forall nd maxd,
  compile_native nd maxd CompOk = PBytes /\
  (forall s, existsb is_surrogate s = true -> compile_native nd maxd (CompExc s) = PRaise RUnicodeEncodeError) /\
  (forall s, existsb is_surrogate s = false ->
     compile_native nd maxd (CompExc s) =
       match compile_error_init nd maxd s with
       | CEok e f l => PCompileError e f l
       | CEvalue_error => PRaise RValueError
       end).
Proof.
  intros nd maxd. split; [reflexivity|]. split; intros s H; unfold compile_native, native_output; rewrite H; reflexivity.
Qed.

Lemma from_output_total_lemma : forall nd maxd o,
  match from_output nd maxd o with
  | PBytes => exists p, o = Out 0 p
  | PCompileError e f l => exists s, o = Out 1 (Some s) /\ compile_error_init nd maxd s = CEok e f l
  | PRaise RIndexError => o = OutEmpty
  | PRaise RUnicodeDecodeError => o = Out 1 None
  | PRaise RValueError => exists s, o = Out 1 (Some s) /\ compile_error_init nd maxd s = CEvalue_error
  | PRaise ROSError => exists b p, o = Out b p /\ b <> 0 /\ b <> 1
  | PRaise RUnicodeEncodeError => False
  end.
Proof.
  intros nd maxd o. destruct o as [|b p]; [reflexivity|].
  destruct b as [|q]; [cbn; eauto|].
  destruct q as [q|q|].
  - cbn. exists (N.pos q~1), p. repeat split; discriminate.
  - cbn. exists (N.pos q~0), p. repeat split; discriminate.
  - destruct p as [s|]; [|reflexivity]. cbn.
    destruct (compile_error_init nd maxd s) as [e f l|] eqn:E; eauto.
Qed.
