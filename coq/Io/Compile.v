(* C15 (a): the compile-error path, end to end (definitions only, no proofs).

   pytype/pyc/compile_bytecode.py  compile_src_to_pyc       compile() raised  ->  b"\1" + str(err).encode("utf-8")
   pytype/pyc/compiler.py          compile_src_string_to_pyc_string (native branch): first byte 0 / 1 / other,
                                   CompileError.__init__: _COMPILE_ERROR_RE = "^(.*) \((.*), line (\d+)\)$", int(group 3),
                                   fallback error = msg, filename = None, line = 1
   pytype/io.py                    except pyc.CompileError as e: compiler_error = (options.input, e.line, e.error)
   CPython Objects/exceptions.c    SyntaxError.__str__ (the producer of the well-formed messages; the hypothesis side)

   Text is a list of code points, here N (not nat as in Io/Model.v: code points go up to 0x10FFFF and a unary
   literal of that size is unusable).  Line VALUES are N as well (a line can be 2^31-1).
   The class of characters `\d` matches in a str pattern (Unicode category Nd) is a table of block starts: every Nd
   character lies in a block of ten consecutive code points whose decimal values are 0..9 (checked against
   unicodedata and against re/int on every run; the table is REGENERATED into Generated/C15_Handlers.v). *)
From Coq Require Import List Arith NArith Bool.
Import ListNotations.
Local Open Scope N_scope.

Definition text := list N.
Definition NL : N := 10.

(* ------------------------------------------------------------------------------------------ *)
(* characters *)

Definition SP : N := 32.      (* " " *)
Definition LP : N := 40.      (* "(" *)
Definition RP : N := 41.      (* ")" *)
Definition SLASH : N := 47.   (* "/" *)
Definition sep_open : text := [32; 40].                              (* " ("       *)
Definition sep_line : text := [44; 32; 108; 105; 110; 101; 32].      (* ", line "  *)
Definition sep_line_rev : text := [32; 101; 110; 105; 108; 32; 44].
Definition sep_noname : text := [32; 40; 108; 105; 110; 101; 32].    (* " (line "  *)

Definition no_nl (s : text) : bool := forallb (fun c => negb (c =? NL)) s.

(* `\d` and int(): the Nd block containing c *)
Fixpoint block_of (nd : list N) (c : N) : option N :=
  match nd with
  | [] => None
  | s :: r => if (s <=? c) && (c <? s + 10) then Some s else block_of r c
  end.
Definition is_digit (nd : list N) (c : N) : bool := match block_of nd c with Some _ => true | None => false end.
Definition digit_val (nd : list N) (c : N) : N := match block_of nd c with Some s => c - s | None => 0 end.

(* int(text) for a text made of decimal digits of any script *)
Definition int_step (nd : list N) (acc : N) (c : N) : N := acc * 10 + digit_val nd c.
Definition int_of (nd : list N) (d : text) : N := fold_left (int_step nd) d 0.

(* ------------------------------------------------------------------------------------------ *)
(* re.match(r"^(.*) \((.*), line (\d+)\)$", msg)   (no flags: `.` is anything but "\n"; `$` is the end of the
   text or the position before ONE final "\n"; groups 1 and 2 are greedy, group 1 first).

   Worked from the right end, on the reversed text: an optional final "\n"; ")"; the maximal run of digits; ", line ";
   then the rest P = group1 ++ " (" ++ group2 must be free of "\n" and group 1 is the LONGEST prefix that leaves
   a " (" behind it, i.e. P is cut at its LAST " (" (= the first "( " of the reversed P). *)

Fixpoint span (p : N -> bool) (s : text) : text * text :=
  match s with
  | [] => ([], [])
  | c :: t => if p c then let (a, b) := span p t in (c :: a, b) else ([], s)
  end.

Fixpoint starts_with (pre s : text) : bool :=
  match pre, s with
  | [], _ => true
  | a :: pre', b :: s' => (a =? b) && starts_with pre' s'
  | _ :: _, [] => false
  end.

(* first occurrence of the two characters a b: (text before it, text after it) *)
Fixpoint find_sub2 (a b : N) (s : text) : option (text * text) :=
  match s with
  | [] => None
  | x :: t =>
      if (x =? a) && (match t with y :: _ => y =? b | [] => false end) then Some ([], tl t)
      else match find_sub2 a b t with
           | Some (u, v) => Some (x :: u, v)
           | None => None
           end
  end.

(* `$`: drop one final "\n" (argument and result are REVERSED texts) *)
Definition strip_final_nl_rev (r : text) : text :=
  match r with
  | c :: t => if c =? NL then t else r
  | [] => []
  end.

(* the three groups, or None when the pattern does not match *)
Definition re_match (nd : list N) (msg : text) : option (text * text * text) :=
  match strip_final_nl_rev (rev msg) with
  | [] => None
  | c :: r1 =>
      if c =? RP then
        let (drev, r2) := span (is_digit nd) r1 in
        match drev with
        | [] => None
        | _ :: _ =>
            if starts_with sep_line_rev r2 then
              let prev := skipn 7%nat r2 in
              if no_nl prev then
                match find_sub2 LP SP prev with
                | Some (g2r, g1r) => Some (rev g1r, rev g2r, rev drev)
                | None => None
                end
              else None
            else None
        end
      else None
  end.

(* ------------------------------------------------------------------------------------------ *)
(* compiler.CompileError.__init__ *)

Inductive ce_result :=
| CEok (error : text) (filename : option text) (line : N)
| CEvalue_error.      (* int() refuses more than sys.get_int_max_str_digits() digits: ValueError out of __init__ *)

(* maxd = sys.get_int_max_str_digits(); 0 = no limit.  Leading zeros count. *)
Definition int_refuses (maxd : nat) (d : text) : bool := (0 <? maxd)%nat && (maxd <? length d)%nat.

Definition compile_error_init (nd : list N) (maxd : nat) (msg : text) : ce_result :=
  match re_match nd msg with
  | Some (g1, g2, d) => if int_refuses maxd d then CEvalue_error else CEok g1 (Some g2) (int_of nd d)
  | None => CEok msg None 1
  end.

(* ------------------------------------------------------------------------------------------ *)
(* compile_bytecode.compile_src_to_pyc  +  the tail of compiler.compile_src_string_to_pyc_string *)

Inductive compile_event :=
| CompOk                         (* compile(src, filename, mode) returned a code object *)
| CompExc (s : text).        (* it raised an Exception err; s = str(err) *)

Inductive raised := RValueError | RUnicodeEncodeError | RUnicodeDecodeError | ROSError | RIndexError.

(* what the compile step hands back: the first byte and, for first byte 1, the rest decoded as UTF-8
   (None = the rest is not valid UTF-8; only possible for an external python_exe) *)
Inductive output :=
| OutEmpty
| Out (first : N) (payload : option text).

Definition is_surrogate (c : N) : bool := (55296 <=? c) && (c <=? 57343).

(* compile_src_to_pyc: output.write(b"\1"); output.write(str(err).encode("utf-8")) - the encode is strict *)
Definition native_output (ev : compile_event) : output + raised :=
  match ev with
  | CompOk => inl (Out 0 None)
  | CompExc s => if existsb is_surrogate s then inr RUnicodeEncodeError else inl (Out 1 (Some s))
  end.

Inductive pyc_result :=
| PBytes                                                     (* the pyc data; the analysis goes on *)
| PCompileError (error : text) (filename : option text) (line : N)
| PRaise (r : raised).

(* first_byte = bytecode[0]; 0 -> return; 1 -> raise CompileError(native_str(rest)); else OSError *)
Definition from_output (nd : list N) (maxd : nat) (o : output) : pyc_result :=
  match o with
  | OutEmpty => PRaise RIndexError
  | Out 0 _ => PBytes
  | Out 1 None => PRaise RUnicodeDecodeError
  | Out 1 (Some s) =>
      match compile_error_init nd maxd s with
      | CEok e f l => PCompileError e f l
      | CEvalue_error => PRaise RValueError
      end
  | Out _ _ => PRaise ROSError
  end.

Definition compile_native (nd : list N) (maxd : nat) (ev : compile_event) : pyc_result :=
  match native_output ev with
  | inl o => from_output nd maxd o
  | inr r => PRaise r
  end.

(* ------------------------------------------------------------------------------------------ *)
(* the producer: CPython's SyntaxError.__str__ (Objects/exceptions.c SyntaxError_str, my_basename) *)

(* my_basename: the text after the last "/" *)
Fixpoint basename_aux (s cur : text) : text :=
  match s with
  | [] => cur
  | c :: t => if c =? SLASH then basename_aux t t else basename_aux t cur
  end.
Definition basename (s : text) : text := basename_aux s s.

(* filename: Some f iff err.filename is a str; lineno: Some text iff err.lineno is an int, text = "%ld" of it
   (a "-" in front for a negative one) *)
Definition syntax_error_str (msg : text) (filename : option text) (lineno : option text) : text :=
  match filename, lineno with
  | Some f, Some l => msg ++ sep_open ++ basename f ++ sep_line ++ l ++ [RP]
  | Some f, None => msg ++ sep_open ++ basename f ++ [RP]
  | None, Some l => msg ++ sep_noname ++ l ++ [RP]
  | None, None => msg
  end.

(* ASCII decimal numerals *)
Definition ascii_digit (c : N) : bool := (48 <=? c) && (c <? 58).
Definition ascii_value (d : text) : N := fold_left (fun acc c => acc * 10 + (c - 48)) d 0.

(* the table side conditions used by the theorems; true of the regenerated table (checked by vm_compute) *)
Definition wf_nd (nd : list N) : bool :=
  negb (is_digit nd SP) && negb (is_digit nd 45) &&
  forallb (fun c => match block_of nd c with Some s => s =? 48 | None => false end) [48; 49; 50; 51; 52; 53; 54; 55; 56; 57].

(* compact encodings for the correspondence runs *)
Definition encode_ce (r : ce_result) : text * text * N * N :=
  match r with
  | CEok e (Some f) l => (e, f, l, 1)
  | CEok e None l => (e, [], l, 0)
  | CEvalue_error => ([], [], 0, 2)
  end.

Definition encode_pyc (r : pyc_result) : N * N :=
  match r with
  | PBytes => (0, 0)
  | PCompileError _ _ l => (1, l)
  | PRaise RValueError => (2, 0)
  | PRaise RUnicodeEncodeError => (3, 0)
  | PRaise RUnicodeDecodeError => (4, 0)
  | PRaise ROSError => (5, 0)
  | PRaise RIndexError => (6, 0)
  end.
