(* C15 (1) and (2): lemmas over the regenerated tables (Generated/C15_Handlers.v). *)
From Coq Require Import String.
From Coq Require Import List Arith Bool Lia.
From PV Require Import Io.Model Generated.C15_Handlers.
Import ListNotations.

(* ---- (1) dispatch ---- *)

Lemma all_rows_ok : forallb row_ok op_table = true.
Proof. vm_compute. reflexivity. Qed.

Lemma all_intrinsics_ok : forallb in_handler intrinsic_table = true.
Proof. vm_compute. reflexivity. Qed.

Lemma versions_covered :
  forallb (fun v => existsb (fun r => existsb (Nat.eqb v) (op_versions r)) op_table) supported_minor_versions = true.
Proof. vm_compute. reflexivity. Qed.

Lemma dispatch_total_lemma :
  supported_minor_versions = [8; 9; 10; 11; 12] /\
  (forall v, In v supported_minor_versions -> exists r, In r op_table /\ In v (op_versions r)) /\
  (forall r, In r op_table -> reaches_vm r = true -> op_class r = true /\ op_handler r = true) /\
  (forall i, In i intrinsic_table -> in_handler i = true).
Proof.
  split; [reflexivity|]. split; [|split].
  - intros v Hv.
    pose proof (proj1 (forallb_forall _ _) versions_covered v Hv) as H.
    apply existsb_exists in H. destruct H as (r & Hr & H).
    apply existsb_exists in H. destruct H as (w & Hw & E).
    apply Nat.eqb_eq in E. subst w. exists r. split; assumption.
  - intros r Hr Hreach.
    pose proof (proj1 (forallb_forall _ _) all_rows_ok r Hr) as H.
    unfold row_ok in H. unfold reaches_vm in Hreach.
    destruct (op_absorbed r); [discriminate|].
    cbn in H. apply andb_true_iff in H. exact H.
  - intros i Hi. exact (proj1 (forallb_forall _ _) all_intrinsics_ok i Hi).
Qed.

(* ---- (2) except chain ---- *)

(* the four kinds of exception the property distinguishes, over the generated class universe *)
Definition compile_classes : list nat :=
  [cls_CompileError; cls_ConstantError; cls_IndentationError; cls_TabError; cls_ParserSyntaxError; cls_SyntaxError].
Definition usage_classes : list nat := [cls_UsageError].
Definition other_exception_classes : list nat :=
  [cls_Exception; cls_KeyError; cls_RecursionError; cls_AssertionError; cls_VirtualMachineError;
   cls_ConversionError; cls_MemoryError; cls_UnicodeDecodeError; cls_OSError;
   cls_ValueError; cls_UnicodeEncodeError; cls_IndexError].
Definition non_exception_classes : list nat :=
  [cls_KeyboardInterrupt; cls_SystemExit; cls_GeneratorExit; cls_BaseException].

Lemma universe_partition :
  forallb (fun c => existsb (Nat.eqb c)
     (compile_classes ++ usage_classes ++ [cls_SkipFileError] ++ other_exception_classes ++ non_exception_classes))
    class_universe = true.
Proof. vm_compute. reflexivity. Qed.

Ltac each_class H := cbn [In compile_classes usage_classes other_exception_classes non_exception_classes] in H;
  repeat (destruct H as [H|H]; [subst; reflexivity|]); contradiction.

Lemma outcome_classification_lemma : forall (line : option nat) (nofail check : bool),
  (forall c, In c compile_classes ->
     outcome (Raised c line) nofail check = ODefault [line_or_0 line] InfoNone) /\
  outcome (Raised cls_SkipFileError line) nofail check = ODefault [] InfoSkip /\
  (forall c, In c usage_classes -> outcome (Raised c line) nofail check = OEscape false) /\
  (forall c, In c other_exception_classes ->
     outcome (Raised c line) nofail check =
       if nofail then ODefault [] (if check then InfoNone else InfoCaught) else OEscape true) /\
  (forall c, In c non_exception_classes -> outcome (Raised c line) nofail check = OEscape false) /\
  outcome Returned nofail check = OResult.
Proof.
  intros line nofail check.
  split; [intros c H; each_class H|].
  split; [reflexivity|].
  split; [intros c H; each_class H|].
  split; [intros c H; each_class H|].
  split; [intros c H; each_class H|].
  reflexivity.
Qed.

Lemma mem_In : forall c l, existsb (Nat.eqb c) l = true <-> In c l.
Proof.
  intros c l. rewrite existsb_exists. split.
  - intros (x & Hx & E). apply Nat.eqb_eq in E. subst. exact Hx.
  - intro H. exists c. split; [exact H|apply Nat.eqb_refl].
Qed.

Lemma escapes_line_indep : forall m ch c l1 l2 nf ck,
  escapes (outcome_of m ch (Raised c l1) nf ck) = escapes (outcome_of m ch (Raised c l2) nf ck).
Proof.
  intros. unfold outcome_of. destruct (find_clause m c ch) as [[]|]; try reflexivity.
Qed.

Definition escape_expected (c : nat) (nofail : bool) : bool :=
  existsb (Nat.eqb c) usage_classes || existsb (Nat.eqb c) non_exception_classes
  || (existsb (Nat.eqb c) other_exception_classes && negb nofail).

Lemma escape_table :
  forallb (fun c => forallb (fun nf => forallb (fun ck =>
     Bool.eqb (escapes (outcome (Raised c None) nf ck)) (escape_expected c nf)) [true; false]) [true; false])
    class_universe = true.
Proof. vm_compute. reflexivity. Qed.

Lemma escape_iff_lemma : forall c line nofail check,
  In c class_universe ->
  (escapes (outcome (Raised c line) nofail check) = true <->
   In c usage_classes \/ In c non_exception_classes \/ (In c other_exception_classes /\ nofail = false)).
Proof.
  intros c line nofail check Hc.
  unfold outcome. rewrite (escapes_line_indep _ _ c line None).
  pose proof (proj1 (forallb_forall _ _) escape_table c Hc) as H1.
  assert (Hnf : In nofail [true; false]) by (destruct nofail; cbn; tauto).
  assert (Hck : In check [true; false]) by (destruct check; cbn; tauto).
  pose proof (proj1 (forallb_forall _ _) H1 nofail Hnf) as H2.
  pose proof (proj1 (forallb_forall _ _) H2 check Hck) as H3.
  apply Bool.eqb_prop in H3. unfold outcome in H3. rewrite H3.
  unfold escape_expected.
  rewrite !orb_true_iff, andb_true_iff, !mem_In, negb_true_iff. tauto.
Qed.

Lemma compile_error_unique_lemma : forall c line nofail check errs i,
  In c compile_classes ->
  outcome (Raised c line) nofail check = ODefault errs i -> errs = [line_or_0 line] /\ i = InfoNone.
Proof.
  intros c line nofail check errs i Hc H.
  destruct (outcome_classification_lemma line nofail check) as (C & _).
  rewrite (C c Hc) in H. injection H as <- <-. split; reflexivity.
Qed.
