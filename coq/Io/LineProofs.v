(* C15 (3): proofs about errors.Error._find_all_line_split / _visualize_failed_lines (model in Io/Model.v). *)
From Coq Require Import String.
From Coq Require Import List Arith NArith ZArith Bool Lia ZifyNat ZifyBool.
From PV Require Import Io.Model.
Import ListNotations.

Lemma skipn_skipn' : forall {A} (x y : nat) (l : list A), skipn x (skipn y l) = skipn (x + y) l.
Proof.
  intros A x y. revert x. induction y; intros x l.
  - rewrite Nat.add_0_r. reflexivity.
  - destruct l; [rewrite !skipn_nil; reflexivity|].
    replace (x + S y) with (S (x + y)) by lia. cbn [skipn]. apply IHy.
Qed.

Lemma lines_nonempty : forall s, lines s <> [].
Proof.
  induction s as [|c t IH]; cbn [lines]; [discriminate|].
  destruct (c =? NL); [discriminate|].
  destruct (lines t); discriminate.
Qed.

Lemma nlines_pos : forall s, 1 <= nlines s.
Proof.
  intro s. unfold nlines. pose proof (lines_nonempty s). destruct (lines s); [congruence|cbn; lia].
Qed.

(* The first line and the first newline determine each other. *)
Lemma find0_lines : forall s,
  match lines s with
  | [] => False
  | [l] => find0 s = None /\ l = s
  | l :: r => find0 s = Some (length l) /\ lines (skipn (S (length l)) s) = r /\
              firstn (length l) s = l /\ length l < length s
  end.
Proof.
  induction s as [|c t IH]; cbn [lines find0].
  - split; reflexivity.
  - destruct (c =? NL) eqn:E.
    + pose proof (lines_nonempty t) as Hne.
      destruct (lines t) as [|l' r'] eqn:El; [congruence|].
      cbn [length skipn firstn]. repeat split; try reflexivity; try assumption. lia.
    + destruct (lines t) as [|l r] eqn:El; [contradiction|].
      destruct r as [|l2 r2].
      * destruct IH as [H1 H2]. rewrite H1. cbn. subst l. split; reflexivity.
      * destruct IH as (H1 & H2 & H3 & H4). rewrite H1.
        cbn [option_map length skipn firstn]. repeat split; try assumption.
        -- rewrite H3. reflexivity.
        -- lia.
Qed.

(* one step of either loop, started at the beginning of a line that is not the last *)
Lemma next_idx_step : forall s i l r,
  i <= length s -> lines (skipn i s) = l :: r -> r <> [] ->
  next_idx s i = i + S (length l) /\ lines (skipn (i + S (length l)) s) = r /\
  i + S (length l) <= length s /\ firstn (length l) (skipn i s) = l.
Proof.
  intros s i l r Hi Hl Hr.
  pose proof (find0_lines (skipn i s)) as F. rewrite Hl in F.
  destruct r as [|l2 r2]; [congruence|].
  destruct F as (F1 & F2 & F3 & F4).
  unfold next_idx, py_find. rewrite F1.
  rewrite skipn_skipn' in F2. rewrite skipn_length in F4.
  repeat split.
  - lia.
  - replace (i + S (length l)) with (S (length l) + i) by lia. exact F2.
  - lia.
  - exact F3.
Qed.

(* on the last line nothing is found: the index wraps to 0 *)
Lemma next_idx_last : forall s i l,
  lines (skipn i s) = [l] -> next_idx s i = 0 /\ py_find s i = (-1)%Z /\ l = skipn i s.
Proof.
  intros s i l Hl.
  pose proof (find0_lines (skipn i s)) as F. rewrite Hl in F. destruct F as [F1 F2].
  unfold next_idx, py_find. rewrite F1. repeat split; auto.
Qed.

Lemma starts_from_S : forall ls k l r,
  skipn k ls = l :: r -> starts_from ls (S k) = starts_from ls k + S (length l).
Proof.
  induction ls as [|x xs IH]; intros k l r H.
  - destruct k; discriminate.
  - destruct k.
    + cbn in H. injection H as -> ->. cbn. lia.
    + cbn [skipn] in H. specialize (IH _ _ _ H).
      change (starts_from (x :: xs) (S (S k))) with (S (length x) + starts_from xs (S k)).
      change (starts_from (x :: xs) (S k)) with (S (length x) + starts_from xs k).
      lia.
Qed.

Lemma skipn_S_tail : forall {A} k (ls : list A) l r, skipn k ls = l :: r -> skipn (S k) ls = r.
Proof.
  intros A k. induction k; intros ls l r H.
  - cbn in H. subst. reflexivity.
  - destruct ls; [discriminate|]. cbn [skipn] in *. eapply IHk; eauto.
Qed.

Lemma skipn_nth_cons : forall {A} k (ls : list A) d, k < length ls -> skipn k ls = nth k ls d :: skipn (S k) ls.
Proof.
  intros A k. induction k; intros ls d H; destruct ls; cbn in *; try lia; auto.
  apply IHk. lia.
Qed.

(* state of the loops after k steps from (i, j): index at the start of line j + k *)
Definition at_line (s : list nat) (k idx : nat) : Prop :=
  idx = line_start s k /\ idx <= length s /\ lines (skipn idx s) = skipn k (lines s).

Lemma at_line_0 : forall s, at_line s 0 0.
Proof. intro s. unfold at_line, line_start. cbn. repeat split; lia. Qed.

Lemma at_line_step : forall s k idx,
  S k < nlines s -> at_line s k idx -> at_line s (S k) (next_idx s idx).
Proof.
  intros s k idx Hk (H1 & H2 & H3). unfold nlines in Hk.
  rewrite (skipn_nth_cons k (lines s) []) in H3 by lia.
  assert (Hr : skipn (S k) (lines s) <> []).
  { rewrite (skipn_nth_cons (S k) (lines s) []) by lia. discriminate. }
  destruct (next_idx_step s idx _ _ H2 H3 Hr) as (N1 & N2 & N3 & _).
  unfold at_line. rewrite N1. repeat split; auto.
  unfold line_start in *.
  rewrite (starts_from_S (lines s) k (nth k (lines s) []) (skipn (S k) (lines s))).
  - lia.
  - apply skipn_nth_cons. lia.
Qed.

Lemma skip_lines_spec : forall s n k idx,
  k + n < nlines s -> at_line s k idx -> at_line s (k + n) (skip_lines s n idx).
Proof.
  intros s n. induction n; intros k idx Hk H; cbn [skip_lines].
  - rewrite Nat.add_0_r. exact H.
  - replace (k + S n) with (S k + n) by lia. apply IHn; [lia|].
    apply at_line_step; [lia|exact H].
Qed.

Lemma collect_lines_spec : forall s n k idx,
  k + n < nlines s -> at_line s k idx ->
  fst (collect_lines s n idx) = map (line_start s) (seq (S k) n) /\
  at_line s (k + n) (snd (collect_lines s n idx)).
Proof.
  intros s n. induction n; intros k idx Hk H; cbn [collect_lines].
  - rewrite Nat.add_0_r. split; [reflexivity|exact H].
  - assert (H' : at_line s (S k) (next_idx s idx)) by (apply at_line_step; [lia|exact H]).
    specialize (IHn (S k) (next_idx s idx) ltac:(lia) H').
    destruct (collect_lines s n (next_idx s idx)) as [l last] eqn:E. cbn [fst snd] in *.
    destruct IHn as [I1 I2]. split.
    + cbn [seq map]. rewrite I1. destruct H' as [H'1 _]. rewrite H'1. reflexivity.
    + replace (k + S n) with (S k + n) by lia. exact I2.
Qed.

(* the closing step: end of the line whose start is idx *)
Lemma last_idx_spec : forall s k idx,
  k < nlines s -> at_line s k idx ->
  (if (py_find s idx =? -1)%Z then length s else Z.to_nat (py_find s idx)) = idx + length (line_text s k) /\
  slice s idx (idx + length (line_text s k)) = line_text s k.
Proof.
  intros s k idx Hk (H1 & H2 & H3). unfold nlines in Hk. unfold line_text.
  rewrite (skipn_nth_cons k (lines s) []) in H3 by lia.
  set (l := nth k (lines s) []) in *.
  destruct (skipn (S k) (lines s)) as [|l2 r2] eqn:Er.
  - destruct (next_idx_last s idx l H3) as (_ & P & L).
    rewrite P. change ((-1 =? -1)%Z) with true. cbv iota. split.
    + rewrite L, skipn_length. lia.
    + unfold slice. replace (idx + length l - idx) with (length l) by lia.
      rewrite L at 2. rewrite L, skipn_length.
      apply firstn_all2. rewrite skipn_length. lia.
  - assert (Hr : l2 :: r2 <> []) by discriminate.
    destruct (next_idx_step s idx l (l2 :: r2) H2 H3 Hr) as (N1 & _ & N3 & N4).
    pose proof (find0_lines (skipn idx s)) as F. rewrite H3 in F. destruct F as (F1 & _).
    unfold py_find. rewrite F1.
    destruct (Z.of_nat (idx + length l) =? -1)%Z eqn:E; [lia|].
    split; [lia|].
    unfold slice. replace (idx + length l - idx) with (length l) by lia. exact N4.
Qed.

(* ---- main statements ---- *)

Lemma line_split_exact_lemma : forall s b e,
  b <= e -> e < nlines s ->
  find_all_line_split s b e =
    map (line_start s) (seq b (S (e - b))) ++ [line_start s e + length (line_text s e)].
Proof.
  intros s b e Hbe He. unfold find_all_line_split.
  pose proof (skip_lines_spec s b 0 0 ltac:(lia) (at_line_0 s)) as A0. cbn [Nat.add] in A0.
  pose proof (collect_lines_spec s (e - b) b _ ltac:(lia) A0) as [C1 C2].
  destruct (collect_lines s (e - b) (skip_lines s b 0)) as [mid i1] eqn:E. cbn [fst snd] in *.
  replace (b + (e - b)) with e in C2 by lia.
  destruct (last_idx_spec s e i1 He C2) as [L1 _].
  cbv zeta. rewrite L1. destruct C2 as [C2 _]. destruct A0 as [A0 _].
  cbn [seq map]. rewrite C1, A0, C2. reflexivity.
Qed.

Lemma line_boundaries_exact_lemma : forall s k,
  k < nlines s ->
  find_line_boundaries s k = [line_start s k; line_start s k + length (line_text s k)] /\
  slice s (line_start s k) (line_start s k + length (line_text s k)) = line_text s k.
Proof.
  intros s k Hk. split.
  - unfold find_line_boundaries. rewrite line_split_exact_lemma by lia.
    rewrite Nat.sub_diag. reflexivity.
  - pose proof (skip_lines_spec s k 0 0 ltac:(lia) (at_line_0 s)) as A0. cbn [Nat.add] in A0.
    destruct (last_idx_spec s k _ Hk A0) as [_ L2]. destruct A0 as [A0 _].
    rewrite A0 in L2. exact L2.
Qed.

(* consecutive boundaries of a multi-line excerpt delimit a line together with its newline *)
Lemma line_with_newline_lemma : forall s k,
  S k < nlines s ->
  line_start s (S k) = line_start s k + S (length (line_text s k)) /\
  slice s (line_start s k) (line_start s (S k)) = line_text s k ++ [NL].
Proof.
  intros s k Hk.
  pose proof (skip_lines_spec s k 0 0 ltac:(lia) (at_line_0 s)) as A0. cbn [Nat.add] in A0.
  destruct A0 as (A1 & A2 & A3). unfold nlines in Hk.
  rewrite (skipn_nth_cons k (lines s) []) in A3 by lia.
  assert (Hr : skipn (S k) (lines s) <> []).
  { rewrite (skipn_nth_cons (S k) (lines s) []) by lia. discriminate. }
  destruct (next_idx_step s _ _ _ A2 A3 Hr) as (N1 & N2 & N3 & N4).
  fold (line_text s k) in *. rewrite <- A1 in *.
  assert (St : line_start s (S k) = skip_lines s k 0 + S (length (line_text s k))).
  { unfold line_start in *. rewrite (starts_from_S (lines s) k (line_text s k) (skipn (S k) (lines s))).
    - lia.
    - apply skipn_nth_cons. lia. }
  split; [lia|].
  rewrite St. unfold slice.
  replace (skip_lines s k 0 + S (length (line_text s k)) - skip_lines s k 0) with (S (length (line_text s k))) by lia.
  (* the character after the line is the newline found by find0 *)
  pose proof (find0_lines (skipn (skip_lines s k 0) s)) as F. rewrite A3 in F.
  destruct (skipn (S k) (lines s)) as [|l2 r2]; [congruence|].
  destruct F as (F1 & _ & F3 & F4).
  fold (line_text s k) in *.
  remember (skipn (skip_lines s k 0) s) as u.
  remember (line_text s k) as l.
  clear - F1 F3 F4.
  revert l F1 F3 F4. induction u as [|c t IH]; intros l F1 F3 F4.
  - cbn in F4. lia.
  - cbn [find0] in F1. destruct (c =? NL) eqn:E.
    + injection F1 as F1. destruct l; [|discriminate]. cbn.
      apply Nat.eqb_eq in E. subst c. reflexivity.
    + destruct (find0 t) as [j|] eqn:Ej; [|discriminate]. cbn in F1. injection F1 as F1.
      destruct l as [|x l']; [discriminate|]. cbn [length] in *.
      cbn [firstn] in F3. injection F3 as -> F3.
      change (firstn (S (S (length l'))) (x :: t)) with (x :: firstn (S (length l')) t).
      rewrite (IH l'); [reflexivity| | |].
      * f_equal. lia.
      * exact F3.
      * cbn [length] in F4. lia.
Qed.

(* the rendered excerpt of a one-line error starts with exactly the blamed line *)
Lemma visualize_single_exact_lemma : forall src line col endcol,
  1 <= line -> line <= nlines src -> src <> [] ->
  exists rest, visualize src true line 0 col endcol = SText (line_text src (line - 1)) :: SText [NL] :: rest.
Proof.
  intros src line col endcol H1 H2 Hs. unfold visualize.
  assert (E0 : (line =? 0) = false) by (apply Nat.eqb_neq; lia).
  assert (E1 : (length src =? 0) = false) by (apply Nat.eqb_neq; destruct src; [congruence|cbn; lia]).
  rewrite E0, E1. cbn [negb orb Nat.eqb].
  destruct (line_boundaries_exact_lemma src (line - 1) ltac:(lia)) as [B1 B2].
  rewrite B1. cbn [length Nat.eqb nth Nat.sub]. rewrite B2.
  eexists. reflexivity.
Qed.
