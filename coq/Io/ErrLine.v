(* C15 (b): which line a logged error carries (definitions only, no proofs).

   pytype/errors/errors.py   _dedup_opcodes, Error.with_stack (line = the current opcode's line of the last frame that
                             survives the dedup, no such frame -> the constructor default 0), Error.__init__
                             (self._line = line or 0), ErrorLog.error (if line: err.set_line(line)), ErrorLog._add
                             (the director's filter may move the line and decides whether the error is kept)
   pytype/directors/directors.py  Director.filter_error: the implicit-return adjustment (reported_line) and the
                             suppression; REUSED from the C03 model (Directors/Model.v), not modelled again.
   Lines are Z. *)
From Coq Require Import List ZArith Bool.
From PV Require Import Directors.Model.
Import ListNotations.
Local Open Scope Z_scope.

(* a frame on the VM's stack, as far as error positions are concerned *)
Record frame := mkF {
  f_skip : bool;            (* frame.skip_in_tracebacks (the SimpleFrame tracer_vm pushes around an analysed function) *)
  f_op : option Z           (* frame.current_opcode: None, or Some (its .line) *)
}.

(* for frame in stack: if frame.current_opcode: if deduped and same line as deduped[-1]: continue; deduped.append *)
Fixpoint dedup_go (stack : list frame) (acc : list frame) (lastl : option Z) : list frame :=
  match stack with
  | [] => acc
  | fr :: rest =>
      match f_op fr with
      | None => dedup_go rest acc lastl
      | Some l =>
          match lastl with
          | Some l' => if l =? l' then dedup_go rest acc lastl else dedup_go rest (acc ++ [fr]) (Some l)
          | None => dedup_go rest (acc ++ [fr]) (Some l)
          end
      end
  end.

(* _dedup_opcodes: `if len(stack) > 1: stack = [x for x in stack if not x.skip_in_tracebacks]` first *)
Definition dedup_opcodes (stack : list frame) : list frame :=
  let st := if (1 <? length stack)%nat then filter (fun fr => negb (f_skip fr)) stack else stack in
  dedup_go st [] None.

(* Error.with_stack(...)._line:
   stack = _dedup_opcodes(stack) if stack else None; opcode = stack[-1].current_opcode if stack else None;
   opcode is None -> Error(...) with the default line=0; else line=opcode.line; __init__: self._line = line or 0 *)
Definition with_stack_line (stack : list frame) : Z :=
  match stack with
  | [] => 0
  | _ => match last (map Some (dedup_opcodes stack)) None with
         | Some fr => match f_op fr with Some l => l | None => 0 end
         | None => 0
         end
  end.

(* ErrorLog.error(stack, ..., line=None): err = Error.with_stack(..); if line: err.set_line(line) *)
Definition error_line (stack : list frame) (override : option Z) : Z :=
  match override with
  | Some l => if l =? 0 then with_stack_line stack else l
  | None => with_stack_line stack
  end.

(* ErrorLog._add with the director's filter installed: Some line = the error is appended with that line,
   None = suppressed (or the filter raised: res) *)
Definition logged (st : dstate) (return_lines : list Z) (stack : list frame) (override : option Z)
    (name : N) (ret_op : bool) : res (option Z) :=
  bind (filter_error st return_lines (mkErr true (Some (error_line stack override)) name ret_op))
       (fun r => match r with
                 | (true, Some l) => Ok (Some l)
                 | (true, None) => Ok (Some 0)
                 | (false, _) => Ok None
                 end).

(* the monitored hypotheses *)
Definition ops_in_file (n : Z) (stack : list frame) : Prop :=
  forall fr l, In fr stack -> f_op fr = Some l -> 1 <= l <= n.
Definition ranges_in_file (n : Z) (st : dstate) : Prop :=
  forall k v, In (k, v) (br_s2e (d_fr st)) -> 1 <= v <= n.
