(* C15 (a): the compile step composed with the except chain of io.check_or_generate_pyi, over the regenerated
   tables (Generated/C15_Handlers.v: nd_block_starts, int_max_str_digits, the class universe and the chain). *)
From Coq Require Import String.
From Coq Require Import List Arith NArith Bool Lia.
From PV Require Import Io.Model Io.Compile Io.CompileProofs Generated.C15_Handlers Io.Proofs.
Import ListNotations.

Lemma nd_table_wf : wf_nd nd_block_starts = true.
Proof. vm_compute. reflexivity. Qed.

(* the class of each exception the compile step can raise *)
Definition raised_class (r : raised) : nat :=
  match r with
  | RValueError => cls_ValueError
  | RUnicodeEncodeError => cls_UnicodeEncodeError
  | RUnicodeDecodeError => cls_UnicodeDecodeError
  | ROSError => cls_OSError
  | RIndexError => cls_IndexError
  end.

(* what io.check_or_generate_pyi makes of the compile step's result; None = no exception, the analysis goes on.
   `except pyc.CompileError as e: compiler_error = (options.input, e.line, e.error)` *)
Definition io_after_compile (r : pyc_result) (nofail check : bool) : option Model.outcome :=
  match r with
  | PBytes => None
  | PCompileError _ _ l => Some (outcome (Raised cls_CompileError (Some (N.to_nat l))) nofail check)
  | PRaise x => Some (outcome (Raised (raised_class x) None) nofail check)
  end.

Lemma raised_other : forall r, In (raised_class r) other_exception_classes.
Proof. intro r. destruct r; unfold other_exception_classes, raised_class; cbn [In]; auto 20. Qed.

Lemma compile_error_in_compile_classes : In cls_CompileError compile_classes.
Proof. unfold compile_classes. cbn [In]. auto. Qed.

(* whatever the message: a CompileError is reported as exactly one python-compiler-error, at CompileError.line *)
Lemma compile_error_one_error_lemma : forall e f l nofail check,
  io_after_compile (PCompileError e f l) nofail check = Some (ODefault [N.to_nat l] InfoNone).
Proof.
  intros e f l nofail check. cbn [io_after_compile].
  destruct (outcome_classification_lemma (Some (N.to_nat l)) nofail check) as (C & _).
  rewrite (C _ compile_error_in_compile_classes). reflexivity.
Qed.

(* anything else the compile step raises is an ordinary Exception for the chain *)
Lemma compile_step_raise_outcome_lemma : forall r nofail check,
  io_after_compile (PRaise r) nofail check =
    Some (if nofail then ODefault [] (if check then InfoNone else InfoCaught) else OEscape true).
Proof.
  intros r nofail check. cbn [io_after_compile].
  destruct (outcome_classification_lemma None nofail check) as (_ & _ & _ & C & _).
  rewrite (C _ (raised_other r)). reflexivity.
Qed.

(* end to end: a SyntaxError of the code generator with a file name and a non-negative line *)
Lemma compile_stage_error_end_to_end_lemma : forall msg f d nofail check,
  Compile.no_nl msg = true -> Compile.no_nl (basename f) = true ->
  existsb is_surrogate (syntax_error_str msg (Some f) (Some d)) = false ->
  d <> [] -> forallb ascii_digit d = true -> int_refuses int_max_str_digits d = false ->
  io_after_compile
    (compile_native nd_block_starts int_max_str_digits (CompExc (syntax_error_str msg (Some f) (Some d))))
    nofail check
  = Some (ODefault [N.to_nat (ascii_value d)] InfoNone).
Proof.
  intros msg f d nofail check N1 N2 Hs Dne Da R.
  destruct (compile_native_cases_lemma nd_block_starts int_max_str_digits) as (_ & _ & C).
  rewrite (C _ Hs).
  destruct (syntax_error_line_lemma nd_block_starts int_max_str_digits msg f d nd_table_wf N1 N2 Dne Da R)
    as (e' & f' & E & _).
  unfold text in *. rewrite E. apply compile_error_one_error_lemma.
Qed.

(* the same with a newline in the message or the file name: still exactly one error, but at line 1 *)
Lemma compile_stage_error_newline_lemma : forall msg f d nofail check,
  Compile.no_nl (msg ++ sep_open ++ basename f) = false ->
  existsb is_surrogate (syntax_error_str msg (Some f) (Some d)) = false ->
  d <> [] -> forallb ascii_digit d = true ->
  io_after_compile
    (compile_native nd_block_starts int_max_str_digits (CompExc (syntax_error_str msg (Some f) (Some d))))
    nofail check
  = Some (ODefault [1] InfoNone).
Proof.
  intros msg f d nofail check Nn Hs Dne Da.
  destruct (compile_native_cases_lemma nd_block_starts int_max_str_digits) as (_ & _ & C).
  rewrite (C _ Hs).
  pose proof (syntax_error_newline_lemma nd_block_starts int_max_str_digits msg f d nd_table_wf Nn Dne Da) as E.
  unfold text in *. rewrite E.
  apply compile_error_one_error_lemma.
Qed.

(* a lone surrogate anywhere in str(err) (a file name that is not valid UTF-8 on disk): the exception escapes *)
Lemma compile_stage_error_surrogate_lemma : forall s check,
  existsb is_surrogate s = true ->
  io_after_compile (compile_native nd_block_starts int_max_str_digits (CompExc s)) false check = Some (OEscape true).
Proof.
  intros s check Hs.
  destruct (compile_native_cases_lemma nd_block_starts int_max_str_digits) as (_ & C & _).
  rewrite (C _ Hs). apply compile_step_raise_outcome_lemma.
Qed.
