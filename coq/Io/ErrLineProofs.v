(* C15 (b): every logged error carries a line inside the file, from the monitored hypotheses. *)
From Coq Require Import List ZArith Bool Lia.
From PV Require Import Generated.C03_ErrorClasses Directors.Model Io.ErrLine.
Import ListNotations.
Local Open Scope Z_scope.

Lemma dedup_go_subset : forall stack acc lastl fr,
  In fr (dedup_go stack acc lastl) -> In fr acc \/ (In fr stack /\ exists l, f_op fr = Some l).
Proof.
  intros stack. induction stack as [|x rest IH]; intros acc lastl fr H; cbn in H.
  - left. exact H.
  - destruct (f_op x) as [l|] eqn:E.
    + assert (Hadd : In fr (dedup_go rest (acc ++ [x]) (Some l)) ->
                     In fr acc \/ In fr (x :: rest) /\ (exists l0, f_op fr = Some l0)).
      { intro H'. destruct (IH _ _ _ H') as [Ha | [Hr Hl]].
        - apply in_app_or in Ha. destruct Ha as [Ha | [<- | []]]; [left; exact Ha|].
          right. split; [left; reflexivity|eauto].
        - right. split; [right; exact Hr|exact Hl]. }
      destruct lastl as [l'|].
      * destruct (l =? l').
        -- destruct (IH _ _ _ H) as [Ha | [Hr Hl]]; [left; exact Ha|]. right. split; [right; exact Hr|exact Hl].
        -- exact (Hadd H).
      * exact (Hadd H).
    + destruct (IH _ _ _ H) as [Ha | [Hr Hl]]; [left; exact Ha|]. right. split; [right; exact Hr|exact Hl].
Qed.

Lemma dedup_subset : forall stack fr, In fr (dedup_opcodes stack) -> In fr stack /\ exists l, f_op fr = Some l.
Proof.
  intros stack fr H. unfold dedup_opcodes in H.
  apply dedup_go_subset in H. destruct H as [[] | [H Hl]]. split; [|exact Hl].
  destruct (1 <? length stack)%nat; [|exact H]. apply filter_In in H. exact (proj1 H).
Qed.

Lemma last_map_some : forall (l : list frame) fr, last (map Some l) None = Some fr -> In fr l.
Proof.
  intros l. induction l as [|x l IH]; intros fr H; cbn in H; [discriminate|].
  destruct l as [|y l'].
  - cbn in H. injection H as <-. left. reflexivity.
  - right. apply IH. exact H.
Qed.

Lemma last_map_none : forall (l : list frame), last (map Some l) None = None -> l = [].
Proof.
  intros l. induction l as [|x l IH]; intro H; [reflexivity|]. cbn in H.
  destruct l as [|y l']; [discriminate|]. specialize (IH H). discriminate.
Qed.

(* the line comes from an opcode of the stack, or it is 0 exactly when no frame survives the dedup *)
Lemma with_stack_line_cases : forall stack,
  (dedup_opcodes stack = [] /\ with_stack_line stack = 0) \/
  (exists fr, In fr stack /\ f_op fr = Some (with_stack_line stack)).
Proof.
  intros stack. unfold with_stack_line. destruct stack as [|x rest]; [left; split; reflexivity|].
  destruct (last (map Some (dedup_opcodes (x :: rest))) None) as [fr|] eqn:E.
  - apply last_map_some in E. apply dedup_subset in E. destruct E as [Hin [l Hl]].
    right. exists fr. rewrite Hl. split; [exact Hin|reflexivity].
  - left. split; [|reflexivity]. apply last_map_none. exact E.
Qed.

Lemma with_stack_line_in_file_lemma : forall n stack,
  ops_in_file n stack -> dedup_opcodes stack <> [] -> 1 <= with_stack_line stack <= n.
Proof.
  intros n stack Hops Hne. destruct (with_stack_line_cases stack) as [[E _] | (fr & Hin & Hl)].
  - contradiction.
  - exact (Hops fr _ Hin Hl).
Qed.

Lemma dict_get_in : forall (k : Z) (d : list (Z * Z)) v, dict_get k d = Some v -> In (k, v) d.
Proof.
  intros k d. induction d as [|[k' v'] d IH]; intros v H; cbn in H; [discriminate|].
  destruct (k =? k') eqn:E.
  - injection H as <-. apply Z.eqb_eq in E. subst. left. reflexivity.
  - right. apply IH. exact H.
Qed.

Lemma find_outermost_end : forall br line s en, find_outermost br line = Ok (Some (s, en)) -> In (s, en) (br_s2e br).
Proof.
  intros br line s en H. unfold find_outermost in H.
  destruct (br_starts br) as [|s0 rest] eqn:Es; [discriminate|].
  destruct (negb (bisect_left (s0 :: rest) line =? 0)%nat || (line =? s0)); [|discriminate].
  unfold bind in H.
  match type of H with
  | match ?X with Ok _ => _ | Raise _ => _ end = _ => destruct X as [start|x]; [|discriminate]
  end.
  destruct (dict_get start (br_s2e br)) as [en'|] eqn:Eg; [|discriminate].
  destruct ((start <=? line) && (line <? en')); [|discriminate].
  injection H as <- <-. apply dict_get_in. exact Eg.
Qed.

Lemma reported_line_in_file : forall n st rl e line l',
  ranges_in_file n st -> 1 <= line <= n -> reported_line st rl e line = Ok l' -> 1 <= l' <= n.
Proof.
  intros n st rl e line l' Hr Hl H. unfold reported_line in H.
  destruct ((e_name e =? implicit_return_error)%N && e_ret_op e && negb (mem_z line rl)).
  - unfold bind in H. destruct (find_outermost (d_fr st) line) as [[[s en]|]|x] eqn:Ef; try discriminate.
    + apply find_outermost_end in Ef. specialize (Hr _ _ Ef).
      destruct (en =? 0); injection H as <-; lia.
    + injection H as <-. exact Hl.
  - injection H as <-. exact Hl.
Qed.

(* the property clause, from the monitored hypotheses *)
Lemma logged_line_in_file_lemma : forall n st rl stack override name ret_op l',
  ops_in_file n stack -> ranges_in_file n st ->
  (forall l, override = Some l -> l = 0 \/ 1 <= l <= n) ->
  (dedup_opcodes stack <> [] \/ exists l, override = Some l /\ l <> 0) ->
  logged st rl stack override name ret_op = Ok (Some l') -> 1 <= l' <= n.
Proof.
  intros n st rl stack override name ret_op l' Hops Hr Hov Hne H.
  assert (Hline : 1 <= error_line stack override <= n).
  { unfold error_line. destruct override as [l|].
    - destruct (Hov l eq_refl) as [-> | Hl].
      + cbn. destruct Hne as [Hne | (l & E & Hl)]; [exact (with_stack_line_in_file_lemma n stack Hops Hne)|].
        injection E as <-. contradiction.
      + destruct (l =? 0) eqn:E; [apply Z.eqb_eq in E; lia|exact Hl].
    - destruct Hne as [Hne | (l & E & _)]; [|discriminate].
      exact (with_stack_line_in_file_lemma n stack Hops Hne). }
  unfold logged, filter_error in H. cbn [e_line e_same_file negb] in H. unfold bind in H.
  destruct (reported_line st rl _ (error_line stack override)) as [l1|x] eqn:Er; [|discriminate].
  pose proof (reported_line_in_file n st rl _ _ _ Hr Hline Er) as Hl1.
  match type of H with
  | (if ?B then _ else _) = _ => destruct B
  end; [|discriminate].
  injection H as <-. exact Hl1.
Qed.

(* without an opcode on the stack and without an override the logged line is 0: not a line of the file *)
Lemma no_opcode_line_zero_lemma : forall stack, dedup_opcodes stack = [] -> error_line stack None = 0.
Proof.
  intros stack H. unfold error_line. destruct (with_stack_line_cases stack) as [[_ E] | (fr & Hin & Hl)]; [exact E|].
  unfold with_stack_line in *. destruct stack; [reflexivity|]. rewrite H. reflexivity.
Qed.
