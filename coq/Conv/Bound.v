(* C06 — bounded and constrained TypeVars in the class table (model only; no proofs in this file).

   Conv/Model.v takes the class table to be the template LENGTH of every class: a bare reference to a generic class
   is instantiated with Any per type parameter.  That is what convert.py does only when no TypeVar of the template
   has a bound or constraints.  The code (convert._constant_to_value, AsInstance branch):

       elif isinstance(cls, pytd.GenericType) or (isinstance(cls, pytd.Class) and cls.template):
         if isinstance(cls, pytd.Class):
           params = tuple(t.type_param.upper_value for t in cls.template)
           cls = pytd.GenericType(base_type=pytd.ClassType(cls.name, cls), parameters=params)
         return self._pytd_generic_type_to_instance_value(cls, subst, get_node)
       elif isinstance(cls, pytd.Class):
         return self._pytd_class_to_instance_value(cls, subst)

   and pytd.TypeParameter.upper_value:  Union[constraints] if constraints, else bound if bound, else Any.

     tvdecl / upper_value   pytd.TypeParameter(name, constraints, bound, default) and its upper_value
     upper                  the class table: for every class the upper values of its template, in template order
     inst_g / instantiate_g convert._constant_to_value(AsInstance(t)) / BaseValue.instantiate, with the conversion of
                            a bare class reference ([bare]) as a parameter (identical to Model.inst / Model.instantiate
                            otherwise; BoundProofs.inst_g_bare_inst proves that)
     bare_b                 AsInstance(pytd.Class c): the class parameterised by the upper values of its template
     downstream_b           what B's stub says about `from A import x as y` when A's stub says `x: t`
     expand                 the specification side: t with every bare reference to a generic class, in the positions
                            where convert.py creates an INSTANCE, replaced by the class parameterised by its upper values

   The upper value of a TypeVar is itself a type expression that may mention bare generic classes, so the conversion
   recurses through the class table.  The real code has no bound on that recursion; the model uses fuel, consumed only
   by a hop through a class that has a bounded / constrained TypeVar (a class whose upper values are all Any ends the
   recursion: its instance is Model.bare_inst).  Fuel exhaustion gives VError / TError, which the theorems exclude
   through their well-formedness premise (TError is not in the dialect). *)
From Coq Require Import List Bool NArith Arith.
From PV Require Import Conv.Model.
Import ListNotations.
Open Scope N_scope.

(* pytd.TypeParameter *)
Record tvdecl := mkTV { tv_constraints : list ty; tv_bound : option ty }.

Definition upper_value (d : tvdecl) : ty :=
  match tv_constraints d with
  | _ :: _ => TUnion (tv_constraints d)
  | [] => match tv_bound d with Some b => b | None => TAny end
  end.

(* the pyi text of the declaration  T = TypeVar("T", c1, c2)  /  TypeVar("T", bound=b)  as the list of its type
   arguments (the printer writes the constraints positionally, then bound=) and what the parser reads back *)
Definition print_tv (d : tvdecl) : list ty * option ty := (tv_constraints d, tv_bound d).
Definition parse_tv (x : list ty * option ty) : tvdecl := mkTV (fst x) (snd x).

Section Generic.
Variable arity : cid -> nat.
Variable bare : cid -> aval.       (* _constant_to_value(AsInstance(pytd.Class c)) *)

(* Model.instantiate with PyTDClass.instantiate = pytd_cls_to_instance_var(self.pytd_cls) going through [bare] *)
Fixpoint instantiate_g (v : aval) : list aval :=
  match v with
  | VClass c => [bare c]
  | VParamClass c fs =>
      if c =? type_id then [match fs with f :: _ => f | [] => VError end]
      else [VPInstance v (firstn (arity c) (map instantiate_g fs) ++ repeat [VUnsolvable] (arity c - length fs))]
  | VTupleClass fs => [VTuple (map instantiate_g fs)]
  | VCallableClass fs r => [VPInstance v (map instantiate_g fs ++ [instantiate_g r])]
  | VUnion os => flat_map instantiate_g os
  | VUnsolvable => [VUnsolvable]
  | VEmpty => [VEmpty]
  | _ => [VError]
  end.

(* Model.inst with the bare class reference going through [bare] *)
Fixpoint inst_g (t : ty) : aval :=
  match t with
  | TAny => VUnsolvable
  | TNothing => VEmpty
  | TError => VError
  | TClass c => bare c
  | TGeneric c ps =>
      if c =? type_id then (match ps with [u] => conv_cls u | _ => VError end)
      else if (length ps <=? arity c)%nat
           then VInstance c (map (var_of inst_g) ps ++ repeat [VUnsolvable] (arity c - length ps))
           else VError
  | TTuple ps => VTuple (map (var_of inst_g) ps)
  | TCallable args r =>
      VPInstance (VCallableClass (map conv_cls args) (conv_cls r))
                 (map (fun a => instantiate_g (conv_cls a)) args ++ [instantiate_g (conv_cls r)])
  | TUnion ts =>
      match ts with
      | [] => VError
      | [t1] => conv_cls t1
      | _ => VUnion (map conv_cls ts)
      end
  end.
End Generic.

(* the specification side of one conversion step: where inst_g converts a parameter / element / union member as an
   instance the type is expanded; class-level positions (below type[..], Callable[..], a union that UnpackUnion
   did not unpack) are left alone *)
Definition expand_var (ex : ty -> ty) (p : ty) : ty :=
  match p with TUnion ts => TUnion (map ex ts) | _ => ex p end.

Section ExpandG.
Variable ebare : cid -> ty.
Fixpoint expand_g (t : ty) : ty :=
  match t with
  | TClass c => ebare c
  | TGeneric c ps => if c =? type_id then t else TGeneric c (map (expand_var expand_g) ps)
  | TTuple ps => TTuple (map (expand_var expand_g) ps)
  | _ => t
  end.
End ExpandG.

Section Bounded.
Variable upper : cid -> list ty.       (* [t.type_param.upper_value for t in cls.template] *)

Definition arity_of (c : cid) : nat := length (upper c).
Definition unbounded (c : cid) : bool := forallb is_any (upper c).

(* AsInstance(pytd.Class c).  No bound or constraint anywhere in the template: GenericType(c, (Any, ..)), whose
   instance is Model.bare_inst (BoundProofs.generic_any_is_bare_inst) — this also covers a class without template
   (_pytd_class_to_instance_value) and builtins.type.  Otherwise the class parameterised by the upper values. *)
Fixpoint bare_b (fuel : nat) (c : cid) : aval :=
  if unbounded c then bare_inst arity_of c
  else match fuel with
       | O => VError
       | S f => inst_g arity_of (bare_b f) (TGeneric c (upper c))
       end.

Definition inst_b (fuel : nat) : ty -> aval := inst_g arity_of (bare_b fuel).
Definition conv_var_b (fuel : nat) (t : ty) : list aval := var_of (inst_b fuel) t.
Definition downstream_b (fuel : nat) (t : ty) : tydef := out_top arity_of (store_name (conv_var_b fuel t)).

(* the seeded defect "an omitted type parameter implies Any" as a model variant (used by non-vacuity examples) *)
Definition downstream_anyfill (t : ty) : tydef := downstream arity_of t.

Fixpoint ebare_b (fuel : nat) (c : cid) : ty :=
  if unbounded c then TClass c
  else match fuel with
       | O => TError
       | S f => TGeneric c (map (expand_var (expand_g (ebare_b f))) (upper c))
       end.
Definition expand (fuel : nat) : ty -> ty := expand_g (ebare_b fuel).
Definition expand_top (fuel : nat) (t : ty) : ty := expand_var (expand fuel) t.

(* every class mentioned has an unbounded template *)
Fixpoint unb (t : ty) : bool :=
  match t with
  | TClass c => unbounded c
  | TGeneric _ ps | TTuple ps | TUnion ps => forallb unb ps
  | TCallable a r => forallb unb a && unb r
  | _ => true
  end.

(* class-level positions mention only classes with unbounded templates *)
Definition clean_var (cl : ty -> bool) (p : ty) : bool :=
  match p with TUnion ts => forallb cl ts | _ => cl p end.
Fixpoint clean (t : ty) : bool :=
  match t with
  | TGeneric c ps => if c =? type_id then forallb unb ps else forallb (clean_var clean) ps
  | TTuple ps => forallb (clean_var clean) ps
  | TCallable a r => forallb unb a && unb r
  | TUnion ts => forallb unb ts
  | _ => true
  end.
Definition clean_top (t : ty) : bool := clean_var clean t.
End Bounded.

(* the class table from the TypeVar declarations of each class's template *)
Definition upper_of (template : cid -> list tvdecl) (c : cid) : list ty := map upper_value (template c).

(* a finite class table: the listed classes have the given upper values, every other class has [base c] unbounded
   type parameters *)
Fixpoint lookup_tbl (l : list (cid * list ty)) (c : cid) : option (list ty) :=
  match l with [] => None | (k, us) :: l' => if k =? c then Some us else lookup_tbl l' c end.
Definition table_of (base : cid -> nat) (l : list (cid * list ty)) (c : cid) : list ty :=
  match lookup_tbl l c with Some us => us | None => repeat TAny (base c) end.
Definition is_none {A} (o : option A) : bool := match o with None => true | Some _ => false end.
(* the hypotheses of the theorems on bounded tables, decidable for a finite table (evaluated by the harness for every
   generated table) *)
Definition table_ok (base : cid -> nat) (l : list (cid * list ty)) : bool :=
  forallb (fun e => forallb (clean_top (table_of base l)) (snd e)) l &&
  is_none (lookup_tbl l type_id) && is_none (lookup_tbl l tuple_id) &&
  (base type_id =? 1)%nat && (base tuple_id =? 1)%nat.
