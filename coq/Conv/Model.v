(* C06 — model of the stub hand-off on TYPE EXPRESSIONS (no proofs in this file).

   A module A is analysed, its inferred types are written to a stub, and module B reads the names back
   through convert.py; when B's own stub is written, output.py turns the abstract values into pytd again.

     conv_var   : ty -> list aval     convert.pytd_cls_to_instance_var      (a Variable = list of bindings)
     inst       : ty -> aval          convert._constant_to_value(AsInstance(t))
     conv_cls   : ty -> aval          convert._pytd_constant_to_value(t)    (class-level value)
     instantiate: aval -> list aval   BaseValue.instantiate of the class-level values
     out        : aval -> ty          output.Converter.value_to_pytd_type
     out_cls    : aval -> ty          output.Converter.value_instance_to_pytd_type(v, instance=None)
     join       : list ty -> ty       pytd_utils.JoinTypes
     store_name : list aval -> list aval  vm._process_annotations when the imported value is stored under a name
     out_top    : list aval -> tydef  tracer_vm.CallTracer.pytd_for_types for one module-level name
     nf                               the identifications under which two pytd types are "the same type"
     sort_ty                          canonical ordering of union members (CanonicalOrderingVisitor)

   Conventions: a cfg.Variable is the list of its bindings' data in insertion order (every binding is taken
   to be visible at the exit node); Variable.AddBinding's de-duplication of *identical* data objects is not
   modelled (it can only remove a value whose pytd type JoinTypes would de-duplicate anyway) except for its one
   observable effect, on the `== [unsolvable]` test (see [only_unsolvable]); the lazily
   loaded instance_type_parameters of an Instance of a ParameterizedClass are materialised when the instance
   is created ([VPInstance]).  Classes are identified by numbers; [arity] is the length of a class's template.
   Not modelled (outside the type-expression fragment; covered by the end-to-end oracle only): TypeParameter /
   ParamSpec / Concatenate, Literal, Annotated, LateType, typing.ClassVar, TypedDict / fiddle, the Unknown instance
   of builtins.property, the `seen` guard for self-containing instances, OutputMode.DETAILED, binding
   visibility (FilteredData), and every Optimize pass (the model ends at the AST handed to optimize.Optimize).
*)
From Coq Require Import List Bool NArith Arith.
Import ListNotations.
Open Scope N_scope.

Definition cid := N.
Definition type_id     : cid := 1.   (* builtins.type    *)
Definition none_id     : cid := 2.   (* builtins.NoneType *)
Definition tuple_id    : cid := 3.   (* builtins.tuple   *)
Definition callable_id : cid := 4.   (* typing.Callable  *)

(* pytd type expressions *)
Inductive ty : Type :=
| TAny                                   (* pytd.AnythingType *)
| TNothing                               (* pytd.NothingType *)
| TClass (c : cid)                       (* pytd.ClassType / NamedType *)
| TGeneric (c : cid) (ps : list ty)      (* pytd.GenericType: list[int], tuple[int, ...], Callable[..., r], type[C] *)
| TTuple (ps : list ty)                  (* pytd.TupleType: tuple[a, b], tuple[()] *)
| TCallable (args : list ty) (ret : ty)  (* pytd.CallableType: Callable[[a, b], r] *)
| TUnion (ts : list ty)                  (* pytd.UnionType *)
| TError.                                (* the real code raises (assert / unpacking error) *)

(* abstract values (pytype.abstract) *)
Inductive aval : Type :=
| VUnsolvable                                     (* abstract.Unsolvable (singleton) *)
| VEmpty                                          (* abstract.Empty (singleton) *)
| VNone                                           (* convert.none: the primitive instance of NoneType *)
| VInstance (c : cid) (params : list (list aval)) (* Instance(PyTDClass c); instance_type_parameters in template order *)
| VPInstance (cls : aval) (params : list (list aval))
                                                  (* Instance(ParameterizedClass | CallableClass); its lazily loaded
                                                     parameters formal.instantiate(), materialised *)
| VTuple (elems : list (list aval))               (* abstract.Tuple: pyval *)
| VClass (c : cid)                                (* abstract.PyTDClass *)
| VParamClass (c : cid) (formals : list aval)     (* abstract.ParameterizedClass: formal_type_parameters *)
| VTupleClass (formals : list aval)               (* abstract.TupleClass (positions 0..n-1) *)
| VCallableClass (args : list aval) (ret : aval)  (* abstract.CallableClass (positions 0..n-1, RET) *)
| VUnion (options : list aval)                    (* abstract.Union *)
| VTParamInst (vals : list aval)                  (* abstract TypeVar instance (T, instance): [vals] is what
                                                     instance.get_instance_type_parameter(T) holds (materialised);
                                                     only produced by the declaration-level model, Conv/Decl.v *)
| VError.

(* what pytd_for_types emits for one name:  name: T   or   name = T *)
Inductive tydef : Type := DConst (t : ty) | DAlias (t : ty).

Definition is_any (t : ty) : bool := match t with TAny => true | _ => false end.
Definition is_nothing (t : ty) : bool := match t with TNothing => true | _ => false end.
Definition is_union (t : ty) : bool := match t with TUnion _ => true | _ => false end.
Definition is_nonetype (t : ty) : bool := match t with TClass c => c =? none_id | _ => false end.
Definition is_unsolvable (v : aval) : bool := match v with VUnsolvable => true | _ => false end.
(* `values == [unsolvable]` in output.py.  Variable.AddBinding / PasteVariable keep one binding per identical
   data object and Unsolvable is a singleton, so the real variable is [unsolvable] exactly when the modelled
   list is non-empty and holds nothing but Unsolvable (e.g. the instances of Union[Any, type]). *)
Definition only_unsolvable (vs : list aval) : bool :=
  match vs with [] => false | _ => forallb is_unsolvable vs end.

(* ------------------------------------------------------------------------------------------ *)
(* pytd equality (msgspec structs; UnionType compares its members as a set) *)

Fixpoint ty_eqb (a b : ty) {struct a} : bool :=
  let fix list_eqb (xs ys : list ty) {struct xs} : bool :=
    match xs, ys with
    | [], [] => true
    | x :: xs', y :: ys' => ty_eqb x y && list_eqb xs' ys'
    | _, _ => false
    end in
  match a, b with
  | TAny, TAny => true
  | TNothing, TNothing => true
  | TError, TError => true
  | TClass c, TClass d => c =? d
  | TGeneric c ps, TGeneric d qs => (c =? d) && list_eqb ps qs
  | TTuple ps, TTuple qs => list_eqb ps qs
  | TCallable xs r, TCallable ys s => list_eqb xs ys && ty_eqb r s
  | TUnion xs, TUnion ys =>
      (* frozenset(xs) == frozenset(ys) *)
      let fix sub (us : list ty) : bool :=
        match us with [] => true | u :: us' => existsb (fun y => ty_eqb u y) ys && sub us' end in
      let fix sup (vs : list ty) : bool :=
        match vs with
        | [] => true
        | v :: vs' =>
            (let fix ex (us : list ty) : bool :=
               match us with [] => false | u :: us' => ty_eqb u v || ex us' end in ex xs) && sup vs'
        end in
      sub xs && sup ys
  | _, _ => false
  end.

(* ------------------------------------------------------------------------------------------ *)
(* pytd_utils.JoinTypes *)

(* the deque loop: unions are flattened in place (all levels), NothingType is dropped *)
Fixpoint flat (t : ty) : list ty :=
  match t with
  | TUnion ts => flat_map flat ts
  | TNothing => []
  | _ => [t]
  end.

(* `elif t not in seen: new_types.append(t)` — keeps the first occurrence *)
Fixpoint dedup_acc (seen : list ty) (l : list ty) : list ty :=
  match l with
  | [] => []
  | x :: l' => if existsb (ty_eqb x) seen then dedup_acc seen l' else x :: dedup_acc (x :: seen) l'
  end.
Definition dedup := dedup_acc [].

Definition join (ts : list ty) : ty :=
  let new := dedup (flat_map flat ts) in
  match new with
  | [x] => x
  | _ =>
    if existsb is_any new then
      (if existsb is_nonetype new then TUnion [TAny; TClass none_id] else TAny)
    else match new with [] => TNothing | _ => TUnion new end
  end.

(* pytd_utils.MakeClassOrContainerType(base, type_arguments, homogeneous) *)
Definition mk_container (c : cid) (args : list ty) (homogeneous : bool) : ty :=
  match args with
  | [] => if homogeneous || negb (c =? tuple_id) then TClass c else TTuple []
  | _ =>
    if homogeneous then TGeneric c args
    else if c =? callable_id then TCallable (removelast args) (last args TError)
    else if c =? tuple_id then TTuple args
    else TGeneric c args
  end.

Section WithClassTable.
(* length of the class's template in the loaded pytd (builtins: list 1, dict 2, type 1, tuple 1, Callable 2) *)
Variable arity : cid -> nat.

(* ------------------------------------------------------------------------------------------ *)
(* convert.py: pytd -> abstract values *)

(* _pytd_constant_to_value: the class-level value of a type expression *)
Fixpoint conv_cls (t : ty) : aval :=
  match t with
  | TAny => VUnsolvable
  | TNothing => VEmpty
  | TError => VError
  | TClass c => VClass c                                   (* _pytd_class_to_value -> PyTDClass *)
  | TGeneric c ps => VParamClass c (map conv_cls ps)       (* _pytd_generic_type_to_value *)
  | TTuple ps => VTupleClass (map conv_cls ps)
  | TCallable args r => VCallableClass (map conv_cls args) (conv_cls r)
  | TUnion ts =>                                           (* options = [...]; Union if len > 1 else options[0] *)
      match ts with
      | [] => VError
      | [t1] => conv_cls t1
      | _ => VUnion (map conv_cls ts)
      end
  end.

(* AsInstance(pytd.Class c): a class with a template is first rewritten to GenericType(c, (Any, ...)) (the
   upper values of its unbounded type parameters); _pytd_generic_type_to_instance_value then special-cases
   builtins.type (the instance of type[X] is the class X itself; X = Any gives Unsolvable). *)
Definition bare_inst (c : cid) : aval :=
  if c =? type_id then (match arity c with 1%nat => VUnsolvable | _ => VError end)
  else if (c =? none_id) && (arity c =? 0)%nat then VNone          (* primitive_instances[NoneType] *)
  else VInstance c (repeat [VUnsolvable] (arity c)).

(* BaseValue.instantiate(node) of class-level values.  An Instance of a ParameterizedClass loads its
   instance_type_parameters lazily as formal.instantiate(); an Instance of a CallableClass has none and
   output.py calls formal.instantiate() itself: both are materialised here, in template order. *)
Fixpoint instantiate (v : aval) : list aval :=
  match v with
  | VClass c => [bare_inst c]                   (* PyTDClass: pytd_cls_to_instance_var(self.pytd_cls) *)
  | VParamClass c fs =>
      if c =? type_id then [match fs with f :: _ => f | [] => VError end]    (* formal_type_parameters[T] itself *)
      else [VPInstance v (firstn (arity c) (map instantiate fs) ++ repeat [VUnsolvable] (arity c - length fs))]
  | VTupleClass fs => [VTuple (map instantiate fs)]
  | VCallableClass fs r => [VPInstance v (map instantiate fs ++ [instantiate r])]
  | VUnion os => flat_map instantiate os
  | VUnsolvable => [VUnsolvable]                (* Singleton.instantiate *)
  | VEmpty => [VEmpty]
  | _ => [VError]                               (* NotImplementedError *)
  end.

(* pytd_cls_to_instance_var, given the instance conversion [inst] *)
Definition var_of (inst : ty -> aval) (p : ty) : list aval :=
  match p with
  | TAny => [VUnsolvable]
  | TUnion ts => flat_map (fun m => match m with TNothing => [] | _ => [inst m] end) ts   (* UnpackUnion: one level *)
  | TNothing => []
  | _ => [inst p]
  end.

(* _constant_to_value(AsInstance(t)) *)
Fixpoint inst (t : ty) : aval :=
  match t with
  | TAny => VUnsolvable                                     (* else: constant_to_value(cls) *)
  | TNothing => VEmpty
  | TError => VError
  | TClass c => bare_inst c
  | TGeneric c ps =>
      if c =? type_id then (match ps with [u] => conv_cls u | _ => VError end)      (* (c,) = cls.parameters *)
      else if (length ps <=? arity c)%nat
           then VInstance c (map (var_of inst) ps ++ repeat [VUnsolvable] (arity c - length ps))
           else VError                                      (* assert num_params <= len(base_cls.template) *)
  | TTuple ps => VTuple (map (var_of inst) ps)             (* tuple_to_value(content) *)
  | TCallable args r =>                                     (* Instance(constant_to_value(cls)) *)
      VPInstance (VCallableClass (map conv_cls args) (conv_cls r))
                 (map (fun a => instantiate (conv_cls a)) args ++ [instantiate (conv_cls r)])
  | TUnion ts =>                                            (* a union that UnpackUnion did not unpack: class-level! *)
      match ts with
      | [] => VError
      | [t1] => conv_cls t1
      | _ => VUnion (map conv_cls ts)
      end
  end.

Definition conv_var (t : ty) : list aval := var_of inst t.

(* Module._convert_member for an Alias  `x = T`:  constant_to_var(alias.type) -> constant_to_value(T).to_variable *)
Definition conv_alias (t : ty) : list aval := [conv_cls t].

(* ------------------------------------------------------------------------------------------ *)
(* output.py: abstract values -> pytd *)

(* homogeneous flag of value_instance_to_pytd_type for a class that is neither TupleClass nor CallableClass *)
Definition homog (c : cid) (args : list ty) : bool :=
  if c =? callable_id then true else (length args =? 1)%nat.

(* value_instance_to_pytd_type(v, instance=None, ...) *)
Fixpoint out_cls (v : aval) : ty :=
  match v with
  | VUnion os => TUnion (map out_cls os)                   (* pytd.UnionType(tuple(...)): no JoinTypes *)
  | VClass c =>                                             (* _value_to_parameter_types: Any per template entry *)
      let args := repeat TAny (arity c) in mk_container c args (homog c args)
  | VParamClass c fs =>                                     (* get_formal_type_parameter(t) for t in template *)
      let args := firstn (arity c) (map out_cls fs) ++ repeat TAny (arity c - length fs) in
      mk_container c args (homog c args)
  | VTupleClass fs => mk_container tuple_id (map out_cls fs) false
  | VCallableClass fs r => mk_container callable_id (map out_cls fs ++ [out_cls r]) false
  | VError => TError
  | _ => TAny                                               (* "Using Any for instance of %s" *)
  end.

Fixpoint zip_with {A B C} (f : A -> B -> C) (xs : list A) (ys : list B) {struct ys} : list C :=
  match ys, xs with
  | y :: ys', x :: xs' => f x y :: zip_with f xs' ys'
  | _, _ => []
  end.

(* value_to_pytd_type *)
Fixpoint out (v : aval) : ty :=
  match v with
  | VEmpty => TNothing
  | VUnsolvable => TAny
  | VNone => TClass none_id
  | VInstance c params =>                                  (* v.cls is a PyTDClass: plain JoinTypes per parameter *)
      let args := map (fun var => join (map out var)) params in
      mk_container c args (homog c args)
  | VTuple elems =>                                        (* homogeneous = False.  (An element that is only
                                                              Unsolvable is printed from the tuple's own class,
                                                              whose parameter is then Unsolvable too: Any.) *)
      mk_container tuple_id (map (fun var => join (map out var)) elems) false
  | VPInstance cls params =>
      (* one type argument: JoinTypes of the parameter's bindings, except that an Unsolvable parameter of a
         ParameterizedClass instance is printed from the class's formal parameter *)
      let joined := map (fun vals => (only_unsolvable vals, join (map out vals))) params in
      let arg := fun (formal : aval) (uj : bool * ty) => if fst uj then out_cls formal else snd uj in
      match cls with
      | VCallableClass fs r => mk_container callable_id (zip_with arg (fs ++ [r]) joined) false
      | VParamClass c fs =>
          let args := zip_with arg (firstn (arity c) fs ++ repeat VUnsolvable (arity c - length fs)) joined in
          mk_container c args (homog c args)
      | _ => TError
      end
  | VClass _ | VParamClass _ _ | VTupleClass _ | VCallableClass _ _ =>
      TGeneric type_id [out_cls v]                          (* isinstance(v, abstract.Class) *)
  | VUnion os => join (map out os)
  | VTParamInst vals =>                                     (* _type_variable_to_pytd_type: the parameter was
                                                               initialised -> JoinTypes of its values; an unbounded,
                                                               unconstrained TypeVar otherwise -> Any *)
      match vals with [] => TAny | _ => join (map out vals) end
  | VError => TError
  end.

(* tracer_vm.CallTracer.pytd_for_types for one module-level name whose variable holds [vals] *)
Definition is_param_or_union (v : aval) : bool :=
  match v with VParamClass _ _ | VTupleClass _ | VCallableClass _ _ | VUnion _ => true | _ => false end.

Definition out_top (vals : list aval) : tydef :=
  if existsb is_unsolvable vals then DConst TAny
  else match vals with
  | [] => DConst TAny                                       (* "No visible options" *)
  | [v] =>                                                  (* option.to_pytd_def(node, name) *)
      match v with
      | VParamClass _ _ | VTupleClass _ | VCallableClass _ _ | VUnion _ => DAlias (out_cls v)
      | VClass _ => DConst (out v)                          (* PyTDClass with a module: v.to_pytd_type(node) *)
      | VEmpty => DConst TAny                               (* NothingType of an Empty becomes Any *)
      | _ => DConst (out v)                                 (* NotImplementedError -> to_pytd_type *)
      end
  | _ =>
      if forallb is_param_or_union vals then DAlias (join (map out_cls vals))    (* type alias *)
      else DConst (join (map out vals))
  end.

(* vm.VirtualMachine._pop_and_store -> _process_annotations: when every binding of the value being stored is a
   NestedAnnotation (ParameterizedClass incl. Tuple/Callable classes, Union) the variable is read as ONE type
   annotation: a single binding is kept (extract_annotation returns it), several bindings are not "constant":
   [invalid-annotation] is reported and the name becomes Unsolvable. *)
Definition store_name (vals : list aval) : list aval :=
  match vals with
  | [] => []
  | [v] => [v]
  | _ => if forallb is_param_or_union vals then [VUnsolvable] else vals
  end.

(* what B's stub says about  `from A import x as y`  when A's stub says  x: t *)
Definition downstream (t : ty) : tydef := out_top (store_name (conv_var t)).

End WithClassTable.

(* ------------------------------------------------------------------------------------------ *)
(* "The same type": pytd's structural equality with unions read as sets, modulo three identifications that
   pytype itself makes on every emitted stub:
     (1) a container whose parameters are all Any is the bare class   (optimize.SimplifyContainers)
     (2) type[Union[a, b]] is Union[type[a], type[b]]                  (optimize.CombineContainers on builtins.type)
     (3) `x = T` (Alias) declares the same module attribute as `x: type[T]`
   [nf] computes an order-preserving normal form for (1) and (2) and flattens nested unions; [sort_ty] then
   orders union members (pytd_utils.CanonicalOrdering sorts them; the order used here is the model's own). *)

Definition members (t : ty) : list ty :=
  match t with TUnion ts => ts | TNothing => [] | _ => [t] end.

Definition mkU (l : list ty) : ty :=
  match l with [] => TNothing | [x] => x | _ => TUnion l end.

Definition mk_type1 (e : ty) : ty := if is_any e then TClass type_id else TGeneric type_id [e].
Definition mk_type (u : ty) : ty :=
  match u with TUnion es => TUnion (map mk_type1 es) | _ => mk_type1 u end.

Fixpoint nf (t : ty) : ty :=
  match t with
  | TGeneric c ps =>
      let ps' := map nf ps in
      if c =? type_id then (match ps' with [u] => mk_type u | _ => if forallb is_any ps' then TClass c else TGeneric c ps' end)
      else if forallb is_any ps' then TClass c else TGeneric c ps'
  | TTuple ps => TTuple (map nf ps)
  | TCallable a r => TCallable (map nf a) (nf r)
  | TUnion ts => mkU (flat_map members (map nf ts))
  | _ => t
  end.

Definition def_ty (d : tydef) : ty :=
  match d with DConst t => t | DAlias t => TGeneric type_id [t] end.

(* ------------------------------------------------------------------------------------------ *)
(* The emitted dialect: the type expressions a stub written by pytype contains for a constant, as far as the
   conversion is concerned.  [wf] is the hypothesis of the round-trip theorem.
     - a union has >= 2 members, none of them Any / nothing / a union, with pairwise different base classes
       (optimize.CombineContainers merges same-base containers, JoinTypes absorbs the rest);
     - a generic has exactly as many parameters as the class's template;
     - NOT in the dialect, because the round trip loses them (theorems *_refuted): bare `type` and `type[Any]`
       (an instance of `type[Any]` is converted to Unsolvable), `type[nothing]`, and `nothing` below `type[...]`. *)

Definition base (t : ty) : cid :=
  match t with
  | TClass c | TGeneric c _ => c
  | TTuple _ => tuple_id
  | TCallable _ _ => callable_id
  | _ => 0
  end.

(* the key under which JoinTypes can at most identify two emitted members *)
Definition tkey (x : ty) : cid * cid :=
  match x with
  | TGeneric c [a] => if c =? type_id then (c, base a) else (c, 0)
  | _ => (base x, 0)
  end.

Definition ubases (u : ty) : list cid := match u with TUnion us => map base us | _ => [base u] end.

Definition mkeys1 (t : ty) : list (cid * cid) :=
  match t with
  | TNothing => []
  | TGeneric c [u] => if c =? type_id then map (pair type_id) (ubases u) else [(c, 0)]
  | _ => [(base t, 0)]
  end.
Definition mkeys (t : ty) : list (cid * cid) :=
  match t with TUnion ts => flat_map mkeys1 ts | _ => mkeys1 t end.

Definition key_eqb (a b : cid * cid) : bool := (fst a =? fst b) && (snd a =? snd b).
Fixpoint nodupb {A} (eqb : A -> A -> bool) (l : list A) : bool :=
  match l with [] => true | x :: l' => negb (existsb (eqb x) l') && nodupb eqb l' end.

Definition member_ok (t : ty) : bool :=
  match t with TAny | TNothing | TUnion _ | TError => false | _ => true end.

(* no `nothing` anywhere *)
Fixpoint nfree (t : ty) : bool :=
  match t with
  | TNothing | TError => false
  | TGeneric _ ps | TTuple ps | TUnion ps => forallb nfree ps
  | TCallable a r => forallb nfree a && nfree r
  | _ => true
  end.

Section Dialect.
Variable arity : cid -> nat.
Fixpoint wf (t : ty) : bool :=
  match t with
  | TAny | TNothing => true
  | TError => false
  | TClass c => negb (c =? 0) && negb (c =? type_id)
  | TGeneric c ps =>
      negb (c =? 0) && (length ps =? arity c)%nat && (0 <? arity c)%nat && forallb wf ps &&
      (if c =? type_id
       then match ps with
            | [u] => negb (is_any u) && nfree u && nodupb N.eqb (ubases u)
            | _ => false
            end
       else true)
  | TTuple ps => forallb wf ps
  | TCallable a r => forallb wf a && wf r
  | TUnion ts =>
      (2 <=? length ts)%nat && forallb wf ts && forallb member_ok ts &&
      nodupb N.eqb (map base ts) && nodupb key_eqb (flat_map mkeys1 ts)
  end.
(* a module-level constant additionally is not `nothing` *)
Definition wf_top (t : ty) : bool := wf t && negb (is_nothing t).
End Dialect.

(* The dialect as pytype really emits it additionally contains bare `type` (`x: type = int`, `type[Any]` after
   SimplifyContainers) and `type[Any]`; [wf_full] admits them.  The round trip is refuted on [wf_full]
   (Props/C06.v, conv_out_id_full_refuted) and proved on [wf]. *)
Section DialectFull.
Variable arity : cid -> nat.
Fixpoint wf_full (t : ty) : bool :=
  match t with
  | TAny | TNothing => true
  | TError => false
  | TClass c => negb (c =? 0)
  | TGeneric c ps =>
      negb (c =? 0) && (length ps =? arity c)%nat && (0 <? arity c)%nat && forallb wf_full ps &&
      (if c =? type_id
       then match ps with
            | [u] => nfree u && nodupb N.eqb (ubases u)
            | _ => false
            end
       else true)
  | TTuple ps => forallb wf_full ps
  | TCallable a r => forallb wf_full a && wf_full r
  | TUnion ts =>
      (2 <=? length ts)%nat && forallb wf_full ts && forallb member_ok ts &&
      nodupb N.eqb (map base ts) && nodupb key_eqb (flat_map mkeys1 ts)
  end.
Definition wf_full_top (t : ty) : bool := wf_full t && negb (is_nothing t).
End DialectFull.

(* a total order on types, only used to print unions in a canonical order *)
Definition ty_rank (t : ty) : N :=
  match t with
  | TAny => 0 | TNothing => 1 | TClass _ => 2 | TGeneric _ _ => 3 | TTuple _ => 4 | TCallable _ _ => 5
  | TUnion _ => 6 | TError => 7
  end.

Fixpoint ty_cmp (a b : ty) {struct a} : comparison :=
  let fix list_cmp (xs ys : list ty) {struct xs} : comparison :=
    match xs, ys with
    | [], [] => Eq
    | [], _ => Lt
    | _, [] => Gt
    | x :: xs', y :: ys' => match ty_cmp x y with Eq => list_cmp xs' ys' | r => r end
    end in
  match a, b with
  | TClass c, TClass d => c ?= d
  | TGeneric c ps, TGeneric d qs => match c ?= d with Eq => list_cmp ps qs | r => r end
  | TTuple ps, TTuple qs => list_cmp ps qs
  | TCallable xs r, TCallable ys s => match list_cmp xs ys with Eq => ty_cmp r s | r' => r' end
  | TUnion xs, TUnion ys => list_cmp xs ys
  | _, _ => ty_rank a ?= ty_rank b
  end.

Fixpoint insert_sorted (x : ty) (l : list ty) : list ty :=
  match l with
  | [] => [x]
  | y :: l' => match ty_cmp x y with
               | Lt => x :: l
               | Eq => l                           (* duplicates collapse *)
               | Gt => y :: insert_sorted x l'
               end
  end.

Fixpoint sort_ty (t : ty) : ty :=
  match t with
  | TGeneric c ps => TGeneric c (map sort_ty ps)
  | TTuple ps => TTuple (map sort_ty ps)
  | TCallable a r => TCallable (map sort_ty a) (sort_ty r)
  | TUnion ts => TUnion (fold_right insert_sorted [] (map sort_ty ts))
  | _ => t
  end.

(* canonical form used to compare two types up to "the same type" *)
Definition canon (t : ty) : ty := sort_ty (nf t).

(* ------------------------------------------------------------------------------------------ *)
(* the table of the builtin classes the harness uses (checked against the loaded builtins on every run) *)
(* 1 type, 2 NoneType, 3 tuple, 4 Callable, 5 object, 6 list, 7 dict, 8 set, 9 frozenset,
   10.. int str float bool bytes complex, 32.. user classes *)
Definition builtin_arity (c : cid) : nat :=
  match c with
  | 1%N | 3%N | 6%N | 8%N | 9%N => 1%nat
  | 4%N | 7%N => 2%nat
  | _ => 0%nat
  end.

(* ------------------------------------------------------------------------------------------ *)
(* The hand-off of one type expression from A's analysis to B's analysis, through either transport.

   write side (io.py):
     text    _write_pyi_output(pytd_utils.Print(ast))
     pickle  write_pickle: serialize_ast.PrepareForExport = SourceToExportableAst(Print(ast)) = prep (parse (print ast));
             pickle_utils.SerializeAndSave: SerializeAst (... CanonicalOrderingVisitor) then the msgspec encoder
   read side (load_pytd.py):
     text    ModuleLoader._load_pyi = parser.parse_string, then Loader.process_module (name resolution)
     pickle  pickle_utils.LoadAst = msgspec decoder, then serialize_ast.ProcessAst (re-link class pointers)

   The printer, parser, codec, canonical ordering and the resolution visitors belong to C05 / C12 / C04; here
   they are parameters, and the theorems in Props/C06.v name what they need of them as premises. *)
(* a stage of the hand-off keeps a type in the dialect and changes at most the order of union members *)
Definition preserves (arity : cid -> nat) (f : ty -> ty) : Prop :=
  forall a, wf_top arity a = true -> wf_top arity (f a) = true /\ canon (f a) = canon a.

Section Handoff.
Variables text bytes : Type.
Variable print : ty -> text.                 (* pytd_utils.Print *)
Variable parse : text -> option ty.          (* pyi parser *)
Variable encode : ty -> bytes.               (* msgspec.msgpack Encoder(order="deterministic") *)
Variable decode : bytes -> option ty.        (* msgspec.msgpack Decoder(type=SerializableAst) *)
Variable resolve : ty -> ty.                 (* Loader.process_module: resolve_builtin/external/local types, FillInLocalPointers *)
Variable prep : ty -> ty.                    (* SourceToExportableAst: LookupBuiltins .. ClassTypeToLateType *)
Variable reorder : ty -> ty.                 (* SerializeAst: ClearClassPointers, CanonicalOrderingVisitor *)
Variable post : ty -> ty.                    (* ProcessAst: _LookupClassReferences, FillLocalReferences *)

Definition text_transport (t : ty) : option ty :=
  match parse (print t) with Some a => Some (resolve a) | None => None end.

Definition pickle_transport (t : ty) : option ty :=
  match parse (print t) with
  | Some a => match decode (encode (reorder (prep a))) with Some b => Some (post b) | None => None end
  | None => None
  end.
End Handoff.
