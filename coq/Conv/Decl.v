(* C06 — model of the stub hand-off on DECLARATIONS (no proofs in this file): functions and classes of the
   upstream stub as the downstream analysis sees them.

     map_args      PyTDSignature._map_args + _fill_in_missing_params   (call site without *seq / **dict)
     sig_accepts   PyTDSignature.substitute_formal_args                    (the matcher is the parameter [acc])
     call_var      PyTDFunction.call: _match_args_sequentially / _MatchedSignatures / _can_match_multiple /
                   _call_with_signatures / _combine_multiple_returns / PyTDSignature.call_with_args
     call_emitted  what B's stub says about  y = A.f(...)   (pytd_for_types on the result variable)
     dvar_of/dinst convert.pytd_cls_to_instance_var / _constant_to_value(AsInstance(..)) WITH a substitution of
                   the type parameters (subst[T] is a Variable; its bindings are copied)
     chain         the classes an instance's attribute lookup walks, each with the instance's values for ITS
                   template (abstract_utils.parse_formal_type_parameters: alias or fixed parameter)
     attr_read     attribute.get_attribute on an Instance of a PyTDClass:
                   _maybe_load_as_instance_attribute / PyTDClass.convert_as_instance_attribute (a TypeVarInstance (abstract: the instance of a type parameter)
                   per type parameter) / _filter_var, then the class lookup _lookup_from_mro / _get_member /
                   load_lazy_attribute(subst) / property_get / Property.call
     class_read    attribute.get_attribute on the PyTDClass itself
     reexport      `from A import C` / `C2 = A.C`: the class value stored under a name

   Conventions as in Conv/Model.v (a Variable is the list of its bindings).  The call site passes module constants
   of A:  an argument of stub type t is the variable conv_var t.  Only a single user base class per class is
   modelled (the linearisation of several bases is C10's); the arguments of that base are a type parameter of the
   subclass or a ground type.  Names are numbers.
   Not modelled: the matcher (parameter [acc], measured on the real code by the harness and monitored), views over
   several bindings for OVERLOADED functions (the theorem on overloads asks for union-free argument types; one
   signature is fine with any arguments), mutations, ParamSpec, TypeGuard, Literal overloads, __getattr(ibute)__,
   metaclasses, descriptors of InterpreterClasses, bounded / constrained TypeVars, type parameters below type[..] or
   Callable[..] (class-level positions; findings, see harness), nested classes. *)
From Coq Require Import List Bool NArith Arith.
From PV Require Import Conv.Model.
Import ListNotations.
Open Scope N_scope.

(* ------------------------------------------------------------------------------------------ *)
(* pytd.Signature / pytd.Function *)

Inductive pkind := PosOnly | PosOrKw | KwOnly.
Record param := mkParam { p_name : N; p_kind : pkind; p_opt : bool; p_ty : ty }.
Record sig := mkSig {
  s_params : list param;          (* positional-only, positional-or-keyword, keyword-only: in this order *)
  s_star : option ty;             (* *args: T   (annotation tuple[T, ...]);  *args alone is Some TAny *)
  s_starstar : option ty;         (* **kw: V    (annotation dict[str, V]) *)
  s_ret : ty }.

Record call := mkCall { c_pos : list ty; c_named : list (N * ty) }.

Inductive argv := AGiven (t : ty) | AFilled.     (* AFilled: ctx.new_unsolvable for an omitted optional parameter *)
Inductive call_error := WrongArgCount | DuplicateKeyword | WrongKeywordArgs | MissingParam.

Definition is_kwonly (p : param) : bool := match p_kind p with KwOnly => true | _ => false end.
Definition is_posonly (p : param) : bool := match p_kind p with PosOnly => true | _ => false end.
Definition nmem (n : N) (l : list N) : bool := existsb (N.eqb n) l.

Fixpoint lookup {A} (n : N) (l : list (N * A)) : option A :=
  match l with [] => None | (k, v) :: l' => if k =? n then Some v else lookup n l' end.

(* zip(self.signature.param_names, args.posargs) *)
Fixpoint zip_pos (names : list N) (args : list ty) : list (N * ty) :=
  match names, args with
  | n :: names', a :: args' => (n, a) :: zip_pos names' args'
  | _, _ => []
  end.

(* the loop over args.namedargs *)
Fixpoint add_named (posonly : list N) (named : list (N * ty)) (d : list (N * ty)) : call_error + list (N * ty) :=
  match named with
  | [] => inr d
  | (n, a) :: named' =>
      if nmem n posonly then add_named posonly named' d
      else match lookup n d with
           | Some _ => inl DuplicateKeyword
           | None => add_named posonly named' (d ++ [(n, a)])
           end
  end.

(* N sorts like the names the harness uses ("k00".."k99" are numbered in lexicographic order) *)
Fixpoint insert_n (x : N) (l : list N) : list N :=
  match l with [] => [x] | y :: l' => if x <=? y then x :: l else y :: insert_n x l' end.
Definition sort_n (l : list N) : list N := fold_right insert_n [] l.

Definition map_args (s : sig) (c : call) : call_error + list (ty * argv) :=
  let params := s_params s in
  let pnames := map p_name (filter (fun p => negb (is_kwonly p)) params) in
  let posonly := map p_name (filter is_posonly params) in
  let all_names := map p_name params in
  let n_exp := length pnames in
  if (n_exp <? length (c_pos c))%nat && (match s_star s with None => true | Some _ => false end)
  then inl WrongArgCount
  else
    let extra_pos := match s_star s with
                     | Some t => map (fun a => (t, AGiven a)) (skipn n_exp (c_pos c))
                     | None => [] end in
    match add_named posonly (c_named c) (zip_pos pnames (c_pos c)) with
    | inl e => inl e
    | inr d =>
        let kws := map fst (c_named c) in
        let extra_kw := filter (fun k => negb (nmem k all_names)) kws in
        if (match extra_kw with [] => false | _ => true end) && (match s_starstar s with None => true | _ => false end)
        then inl WrongKeywordArgs
        else if existsb (fun k => nmem k posonly) kws && (match s_starstar s with None => true | _ => false end)
        then inl WrongKeywordArgs
        else
          let extra_kw_formals :=
            match s_starstar s with
            | Some v => flat_map (fun k => match lookup k d with Some a => [(v, AGiven a)] | None => [] end)
                                 (sort_n extra_kw)
            | None => [] end in
          (* _fill_in_missing_params, then args_to_match in the order of formal_args *)
          let fix formals (ps : list param) : call_error + list (ty * argv) :=
            match ps with
            | [] => inr []
            | p :: ps' =>
                match formals ps' with
                | inl e => inl e
                | inr rest =>
                    match lookup (p_name p) d with
                    | Some a => inr ((p_ty p, AGiven a) :: rest)
                    | None => if p_opt p then inr ((p_ty p, AFilled) :: rest) else inl MissingParam
                    end
                end
            end in
          match formals params with
          | inl e => inl e
          | inr l => inr (l ++ extra_pos ++ extra_kw_formals)
          end
    end.

Section WithMatcher.
Variable arity : cid -> nat.
(* the matcher: does the variable conv_var a (one view) match the formal type f?  (C02's; measured by the harness) *)
Variable acc : ty -> ty -> bool.

Definition sig_accepts (s : sig) (c : call) : bool :=
  match map_args s c with
  | inl _ => false
  | inr l => forallb (fun fa => match snd fa with AFilled => true | AGiven a => acc a (fst fa) end) l
  end.

(* _can_match_multiple: some argument variable holds an Unsolvable / Empty value *)
Definition is_empty_v (v : aval) : bool := match v with VEmpty => true | _ => false end.
Definition ambiguous_arg (t : ty) : bool :=
  existsb (fun v => is_unsolvable v || is_empty_v v) (conv_var arity t).
Definition ambiguous_call (c : call) : bool :=
  existsb ambiguous_arg (c_pos c) || existsb (fun na => ambiguous_arg (snd na)) (c_named c).

(* visitors.ReplaceUnionsWithAny *)
Fixpoint replace_unions (t : ty) : ty :=
  match t with
  | TUnion _ => TAny
  | TGeneric c ps => TGeneric c (map replace_unions ps)
  | TTuple ps => TTuple (map replace_unions ps)
  | TCallable a r => TCallable (map replace_unions a) (replace_unions r)
  | _ => t
  end.

(* _combine_multiple_returns (Optimize is the identity on the rets of the dialect, see harness) *)
Definition combine_returns (rets : list ty) : ty :=
  match rets with
  | [] => TError
  | r :: rest => if forallb (ty_eqb r) rest then r else replace_unions (join rets)
  end.

(* PyTDFunction.call with ONE view of the arguments: every signature either accepts that view or not; the first
   accepting signature takes the view; when the call is ambiguous every accepting signature joins the group *)
Definition select {S} (accepts : S -> bool) (n_sigs : nat) (amb : bool) (sigs : list S) : list S :=
  match filter accepts sigs with
  | [] => []
  | s :: rest => if (1 <? n_sigs)%nat && amb then s :: rest else [s]
  end.

Definition call_var (f : list sig) (c : call) : option (list aval) :=
  match select (fun s => sig_accepts s c) (length f) (ambiguous_call c) f with
  | [] => None                                             (* FailedFunctionCall: error + Unsolvable *)
  | [s] => Some (conv_var arity (s_ret s))                 (* call_with_args: constant_to_var(AsReturnValue(ret)) *)
  | ss => Some (conv_var arity (combine_returns (map s_ret ss)))      (* _call_with_signatures *)
  end.

(* B's stub for  y = A.f(args);  the boolean says whether the call was accepted (no error reported) *)
Definition emitted (r : option (list aval)) : tydef * bool :=
  match r with
  | Some v => (out_top arity (store_name v), true)
  | None => (DConst TAny, false)
  end.
Definition call_emitted (f : list sig) (c : call) : tydef * bool := emitted (call_var f c).

(* the call the downstream module makes for signature s "with its own parameter types": every parameter that is
   not keyword-only positionally, every keyword-only one by name, each with a constant of the parameter's type *)
Definition own_call (s : sig) : call :=
  mkCall (map p_ty (filter (fun p => negb (is_kwonly p)) (s_params s)))
         (map (fun p => (p_name p, p_ty p)) (filter is_kwonly (s_params s))).

(* ------------------------------------------------------------------------------------------ *)
(* declared types with type parameters *)

Inductive dty : Type :=
| DParam (i : nat)                      (* pytd.TypeParam: entry i of the declaring class's template *)
| DGround (t : ty)                      (* no type parameter inside *)
| DGeneric (c : cid) (ps : list dty)    (* c is not builtins.type *)
| DTuple (ps : list dty)
| DUnion (ts : list dty).               (* members are not unions (the pyi parser flattens) *)

Definition umembers (t : ty) : list ty := match t with TUnion ts => ts | _ => [t] end.

(* the declared type under the substitution  template[i] := ps[i]  (the specification side) *)
Fixpoint subst_ty (ps : list ty) (d : dty) : ty :=
  match d with
  | DParam i => nth i ps TNothing
  | DGround t => t
  | DGeneric c qs => TGeneric c (map (subst_ty ps) qs)
  | DTuple qs => TTuple (map (subst_ty ps) qs)
  | DUnion ts => TUnion (flat_map (fun m => umembers (subst_ty ps m)) ts)
  end.

Fixpoint mentions_param (d : dty) : bool :=
  match d with
  | DParam _ => true
  | DGround _ => false
  | DGeneric _ ps | DTuple ps | DUnion ps => existsb mentions_param ps
  end.

(* pytd_cls_to_instance_var(p, subst): [top] is subst for a TypeParam that becomes a binding of the variable
   being built itself, [env] for the others (the two differ only on the attribute path, see [attr_read]) *)
Definition dvar_gen (top : list (list aval)) (dinst : dty -> aval) (p : dty) : list aval :=
  match p with
  | DParam i => nth i top []
  | DGround t => conv_var arity t
  | DUnion ts =>
      flat_map (fun m => match m with
                         | DParam i => nth i top []
                         | DGround TNothing => []
                         | DGround t => [inst arity t]
                         | _ => [dinst m]
                         end) ts
  | _ => [dinst p]
  end.

(* _constant_to_value(AsInstance(d), subst) *)
Fixpoint dinst (env : list (list aval)) (d : dty) : aval :=
  match d with
  | DParam _ => VError
  | DGround t => inst arity t
  | DGeneric c ps =>
      if c =? type_id then VError
      else if (length ps <=? arity c)%nat
           then VInstance c (map (dvar_gen env (dinst env)) ps ++ repeat [VUnsolvable] (arity c - length ps))
           else VError
  | DTuple ps => VTuple (map (dvar_gen env (dinst env)) ps)
  | DUnion _ => VError
  end.

Definition dvar (env : list (list aval)) (d : dty) : list aval := dvar_gen env (dinst env) d.

(* A call through `self` (methods, properties): the matcher yields one substitution per VIEW of the instance's
   values for the declaring class's template (one binding per type parameter; first parameter outermost), and
   call_with_args instantiates the return type once per (return type, substitution): a return type that mentions
   a type parameter is converted once per view and the results are pasted together (Optimize's CombineContainers
   merges them again later); a ground return type is converted once. *)
Fixpoint views (env : list (list aval)) : list (list (list aval)) :=
  match env with
  | [] => [[]]
  | vals :: env' => flat_map (fun v => map (fun rest => [v] :: rest) (views env')) vals
  end.
Definition dvar_views (env : list (list aval)) (d : dty) : list aval :=
  if mentions_param d then flat_map (fun e => dvar e d) (views env) else dvar env d.
(* the attribute path: TypeVarInstance (abstract: the instance of a type parameter)s resolved by SHORT name at the top (attribute._filter_var) and by full
   name below (output._type_variable_to_pytd_type) *)
Definition dvar_attr (top env : list (list aval)) (d : dty) : list aval := dvar_gen top (dinst env) d.

(* attribute._filter_var *)
Definition is_tpi (v : aval) : bool := match v with VTParamInst _ => true | _ => false end.
Definition filter_var (vals : list aval) : list aval :=
  if existsb is_tpi vals then
    flat_map (fun v => match v with VTParamInst [] => [VEmpty] | VTParamInst _ => [] | _ => [v] end) vals ++
    flat_map (fun v => match v with VTParamInst vs => vs | _ => [] end) vals
  else vals.

(* ------------------------------------------------------------------------------------------ *)
(* pytd.Class *)

Inductive mkind := KMethod | KStatic | KClassmethod | KProperty.
Inductive member :=
| MConst (d : dty)                                  (* pytd.Constant *)
| MMethod (k : mkind) (sigs : list (sig * dty)).    (* pytd.Function: signatures without self/cls; s_ret unused, the
                                                       declared return type is the dty *)
Record cdecl := mkC {
  k_id : cid;
  k_template : list N;                       (* short names of the TypeVars of the template *)
  k_base : option (cid * list dty);          (* the user base class and its arguments (DParam i | DGround t) *)
  k_members : list (N * member) }.
Definition ctable := list cdecl.

Fixpoint find_class (tbl : ctable) (c : cid) : option cdecl :=
  match tbl with [] => None | k :: tbl' => if k_id k =? c then Some k else find_class tbl' c end.

(* Instance._load_instance_type_parameters for a parameter of a base class: an alias of the subclass's own
   parameter, or the fixed class-level value, instantiated *)
Definition base_var (env : list (list aval)) (a : dty) : list aval :=
  match a with
  | DParam i => nth i env []
  | DGround t => instantiate arity (conv_cls t)
  | _ => [VError]
  end.

(* the classes the lookup walks, with the instance's values for each class's own template *)
Fixpoint chain (fuel : nat) (tbl : ctable) (c : cid) (env : list (list aval)) : list (cdecl * list (list aval)) :=
  match fuel with
  | O => []
  | S fuel' =>
      match find_class tbl c with
      | None => []
      | Some k => (k, env) :: match k_base k with
                              | Some (b, args) => chain fuel' tbl b (map (base_var env) args)
                              | None => [] end
      end
  end.

Fixpoint index_of (n : N) (l : list N) : option nat :=
  match l with [] => None | x :: l' => if x =? n then Some O else option_map S (index_of n l') end.

(* SimpleValue.get_instance_type_parameter(SHORT name): abstract_utils.full_type_name looks in the template of the
   INSTANCE's class first *)
Definition short_env (own_template : list N) (own_env : list (list aval)) (k : cdecl) (env : list (list aval))
  : list (list aval) :=
  map (fun ne => match index_of (fst ne) own_template with
                 | Some j => nth j own_env []
                 | None => snd ne end)
      (combine (k_template k) env).

Definition tpi (env : list (list aval)) : list (list aval) := map (fun vals => [VTParamInst vals]) env.

Fixpoint find_preload (name : N) (ch : list (cdecl * list (list aval))) : option (cdecl * list (list aval) * dty) :=
  match ch with
  | [] => None
  | (k, env) :: ch' =>
      match lookup name (k_members k) with
      | Some (MConst d) => if mentions_param d then Some (k, env, d) else find_preload name ch'
      | _ => find_preload name ch'
      end
  end.

Fixpoint find_first (name : N) (ch : list (cdecl * list (list aval))) : option (cdecl * list (list aval) * member) :=
  match ch with
  | [] => None
  | (k, env) :: ch' =>
      match lookup name (k_members k) with
      | Some m => Some (k, env, m)
      | None => find_first name ch'
      end
  end.

Inductive read_result :=
| RVar (v : list aval)                                           (* the attribute's variable *)
| RBound (k : mkind) (env : list (list aval)) (sigs : list (sig * dty))     (* a bound method, to be called *)
| RUnbound                                                       (* [unbound-type-param] / not modelled *)
| RMissing.

(* x.name  for x an Instance of class c whose instance_type_parameters are [env] (template order).
   [fixed] selects the variant of attribute._filter_var the tree implements:
     false  get_instance_type_parameter(val.name)       the SHORT name, looked up in the template of the instance's
                                                        own class first (the tree before fixes/C06-filter-var-full-name)
     true   get_instance_type_parameter(val.full_name)  the declaring class's own parameter (after the fix)
   The harness probes which one the tree implements and runs the cases under that variant. *)
Definition top_env (fixed : bool) (own_t : list N) (env : list (list aval)) (k : cdecl) (kenv : list (list aval))
  : list (list aval) :=
  if fixed then kenv else short_env own_t env k kenv.
Definition attr_read (fixed : bool) (fuel : nat) (tbl : ctable) (c : cid) (env : list (list aval)) (name : N)
  : read_result :=
  let ch := chain fuel tbl c env in
  let own_t := match find_class tbl c with Some k => k_template k | None => [] end in
  match find_preload name ch with
  | Some (k, kenv, d) => RVar (filter_var (dvar_attr (tpi (top_env fixed own_t env k kenv)) (tpi kenv) d))
  | None =>
      match find_first name ch with
      | Some (_, kenv, MConst d) => RVar (dvar kenv d)
      | Some (_, kenv, MMethod KProperty [(_, r)]) => RVar (dvar_views kenv r)
      | Some (_, kenv, MMethod KProperty _) => RUnbound
      | Some (_, kenv, MMethod k sigs) => RBound k kenv sigs
      | None => RMissing
      end
  end.

(* C.name  on the class itself: constants only when ground; static and class methods *)
Definition class_read (fuel : nat) (tbl : ctable) (c : cid) (name : N) : read_result :=
  match find_first name (chain fuel tbl c []) with
  | Some (_, _, MConst d) => if mentions_param d then RUnbound else RVar (dvar [] d)
  | Some (_, _, MMethod KStatic sigs) => RBound KStatic [] sigs
  | Some (_, _, MMethod KClassmethod sigs) => RBound KClassmethod [] sigs
  | Some (_, _, MMethod _ _) => RUnbound
  | None => RMissing
  end.

(* calling a bound method: the signature is selected like a function's; the return type is converted with the
   substitution the matcher derived from `self` (the instance's values for the declaring class's template);
   with several candidate signatures the type parameters of the return types are replaced by Any first *)
Definition method_call (env : list (list aval)) (sigs : list (sig * dty)) (c : call) : option (list aval) :=
  match select (fun sd => sig_accepts (fst sd) c) (length sigs) (ambiguous_call c) sigs with
  | [] => None
  | [sd] => Some (dvar_views env (snd sd))
  | ss => Some (conv_var arity (combine_returns (map (fun sd => subst_ty (repeat TAny (length env)) (snd sd)) ss)))
  end.

(* y = x.name            (x: c[ps] a module constant of A) *)
Definition inst_env (ps : list ty) : list (list aval) := map (conv_var arity) ps.
Definition read_emitted (fixed : bool) (fuel : nat) (tbl : ctable) (c : cid) (ps : list ty) (name : N) : tydef * bool :=
  match attr_read fixed fuel tbl c (inst_env ps) name with
  | RVar v => emitted (Some v)
  | _ => (DConst TAny, false)
  end.
(* y = x.name(args) *)
(* (a bound method comes from the class lookup, which does not depend on the _filter_var variant) *)
Definition mcall_emitted (fuel : nat) (tbl : ctable) (c : cid) (ps : list ty) (name : N) (cl : call) : tydef * bool :=
  match attr_read false fuel tbl c (inst_env ps) name with
  | RBound _ env sigs => emitted (method_call env sigs cl)
  | _ => (DConst TAny, false)
  end.
(* y = C.name   /   y = C.name(args) *)
Definition cread_emitted (fuel : nat) (tbl : ctable) (c : cid) (name : N) : tydef * bool :=
  match class_read fuel tbl c name with
  | RVar v => emitted (Some v)
  | _ => (DConst TAny, false)
  end.
Definition ccall_emitted (fuel : nat) (tbl : ctable) (c : cid) (name : N) (cl : call) : tydef * bool :=
  match class_read fuel tbl c name with
  | RBound _ env sigs => emitted (method_call env sigs cl)
  | _ => (DConst TAny, false)
  end.

(* `from A import C`, `C2 = A.C`: the PyTDClass stored under a name in B *)
Definition reexport_class (c : cid) : tydef := out_top arity (store_name (conv_alias (TClass c))).

(* ---- the specification side ---- *)

(* the declared type of x.name read off the stub: the first class of the chain that declares it, with the
   instance's parameters substituted along the chain *)
Definition base_ty (ps : list ty) (a : dty) : ty := subst_ty ps a.
Fixpoint tchain (fuel : nat) (tbl : ctable) (c : cid) (ps : list ty) : list (cdecl * list ty) :=
  match fuel with
  | O => []
  | S fuel' =>
      match find_class tbl c with
      | None => []
      | Some k => (k, ps) :: match k_base k with
                             | Some (b, args) => tchain fuel' tbl b (map (base_ty ps) args)
                             | None => [] end
      end
  end.
Fixpoint tfind_first (name : N) (ch : list (cdecl * list ty)) : option (list ty * member) :=
  match ch with
  | [] => None
  | (k, ps) :: ch' => match lookup name (k_members k) with Some m => Some (ps, m) | None => tfind_first name ch' end
  end.
(* the first PARAMETRIC constant of that name up the chain (the one convert_as_instance_attribute preloads) *)
Fixpoint tfind_preload (name : N) (ch : list (cdecl * list ty)) : option (list ty * dty) :=
  match ch with
  | [] => None
  | (k, ps) :: ch' =>
      match lookup name (k_members k) with
      | Some (MConst d) => if mentions_param d then Some (ps, d) else tfind_preload name ch'
      | _ => tfind_preload name ch'
      end
  end.
(* every base-class argument is a type parameter of the subclass or a plain class *)
Definition simple_arg (a : dty) : bool :=
  match a with DParam _ => true | DGround (TClass _) => true | _ => false end.
Definition simple_tbl (tbl : ctable) : bool :=
  forallb (fun k => match k_base k with Some (_, args) => forallb simple_arg args | None => true end) tbl.
Definition declared_attr (fuel : nat) (tbl : ctable) (c : cid) (ps : list ty) (name : N) : option ty :=
  match tfind_first name (tchain fuel tbl c ps) with
  | Some (kps, MConst d) => Some (subst_ty kps d)
  | Some (kps, MMethod KProperty [(_, r)]) => Some (subst_ty kps r)
  | _ => None
  end.

(* ---- the declared types the substitution theorems speak about ---- *)

Definition dwf_member (m : dty) : bool :=
  match m with DUnion _ => false | DGround (TUnion _) => false | _ => true end.
(* no union directly below a union (the pyi parser flattens them), no builtins.type with parameters, at most as many
   parameters as the class's template *)
Fixpoint dwf (d : dty) : bool :=
  match d with
  | DParam _ => true
  | DGround _ => true
  | DGeneric c ps => negb (c =? type_id) && (length ps <=? arity c)%nat && forallb dwf ps
  | DTuple ps => forallb dwf ps
  | DUnion ts => forallb dwf ts && forallb dwf_member ts
  end.
(* no type parameter DIRECTLY below a Union, and not at the top (attribute path: a container of / a tuple with ...) *)
Definition is_dparam (d : dty) : bool := match d with DParam _ => true | _ => false end.
Fixpoint no_param_union (d : dty) : bool :=
  match d with
  | DParam _ | DGround _ => true
  | DGeneric _ ps | DTuple ps => forallb no_param_union ps
  | DUnion ts => forallb no_param_union ts && negb (existsb is_dparam ts)
  end.
Definition container_like (d : dty) : bool := match d with DGeneric _ _ | DTuple _ => true | _ => false end.
(* one view: every parameter value of the declaring class is a single binding *)
Definition single_ty (p : ty) : bool := negb (is_union p) && negb (is_nothing p).
Definition nonempty_ty (p : ty) : bool := match conv_var arity p with [] => false | _ => true end.

End WithMatcher.
