(* C06 — lemmas about the declaration-level model (Conv/Decl.v). *)
From Coq Require Import List Bool NArith Arith Lia.
From PV Require Import Conv.Model Conv.Proofs Conv.Decl.
Import ListNotations.
Open Scope N_scope.

(* induction principle for dty with the nested lists *)
Section DtyInd.
Variable P : dty -> Prop.
Hypothesis Hparam : forall i, P (DParam i).
Hypothesis Hground : forall t, P (DGround t).
Hypothesis Hgen : forall c ps, Forall P ps -> P (DGeneric c ps).
Hypothesis Htup : forall ps, Forall P ps -> P (DTuple ps).
Hypothesis Hunion : forall ts, Forall P ts -> P (DUnion ts).
Fixpoint dty_ind' (d : dty) : P d :=
  let fix all (l : list dty) : Forall P l :=
    match l with [] => Forall_nil P | x :: l' => Forall_cons x (dty_ind' x) (all l') end in
  match d with
  | DParam i => Hparam i
  | DGround t => Hground t
  | DGeneric c ps => Hgen c ps (all ps)
  | DTuple ps => Htup ps (all ps)
  | DUnion ts => Hunion ts (all ts)
  end.
End DtyInd.

(* ------------------------------------------------------------------------------------------ *)
(* JoinTypes is idempotent *)

Definition flat_fixed (y : ty) : Prop := flat y = [y].

Lemma flat_elems : forall x, Forall flat_fixed (flat x).
Proof.
  apply (ty_ind' (fun x => Forall flat_fixed (flat x))); simpl; intros;
    try (repeat constructor; reflexivity).
  apply Forall_flat_map. exact H.
Qed.

Lemma flat_map_fixed l : Forall flat_fixed l -> flat_map flat l = l.
Proof. induction 1 as [|y l Hy _ IH]; simpl; auto. rewrite Hy, IH. reflexivity. Qed.

Lemma dedup_acc_Forall (P : ty -> Prop) l : forall seen, Forall P l -> Forall P (dedup_acc seen l).
Proof.
  induction l as [|x l IH]; intros seen H; simpl; auto.
  inversion H; subst. destruct (existsb (ty_eqb x) seen); auto.
Qed.

Lemma dedup_acc_idem l : forall seen, dedup_acc seen (dedup_acc seen l) = dedup_acc seen l.
Proof.
  induction l as [|x l IH]; intros seen; simpl; auto.
  destruct (existsb (ty_eqb x) seen) eqn:E; auto.
  simpl. rewrite E. rewrite IH. reflexivity.
Qed.

Lemma join_idem xs : join [join xs] = join xs.
Proof.
  unfold join at 2 3. set (new := dedup (flat_map flat xs)).
  assert (Forall flat_fixed new) as Hf.
  { apply dedup_acc_Forall. apply Forall_flat_map. apply Forall_forall. intros x _. apply flat_elems. }
  assert (dedup new = new) as Hd by apply dedup_acc_idem.
  assert (join [TUnion new] = match new with
                               | [x] => x
                               | _ => if existsb is_any new
                                      then (if existsb is_nonetype new then TUnion [TAny; TClass none_id] else TAny)
                                      else match new with [] => TNothing | _ => TUnion new end
                               end) as HU.
  { unfold join. cbn [flat_map flat]. rewrite app_nil_r, (flat_map_fixed _ Hf), Hd. reflexivity. }
  destruct new as [|x [|y l]] eqn:En.
  - reflexivity.
  - inversion Hf; subst. unfold join. cbn [flat_map]. rewrite app_nil_r. rewrite H1. reflexivity.
  - destruct (existsb is_any (x :: y :: l)) eqn:Ea.
    + destruct (existsb is_nonetype (x :: y :: l)); reflexivity.
    + rewrite HU. rewrite ?Ea. reflexivity.
Qed.

(* ------------------------------------------------------------------------------------------ *)
(* functions *)

Section Calls.
Variable arity : cid -> nat.
Variable acc : ty -> ty -> bool.
Hypothesis arity_type : arity type_id = 1%nat.
Hypothesis arity_tuple : arity tuple_id = 1%nat.

Lemma select_single {S} (accepts : S -> bool) n amb s :
  accepts s = true -> select accepts n amb [s] = [s].
Proof. intros H. unfold select. simpl. rewrite H. destruct ((1 <? n)%nat && amb); reflexivity. Qed.

(* a function with ONE signature: whatever the arguments are (unions, Any, omitted defaults, *args, **kwargs,
   keyword-only), if the signature accepts the call the emitted type of  y = f(...)  is the declared return type *)
Lemma call_single_sig_lemma s c :
  sig_accepts acc s c = true -> wf_top arity (s_ret s) = true ->
  snd (call_emitted arity acc [s] c) = true /\
  nf (def_ty (fst (call_emitted arity acc [s] c))) = nf (s_ret s).
Proof.
  intros Hacc Hwf. unfold call_emitted, call_var.
  rewrite (select_single (fun s0 => sig_accepts acc s0 c)) by exact Hacc.
  simpl. split; [reflexivity|].
  exact (conv_out_id_lemma arity arity_type arity_tuple (s_ret s) Hwf).
Qed.

Lemma call_rejected_lemma s c :
  sig_accepts acc s c = false -> call_emitted arity acc [s] c = (DConst TAny, false).
Proof.
  intros H. unfold call_emitted, call_var, select. simpl. rewrite H. reflexivity.
Qed.

(* overloads: which signature is picked *)
Fixpoint first_accepting (c : call) (f : list sig) : option sig :=
  match f with
  | [] => None
  | s :: f' => if sig_accepts acc s c then Some s else first_accepting c f'
  end.

Lemma filter_first c f :
  match first_accepting c f with
  | Some s => exists rest, filter (fun s0 => sig_accepts acc s0 c) f = s :: rest
  | None => filter (fun s0 => sig_accepts acc s0 c) f = []
  end.
Proof.
  induction f as [|s f IH]; simpl; auto.
  destruct (sig_accepts acc s c) eqn:E; [eexists; reflexivity|exact IH].
Qed.

(* not ambiguous (no argument variable holds Any / an empty value): the FIRST signature, in the order of the stub,
   that accepts the call is the one whose return type is emitted; none accepts: error and Any *)
Lemma overload_first_match_lemma f c :
  ambiguous_call arity c = false ->
  match first_accepting c f with
  | Some s => wf_top arity (s_ret s) = true ->
              snd (call_emitted arity acc f c) = true /\
              nf (def_ty (fst (call_emitted arity acc f c))) = nf (s_ret s)
  | None => call_emitted arity acc f c = (DConst TAny, false)
  end.
Proof.
  intros Hamb. pose proof (filter_first c f) as H.
  destruct (first_accepting c f) as [s|].
  - destruct H as [rest H]. intros Hwf. unfold call_emitted, call_var, select. rewrite H, Hamb, andb_false_r.
    simpl. split; [reflexivity|].
    exact (conv_out_id_lemma arity arity_type arity_tuple (s_ret s) Hwf).
  - unfold call_emitted, call_var, select. rewrite H. reflexivity.
Qed.

(* the k-th signature called with arguments it accepts and that no earlier signature accepts *)
Lemma first_accepting_own c pre s post :
  forallb (fun s0 => negb (sig_accepts acc s0 c)) pre = true -> sig_accepts acc s c = true ->
  first_accepting c (pre ++ s :: post) = Some s.
Proof.
  induction pre as [|p pre IH]; simpl; intros Hpre Hs.
  - rewrite Hs. reflexivity.
  - apply andb_true_iff in Hpre. destruct Hpre as [Hp Hpre]. apply negb_true_iff in Hp. rewrite Hp. auto.
Qed.

End Calls.

(* the canonical own-types call of a signature without defaults, *args, **kwargs: every formal gets the constant
   of its own type *)
Lemma zip_pos_map (ps : list param) :
  zip_pos (map p_name ps) (map p_ty ps) = map (fun p => (p_name p, p_ty p)) ps.
Proof. induction ps; simpl; congruence. Qed.

(* ------------------------------------------------------------------------------------------ *)
(* classes *)

Section Classes.
Variable arity : cid -> nat.
Hypothesis arity_type : arity type_id = 1%nat.
Hypothesis arity_tuple : arity tuple_id = 1%nat.

(* `from A import C` / `C2 = A.C`: the class is re-emitted as the class-valued attribute type[C] *)
Lemma reexport_class_lemma c :
  c <> 0 -> c <> type_id -> nf (def_ty (reexport_class arity c)) = TGeneric type_id [TClass c].
Proof.
  intros H0 Ht. unfold reexport_class.
  assert (wf arity (TClass c) = true) as Hwf.
  { simpl. apply andb_true_iff. split; apply negb_true_iff; apply N.eqb_neq; assumption. }
  rewrite (alias_out_id_lemma arity arity_type arity_tuple (TClass c) Hwf eq_refl eq_refl).
  reflexivity.
Qed.

(* a ground attribute (constant or property) found by the class lookup: the variable is the conversion of the
   declared type, whatever the chain and the instance's parameters are *)
Lemma views_single env : Forall (fun vals => exists v, vals = [v]) env -> views env = [env].
Proof.
  induction 1 as [|vals env [v ->] _ IH]; simpl; auto. rewrite IH. reflexivity.
Qed.

Lemma dvar_ground env t : dvar arity env (DGround t) = conv_var arity t.
Proof. reflexivity. Qed.

Lemma dvar_views_ground env t : dvar_views arity env (DGround t) = conv_var arity t.
Proof. reflexivity. Qed.

Lemma dvar_views_single env d :
  Forall (fun vals => exists v, vals = [v]) env -> dvar_views arity env d = dvar arity env d.
Proof.
  intros H. unfold dvar_views. destruct (mentions_param d); auto.
  rewrite views_single by exact H. simpl. apply app_nil_r.
Qed.

Lemma emitted_ground t :
  wf_top arity t = true ->
  snd (emitted arity (Some (conv_var arity t))) = true /\
  nf (def_ty (fst (emitted arity (Some (conv_var arity t))))) = nf t.
Proof.
  intros Hwf. simpl. split; auto. exact (conv_out_id_lemma arity arity_type arity_tuple t Hwf).
Qed.

(* x: T read at the top of an attribute: _filter_var splices the instance's values in *)
Lemma filter_var_tpi_single vals :
  existsb is_tpi vals = false -> vals <> [] -> filter_var [VTParamInst vals] = vals.
Proof.
  intros _ Hne. unfold filter_var. simpl. destruct vals; [congruence|]. simpl. rewrite app_nil_r. reflexivity.
Qed.

(* ---- the chain of the model is the chain of the specification, converted ---- *)

Lemma find_class_simple tbl c k :
  simple_tbl tbl = true -> find_class tbl c = Some k ->
  match k_base k with Some (_, args) => forallb simple_arg args = true | None => True end.
Proof.
  unfold simple_tbl. induction tbl as [|k0 tbl IH]; simpl; intros Hs Hf; [discriminate|].
  apply andb_true_iff in Hs. destruct Hs as [Hk Hs].
  destruct (k_id k0 =? c).
  - inversion Hf; subst. revert Hk. destruct (k_base k) as [[b args]|]; auto.
  - apply IH; auto.
Qed.

Lemma base_var_sim ps a :
  simple_arg a = true -> base_var arity (inst_env arity ps) a = conv_var arity (base_ty ps a).
Proof.
  destruct a as [i|t| | |]; simpl; intros H; try discriminate.
  - unfold inst_env, base_ty. simpl.
    change (@nil aval) with (conv_var arity TNothing). apply map_nth.
  - destruct t; try discriminate. reflexivity.
Qed.

Lemma base_env_sim ps args :
  forallb simple_arg args = true ->
  map (base_var arity (inst_env arity ps)) args = inst_env arity (map (base_ty ps) args).
Proof.
  induction args as [|a args IH]; simpl; intros H; auto.
  apply andb_true_iff in H. destruct H as [Ha H]. rewrite base_var_sim by exact Ha. rewrite IH by exact H.
  reflexivity.
Qed.

Definition conv_link (kp : cdecl * list ty) : cdecl * list (list aval) := (fst kp, inst_env arity (snd kp)).

Lemma chain_sim tbl : simple_tbl tbl = true -> forall fuel c ps,
  chain arity fuel tbl c (inst_env arity ps) = map conv_link (tchain fuel tbl c ps).
Proof.
  intros Hs. induction fuel as [|fuel IH]; intros c ps; simpl; auto.
  destruct (find_class tbl c) as [k|] eqn:Hf; auto.
  pose proof (find_class_simple tbl c k Hs Hf) as Hb.
  simpl. unfold conv_link at 1. simpl. f_equal.
  destruct (k_base k) as [[b args]|]; auto.
  rewrite base_env_sim by exact Hb. apply IH.
Qed.

Lemma find_preload_sim name tch :
  find_preload name (map conv_link tch) =
  match tfind_preload name tch with
  | Some (kps, d) => match find_preload name (map conv_link tch) with
                     | Some (k, _, _) => Some (k, inst_env arity kps, d) | None => None end
  | None => None
  end /\
  (forall kps d, tfind_preload name tch = Some (kps, d) -> exists k, find_preload name (map conv_link tch) = Some (k, inst_env arity kps, d)).
Proof.
  induction tch as [|[k ps] tch [IH1 IH2]]; simpl.
  - split; [reflexivity|]. intros; discriminate.
  - destruct (lookup name (k_members k)) as [[d|mk sigs]|].
    + destruct (mentions_param d).
      * split; [reflexivity|]. intros kps d0 H. inversion H; subst. eexists; reflexivity.
      * split; [exact IH1|exact IH2].
    + split; [exact IH1|exact IH2].
    + split; [exact IH1|exact IH2].
Qed.

(* ---- no TypeVar instance comes out of the conversion of a ground type ---- *)

Lemma conv_cls_not_tpi : forall t, is_tpi (conv_cls t) = false.
Proof.
  apply (ty_ind' (fun t => is_tpi (conv_cls t) = false)); simpl; auto.
  intros ts H. destruct ts as [|t1 [|t2 ts']]; simpl; auto. inversion H; auto.
Qed.

Lemma inst_not_tpi t : is_tpi (inst arity t) = false.
Proof.
  destruct t; simpl; auto.
  - unfold bare_inst. destruct (c =? type_id); [destruct (arity c) as [|[|n]]; reflexivity|].
    destruct ((c =? none_id) && (arity c =? 0)%nat); reflexivity.
  - destruct (c =? type_id).
    + destruct ps as [|u [|u' ps']]; simpl; auto. apply conv_cls_not_tpi.
    + destruct (length ps <=? arity c)%nat; reflexivity.
  - destruct ts as [|t1 [|t2 ts']]; simpl; auto. apply conv_cls_not_tpi.
Qed.

Lemma conv_var_not_tpi t : existsb is_tpi (conv_var arity t) = false.
Proof.
  destruct t as [| |c|c ps|ps|a r|ts|];
    try (unfold conv_var; cbn [var_of existsb]; rewrite ?inst_not_tpi; reflexivity).
  unfold conv_var. cbn [var_of].
  induction ts as [|m ts IH]; [reflexivity|].
  cbn [flat_map]. rewrite existsb_app, IH, orb_false_r.
  destruct m; cbn [existsb]; rewrite ?inst_not_tpi; reflexivity.
Qed.

Lemma conv_var_nonempty t : wf_top arity t = true -> conv_var arity t <> [].
Proof.
  unfold wf_top. intros H. apply andb_true_iff in H. destruct H as [Hwf Hn]. apply negb_true_iff in Hn.
  destruct (member_ok t) eqn:Hm.
  - rewrite (conv_var_single arity t Hm). intros E; discriminate E.
  - destruct t; simpl in Hm, Hn; try discriminate; try (simpl in Hwf; discriminate).
    destruct (wf_union_inv arity _ Hwf) as (Hl & _ & Hms & _).
    rewrite (conv_var_union arity ts) by exact Hms.
    destruct ts; simpl in *; [lia|intros E; discriminate E].
Qed.

(* x: T read at the top of an attribute, AFTER the fix (resolution by full name): the instance's value for the
   declaring class's own parameter, i.e. the declared type under the substitution along the chain *)
Lemma attr_typevar_read_fixed_lemma fuel tbl c ps name kps i :
  simple_tbl tbl = true ->
  tfind_preload name (tchain fuel tbl c ps) = Some (kps, DParam i) ->
  wf_top arity (subst_ty kps (DParam i)) = true ->
  snd (read_emitted arity true fuel tbl c ps name) = true /\
  nf (def_ty (fst (read_emitted arity true fuel tbl c ps name))) = nf (subst_ty kps (DParam i)).
Proof.
  intros Hs Hpre Hwf. simpl in Hwf |- *.
  unfold read_emitted, attr_read. rewrite (chain_sim tbl Hs).
  destruct (proj2 (find_preload_sim name (tchain fuel tbl c ps)) kps (DParam i) Hpre) as [k ->].
  unfold top_env, dvar_attr, dvar_gen, tpi.
  assert (i < length kps)%nat as Hlt.
  { destruct (Nat.ltb i (length kps)) eqn:E; [apply Nat.ltb_lt; exact E|].
    apply Nat.ltb_ge in E. rewrite nth_overflow in Hwf by exact E. discriminate. }
  rewrite (nth_indep _ [] ((fun vals => [VTParamInst vals]) [])) by (unfold inst_env; rewrite !map_length; exact Hlt).
  rewrite (map_nth (fun vals => [VTParamInst vals])).
  assert (nth i (inst_env arity kps) [] = conv_var arity (nth i kps TNothing)) as ->
    by exact (map_nth (conv_var arity) kps TNothing i).
  rewrite (filter_var_tpi_single _ (conv_var_not_tpi _) (conv_var_nonempty _ Hwf)).
  exact (emitted_ground _ Hwf).
Qed.

(* ---- conversion with a substitution = conversion of the substituted type ---- *)

Definition gmem (m : ty) : list aval := match m with TNothing => [] | _ => [inst arity m] end.

Lemma gmem_umembers p : flat_map gmem (umembers p) = conv_var arity p.
Proof. destruct p; simpl; try reflexivity. Qed.

Lemma conv_var_union_raw ts : conv_var arity (TUnion ts) = flat_map gmem ts.
Proof. reflexivity. Qed.

Definition inst_pos (d : dty) : bool := match d with DParam _ | DUnion _ => false | _ => true end.

Lemma nth_inst_env ps i : nth i (inst_env arity ps) [] = conv_var arity (nth i ps TNothing).
Proof. exact (map_nth (conv_var arity) ps TNothing i). Qed.

Lemma dvar_subst ps : forall d, dwf arity d = true ->
  dvar arity (inst_env arity ps) d = conv_var arity (subst_ty ps d) /\
  (inst_pos d = true -> dinst arity (inst_env arity ps) d = inst arity (subst_ty ps d)).
Proof.
  set (env := inst_env arity ps).
  apply (dty_ind' (fun d => dwf arity d = true ->
     dvar arity env d = conv_var arity (subst_ty ps d) /\
     (inst_pos d = true -> dinst arity env d = inst arity (subst_ty ps d)))).
  - (* param *) intros i _. split; [|discriminate]. unfold dvar, dvar_gen. simpl. apply nth_inst_env.
  - (* ground *) intros t _. split; reflexivity.
  - (* generic *)
    intros c qs IH Hwf. cbn [dwf] in Hwf.
    apply andb_true_iff in Hwf. destruct Hwf as [Hwf Hqs]. apply andb_true_iff in Hwf. destruct Hwf as [Hc Hl].
    apply negb_true_iff in Hc.
    assert (dinst arity env (DGeneric c qs) = inst arity (subst_ty ps (DGeneric c qs))) as E.
    { cbn [dinst subst_ty inst]. rewrite Hc, map_length, Hl. f_equal. f_equal.
      rewrite map_map. apply map_ext_Forall.
      rewrite forallb_Forall in Hqs. rewrite Forall_forall in *. intros q Hq.
      exact (proj1 (IH q Hq (Hqs q Hq))). }
    split; [|intros _; exact E].
    unfold dvar, dvar_gen. fold (dinst arity env). rewrite E. reflexivity.
  - (* tuple *)
    intros qs IH Hwf. cbn [dwf] in Hwf.
    assert (dinst arity env (DTuple qs) = inst arity (subst_ty ps (DTuple qs))) as E.
    { cbn [dinst subst_ty inst]. f_equal. rewrite map_map. apply map_ext_Forall.
      rewrite forallb_Forall in Hwf. rewrite Forall_forall in *. intros q Hq.
      exact (proj1 (IH q Hq (Hwf q Hq))). }
    split; [|intros _; exact E].
    unfold dvar, dvar_gen. fold (dinst arity env). rewrite E. reflexivity.
  - (* union *)
    intros ts IH Hwf. cbn [dwf] in Hwf. apply andb_true_iff in Hwf. destruct Hwf as [Hts Hms].
    split; [|discriminate].
    cbn [subst_ty]. rewrite conv_var_union_raw, flat_map_flat_map.
    unfold dvar, dvar_gen. fold (dinst arity env).
    apply flat_map_ext_Forall.
    rewrite forallb_Forall in Hts, Hms. rewrite Forall_forall in *. intros m Hm.
    specialize (IH m Hm (Hts m Hm)). specialize (Hms m Hm). destruct IH as [IH1 IH2].
    rewrite gmem_umembers.
    destruct m as [i|t|c qs|qs|us].
    + exact IH1.
    + destruct t; try reflexivity. simpl in Hms. discriminate.
    + rewrite (IH2 eq_refl). reflexivity.
    + rewrite (IH2 eq_refl). reflexivity.
    + simpl in Hms. discriminate.
Qed.

Lemma find_preload_none_sim name tch :
  tfind_preload name tch = None -> find_preload name (map conv_link tch) = None.
Proof.
  induction tch as [|[k ps] tch IH]; simpl; auto.
  destruct (lookup name (k_members k)) as [[d|mk sigs]|]; auto.
  destruct (mentions_param d); [discriminate|auto].
Qed.

Lemma find_first_sim name tch kps m :
  tfind_first name tch = Some (kps, m) ->
  exists k, find_first name (map conv_link tch) = Some (k, inst_env arity kps, m).
Proof.
  induction tch as [|[k ps] tch IH]; simpl; [discriminate|].
  destruct (lookup name (k_members k)) as [m0|].
  - intros H. inversion H; subst. eexists; reflexivity.
  - exact IH.
Qed.

Lemma single_env kps :
  forallb single_ty kps = true -> Forall (fun vals => exists v, vals = [v]) (inst_env arity kps).
Proof.
  induction kps as [|p kps IH]; simpl; intros H; constructor.
  - apply andb_true_iff in H. destruct H as [H _]. unfold single_ty in H.
    apply andb_true_iff in H. destruct H as [Hu Hn]. apply negb_true_iff in Hu, Hn.
    destruct p; simpl in Hu, Hn; try discriminate; eexists; reflexivity.
  - apply IH. apply andb_true_iff in H. tauto.
Qed.

Section MethodCalls.
Variable acc : ty -> ty -> bool.

(* A method (any kind but a property) declared in a class of the chain -- the instance's own class or a generic base,
   with the base arguments substituted along the chain -- called on an instance whose values for the declaring
   class's parameters are single bindings (one view): the emitted type of  y = x.m(args)  is the declared return
   type under the instance's substitution.  The return type may mention the parameters anywhere, also directly below
   a Union. *)
Lemma method_call_result_lemma fuel tbl c ps name kps mk s dret cl :
  simple_tbl tbl = true ->
  tfind_preload name (tchain fuel tbl c ps) = None ->
  tfind_first name (tchain fuel tbl c ps) = Some (kps, MMethod mk [(s, dret)]) ->
  mk <> KProperty ->
  forallb single_ty kps = true -> dwf arity dret = true ->
  sig_accepts acc s cl = true ->
  wf_top arity (subst_ty kps dret) = true ->
  snd (mcall_emitted arity acc fuel tbl c ps name cl) = true /\
  nf (def_ty (fst (mcall_emitted arity acc fuel tbl c ps name cl))) = nf (subst_ty kps dret).
Proof.
  intros Hs Hpre Hfirst Hmk Hsingle Hdwf Hacc Hwf.
  unfold mcall_emitted, attr_read. rewrite (chain_sim tbl Hs).
  rewrite (find_preload_none_sim _ _ Hpre).
  destruct (find_first_sim _ _ _ _ Hfirst) as [k ->].
  assert (method_call arity acc (inst_env arity kps) [(s, dret)] cl = Some (conv_var arity (subst_ty kps dret))) as E.
  { unfold method_call. rewrite (select_single (fun sd : sig * dty => sig_accepts acc (fst sd) cl)) by exact Hacc.
    cbn [snd]. rewrite (dvar_views_single _ _ (single_env _ Hsingle)).
    rewrite (proj1 (dvar_subst kps dret Hdwf)). reflexivity. }
  destruct mk; try congruence; rewrite E; exact (emitted_ground _ Hwf).
Qed.

End MethodCalls.

(* the same for a property *)
Lemma property_read_lemma fixed fuel tbl c ps name kps s dret :
  simple_tbl tbl = true ->
  tfind_preload name (tchain fuel tbl c ps) = None ->
  tfind_first name (tchain fuel tbl c ps) = Some (kps, MMethod KProperty [(s, dret)]) ->
  forallb single_ty kps = true -> dwf arity dret = true ->
  wf_top arity (subst_ty kps dret) = true ->
  snd (read_emitted arity fixed fuel tbl c ps name) = true /\
  nf (def_ty (fst (read_emitted arity fixed fuel tbl c ps name))) = nf (subst_ty kps dret).
Proof.
  intros Hs Hpre Hfirst Hsingle Hdwf Hwf.
  unfold read_emitted, attr_read. rewrite (chain_sim tbl Hs).
  rewrite (find_preload_none_sim _ _ Hpre).
  destruct (find_first_sim _ _ _ _ Hfirst) as [k ->].
  rewrite (dvar_views_single _ _ (single_env _ Hsingle)).
  rewrite (proj1 (dvar_subst kps dret Hdwf)).
  exact (emitted_ground _ Hwf).
Qed.

(* ---- the attribute path: TypeVar instances below containers are resolved at output time ---- *)

Lemma nth_tpi env i :
  nth i (tpi env) [] = if (i <? length env)%nat then [VTParamInst (nth i env [])] else [].
Proof.
  unfold tpi. destruct (i <? length env)%nat eqn:E.
  - apply Nat.ltb_lt in E.
    rewrite (nth_indep _ [] ((fun vals => [VTParamInst vals]) [])) by (rewrite map_length; exact E).
    apply (map_nth (fun vals => [VTParamInst vals])).
  - apply Nat.ltb_ge in E. apply nth_overflow. rewrite map_length. exact E.
Qed.

Lemma out_congr env : Forall (fun vals => vals <> []) env -> forall d,
  dwf arity d = true -> no_param_union d = true ->
  join (map (out arity) (dvar_gen arity (tpi env) (dinst arity (tpi env)) d)) = join (map (out arity) (dvar arity env d)) /\
  (is_dparam d = false ->
     map (out arity) (dvar_gen arity (tpi env) (dinst arity (tpi env)) d) = map (out arity) (dvar arity env d)) /\
  (inst_pos d = true -> out arity (dinst arity (tpi env) d) = out arity (dinst arity env d)).
Proof.
  intros Hne.
  apply (dty_ind' (fun d => dwf arity d = true -> no_param_union d = true ->
    join (map (out arity) (dvar_gen arity (tpi env) (dinst arity (tpi env)) d)) = join (map (out arity) (dvar arity env d)) /\
    (is_dparam d = false ->
       map (out arity) (dvar_gen arity (tpi env) (dinst arity (tpi env)) d) = map (out arity) (dvar arity env d)) /\
    (inst_pos d = true -> out arity (dinst arity (tpi env) d) = out arity (dinst arity env d)))).
  - (* param *)
    intros i _ _. split; [|split; discriminate].
    unfold dvar, dvar_gen. rewrite nth_tpi. destruct (i <? length env)%nat eqn:E.
    + apply Nat.ltb_lt in E.
      assert (nth i env [] <> []) as Hi by (rewrite Forall_forall in Hne; apply Hne; apply nth_In; exact E).
      cbn [map]. destruct (nth i env []) as [|v vs] eqn:Ev; [congruence|].
      cbn [out]. fold (out arity). apply join_idem.
    + apply Nat.ltb_ge in E. rewrite nth_overflow by exact E. reflexivity.
  - (* ground *) intros t _ _. repeat split; reflexivity.
  - (* generic *)
    intros c qs IH Hwf Hnp. cbn [dwf] in Hwf. cbn [no_param_union] in Hnp.
    apply andb_true_iff in Hwf. destruct Hwf as [_ Hqs].
    assert (out arity (dinst arity (tpi env) (DGeneric c qs)) = out arity (dinst arity env (DGeneric c qs))) as E.
    { cbn [dinst]. destruct (c =? type_id); [reflexivity|].
      destruct (length qs <=? arity c)%nat; [|reflexivity].
      cbn [out]. rewrite !map_app. rewrite !map_map.
      assert (map (fun x => join (map (out arity) (dvar_gen arity (tpi env) (dinst arity (tpi env)) x))) qs =
              map (fun x => join (map (out arity) (dvar_gen arity env (dinst arity env) x))) qs) as ->.
      { apply map_ext_Forall. rewrite forallb_Forall in Hqs, Hnp. rewrite Forall_forall in *.
        intros q Hq. exact (proj1 (IH q Hq (Hqs q Hq) (Hnp q Hq))). }
      assert (forall n, map (fun var => join (map (out arity) var)) (repeat [VUnsolvable] n) =
                        map (fun var => join (map (out arity) var)) (repeat [VUnsolvable] n)) by reflexivity.
      reflexivity. }
    assert (map (out arity) (dvar_gen arity (tpi env) (dinst arity (tpi env)) (DGeneric c qs)) =
            map (out arity) (dvar arity env (DGeneric c qs))) as M.
    { unfold dvar, dvar_gen. fold (dinst arity (tpi env)). fold (dinst arity env). cbn [map]. rewrite E. reflexivity. }
    split; [rewrite M; reflexivity|split; auto].
  - (* tuple *)
    intros qs IH Hwf Hnp. cbn [dwf] in Hwf. cbn [no_param_union] in Hnp.
    assert (out arity (dinst arity (tpi env) (DTuple qs)) = out arity (dinst arity env (DTuple qs))) as E.
    { cbn [dinst out]. rewrite !map_map.
      assert (map (fun x => join (map (out arity) (dvar_gen arity (tpi env) (dinst arity (tpi env)) x))) qs =
              map (fun x => join (map (out arity) (dvar_gen arity env (dinst arity env) x))) qs) as ->.
      { apply map_ext_Forall. rewrite forallb_Forall in Hwf, Hnp. rewrite Forall_forall in *.
        intros q Hq. exact (proj1 (IH q Hq (Hwf q Hq) (Hnp q Hq))). }
      reflexivity. }
    assert (map (out arity) (dvar_gen arity (tpi env) (dinst arity (tpi env)) (DTuple qs)) =
            map (out arity) (dvar arity env (DTuple qs))) as M.
    { unfold dvar, dvar_gen. fold (dinst arity (tpi env)). fold (dinst arity env). cbn [map]. rewrite E. reflexivity. }
    split; [rewrite M; reflexivity|split; auto].
  - (* union *)
    intros ts IH Hwf Hnp. cbn [dwf] in Hwf. cbn [no_param_union] in Hnp.
    apply andb_true_iff in Hwf. destruct Hwf as [Hts Hms].
    apply andb_true_iff in Hnp. destruct Hnp as [Hnp Hnd]. apply negb_true_iff in Hnd.
    assert (map (out arity) (dvar_gen arity (tpi env) (dinst arity (tpi env)) (DUnion ts)) =
            map (out arity) (dvar arity env (DUnion ts))) as M.
    { unfold dvar, dvar_gen. fold (dinst arity (tpi env)). fold (dinst arity env).
      rewrite !map_flat_map. apply flat_map_ext_Forall.
      rewrite forallb_Forall in Hts, Hms, Hnp. rewrite Forall_forall in *. intros m Hm.
      assert (is_dparam m = false) as Hdp.
      { destruct (is_dparam m) eqn:Edp; auto.
        assert (existsb is_dparam ts = true) by (apply existsb_exists; exists m; auto). congruence. }
      specialize (IH m Hm (Hts m Hm) (Hnp m Hm)). destruct IH as (_ & _ & IHo). specialize (Hms m Hm).
      destruct m as [i|t|c qs|qs|us]; try discriminate.
      - destruct t; reflexivity.
      - cbn [map]. rewrite (IHo eq_refl). reflexivity.
      - cbn [map]. rewrite (IHo eq_refl). reflexivity. }
    split; [rewrite M; reflexivity|split; [auto|discriminate]].
Qed.

Lemma emitted_container E d :
  container_like d = true ->
  emitted arity (Some [dinst arity E d]) = (DConst (out arity (dinst arity E d)), true).
Proof.
  destruct d as [i|t|c qs|qs|us]; try discriminate; intros _; cbn [dinst].
  - destruct (c =? type_id); [reflexivity|]. destruct (length qs <=? arity c)%nat; reflexivity.
  - reflexivity.
Qed.

Lemma dinst_container_not_tpi E d : container_like d = true -> is_tpi (dinst arity E d) = false.
Proof.
  destruct d as [i|t|c qs|qs|us]; try discriminate; intros _; cbn [dinst].
  - destruct (c =? type_id); [reflexivity|]. destruct (length qs <=? arity c)%nat; reflexivity.
  - reflexivity.
Qed.

Lemma nonempty_env kps :
  forallb (nonempty_ty arity) kps = true -> Forall (fun vals => vals <> []) (inst_env arity kps).
Proof.
  induction kps as [|p kps IH]; simpl; intros H; constructor.
  - apply andb_true_iff in H. destruct H as [H _]. unfold nonempty_ty in H.
    destruct (conv_var arity p); [discriminate|intros E; discriminate E].
  - apply IH. apply andb_true_iff in H. tauto.
Qed.

(* An attribute whose declared type is a container / tuple with type parameters anywhere below it (list[T],
   dict[str, list[T]], tuple[T, S], list[Union[set[T], None]], ...; no parameter DIRECTLY below a Union), declared in
   a class of the chain: the TypeVar instances the conversion leaves below the container are resolved by output.py by
   full name, so BOTH variants of _filter_var give the declared type under the instance's substitution. *)
Lemma attr_nested_typevar_read_lemma fixed fuel tbl c ps name kps d :
  simple_tbl tbl = true ->
  tfind_preload name (tchain fuel tbl c ps) = Some (kps, d) ->
  container_like d = true -> dwf arity d = true -> no_param_union d = true ->
  forallb (nonempty_ty arity) kps = true ->
  wf_top arity (subst_ty kps d) = true ->
  snd (read_emitted arity fixed fuel tbl c ps name) = true /\
  nf (def_ty (fst (read_emitted arity fixed fuel tbl c ps name))) = nf (subst_ty kps d).
Proof.
  intros Hs Hpre Hc Hdwf Hnp Hne Hwf.
  unfold read_emitted, attr_read. rewrite (chain_sim tbl Hs).
  destruct (proj2 (find_preload_sim name (tchain fuel tbl c ps)) kps d Hpre) as [k ->].
  set (top := top_env fixed _ _ _ _).
  assert (dvar_attr arity (tpi top) (tpi (inst_env arity kps)) d = [dinst arity (tpi (inst_env arity kps)) d]) as ->
    by (destruct d; try discriminate; reflexivity).
  unfold filter_var. cbn [existsb]. rewrite (dinst_container_not_tpi _ d Hc). cbn [orb].
  rewrite (emitted_container _ d Hc).
  pose proof (emitted_ground _ Hwf) as Hg.
  assert (conv_var arity (subst_ty kps d) = [dinst arity (inst_env arity kps) d]) as Ecv.
  { rewrite <- (proj1 (dvar_subst kps d Hdwf)). destruct d; try discriminate; reflexivity. }
  rewrite Ecv, (emitted_container _ d Hc) in Hg.
  rewrite (proj2 (proj2 (out_congr _ (nonempty_env _ Hne) d Hdwf Hnp))) by (destruct d; try discriminate; reflexivity).
  exact Hg.
Qed.

End Classes.
