(* C06 — lemmas about the declaration-level model (Conv/Decl.v). *)
From Coq Require Import List Bool NArith Arith Lia.
From PV Require Import Conv.Model Conv.Proofs Conv.Decl.
Import ListNotations.
Open Scope N_scope.

(* induction principle for dty with the nested lists *)
Section DtyInd.
Variable P : dty -> Prop.
Hypothesis Hparam : forall i, P (DParam i).
Hypothesis Hground : forall t, P (DGround t).
Hypothesis Hgen : forall c ps, Forall P ps -> P (DGeneric c ps).
Hypothesis Htup : forall ps, Forall P ps -> P (DTuple ps).
Hypothesis Hunion : forall ts, Forall P ts -> P (DUnion ts).
Fixpoint dty_ind' (d : dty) : P d :=
  let fix all (l : list dty) : Forall P l :=
    match l with [] => Forall_nil P | x :: l' => Forall_cons x (dty_ind' x) (all l') end in
  match d with
  | DParam i => Hparam i
  | DGround t => Hground t
  | DGeneric c ps => Hgen c ps (all ps)
  | DTuple ps => Htup ps (all ps)
  | DUnion ts => Hunion ts (all ts)
  end.
End DtyInd.

(* ------------------------------------------------------------------------------------------ *)
(* functions *)

Section Calls.
Variable arity : cid -> nat.
Variable acc : ty -> ty -> bool.
Hypothesis arity_type : arity type_id = 1%nat.
Hypothesis arity_tuple : arity tuple_id = 1%nat.

Lemma select_single {S} (accepts : S -> bool) n amb s :
  accepts s = true -> select accepts n amb [s] = [s].
Proof. intros H. unfold select. simpl. rewrite H. destruct ((1 <? n)%nat && amb); reflexivity. Qed.

(* a function with ONE signature: whatever the arguments are (unions, Any, omitted defaults, *args, **kwargs,
   keyword-only), if the signature accepts the call the emitted type of  y = f(...)  is the declared return type *)
Lemma call_single_sig_lemma s c :
  sig_accepts acc s c = true -> wf_top arity (s_ret s) = true ->
  snd (call_emitted arity acc [s] c) = true /\
  nf (def_ty (fst (call_emitted arity acc [s] c))) = nf (s_ret s).
Proof.
  intros Hacc Hwf. unfold call_emitted, call_var.
  rewrite (select_single (fun s0 => sig_accepts acc s0 c)) by exact Hacc.
  simpl. split; [reflexivity|].
  exact (conv_out_id_lemma arity arity_type arity_tuple (s_ret s) Hwf).
Qed.

Lemma call_rejected_lemma s c :
  sig_accepts acc s c = false -> call_emitted arity acc [s] c = (DConst TAny, false).
Proof.
  intros H. unfold call_emitted, call_var, select. simpl. rewrite H. reflexivity.
Qed.

(* overloads: which signature is picked *)
Fixpoint first_accepting (c : call) (f : list sig) : option sig :=
  match f with
  | [] => None
  | s :: f' => if sig_accepts acc s c then Some s else first_accepting c f'
  end.

Lemma filter_first c f :
  match first_accepting c f with
  | Some s => exists rest, filter (fun s0 => sig_accepts acc s0 c) f = s :: rest
  | None => filter (fun s0 => sig_accepts acc s0 c) f = []
  end.
Proof.
  induction f as [|s f IH]; simpl; auto.
  destruct (sig_accepts acc s c) eqn:E; [eexists; reflexivity|exact IH].
Qed.

(* not ambiguous (no argument variable holds Any / an empty value): the FIRST signature, in the order of the stub,
   that accepts the call is the one whose return type is emitted; none accepts: error and Any *)
Lemma overload_first_match_lemma f c :
  ambiguous_call arity c = false ->
  match first_accepting c f with
  | Some s => wf_top arity (s_ret s) = true ->
              snd (call_emitted arity acc f c) = true /\
              nf (def_ty (fst (call_emitted arity acc f c))) = nf (s_ret s)
  | None => call_emitted arity acc f c = (DConst TAny, false)
  end.
Proof.
  intros Hamb. pose proof (filter_first c f) as H.
  destruct (first_accepting c f) as [s|].
  - destruct H as [rest H]. intros Hwf. unfold call_emitted, call_var, select. rewrite H, Hamb, andb_false_r.
    simpl. split; [reflexivity|].
    exact (conv_out_id_lemma arity arity_type arity_tuple (s_ret s) Hwf).
  - unfold call_emitted, call_var, select. rewrite H. reflexivity.
Qed.

(* the k-th signature called with arguments it accepts and that no earlier signature accepts *)
Lemma first_accepting_own c pre s post :
  forallb (fun s0 => negb (sig_accepts acc s0 c)) pre = true -> sig_accepts acc s c = true ->
  first_accepting c (pre ++ s :: post) = Some s.
Proof.
  induction pre as [|p pre IH]; simpl; intros Hpre Hs.
  - rewrite Hs. reflexivity.
  - apply andb_true_iff in Hpre. destruct Hpre as [Hp Hpre]. apply negb_true_iff in Hp. rewrite Hp. auto.
Qed.

End Calls.

(* the canonical own-types call of a signature without defaults, *args, **kwargs: every formal gets the constant
   of its own type *)
Lemma zip_pos_map (ps : list param) :
  zip_pos (map p_name ps) (map p_ty ps) = map (fun p => (p_name p, p_ty p)) ps.
Proof. induction ps; simpl; congruence. Qed.

(* ------------------------------------------------------------------------------------------ *)
(* classes *)

Section Classes.
Variable arity : cid -> nat.
Hypothesis arity_type : arity type_id = 1%nat.
Hypothesis arity_tuple : arity tuple_id = 1%nat.

(* `from A import C` / `C2 = A.C`: the class is re-emitted as the class-valued attribute type[C] *)
Lemma reexport_class_lemma c :
  c <> 0 -> c <> type_id -> nf (def_ty (reexport_class arity c)) = TGeneric type_id [TClass c].
Proof.
  intros H0 Ht. unfold reexport_class.
  assert (wf arity (TClass c) = true) as Hwf.
  { simpl. apply andb_true_iff. split; apply negb_true_iff; apply N.eqb_neq; assumption. }
  rewrite (alias_out_id_lemma arity arity_type arity_tuple (TClass c) Hwf eq_refl eq_refl).
  reflexivity.
Qed.

(* a ground attribute (constant or property) found by the class lookup: the variable is the conversion of the
   declared type, whatever the chain and the instance's parameters are *)
Lemma views_single env : Forall (fun vals => exists v, vals = [v]) env -> views env = [env].
Proof.
  induction 1 as [|vals env [v ->] _ IH]; simpl; auto. rewrite IH. reflexivity.
Qed.

Lemma dvar_ground env t : dvar arity env (DGround t) = conv_var arity t.
Proof. reflexivity. Qed.

Lemma dvar_views_ground env t : dvar_views arity env (DGround t) = conv_var arity t.
Proof. reflexivity. Qed.

Lemma dvar_views_single env d :
  Forall (fun vals => exists v, vals = [v]) env -> dvar_views arity env d = dvar arity env d.
Proof.
  intros H. unfold dvar_views. destruct (mentions_param d); auto.
  rewrite views_single by exact H. simpl. apply app_nil_r.
Qed.

Lemma emitted_ground t :
  wf_top arity t = true ->
  snd (emitted arity (Some (conv_var arity t))) = true /\
  nf (def_ty (fst (emitted arity (Some (conv_var arity t))))) = nf t.
Proof.
  intros Hwf. simpl. split; auto. exact (conv_out_id_lemma arity arity_type arity_tuple t Hwf).
Qed.

(* x: T read at the top of an attribute: _filter_var splices the instance's values in *)
Lemma filter_var_tpi_single vals :
  existsb is_tpi vals = false -> vals <> [] -> filter_var [VTParamInst vals] = vals.
Proof.
  intros _ Hne. unfold filter_var. simpl. destruct vals; [congruence|]. simpl. rewrite app_nil_r. reflexivity.
Qed.

(* ---- the chain of the model is the chain of the specification, converted ---- *)

Lemma find_class_simple tbl c k :
  simple_tbl tbl = true -> find_class tbl c = Some k ->
  match k_base k with Some (_, args) => forallb simple_arg args = true | None => True end.
Proof.
  unfold simple_tbl. induction tbl as [|k0 tbl IH]; simpl; intros Hs Hf; [discriminate|].
  apply andb_true_iff in Hs. destruct Hs as [Hk Hs].
  destruct (k_id k0 =? c).
  - inversion Hf; subst. revert Hk. destruct (k_base k) as [[b args]|]; auto.
  - apply IH; auto.
Qed.

Lemma base_var_sim ps a :
  simple_arg a = true -> base_var arity (inst_env arity ps) a = conv_var arity (base_ty ps a).
Proof.
  destruct a as [i|t| | |]; simpl; intros H; try discriminate.
  - unfold inst_env, base_ty. simpl.
    change (@nil aval) with (conv_var arity TNothing). apply map_nth.
  - destruct t; try discriminate. reflexivity.
Qed.

Lemma base_env_sim ps args :
  forallb simple_arg args = true ->
  map (base_var arity (inst_env arity ps)) args = inst_env arity (map (base_ty ps) args).
Proof.
  induction args as [|a args IH]; simpl; intros H; auto.
  apply andb_true_iff in H. destruct H as [Ha H]. rewrite base_var_sim by exact Ha. rewrite IH by exact H.
  reflexivity.
Qed.

Definition conv_link (kp : cdecl * list ty) : cdecl * list (list aval) := (fst kp, inst_env arity (snd kp)).

Lemma chain_sim tbl : simple_tbl tbl = true -> forall fuel c ps,
  chain arity fuel tbl c (inst_env arity ps) = map conv_link (tchain fuel tbl c ps).
Proof.
  intros Hs. induction fuel as [|fuel IH]; intros c ps; simpl; auto.
  destruct (find_class tbl c) as [k|] eqn:Hf; auto.
  pose proof (find_class_simple tbl c k Hs Hf) as Hb.
  simpl. unfold conv_link at 1. simpl. f_equal.
  destruct (k_base k) as [[b args]|]; auto.
  rewrite base_env_sim by exact Hb. apply IH.
Qed.

Lemma find_preload_sim name tch :
  find_preload name (map conv_link tch) =
  match tfind_preload name tch with
  | Some (kps, d) => match find_preload name (map conv_link tch) with
                     | Some (k, _, _) => Some (k, inst_env arity kps, d) | None => None end
  | None => None
  end /\
  (forall kps d, tfind_preload name tch = Some (kps, d) -> exists k, find_preload name (map conv_link tch) = Some (k, inst_env arity kps, d)).
Proof.
  induction tch as [|[k ps] tch [IH1 IH2]]; simpl.
  - split; [reflexivity|]. intros; discriminate.
  - destruct (lookup name (k_members k)) as [[d|mk sigs]|].
    + destruct (mentions_param d).
      * split; [reflexivity|]. intros kps d0 H. inversion H; subst. eexists; reflexivity.
      * split; [exact IH1|exact IH2].
    + split; [exact IH1|exact IH2].
    + split; [exact IH1|exact IH2].
Qed.

(* ---- no TypeVar instance comes out of the conversion of a ground type ---- *)

Lemma conv_cls_not_tpi : forall t, is_tpi (conv_cls t) = false.
Proof.
  apply (ty_ind' (fun t => is_tpi (conv_cls t) = false)); simpl; auto.
  intros ts H. destruct ts as [|t1 [|t2 ts']]; simpl; auto. inversion H; auto.
Qed.

Lemma inst_not_tpi t : is_tpi (inst arity t) = false.
Proof.
  destruct t; simpl; auto.
  - unfold bare_inst. destruct (c =? type_id); [destruct (arity c) as [|[|n]]; reflexivity|].
    destruct ((c =? none_id) && (arity c =? 0)%nat); reflexivity.
  - destruct (c =? type_id).
    + destruct ps as [|u [|u' ps']]; simpl; auto. apply conv_cls_not_tpi.
    + destruct (length ps <=? arity c)%nat; reflexivity.
  - destruct ts as [|t1 [|t2 ts']]; simpl; auto. apply conv_cls_not_tpi.
Qed.

Lemma conv_var_not_tpi t : existsb is_tpi (conv_var arity t) = false.
Proof.
  destruct t as [| |c|c ps|ps|a r|ts|];
    try (unfold conv_var; cbn [var_of existsb]; rewrite ?inst_not_tpi; reflexivity).
  unfold conv_var. cbn [var_of].
  induction ts as [|m ts IH]; [reflexivity|].
  cbn [flat_map]. rewrite existsb_app, IH, orb_false_r.
  destruct m; cbn [existsb]; rewrite ?inst_not_tpi; reflexivity.
Qed.

Lemma conv_var_nonempty t : wf_top arity t = true -> conv_var arity t <> [].
Proof.
  unfold wf_top. intros H. apply andb_true_iff in H. destruct H as [Hwf Hn]. apply negb_true_iff in Hn.
  destruct (member_ok t) eqn:Hm.
  - rewrite (conv_var_single arity t Hm). intros E; discriminate E.
  - destruct t; simpl in Hm, Hn; try discriminate; try (simpl in Hwf; discriminate).
    destruct (wf_union_inv arity _ Hwf) as (Hl & _ & Hms & _).
    rewrite (conv_var_union arity ts) by exact Hms.
    destruct ts; simpl in *; [lia|intros E; discriminate E].
Qed.

(* x: T read at the top of an attribute, AFTER the fix (resolution by full name): the instance's value for the
   declaring class's own parameter, i.e. the declared type under the substitution along the chain *)
Lemma attr_typevar_read_fixed_lemma fuel tbl c ps name kps i :
  simple_tbl tbl = true ->
  tfind_preload name (tchain fuel tbl c ps) = Some (kps, DParam i) ->
  wf_top arity (subst_ty kps (DParam i)) = true ->
  snd (read_emitted arity true fuel tbl c ps name) = true /\
  nf (def_ty (fst (read_emitted arity true fuel tbl c ps name))) = nf (subst_ty kps (DParam i)).
Proof.
  intros Hs Hpre Hwf. simpl in Hwf |- *.
  unfold read_emitted, attr_read. rewrite (chain_sim tbl Hs).
  destruct (proj2 (find_preload_sim name (tchain fuel tbl c ps)) kps (DParam i) Hpre) as [k ->].
  unfold top_env, dvar_attr, dvar_gen, tpi.
  assert (i < length kps)%nat as Hlt.
  { destruct (Nat.ltb i (length kps)) eqn:E; [apply Nat.ltb_lt; exact E|].
    apply Nat.ltb_ge in E. rewrite nth_overflow in Hwf by exact E. discriminate. }
  rewrite (nth_indep _ [] ((fun vals => [VTParamInst vals]) [])) by (unfold inst_env; rewrite !map_length; exact Hlt).
  rewrite (map_nth (fun vals => [VTParamInst vals])).
  assert (nth i (inst_env arity kps) [] = conv_var arity (nth i kps TNothing)) as ->
    by exact (map_nth (conv_var arity) kps TNothing i).
  rewrite (filter_var_tpi_single _ (conv_var_not_tpi _) (conv_var_nonempty _ Hwf)).
  exact (emitted_ground _ Hwf).
Qed.

End Classes.
