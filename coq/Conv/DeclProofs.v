(* C06 — lemmas about the declaration-level model (Conv/Decl.v). *)
From Coq Require Import List Bool NArith Arith Lia.
From PV Require Import Conv.Model Conv.Proofs Conv.Decl.
Import ListNotations.
Open Scope N_scope.

(* induction principle for dty with the nested lists *)
Section DtyInd.
Variable P : dty -> Prop.
Hypothesis Hparam : forall i, P (DParam i).
Hypothesis Hground : forall t, P (DGround t).
Hypothesis Hgen : forall c ps, Forall P ps -> P (DGeneric c ps).
Hypothesis Htup : forall ps, Forall P ps -> P (DTuple ps).
Hypothesis Hunion : forall ts, Forall P ts -> P (DUnion ts).
Fixpoint dty_ind' (d : dty) : P d :=
  let fix all (l : list dty) : Forall P l :=
    match l with [] => Forall_nil P | x :: l' => Forall_cons x (dty_ind' x) (all l') end in
  match d with
  | DParam i => Hparam i
  | DGround t => Hground t
  | DGeneric c ps => Hgen c ps (all ps)
  | DTuple ps => Htup ps (all ps)
  | DUnion ts => Hunion ts (all ts)
  end.
End DtyInd.

(* ------------------------------------------------------------------------------------------ *)
(* functions *)

Section Calls.
Variable arity : cid -> nat.
Variable acc : ty -> ty -> bool.
Hypothesis arity_type : arity type_id = 1%nat.
Hypothesis arity_tuple : arity tuple_id = 1%nat.

Lemma select_single {S} (accepts : S -> bool) n amb s :
  accepts s = true -> select accepts n amb [s] = [s].
Proof. intros H. unfold select. simpl. rewrite H. destruct ((1 <? n)%nat && amb); reflexivity. Qed.

(* a function with ONE signature: whatever the arguments are (unions, Any, omitted defaults, *args, **kwargs,
   keyword-only), if the signature accepts the call the emitted type of  y = f(...)  is the declared return type *)
Lemma call_single_sig_lemma s c :
  sig_accepts acc s c = true -> wf_top arity (s_ret s) = true ->
  snd (call_emitted arity acc [s] c) = true /\
  nf (def_ty (fst (call_emitted arity acc [s] c))) = nf (s_ret s).
Proof.
  intros Hacc Hwf. unfold call_emitted, call_var.
  rewrite (select_single (fun s0 => sig_accepts acc s0 c)) by exact Hacc.
  simpl. split; [reflexivity|].
  exact (conv_out_id_lemma arity arity_type arity_tuple (s_ret s) Hwf).
Qed.

Lemma call_rejected_lemma s c :
  sig_accepts acc s c = false -> call_emitted arity acc [s] c = (DConst TAny, false).
Proof.
  intros H. unfold call_emitted, call_var, select. simpl. rewrite H. reflexivity.
Qed.

(* overloads: which signature is picked *)
Fixpoint first_accepting (c : call) (f : list sig) : option sig :=
  match f with
  | [] => None
  | s :: f' => if sig_accepts acc s c then Some s else first_accepting c f'
  end.

Lemma filter_first c f :
  match first_accepting c f with
  | Some s => exists rest, filter (fun s0 => sig_accepts acc s0 c) f = s :: rest
  | None => filter (fun s0 => sig_accepts acc s0 c) f = []
  end.
Proof.
  induction f as [|s f IH]; simpl; auto.
  destruct (sig_accepts acc s c) eqn:E; [eexists; reflexivity|exact IH].
Qed.

(* not ambiguous (no argument variable holds Any / an empty value): the FIRST signature, in the order of the stub,
   that accepts the call is the one whose return type is emitted; none accepts: error and Any *)
Lemma overload_first_match_lemma f c :
  ambiguous_call arity c = false ->
  match first_accepting c f with
  | Some s => wf_top arity (s_ret s) = true ->
              snd (call_emitted arity acc f c) = true /\
              nf (def_ty (fst (call_emitted arity acc f c))) = nf (s_ret s)
  | None => call_emitted arity acc f c = (DConst TAny, false)
  end.
Proof.
  intros Hamb. pose proof (filter_first c f) as H.
  destruct (first_accepting c f) as [s|].
  - destruct H as [rest H]. intros Hwf. unfold call_emitted, call_var, select. rewrite H, Hamb, andb_false_r.
    simpl. split; [reflexivity|].
    exact (conv_out_id_lemma arity arity_type arity_tuple (s_ret s) Hwf).
  - unfold call_emitted, call_var, select. rewrite H. reflexivity.
Qed.

(* the k-th signature called with arguments it accepts and that no earlier signature accepts *)
Lemma first_accepting_own c pre s post :
  forallb (fun s0 => negb (sig_accepts acc s0 c)) pre = true -> sig_accepts acc s c = true ->
  first_accepting c (pre ++ s :: post) = Some s.
Proof.
  induction pre as [|p pre IH]; simpl; intros Hpre Hs.
  - rewrite Hs. reflexivity.
  - apply andb_true_iff in Hpre. destruct Hpre as [Hp Hpre]. apply negb_true_iff in Hp. rewrite Hp. auto.
Qed.

End Calls.

(* the canonical own-types call of a signature without defaults, *args, **kwargs: every formal gets the constant
   of its own type *)
Lemma zip_pos_map (ps : list param) :
  zip_pos (map p_name ps) (map p_ty ps) = map (fun p => (p_name p, p_ty p)) ps.
Proof. induction ps; simpl; congruence. Qed.

(* ------------------------------------------------------------------------------------------ *)
(* classes *)

Section Classes.
Variable arity : cid -> nat.
Hypothesis arity_type : arity type_id = 1%nat.
Hypothesis arity_tuple : arity tuple_id = 1%nat.

(* `from A import C` / `C2 = A.C`: the class is re-emitted as the class-valued attribute type[C] *)
Lemma reexport_class_lemma c :
  c <> 0 -> c <> type_id -> nf (def_ty (reexport_class arity c)) = TGeneric type_id [TClass c].
Proof.
  intros H0 Ht. unfold reexport_class.
  assert (wf arity (TClass c) = true) as Hwf.
  { simpl. apply andb_true_iff. split; apply negb_true_iff; apply N.eqb_neq; assumption. }
  rewrite (alias_out_id_lemma arity arity_type arity_tuple (TClass c) Hwf eq_refl eq_refl).
  reflexivity.
Qed.

(* a ground attribute (constant or property) found by the class lookup: the variable is the conversion of the
   declared type, whatever the chain and the instance's parameters are *)
Lemma views_single env : Forall (fun vals => exists v, vals = [v]) env -> views env = [env].
Proof.
  induction 1 as [|vals env [v ->] _ IH]; simpl; auto. rewrite IH. reflexivity.
Qed.

Lemma dvar_ground env t : dvar arity env (DGround t) = conv_var arity t.
Proof. reflexivity. Qed.

Lemma dvar_views_ground env t : dvar_views arity env (DGround t) = conv_var arity t.
Proof. reflexivity. Qed.

Lemma dvar_views_single env d :
  Forall (fun vals => exists v, vals = [v]) env -> dvar_views arity env d = dvar arity env d.
Proof.
  intros H. unfold dvar_views. destruct (mentions_param d); auto.
  rewrite views_single by exact H. simpl. apply app_nil_r.
Qed.

Lemma emitted_ground t :
  wf_top arity t = true ->
  snd (emitted arity (Some (conv_var arity t))) = true /\
  nf (def_ty (fst (emitted arity (Some (conv_var arity t))))) = nf t.
Proof.
  intros Hwf. simpl. split; auto. exact (conv_out_id_lemma arity arity_type arity_tuple t Hwf).
Qed.

(* x: T read at the top of an attribute: _filter_var splices the instance's values in *)
Lemma filter_var_tpi_single vals :
  existsb is_tpi vals = false -> vals <> [] -> filter_var [VTParamInst vals] = vals.
Proof.
  intros _ Hne. unfold filter_var. simpl. destruct vals; [congruence|]. simpl. rewrite app_nil_r. reflexivity.
Qed.

End Classes.
