(* C06 — lemmas about bounded / constrained TypeVars in the class table (coq/Conv/Bound.v). *)
From Coq Require Import List Bool NArith Arith Lia.
From PV Require Import Conv.Model Conv.Proofs Conv.Bound.
Import ListNotations.
Open Scope N_scope.

(* ------------------------------------------------------------------------------------------ *)
(* pytd.TypeParameter *)

Lemma tv_print_parse_lemma d : parse_tv (print_tv d) = d.
Proof. destruct d; reflexivity. Qed.

Lemma upper_value_cases d :
  (tv_constraints d <> [] /\ upper_value d = TUnion (tv_constraints d)) \/
  (tv_constraints d = [] /\ exists b, tv_bound d = Some b /\ upper_value d = b) \/
  (tv_constraints d = [] /\ tv_bound d = None /\ upper_value d = TAny).
Proof.
  destruct d as [cs b]. unfold upper_value. simpl. destruct cs.
  - destruct b; [right; left; eauto | right; right; auto].
  - left. split; [discriminate | reflexivity].
Qed.

Lemma upper_value_print_parse_lemma d : upper_value (parse_tv (print_tv d)) = upper_value d.
Proof. rewrite tv_print_parse_lemma. reflexivity. Qed.

(* ------------------------------------------------------------------------------------------ *)
(* small facts *)

Definition plain (x : ty) : bool := match x with TAny | TNothing | TUnion _ => false | _ => true end.
Definition mem (i : ty -> aval) (m : ty) : list aval := match m with TNothing => [] | _ => [i m] end.

Lemma var_of_union i ts : var_of i (TUnion ts) = flat_map (mem i) ts.
Proof. reflexivity. Qed.
Lemma var_of_plain i x : plain x = true -> var_of i x = [i x].
Proof. destruct x; simpl; try discriminate; reflexivity. Qed.
Lemma mem_plain i x : plain x = true -> mem i x = [i x].
Proof. destruct x; simpl; try discriminate; reflexivity. Qed.

Lemma Forall_imp_forallb {A} (Q : A -> Prop) (b : A -> bool) l :
  Forall (fun x => b x = true -> Q x) l -> forallb b l = true -> Forall Q l.
Proof.
  induction 1; simpl; intros Hb; constructor; apply andb_true_iff in Hb; destruct Hb; auto.
Qed.

Lemma Forall_and_l {A} (P Q : A -> Prop) l : Forall (fun x => P x /\ Q x) l -> Forall P l.
Proof. induction 1; constructor; tauto. Qed.
Lemma Forall_and_r {A} (P Q : A -> Prop) l : Forall (fun x => P x /\ Q x) l -> Forall Q l.
Proof. induction 1; constructor; tauto. Qed.

(* ------------------------------------------------------------------------------------------ *)
Section BoundedProofs.
Variable upper : cid -> list ty.
Hypothesis type_unbounded : upper type_id = [TAny].
Hypothesis tuple_unbounded : upper tuple_id = [TAny].
Hypothesis table_clean : forall c, forallb (clean_top upper) (upper c) = true.

Notation ar := (arity_of upper).

Lemma arity_type : ar type_id = 1%nat.
Proof. unfold arity_of. rewrite type_unbounded. reflexivity. Qed.
Lemma arity_tuple : ar tuple_id = 1%nat.
Proof. unfold arity_of. rewrite tuple_unbounded. reflexivity. Qed.

Lemma bare_b_unb f c : unbounded upper c = true -> bare_b upper f c = bare_inst ar c.
Proof. destruct f; simpl; intros ->; reflexivity. Qed.
Lemma ebare_b_unb f c : unbounded upper c = true -> ebare_b upper f c = TClass c.
Proof. destruct f; simpl; intros ->; reflexivity. Qed.
Lemma type_unb : unbounded upper type_id = true.
Proof. unfold unbounded. rewrite type_unbounded. reflexivity. Qed.
Lemma ebare_plain f c : plain (ebare_b upper f c) = true.
Proof. destruct f; simpl; destruct (unbounded upper c); reflexivity. Qed.

Lemma expand_plain f t : plain t = true -> plain (expand upper f t) = true.
Proof.
  destruct t; simpl; try discriminate; auto.
  - intros _. apply ebare_plain.
  - destruct (c =? type_id); reflexivity.
Qed.

(* class-level positions: with unbounded classes only, instantiate is Model.instantiate *)
Lemma instantiate_g_unb f t :
  unb upper t = true ->
  instantiate_g ar (bare_b upper f) (conv_cls t) = instantiate ar (conv_cls t).
Proof.
  induction t using ty_ind'; intros Hu; try reflexivity.
  - simpl in Hu. simpl. rewrite bare_b_unb by exact Hu. reflexivity.
  - cbn [unb] in Hu. pose proof (Forall_imp_forallb _ _ _ H Hu) as HF.
    cbn [conv_cls instantiate_g instantiate]. destruct (c =? type_id); [reflexivity|].
    rewrite !map_map. rewrite (map_ext_Forall _ _ _ HF). reflexivity.
  - cbn [unb] in Hu. pose proof (Forall_imp_forallb _ _ _ H Hu) as HF.
    cbn [conv_cls instantiate_g instantiate]. rewrite !map_map. rewrite (map_ext_Forall _ _ _ HF). reflexivity.
  - cbn [unb] in Hu. apply andb_true_iff in Hu. destruct Hu as [Hu1 Hu2].
    pose proof (Forall_imp_forallb _ _ _ H Hu1) as HF.
    cbn [conv_cls instantiate_g instantiate]. rewrite !map_map. rewrite (map_ext_Forall _ _ _ HF), IHt by exact Hu2.
    reflexivity.
  - cbn [unb] in Hu. pose proof (Forall_imp_forallb _ _ _ H Hu) as HF.
    destruct ts as [|t1 [|t2 ts']].
    + reflexivity.
    + inversion HF; subst. assumption.
    + change (conv_cls (TUnion (t1 :: t2 :: ts'))) with (VUnion (map conv_cls (t1 :: t2 :: ts'))).
      cbn [instantiate_g instantiate]. rewrite !flat_map_map. apply flat_map_ext_Forall. exact HF.
Qed.

(* one conversion step: if bare class references agree with the expansion, so do all clean types *)
Definition agrees (f : nat) (t : ty) : Prop :=
  (clean upper t = true -> inst_b upper f t = inst ar (expand upper f t)) /\
  (clean_top upper t = true -> var_of (inst_b upper f) t = var_of (inst ar) (expand_top upper f t)).

Lemma agrees_of_plain f t :
  plain t = true ->
  (clean upper t = true -> inst_b upper f t = inst ar (expand upper f t)) -> agrees f t.
Proof.
  intros Hp H. split; [exact H|].
  intros Hc. unfold expand_top.
  assert (clean_top upper t = clean upper t) as E by (destruct t; try reflexivity; discriminate).
  assert (expand_var (expand upper f) t = expand upper f t) as -> by (destruct t; try reflexivity; discriminate).
  rewrite var_of_plain by exact Hp. rewrite var_of_plain by (apply expand_plain; exact Hp).
  rewrite H; [reflexivity|]. rewrite <- E. exact Hc.
Qed.

Lemma vars_agree f ps :
  Forall (agrees f) ps -> forallb (clean_var (clean upper)) ps = true ->
  map (var_of (inst_b upper f)) ps = map (var_of (inst ar)) (map (expand_var (expand upper f)) ps).
Proof.
  intros H Hc. rewrite map_map. apply map_ext_Forall.
  apply (Forall_imp_forallb _ _ _ (Forall_and_r _ _ _ H) Hc).
Qed.

Lemma step f :
  (forall c, bare_b upper f c = inst ar (ebare_b upper f c)) ->
  forall t, agrees f t.
Proof.
  intros Hb. induction t using ty_ind'.
  - split; reflexivity.
  - split; reflexivity.
  - split; reflexivity.
  - apply agrees_of_plain; [reflexivity|]. intros _. apply Hb.
  - apply agrees_of_plain; [reflexivity|]. intros Hc.
    unfold inst_b, expand. cbn [clean] in Hc. cbn [inst_g expand_g].
    destruct (c =? type_id) eqn:E.
    + cbn [inst]. rewrite E. reflexivity.
    + cbn [inst]. rewrite E, map_length.
      destruct (length ps <=? ar c)%nat; [|reflexivity].
      f_equal. f_equal. apply (vars_agree f ps H Hc).
  - apply agrees_of_plain; [reflexivity|]. intros Hc.
    unfold inst_b, expand. cbn [clean] in Hc. cbn [inst_g expand_g inst].
    f_equal. apply (vars_agree f ps H Hc).
  - apply agrees_of_plain; [reflexivity|]. intros Hc.
    cbn [clean] in Hc. apply andb_true_iff in Hc. destruct Hc as [Ha Hr].
    unfold inst_b, expand. cbn [inst_g expand_g inst].
    f_equal. f_equal.
    + apply map_ext_Forall. apply forallb_Forall in Ha. eapply Forall_impl; [|exact Ha].
      intros a0 Hu. apply instantiate_g_unb. exact Hu.
    + f_equal. apply instantiate_g_unb. exact Hr.
  - split.
    + intros _. reflexivity.
    + intros Hc. unfold clean_top, clean_var in Hc. unfold expand_top, expand_var.
      rewrite !var_of_union. rewrite flat_map_map. apply flat_map_ext_Forall.
      pose proof (Forall_imp_forallb _ _ _ (Forall_and_l _ _ _ H) Hc) as HF.
      apply Forall_forall. intros m Hm. rewrite Forall_forall in HF. specialize (HF m Hm).
      destruct m; try reflexivity; cbn [mem].
      all: rewrite mem_plain by (apply expand_plain; reflexivity); rewrite HF; reflexivity.
Qed.

Lemma bare_agrees : forall f c, bare_b upper f c = inst ar (ebare_b upper f c).
Proof.
  induction f as [|f IH]; intros c.
  - simpl. destruct (unbounded upper c); reflexivity.
  - simpl. destruct (unbounded upper c) eqn:Eu; [reflexivity|].
    assert (c =? type_id = false) as Ec.
    { destruct (c =? type_id) eqn:E; [|reflexivity]. apply N.eqb_eq in E. subst c. rewrite type_unb in Eu. discriminate. }
    pose proof (step f IH (TGeneric c (upper c))) as [Hs _].
    unfold inst_b, expand in Hs. cbn [expand_g clean] in Hs. rewrite Ec in Hs.
    apply Hs. apply table_clean.
Qed.

Lemma all_agree f t : agrees f t.
Proof. apply step. apply bare_agrees. Qed.

(* the downstream definition in the bounded model is the downstream definition of the expanded type *)
Lemma downstream_b_expand f t :
  clean_top upper t = true -> downstream_b upper f t = downstream ar (expand_top upper f t).
Proof.
  intros Hc. unfold downstream_b, downstream, conv_var_b, conv_var.
  destruct (all_agree f t) as [_ Hv]. rewrite Hv by exact Hc. reflexivity.
Qed.

Lemma bounded_conv_out_id_lemma f t :
  clean_top upper t = true ->
  wf_top ar (expand_top upper f t) = true ->
  nf (def_ty (downstream_b upper f t)) = nf (expand_top upper f t).
Proof.
  intros Hc Hwf. rewrite downstream_b_expand by exact Hc.
  apply (conv_out_id_lemma ar arity_type arity_tuple). exact Hwf.
Qed.

(* types that mention only unbounded classes are their own expansion *)
Lemma expand_unb f t : unb upper t = true -> expand upper f t = t /\ expand_top upper f t = t.
Proof.
  induction t using ty_ind'; intros Hu; try (split; reflexivity).
  - simpl in Hu. unfold expand_top, expand. cbn [expand_var expand_g]. rewrite ebare_b_unb by exact Hu. split; reflexivity.
  - cbn [unb] in Hu. pose proof (Forall_imp_forallb _ _ _ H Hu) as HF.
    assert (expand upper f (TGeneric c ps) = TGeneric c ps) as E.
    { unfold expand. cbn [expand_g]. destruct (c =? type_id); [reflexivity|]. f_equal.
      rewrite <- (map_id ps) at 2. apply map_ext_Forall. eapply Forall_impl; [|exact HF]. intros p [_ Hp]. exact Hp. }
    split; [exact E|]. unfold expand_top. cbn [expand_var]. exact E.
  - cbn [unb] in Hu. pose proof (Forall_imp_forallb _ _ _ H Hu) as HF.
    assert (expand upper f (TTuple ps) = TTuple ps) as E.
    { unfold expand. cbn [expand_g]. f_equal.
      rewrite <- (map_id ps) at 2. apply map_ext_Forall. eapply Forall_impl; [|exact HF]. intros p [_ Hp]. exact Hp. }
    split; [exact E|]. unfold expand_top. cbn [expand_var]. exact E.
  - cbn [unb] in Hu. pose proof (Forall_imp_forallb _ _ _ H Hu) as HF.
    split; [reflexivity|]. unfold expand_top. cbn [expand_var]. f_equal.
    rewrite <- (map_id ts) at 2. apply map_ext_Forall. eapply Forall_impl; [|exact HF]. intros p [Hp _]. exact Hp.
Qed.

(* a bare reference to a generic class whose upper values mention unbounded classes only *)
Lemma bare_generic_upper_lemma f c :
  unbounded upper c = false ->
  forallb (unb upper) (upper c) = true ->
  wf_top ar (TGeneric c (upper c)) = true ->
  nf (def_ty (downstream_b upper (S f) (TClass c))) = nf (TGeneric c (upper c)).
Proof.
  intros Hb Hu Hwf.
  assert (expand_top upper (S f) (TClass c) = TGeneric c (upper c)) as E.
  { unfold expand_top, expand. cbn [expand_var expand_g ebare_b]. rewrite Hb. f_equal.
    rewrite <- (map_id (upper c)) at 2. apply map_ext_Forall. apply forallb_Forall in Hu.
    eapply Forall_impl; [|exact Hu]. intros p Hp. apply (expand_unb f p Hp). }
  rewrite <- E. apply bounded_conv_out_id_lemma; [reflexivity|]. rewrite E. exact Hwf.
Qed.

End BoundedProofs.

(* conservativity: a table without bounds or constraints gives Model.v's conversion *)
Lemma unbounded_table_is_model_lemma upper f t :
  upper type_id = [TAny] ->
  (forall c, unbounded upper c = true) ->
  downstream_b upper f t = downstream (arity_of upper) t.
Proof.
  intros Ht Hall.
  assert (forall t, unb upper t = true) as Hunb.
  { induction t0 using ty_ind'; simpl; auto; try (apply forallb_Forall; assumption).
    apply andb_true_iff. split; [apply forallb_Forall; assumption | assumption]. }
  assert (forall t, clean upper t = true /\ clean_top upper t = true) as Hboth.
  { assert (forall l, forallb (unb upper) l = true) as HU by (intros l; apply forallb_Forall, Forall_forall; intros; apply Hunb).
    induction t0 using ty_ind'; try (split; reflexivity).
    - assert (clean upper (TGeneric c ps) = true) as E.
      { cbn [clean]. destruct (c =? type_id); [apply HU|]. apply forallb_Forall. apply (Forall_and_r _ _ _ H). }
      split; [exact E | exact E].
    - assert (clean upper (TTuple ps) = true) as E.
      { cbn [clean]. apply forallb_Forall. apply (Forall_and_r _ _ _ H). }
      split; [exact E | exact E].
    - assert (clean upper (TCallable a t0) = true) as E.
      { cbn [clean]. rewrite HU. apply Hunb. }
      split; [exact E | exact E].
    - split; [cbn [clean]; apply HU|]. unfold clean_top, clean_var. apply forallb_Forall. apply (Forall_and_l _ _ _ H). }
  assert (forall t, clean_top upper t = true) as Hct by (intros t0; apply Hboth).
  rewrite downstream_b_expand; auto.
  - destruct (expand_unb upper f t (Hunb t)) as [_ ->]. reflexivity.
  - intros c. apply forallb_Forall, Forall_forall. intros; apply Hct.
Qed.

(* the shortcut in Bound.bare_b: GenericType(c, (Any, ..)) is converted to Model.bare_inst *)
Lemma generic_any_is_bare_inst_lemma arity bare c :
  arity type_id = 1%nat -> arity c <> 0%nat ->
  inst_g arity bare (TGeneric c (repeat TAny (arity c))) = bare_inst arity c.
Proof.
  intros Ht Hn. cbn [inst_g]. unfold bare_inst. destruct (c =? type_id) eqn:E.
  - apply N.eqb_eq in E. subst c. rewrite Ht. reflexivity.
  - rewrite repeat_length, Nat.leb_refl, Nat.sub_diag, app_nil_r.
    assert ((arity c =? 0)%nat = false) as -> by (apply Nat.eqb_neq; exact Hn). rewrite andb_false_r.
    f_equal. rewrite map_repeat. reflexivity.
Qed.

(* ------------------------------------------------------------------------------------------ *)
(* finite tables *)

Lemma lookup_tbl_in l c us : lookup_tbl l c = Some us -> In (c, us) l.
Proof.
  induction l as [|[k v] l IH]; simpl; [discriminate|].
  destruct (k =? c) eqn:E.
  - intros H. inversion H; subst. apply N.eqb_eq in E. subst. left. reflexivity.
  - intros H. right. auto.
Qed.

Lemma clean_top_repeat_any up n : forallb (clean_top up) (repeat TAny n) = true.
Proof. induction n; simpl; auto. Qed.

Lemma table_ok_sound base l :
  table_ok base l = true ->
  table_of base l type_id = [TAny] /\ table_of base l tuple_id = [TAny] /\
  forall c, forallb (clean_top (table_of base l)) (table_of base l c) = true.
Proof.
  unfold table_ok. intros H. repeat (apply andb_true_iff in H; destruct H as [H ?]).
  apply Nat.eqb_eq in H0, H1.
  repeat split.
  - unfold table_of. destruct (lookup_tbl l type_id); [discriminate|]. rewrite H1. reflexivity.
  - unfold table_of. destruct (lookup_tbl l tuple_id); [discriminate|]. rewrite H0. reflexivity.
  - intros c. unfold table_of at 2. destruct (lookup_tbl l c) eqn:E.
    + apply lookup_tbl_in in E. rewrite forallb_forall in H. apply (H _ E).
    + apply clean_top_repeat_any.
Qed.

Lemma bounded_table_lemma base l f t :
  table_ok base l = true ->
  clean_top (table_of base l) t = true ->
  wf_top (arity_of (table_of base l)) (expand_top (table_of base l) f t) = true ->
  nf (def_ty (downstream_b (table_of base l) f t)) = nf (expand_top (table_of base l) f t).
Proof.
  intros Hok. destruct (table_ok_sound base l Hok) as (H1 & H2 & H3).
  apply bounded_conv_out_id_lemma; assumption.
Qed.

Lemma bounded_refuted_lemma : exists (l : list (cid * list ty)) (t : ty),
  table_ok builtin_arity l = true /\ clean_top (table_of builtin_arity l) t = true /\
  wf_top (arity_of (table_of builtin_arity l)) t = true /\
  canon (def_ty (downstream_b (table_of builtin_arity l) 1 t)) <> canon t /\
  canon (def_ty (downstream_anyfill (table_of builtin_arity l) t)) <>
    canon (def_ty (downstream_b (table_of builtin_arity l) 1 t)).
Proof.
  exists [(36, [TClass 32])], (TClass 36). vm_compute. repeat split; try reflexivity; discriminate.
Qed.
