(* C06 — lemmas about the conversion model (coq/Conv/Model.v). *)
From Coq Require Import List Bool NArith Arith Lia.
From PV Require Import Conv.Model.
Import ListNotations.
Open Scope N_scope.

(* ------------------------------------------------------------------------------------------ *)
(* induction over type expressions with the nested lists *)

Section TyInd.
Variable P : ty -> Prop.
Hypothesis HAny : P TAny.
Hypothesis HNothing : P TNothing.
Hypothesis HError : P TError.
Hypothesis HClass : forall c, P (TClass c).
Hypothesis HGeneric : forall c ps, Forall P ps -> P (TGeneric c ps).
Hypothesis HTuple : forall ps, Forall P ps -> P (TTuple ps).
Hypothesis HCallable : forall a r, Forall P a -> P r -> P (TCallable a r).
Hypothesis HUnion : forall ts, Forall P ts -> P (TUnion ts).

Fixpoint ty_ind' (t : ty) : P t :=
  let fix go (l : list ty) : Forall P l :=
    match l with
    | [] => Forall_nil P
    | x :: l' => Forall_cons x (ty_ind' x) (go l')
    end in
  match t with
  | TAny => HAny
  | TNothing => HNothing
  | TError => HError
  | TClass c => HClass c
  | TGeneric c ps => HGeneric c ps (go ps)
  | TTuple ps => HTuple ps (go ps)
  | TCallable a r => HCallable a r (go a) (ty_ind' r)
  | TUnion ts => HUnion ts (go ts)
  end.
End TyInd.

(* ------------------------------------------------------------------------------------------ *)
(* small list facts *)

Lemma map_ext_Forall {A B} (f g : A -> B) l : Forall (fun x => f x = g x) l -> map f l = map g l.
Proof. induction 1; simpl; congruence. Qed.

Lemma flat_map_ext_Forall {A B} (f g : A -> list B) l :
  Forall (fun x => f x = g x) l -> flat_map f l = flat_map g l.
Proof. induction 1; simpl; congruence. Qed.

Lemma flat_map_map {A B C} (f : A -> B) (g : B -> list C) l :
  flat_map g (map f l) = flat_map (fun x => g (f x)) l.
Proof. induction l; simpl; congruence. Qed.

Lemma map_flat_map {A B C} (f : A -> list B) (g : B -> C) l :
  map g (flat_map f l) = flat_map (fun x => map g (f x)) l.
Proof. induction l; simpl; [reflexivity|]. rewrite map_app. congruence. Qed.

Lemma flat_map_flat_map {A B C} (f : A -> list B) (g : B -> list C) l :
  flat_map g (flat_map f l) = flat_map (fun x => flat_map g (f x)) l.
Proof. induction l; simpl; [reflexivity|]. rewrite flat_map_app. congruence. Qed.

Lemma flat_map_singleton {A B} (f : A -> B) l : flat_map (fun x => [f x]) l = map f l.
Proof. induction l; simpl; congruence. Qed.

Lemma forallb_Forall {A} (p : A -> bool) l : forallb p l = true <-> Forall (fun x => p x = true) l.
Proof.
  induction l; simpl; split; intros H; auto.
  - apply andb_true_iff in H. destruct H. constructor; auto. apply IHl; auto.
  - inversion H; subst. apply andb_true_iff. split; auto. apply IHl; auto.
Qed.

Lemma zip_with_map {A B C D} (f : A -> B -> C) (g : D -> A) (h : D -> B) l :
  zip_with f (map g l) (map h l) = map (fun x => f (g x) (h x)) l.
Proof. induction l; simpl; congruence. Qed.

Lemma removelast_snoc {A} (l : list A) x : removelast (l ++ [x]) = l.
Proof. apply removelast_last. Qed.

Lemma last_snoc {A} (l : list A) x d : last (l ++ [x]) d = x.
Proof. apply last_last. Qed.

(* ------------------------------------------------------------------------------------------ *)
(* normal forms: unions produced by [nf] are flat and have at least two members *)

Definition flat_elt (x : ty) : Prop := is_union x = false /\ is_nothing x = false.

Definition unorm (z : ty) : Prop :=
  match z with
  | TUnion zs => (2 <= length zs)%nat /\ Forall flat_elt zs
  | _ => True
  end.

Lemma members_mkU l : Forall flat_elt l -> members (mkU l) = l.
Proof.
  intros H. destruct l as [|x [|y l']]; simpl; auto.
  inversion H as [|? ? [Hu Hn] _]; subst. destruct x; simpl in *; congruence.
Qed.

Lemma mkU_members z : unorm z -> mkU (members z) = z.
Proof.
  destruct z; simpl; auto. intros [Hl _]. destruct ts as [|x [|y l']]; simpl in *; auto; lia.
Qed.

Lemma members_flat_elt z : unorm z -> Forall flat_elt (members z).
Proof.
  destruct z; simpl; intros H; try (repeat constructor; fail); auto. destruct H; auto.
Qed.

Lemma unorm_mkU l : Forall flat_elt l -> unorm (mkU l).
Proof.
  intros H. destruct l as [|x [|y l']]; simpl; auto.
  - inversion H as [|? ? [Hu _] _]; subst. destruct x; simpl in *; auto; congruence.
  - split; auto. simpl; lia.
Qed.

Lemma Forall_flat_map {A B} (P : B -> Prop) (f : A -> list B) l :
  Forall (fun x => Forall P (f x)) l -> Forall P (flat_map f l).
Proof. induction 1; simpl; auto. apply Forall_app; auto. Qed.

Lemma mk_type1_flat e : flat_elt (mk_type1 e).
Proof. unfold mk_type1. destruct (is_any e); split; reflexivity. Qed.

Lemma unorm_mk_type u : unorm u -> unorm (mk_type u).
Proof.
  destruct u; simpl; intros H; try (unfold mk_type1; simpl; exact I).
  destruct H as [Hl _]. split. { rewrite map_length; auto. }
  apply Forall_forall. intros x Hx. apply in_map_iff in Hx. destruct Hx as [e [<- _]]. apply mk_type1_flat.
Qed.

Lemma nf_unorm : forall t, unorm (nf t).
Proof.
  induction t using ty_ind'; simpl; auto.
  - (* generic *)
    destruct (c =? type_id).
    + destruct (map nf ps) as [|u [|u' l]] eqn:E.
      * simpl. exact I.
      * apply unorm_mk_type. destruct ps as [|p ps']; simpl in E; [discriminate|].
        inversion E; subst. inversion H; subst; auto.
      * destruct (forallb is_any (u :: u' :: l)); exact I.
    + destruct (forallb is_any (map nf ps)); exact I.
  - (* union *)
    apply unorm_mkU. apply Forall_flat_map. apply Forall_forall. intros z Hz.
    apply in_map_iff in Hz. destruct Hz as [t [<- Ht]]. apply members_flat_elt.
    rewrite Forall_forall in H. auto.
Qed.

Lemma flat_members : forall x, flat_map members (map nf (flat x)) = members (nf x).
Proof.
  induction x using ty_ind'; try (simpl; rewrite app_nil_r; reflexivity); try reflexivity.
  (* union *)
  cbn [flat].
  rewrite map_flat_map, flat_map_flat_map.
  cbn [nf]. rewrite members_mkU.
  - rewrite flat_map_map. apply flat_map_ext_Forall. exact H.
  - apply Forall_flat_map. apply Forall_forall. intros z Hz.
    apply in_map_iff in Hz. destruct Hz as [t [<- Ht]]. apply members_flat_elt. apply nf_unorm.
Qed.

Lemma flat_members_list xs : flat_map members (map nf (flat_map flat xs)) = flat_map members (map nf xs).
Proof.
  rewrite map_flat_map, flat_map_flat_map, flat_map_map.
  apply flat_map_ext_Forall. apply Forall_forall. intros x _. apply flat_members.
Qed.

Lemma nf_mkU ys : nf (mkU ys) = mkU (flat_map members (map nf ys)).
Proof.
  destruct ys as [|y [|y' l]]; try reflexivity.
  simpl. rewrite app_nil_r. symmetry. apply mkU_members. apply nf_unorm.
Qed.

(* ------------------------------------------------------------------------------------------ *)
(* JoinTypes on lists whose flattened members have pairwise different keys and contain no Any *)

Lemma ty_eqb_base a b : ty_eqb a b = true -> base a = base b.
Proof.
  destruct a, b; simpl; intros H; try discriminate; auto.
  - apply N.eqb_eq in H. congruence.
  - apply andb_true_iff in H. destruct H as [H _]. apply N.eqb_eq in H. congruence.
Qed.

Lemma ty_eqb_tkey x y : ty_eqb x y = true -> tkey x = tkey y.
Proof.
  intros H. pose proof (ty_eqb_base _ _ H) as Hb.
  destruct x, y; simpl in H; try discriminate; simpl in *; try congruence.
  apply andb_true_iff in H. destruct H as [Hc Hl]. apply N.eqb_eq in Hc. subst c0.
  destruct ps as [|a [|a' ps']], ps0 as [|b [|b' qs']]; simpl in Hl; try discriminate; auto;
    try (apply andb_true_iff in Hl; destruct Hl as [_ Hl]; discriminate).
  apply andb_true_iff in Hl. destruct Hl as [Hab _].
  apply ty_eqb_base in Hab. rewrite Hab. reflexivity.
Qed.

Lemma dedup_acc_id seen l :
  NoDup (map tkey l) -> (forall s x, In s seen -> In x l -> tkey s <> tkey x) -> dedup_acc seen l = l.
Proof.
  revert seen. induction l as [|x l IH]; intros seen Hnd Hs; simpl; auto.
  inversion Hnd as [|? ? Hnin Hnd']; subst.
  destruct (existsb (ty_eqb x) seen) eqn:E.
  - apply existsb_exists in E. destruct E as [s [Hin He]].
    exfalso. apply (Hs s x Hin (or_introl eq_refl)). symmetry. apply ty_eqb_tkey; auto.
  - f_equal. apply IH; auto. intros s y [<-|Hin] Hy.
    + intros Heq. apply Hnin. rewrite Heq. apply in_map; auto.
    + apply Hs; simpl; auto.
Qed.

Lemma dedup_id l : NoDup (map tkey l) -> dedup l = l.
Proof. intros H. apply dedup_acc_id; auto. Qed.

Lemma join_mkU xs :
  NoDup (map tkey (flat_map flat xs)) ->
  Forall (fun y => is_any y = false) (flat_map flat xs) ->
  join xs = mkU (flat_map flat xs).
Proof.
  intros Hnd Hany. unfold join. rewrite dedup_id by auto.
  destruct (flat_map flat xs) as [|y [|y' l]] eqn:E; simpl; auto.
  inversion Hany as [|? ? Hy Hr]; subst. inversion Hr as [|? ? Hy' Hr']; subst.
  rewrite Hy, Hy'. simpl.
  assert (existsb is_any l = false) as ->.
  { clear -Hr'. induction Hr'; simpl; auto. rewrite H; auto. }
  reflexivity.
Qed.

Lemma nf_join xs :
  NoDup (map tkey (flat_map flat xs)) ->
  Forall (fun y => is_any y = false) (flat_map flat xs) ->
  nf (join xs) = mkU (flat_map members (map nf xs)).
Proof.
  intros Hnd Hany. rewrite join_mkU by auto. rewrite nf_mkU. rewrite flat_members_list. reflexivity.
Qed.

(* ------------------------------------------------------------------------------------------ *)
(* boolean reflection helpers *)

Lemma key_eqb_eq a b : key_eqb a b = true <-> a = b.
Proof.
  destruct a as [a1 a2], b as [b1 b2]. unfold key_eqb. simpl. rewrite andb_true_iff, !N.eqb_eq.
  split; [intros [-> ->]; reflexivity | intros H; inversion H; auto].
Qed.

Lemma nodupb_NoDup {A} (eqb : A -> A -> bool) (Heq : forall a b, eqb a b = true <-> a = b) l :
  nodupb eqb l = true -> NoDup l.
Proof.
  induction l as [|x l IH]; simpl; intros H; constructor.
  - apply andb_true_iff in H. destruct H as [H _]. apply negb_true_iff in H.
    intros Hin. assert (existsb (eqb x) l = true) as E.
    { apply existsb_exists. exists x. split; auto. apply Heq; reflexivity. }
    congruence.
  - apply andb_true_iff in H. destruct H as [_ H]. auto.
Qed.

Lemma NoDup_map_pair (c : cid) (l : list cid) : NoDup l -> NoDup (map (pair c) l).
Proof.
  induction 1; simpl; constructor; auto.
  intros Hin. apply in_map_iff in Hin. destruct Hin as [y [Hy Hin]]. inversion Hy; subst. auto.
Qed.

Lemma NoDup_app_l {A} (l1 l2 : list A) : NoDup (l1 ++ l2) -> NoDup l1.
Proof. induction l1; simpl; intros H; [constructor|]. inversion H; subst. constructor; auto.
  intros Hin. apply H2. apply in_or_app; auto. Qed.

Lemma NoDup_app_r {A} (l1 l2 : list A) : NoDup (l1 ++ l2) -> NoDup l2.
Proof. induction l1; simpl; intros H; auto. inversion H; subst. auto. Qed.

Lemma NoDup_flat_map_in {A B} (f : A -> list B) l x : NoDup (flat_map f l) -> In x l -> NoDup (f x).
Proof.
  induction l as [|y l IH]; simpl; intros H Hin; [contradiction|]. destruct Hin as [<-|Hin].
  - eapply NoDup_app_l; eauto.
  - apply IH; auto. eapply NoDup_app_r; eauto.
Qed.

(* ------------------------------------------------------------------------------------------ *)
(* facts about nf and the type[...] lifting *)

Lemma mk_type_mkU l : Forall flat_elt l -> l <> [] -> mk_type (mkU l) = mkU (map mk_type1 l).
Proof.
  intros Hf Hne. destruct l as [|e [|e' l']]; [congruence| |reflexivity].
  simpl. inversion Hf as [|? ? [Hu _] _]; subst. destruct e; simpl in *; try reflexivity; congruence.
Qed.

Lemma members_mk_type z : unorm z -> is_nothing z = false -> members (mk_type z) = map mk_type1 (members z).
Proof.
  destruct z; simpl; intros Hu Hn; try reflexivity; try discriminate.
Qed.

Lemma members_nonempty z : unorm z -> is_nothing z = false -> members z <> [].
Proof.
  destruct z; simpl; intros Hu Hn; try discriminate. destruct Hu as [Hl _].
  destruct ts; simpl in *; [lia|discriminate].
Qed.

Lemma nf_member_not_nothing t : member_ok t = true -> is_nothing (nf t) = false.
Proof.
  destruct t; simpl; intros H; try discriminate; auto.
  destruct (c =? type_id).
  - destruct (map nf ps) as [|u [|u' l]].
    + reflexivity.
    + destruct u; simpl; reflexivity.
    + destruct (forallb is_any (u :: u' :: l)); reflexivity.
  - destruct (forallb is_any (map nf ps)); reflexivity.
Qed.

Lemma join_any : join [TAny] = TAny.
Proof. reflexivity. Qed.
Lemma join_nil : join [] = TNothing.
Proof. reflexivity. Qed.
Lemma join_nothing : join [TNothing] = TNothing.
Proof. reflexivity. Qed.

Lemma map_repeat {A B} (f : A -> B) x n : map f (repeat x n) = repeat (f x) n.
Proof. induction n; simpl; congruence. Qed.

Lemma forallb_repeat_any n : forallb is_any (repeat TAny n) = true.
Proof. induction n; simpl; auto. Qed.

Lemma tkey_generic c args : c <> type_id -> tkey (TGeneric c args) = (c, 0).
Proof.
  intros Hc. simpl. destruct args as [|a [|a' l]]; auto.
  destruct (c =? type_id) eqn:E; auto. apply N.eqb_eq in E. congruence.
Qed.

(* ------------------------------------------------------------------------------------------ *)
Section RoundTrip.
Variable arity : cid -> nat.
Hypothesis arity_type : arity type_id = 1%nat.
Hypothesis arity_tuple : arity tuple_id = 1%nat.

Notation OI t := (out arity (inst arity t)).
Notation OC t := (out_cls arity (conv_cls t)).
Notation OV t := (out arity (conv_cls t)).
Notation IV t := (instantiate arity (conv_cls t)).
Notation JV t := (join (map (out arity) (conv_var arity t))).
Notation JI t := (join (map (out arity) (IV t))).
Definition AO (t : ty) : ty := if only_unsolvable (IV t) then OC t else JI t.
Definition notany (y : ty) : Prop := is_any y = false.

Lemma firstn_pad {A} (l : list A) n x : length l = n -> firstn n l ++ repeat x (n - length l) = l.
Proof. intros <-. rewrite firstn_all, Nat.sub_diag. apply app_nil_r. Qed.

Lemma base_mkc c args h : base (mk_container c args h) = c.
Proof.
  unfold mk_container. destruct args.
  - destruct (h || negb (c =? tuple_id)) eqn:E; simpl; auto.
    apply orb_false_iff in E. destruct E as [_ E]. apply negb_false_iff, N.eqb_eq in E. auto.
  - destruct h; simpl; auto. destruct (c =? callable_id) eqn:E1.
    + apply N.eqb_eq in E1. simpl. auto.
    + destruct (c =? tuple_id) eqn:E2; simpl; auto. apply N.eqb_eq in E2. auto.
Qed.

Lemma mkc_gen c args :
  args <> [] -> length args = arity c -> mk_container c args (homog c args) = TGeneric c args.
Proof.
  intros Hne Hl. destruct args as [|a args]; [congruence|].
  unfold mk_container, homog. destruct (c =? callable_id) eqn:Ec; [reflexivity|].
  destruct (length (a :: args) =? 1)%nat eqn:El; [reflexivity|].
  destruct (c =? tuple_id) eqn:Et; [|reflexivity].
  apply N.eqb_eq in Et. subst c. rewrite arity_tuple in Hl. rewrite Hl in El. discriminate.
Qed.

Lemma mkc_nil c : arity c = 0%nat -> mk_container c [] (homog c []) = TClass c.
Proof.
  intros H. unfold mk_container. destruct (c =? tuple_id) eqn:Et.
  - apply N.eqb_eq in Et. subst c. rewrite arity_tuple in H. discriminate.
  - rewrite orb_true_r. reflexivity.
Qed.

(* the printed form of a bare class / an instance whose parameters are all Any *)
Definition bare_ty (c : cid) : ty :=
  mk_container c (repeat TAny (arity c)) (homog c (repeat TAny (arity c))).

Lemma bare_ty_cases c :
  (arity c = 0%nat /\ bare_ty c = TClass c) \/
  (arity c <> 0%nat /\ bare_ty c = TGeneric c (repeat TAny (arity c))).
Proof.
  unfold bare_ty. destruct (arity c) eqn:E.
  - left. split; auto. simpl. apply mkc_nil; auto.
  - right. split; auto. apply mkc_gen. { simpl; discriminate. } rewrite repeat_length. auto.
Qed.

Lemma nf_bare_ty c : nf (bare_ty c) = TClass c.
Proof.
  destruct (bare_ty_cases c) as [[_ ->]|[Hn ->]]; [reflexivity|].
  cbn [nf]. rewrite map_repeat. cbn [nf].
  destruct (c =? type_id) eqn:E.
  - apply N.eqb_eq in E. subst c. rewrite arity_type. reflexivity.
  - rewrite forallb_repeat_any. reflexivity.
Qed.

Lemma bare_ty_key c : c <> type_id ->
  flat (bare_ty c) = [bare_ty c] /\ tkey (bare_ty c) = (c, 0) /\ is_any (bare_ty c) = false.
Proof.
  intros Hc. destruct (bare_ty_cases c) as [[_ ->]|[Hn ->]].
  - repeat split; reflexivity.
  - repeat split; try reflexivity. apply tkey_generic; auto.
Qed.

(* ---- (a) the class-level round trip: value_instance_to_pytd_type (constant_to_value t) ---- *)

Lemma wf_generic_inv c ps : wf arity (TGeneric c ps) = true ->
  c <> 0 /\ length ps = arity c /\ arity c <> 0%nat /\ Forall (fun p => wf arity p = true) ps /\
  (c = type_id -> exists u, ps = [u] /\ is_any u = false /\ nfree u = true /\ NoDup (ubases u)).
Proof.
  simpl. intros H. repeat (apply andb_true_iff in H; destruct H as [H ?]).
  apply negb_true_iff, N.eqb_neq in H. apply Nat.eqb_eq in H3. apply Nat.ltb_lt in H2.
  apply forallb_Forall in H1.
  repeat split; auto; try lia.
  intros ->. rewrite N.eqb_refl in H0. destruct ps as [|u [|u' l]]; try discriminate.
  exists u. repeat (apply andb_true_iff in H0; destruct H0 as [H0 ?]).
  apply negb_true_iff in H0. repeat split; auto.
  eapply nodupb_NoDup; eauto. intros a b. apply N.eqb_eq.
Qed.

Lemma wf_union_inv ts : wf arity (TUnion ts) = true ->
  (2 <= length ts)%nat /\ Forall (fun p => wf arity p = true) ts /\ Forall (fun p => member_ok p = true) ts /\
  NoDup (map base ts) /\ NoDup (flat_map mkeys1 ts).
Proof.
  cbn [wf]. intros H. repeat (apply andb_true_iff in H; destruct H as [H ?]).
  apply Nat.leb_le in H. apply forallb_Forall in H3, H2.
  repeat split; auto.
  - eapply nodupb_NoDup; eauto. intros a b. apply N.eqb_eq.
  - eapply nodupb_NoDup; eauto. apply key_eqb_eq.
Qed.

Lemma Pa : forall t, wf arity t = true -> nfree t = true -> nf (OC t) = nf t.
Proof.
  induction t using ty_ind'; intros Hwf Hnf; try reflexivity; try discriminate.
  - (* class *) apply nf_bare_ty.
  - (* generic *)
    destruct (wf_generic_inv _ _ Hwf) as (Hc & Hl & Hn & Hps & _).
    cbn [conv_cls out_cls].
    assert (firstn (arity c) (map (out_cls arity) (map conv_cls ps)) ++
            repeat TAny (arity c - length (map conv_cls ps)) = map (out_cls arity) (map conv_cls ps)) as ->.
    { rewrite map_length, <- Hl, Nat.sub_diag. simpl. rewrite app_nil_r. apply firstn_all2.
      rewrite !map_length. lia. }
    rewrite mkc_gen.
    2:{ destruct ps; simpl in *; [congruence|discriminate]. }
    2:{ rewrite !map_length; auto. }
    cbn [nf]. rewrite !map_map.
    assert (map (fun x => nf (OC x)) ps = map nf ps) as ->; [|reflexivity].
    apply map_ext_Forall. simpl in Hnf. apply forallb_Forall in Hnf.
    rewrite Forall_forall in *. intros p Hp. apply H; auto.
  - (* tuple *)
    simpl in Hwf, Hnf. apply forallb_Forall in Hwf, Hnf.
    cbn [conv_cls out_cls]. unfold mk_container. rewrite map_map.
    assert (map (fun x => nf (OC x)) ps = map nf ps) as E.
    { apply map_ext_Forall. rewrite Forall_forall in *. intros p Hp. apply H; auto. }
    destruct ps as [|p ps']; [reflexivity|].
    cbn [map]. cbn [map] in E. simpl. f_equal. rewrite map_map. exact E.
  - (* callable *)
    simpl in Hwf, Hnf. apply andb_true_iff in Hwf, Hnf. destruct Hwf as [Hw1 Hw2], Hnf as [Hn1 Hn2].
    apply forallb_Forall in Hw1, Hn1.
    cbn [conv_cls out_cls]. unfold mk_container.
    destruct (map (out_cls arity) (map conv_cls a) ++ [OC t]) eqn:E.
    { apply app_eq_nil in E. destruct E; discriminate. }
    rewrite <- E. simpl. rewrite removelast_snoc, last_snoc. cbn [nf]. rewrite !map_map. f_equal; auto.
    apply map_ext_Forall. rewrite Forall_forall in *. intros p Hp. apply H; auto.
  - (* union *)
    destruct (wf_union_inv _ Hwf) as (Hl & Hws & _).
    simpl in Hnf. apply forallb_Forall in Hnf.
    cbn [conv_cls]. destruct ts as [|t1 [|t2 ts']]; [simpl in Hl; lia|simpl in Hl; lia|].
    cbn [out_cls nf]. f_equal. f_equal. rewrite !map_map.
    apply map_ext_Forall. rewrite Forall_forall in *. intros p Hp. apply H; auto.
Qed.

(* ---- class values as values: type[...] ---- *)

Lemma Ba t : member_ok t = true -> OV t = TGeneric type_id [OC t] /\ base (OC t) = base t.
Proof.
  destruct t; simpl; intros H; try discriminate; (split; [reflexivity|]); apply base_mkc.
Qed.

Lemma flat_generic_list {A} (f : A -> ty) c (l : list A) :
  flat_map flat (map (fun u => TGeneric c [f u]) l) = map (fun u => TGeneric c [f u]) l.
Proof. induction l; simpl; congruence. Qed.

Lemma nf_type_generic x : nf (TGeneric type_id [x]) = mk_type (nf x).
Proof. reflexivity. Qed.

Lemma Pt t :
  wf arity t = true -> is_any t = false -> nfree t = true -> NoDup (ubases t) ->
  nf (OV t) = mk_type (nf t) /\
  map tkey (flat (OV t)) = map (pair type_id) (ubases t) /\
  Forall notany (flat (OV t)).
Proof.
  intros Hwf Hany Hnf Hnd.
  destruct (member_ok t) eqn:Hm.
  - (* a single class-level value *)
    destruct (Ba t Hm) as [E Hb]. rewrite E. rewrite nf_type_generic, Pa by auto.
    split; [reflexivity|]. split.
    + cbn [flat map tkey]. rewrite N.eqb_refl, Hb.
      destruct t; simpl in Hm; try discriminate; reflexivity.
    + repeat constructor.
  - destruct t; try (simpl in Hm; discriminate); try (simpl in Hany; discriminate);
      try (simpl in Hnf; discriminate).
    (* union *)
    destruct (wf_union_inv _ Hwf) as (Hl & Hws & Hms & Hbases & _).
    cbn [nfree] in Hnf. apply forallb_Forall in Hnf. cbn [ubases] in Hnd.
    destruct ts as [|t1 [|t2 ts']]; [simpl in Hl; lia|simpl in Hl; lia|].
    remember (t1 :: t2 :: ts') as us eqn:Hus.
    assert (conv_cls (TUnion us) = VUnion (map conv_cls us)) as Ec by (subst us; reflexivity).
    rewrite Ec. cbn [out]. rewrite map_map.
    assert (map (fun u => OV u) us = map (fun u => TGeneric type_id [OC u]) us) as Exs.
    { apply map_ext_Forall. rewrite Forall_forall in *. intros u Hu. apply Ba; auto. }
    rewrite Exs.
    set (xs := map (fun u => TGeneric type_id [OC u]) us).
    assert (flat_map flat xs = xs) as Eflat by apply flat_generic_list.
    assert (map tkey xs = map (pair type_id) (map base us)) as Ekeys.
    { unfold xs. rewrite !map_map. apply map_ext_Forall. rewrite Forall_forall in *. intros u Hu.
      simpl. f_equal. apply Ba; auto. }
    assert (NoDup (map tkey (flat_map flat xs))) as Hnd'.
    { rewrite Eflat, Ekeys. apply NoDup_map_pair; auto. }
    assert (Forall (fun y => is_any y = false) (flat_map flat xs)) as Hna.
    { rewrite Eflat. unfold xs. apply Forall_forall. intros y Hy. apply in_map_iff in Hy.
      destruct Hy as [u [<- _]]. reflexivity. }
    split; [|split].
    + rewrite nf_join by auto. cbn [nf].
      assert (Forall flat_elt (flat_map members (map nf us))) as Hfe.
      { apply Forall_flat_map. apply Forall_forall. intros z Hz. apply in_map_iff in Hz.
        destruct Hz as [u [<- _]]. apply members_flat_elt, nf_unorm. }
      rewrite mk_type_mkU; auto.
      2:{ subst us. simpl. intros Habs. apply app_eq_nil in Habs. destruct Habs as [Habs _].
          revert Habs. apply members_nonempty; [apply nf_unorm|].
          apply nf_member_not_nothing. inversion Hms; auto. }
      f_equal. unfold xs. rewrite !map_map, flat_map_map, flat_map_map.
      rewrite map_flat_map. apply flat_map_ext_Forall. rewrite Forall_forall in *. intros u Hu.
      rewrite nf_type_generic, Pa by auto. apply members_mk_type; [apply nf_unorm|].
      apply nf_member_not_nothing; auto.
    + rewrite join_mkU by auto. rewrite Eflat.
      assert (mkU xs = TUnion xs) as ->.
      { unfold xs. subst us. reflexivity. }
      cbn [flat]. rewrite Eflat. exact Ekeys.
    + rewrite join_mkU by auto. rewrite Eflat.
      assert (mkU xs = TUnion xs) as ->.
      { unfold xs. subst us. reflexivity. }
      cbn [flat]. exact Hna.
Qed.

(* ---- the instance-level round trip ---- *)

Definition Keys (xs : list ty) (ks : list (cid * cid)) : Prop :=
  map tkey (flat_map flat xs) = ks /\ Forall notany (flat_map flat xs).

Record Inv (t : ty) : Prop := {
  inv_q : is_union t = false -> nf (OI t) = nf t /\ (is_any t = false -> Keys [OI t] (mkeys1 t));
  inv_v : nf (JV t) = nf t;
  inv_b : flat_map members (map nf (map (out arity) (IV t))) = members (nf t) /\
          (only_unsolvable (IV t) = true -> t = TAny) /\
          (is_any t = false -> Keys (map (out arity) (IV t)) (mkeys t)) /\
          (is_union t = false -> exists v, IV t = [v] /\ (is_any t = false -> is_unsolvable v = false))
}.

Lemma Keys_join_nf xs ks : Keys xs ks -> NoDup ks -> nf (join xs) = mkU (flat_map members (map nf xs)).
Proof. intros [Hk Hn] Hnd. apply nf_join; [rewrite Hk; auto|exact Hn]. Qed.

Lemma Keys_single_nf x ks : Keys [x] ks -> NoDup ks -> nf (join [x]) = nf x.
Proof.
  intros HK Hnd. rewrite (Keys_join_nf _ _ HK Hnd). simpl. rewrite app_nil_r.
  apply mkU_members, nf_unorm.
Qed.

Lemma mkeys1_generic c ps : c <> type_id -> mkeys1 (TGeneric c ps) = [(c, 0)].
Proof.
  intros Hc. simpl. destruct ps as [|u [|u' l]]; auto.
  destruct (c =? type_id) eqn:E; auto. apply N.eqb_eq in E. congruence.
Qed.

Lemma wf_mkeys_nodup t : wf arity t = true -> NoDup (mkeys t).
Proof.
  intros Hwf. destruct t; try (repeat constructor; simpl; tauto).
  - (* generic *)
    destruct (wf_generic_inv _ _ Hwf) as (_ & _ & _ & _ & Hty).
    destruct (N.eq_dec c type_id) as [->|Hc].
    + destruct (Hty eq_refl) as (u & -> & _ & _ & Hnd). simpl. apply NoDup_map_pair; auto.
    + cbn [mkeys]. rewrite mkeys1_generic by auto. repeat constructor; simpl; tauto.
  - (* union *)
    destruct (wf_union_inv _ Hwf) as (_ & _ & _ & _ & H). exact H.
Qed.

Lemma conv_cls_unsolvable u : wf arity u = true -> conv_cls u = VUnsolvable -> u = TAny.
Proof.
  intros Hwf H. destruct u; simpl in H; try discriminate; auto.
  destruct (wf_union_inv _ Hwf) as (Hl & _).
  destruct ts as [|t1 [|t2 ts']]; simpl in Hl; try lia. discriminate.
Qed.

Lemma JI_nf t : wf arity t = true -> Inv t -> nf (JI t) = nf t.
Proof.
  intros Hwf [_ _ (Hm & _ & Hk & _)].
  destruct (is_any t) eqn:Ha.
  - destruct t; try discriminate. reflexivity.
  - rewrite (Keys_join_nf _ _ (Hk eq_refl) (wf_mkeys_nodup _ Hwf)). rewrite Hm.
    apply mkU_members, nf_unorm.
Qed.

Lemma AO_nf t : wf arity t = true -> Inv t -> nf (AO t) = nf t.
Proof.
  intros Hwf HI. unfold AO. destruct (only_unsolvable (IV t)) eqn:E.
  - destruct HI as [_ _ (_ & Hu & _)]. rewrite (Hu E). reflexivity.
  - apply JI_nf; auto.
Qed.

Lemma mkc_tuple args : mk_container tuple_id args false = TTuple args.
Proof. destruct args; reflexivity. Qed.

Lemma mkc_callable l x : mk_container callable_id (l ++ [x]) false = TCallable l x.
Proof.
  unfold mk_container. destruct (l ++ [x]) eqn:E.
  - apply app_eq_nil in E. destruct E; discriminate.
  - rewrite <- E. simpl. rewrite removelast_snoc, last_snoc. reflexivity.
Qed.

Lemma conv_var_single t : member_ok t = true -> conv_var arity t = [inst arity t].
Proof. destruct t; simpl; intros; try discriminate; reflexivity. Qed.

Lemma conv_var_union ts :
  Forall (fun m => member_ok m = true) ts -> conv_var arity (TUnion ts) = map (inst arity) ts.
Proof.
  unfold conv_var. cbn [var_of]. induction 1 as [|m ts Hm _ IH]; simpl; auto.
  rewrite IH. destruct m; simpl in Hm; try discriminate; reflexivity.
Qed.

Lemma out_bare_inst c : c <> type_id -> out arity (bare_inst arity c) = bare_ty c.
Proof.
  intros Hc. unfold bare_inst. apply N.eqb_neq in Hc. rewrite Hc.
  destruct ((c =? none_id) && (arity c =? 0)%nat) eqn:E.
  - apply andb_true_iff in E. destruct E as [E1 E2]. apply N.eqb_eq in E1. apply Nat.eqb_eq in E2.
    subst c. unfold bare_ty. rewrite E2. simpl. reflexivity.
  - cbn [out]. rewrite map_repeat. reflexivity.
Qed.

Lemma only_unsolvable_single v : only_unsolvable [v] = is_unsolvable v.
Proof. unfold only_unsolvable. simpl. apply andb_true_r. Qed.

Lemma inv_of_single t x ks :
  (* a non-union, non-Any type whose instance, instantiation and variable are all the single value x *)
  is_union t = false -> is_any t = false -> member_ok t = true ->
  OI t = x -> map (out arity) (IV t) = [x] -> (exists v, IV t = [v]) -> only_unsolvable (IV t) = false ->
  nf x = nf t -> Keys [x] ks -> mkeys1 t = ks -> NoDup ks -> Inv t.
Proof.
  intros Hu Ha Hm Hoi Hiv Hex Hno Hnf HK Hks Hnd.
  assert (mkeys t = mkeys1 t) as Emk by (destruct t; simpl in Hu; try discriminate; reflexivity).
  constructor.
  - intros _. rewrite Hoi. split; auto. intros _. rewrite Hks. exact HK.
  - rewrite conv_var_single by auto. cbn [map]. rewrite Hoi, <- Hnf. eapply Keys_single_nf; eauto.
  - split; [|split; [|split]].
    + rewrite Hiv. simpl. rewrite app_nil_r. congruence.
    + intros H. congruence.
    + intros _. rewrite Hiv, Emk, Hks. exact HK.
    + intros _. destruct Hex as [v Ev]. exists v. split; auto. intros _.
      rewrite Ev, only_unsolvable_single in Hno. exact Hno.
Qed.

Lemma Keys_nothing : Keys [TNothing] [].
Proof. split; [reflexivity|constructor]. Qed.

Lemma Keys_one x k : flat x = [x] -> tkey x = k -> is_any x = false -> Keys [x] [k].
Proof.
  intros Hf Hk Ha. split; simpl; rewrite Hf; simpl; [rewrite Hk; reflexivity|repeat constructor; exact Ha].
Qed.

Lemma NoDup_one {A} (k : A) : NoDup [k].
Proof. repeat constructor; simpl; tauto. Qed.

Lemma inv_all : forall t, wf arity t = true -> Inv t.
Proof.
  induction t using ty_ind'; intros Hwf.
  - (* Any *)
    constructor.
    + intros _. split; [reflexivity|discriminate].
    + reflexivity.
    + split; [reflexivity|]. split; [auto|]. split; [discriminate|]. intros _. eexists; split; [reflexivity|discriminate].
  - (* nothing *)
    constructor.
    + intros _. split; [reflexivity|]. intros _. exact Keys_nothing.
    + reflexivity.
    + split; [reflexivity|]. split; [discriminate|]. split; [intros _; exact Keys_nothing|].
      intros _. eexists; split; reflexivity.
  - (* error *) discriminate.
  - (* class *)
    simpl in Hwf. apply andb_true_iff in Hwf. destruct Hwf as [H0 Hty].
    apply negb_true_iff, N.eqb_neq in H0, Hty.
    destruct (bare_ty_key c Hty) as (Hf & Hk & Ha).
    apply (inv_of_single (TClass c) (bare_ty c) [(c, 0)]); auto.
    + cbn [inst]. apply out_bare_inst; auto.
    + cbn [conv_cls instantiate map]. rewrite out_bare_inst; auto.
    + eexists; reflexivity.
    + cbn [conv_cls instantiate]. unfold bare_inst. apply N.eqb_neq in Hty. rewrite Hty.
      destruct ((c =? none_id) && (arity c =? 0)%nat); reflexivity.
    + apply nf_bare_ty.
    + apply Keys_one; auto.
    + apply NoDup_one.
  - (* generic *)
    destruct (wf_generic_inv _ _ Hwf) as (Hc0 & Hl & Hn & Hps & Hty).
    destruct (N.eq_dec c type_id) as [->|Hc].
    + (* type[u] *)
      destruct (Hty eq_refl) as (u & -> & Hua & Hunf & Hund).
      inversion Hps as [|? ? Hwu _]; subst.
      destruct (Pt u Hwu Hua Hunf Hund) as (Hnfu & Hku & Hnau).
      assert (OI (TGeneric type_id [u]) = OV u) as Eoi by reflexivity.
      assert (IV (TGeneric type_id [u]) = [conv_cls u]) as Eiv by reflexivity.
      assert (Keys [OV u] (map (pair type_id) (ubases u))) as HK.
      { split; simpl; rewrite app_nil_r; auto. }
      assert (NoDup (map (pair type_id) (ubases u))) as Hnd by (apply NoDup_map_pair; auto).
      apply (inv_of_single (TGeneric type_id [u]) (OV u) (map (pair type_id) (ubases u))); auto.
      * rewrite Eiv. eexists; reflexivity.
      * rewrite Eiv. destruct (conv_cls u) eqn:E; try reflexivity.
        apply conv_cls_unsolvable in E; auto. subst u. discriminate.
    + (* an ordinary container *)
      assert (ps <> []) as Hne by (destruct ps; simpl in *; [congruence|discriminate]).
      assert (forall p, In p ps -> Inv p) as IHp.
      { rewrite Forall_forall in *. intros p Hp. apply H; auto. }
      assert (forall p, In p ps -> wf arity p = true) as Hwp by (rewrite Forall_forall in Hps; auto).
      assert (OI (TGeneric c ps) = TGeneric c (map (fun p => JV p) ps)) as Eoi.
      { cbn [inst]. apply N.eqb_neq in Hc. rewrite Hc. rewrite Hl, Nat.leb_refl, Nat.sub_diag.
        simpl repeat. rewrite app_nil_r. cbn [out]. rewrite map_map.
        apply mkc_gen. { destruct ps; simpl; [congruence|discriminate]. } rewrite map_length; auto. }
      assert (map (out arity) (IV (TGeneric c ps)) = [TGeneric c (map AO ps)]) as Eiv.
      { cbn [conv_cls instantiate]. apply N.eqb_neq in Hc. rewrite Hc. cbn [map]. f_equal.
        rewrite map_length, Hl, Nat.sub_diag. simpl repeat. rewrite app_nil_r.
        rewrite firstn_all2 by (rewrite !map_length; lia).
        cbn [out]. rewrite map_length, Hl, Nat.sub_diag. simpl repeat. rewrite app_nil_r.
        rewrite firstn_all2 by (rewrite !map_length; lia).
        rewrite !map_map.
        rewrite (zip_with_map _ conv_cls
                   (fun x => (only_unsolvable (IV x), join (map (out arity) (IV x))))).
        apply mkc_gen. { destruct ps; simpl; [congruence|discriminate]. } rewrite map_length; auto. }
      assert (nf (TGeneric c (map (fun p => JV p) ps)) = nf (TGeneric c ps)) as Env.
      { cbn [nf]. rewrite map_map.
        assert (map (fun p => nf (JV p)) ps = map nf ps) as ->; [|reflexivity].
        apply map_ext_in. intros p Hp. apply IHp; auto. }
      assert (nf (TGeneric c (map AO ps)) = nf (TGeneric c ps)) as Enb.
      { cbn [nf]. rewrite map_map.
        assert (map (fun p => nf (AO p)) ps = map nf ps) as ->; [|reflexivity].
        apply map_ext_in. intros p Hp. apply AO_nf; auto. }
      assert (forall args, Keys [TGeneric c args] [(c, 0)]) as HK.
      { intros args. apply Keys_one; auto. apply tkey_generic; auto. }
      constructor.
      * intros _. rewrite Eoi. split; auto. intros _. rewrite mkeys1_generic by auto. apply HK.
      * rewrite conv_var_single by reflexivity. cbn [map]. rewrite Eoi, <- Env.
        eapply Keys_single_nf; [apply HK|apply NoDup_one].
      * split; [|split; [|split]].
        -- rewrite Eiv. cbn [map flat_map]. rewrite app_nil_r. rewrite Enb. reflexivity.
        -- cbn [conv_cls instantiate]. apply N.eqb_neq in Hc. rewrite Hc. discriminate.
        -- intros _. rewrite Eiv. cbn [mkeys]. rewrite mkeys1_generic by auto. apply HK.
        -- intros _. cbn [conv_cls instantiate]. apply N.eqb_neq in Hc. rewrite Hc. eexists; split; reflexivity.
  - (* tuple *)
    cbn [wf] in Hwf. apply forallb_Forall in Hwf.
    assert (forall p, In p ps -> Inv p) as IHp.
    { rewrite Forall_forall in *. intros p Hp. apply H; auto. }
    assert (forall p, In p ps -> wf arity p = true) as Hwp by (rewrite Forall_forall in Hwf; auto).
    assert (OI (TTuple ps) = TTuple (map (fun p => JV p) ps)) as Eoi.
    { cbn [inst out]. rewrite map_map. apply mkc_tuple. }
    assert (map (out arity) (IV (TTuple ps)) = [TTuple (map (fun p => JI p) ps)]) as Eiv.
    { cbn [conv_cls instantiate map out]. rewrite !map_map. f_equal. apply mkc_tuple. }
    assert (nf (TTuple (map (fun p => JV p) ps)) = nf (TTuple ps)) as Env.
    { cbn [nf]. rewrite map_map. f_equal. apply map_ext_in. intros p Hp. apply IHp; auto. }
    assert (nf (TTuple (map (fun p => JI p) ps)) = nf (TTuple ps)) as Enb.
    { cbn [nf]. rewrite map_map. f_equal. apply map_ext_in. intros p Hp. apply JI_nf; auto. }
    assert (forall args, Keys [TTuple args] [(tuple_id, 0)]) as HK.
    { intros args. apply Keys_one; reflexivity. }
    constructor.
    + intros _. rewrite Eoi. split; [auto|]. intros _. apply HK.
    + rewrite conv_var_single by reflexivity. cbn [map]. rewrite Eoi, <- Env.
      eapply Keys_single_nf; [apply HK|apply NoDup_one].
    + split; [|split; [|split]].
      * rewrite Eiv. cbn [map flat_map]. rewrite app_nil_r, Enb. reflexivity.
      * discriminate.
      * intros _. rewrite Eiv. apply HK.
      * intros _. eexists; split; reflexivity.
  - (* callable *)
    cbn [wf] in Hwf. apply andb_true_iff in Hwf. destruct Hwf as [Hwa Hwr]. apply forallb_Forall in Hwa.
    assert (forall p, In p a -> Inv p) as IHp.
    { rewrite Forall_forall in *. intros p Hp. apply H; auto. }
    assert (forall p, In p a -> wf arity p = true) as Hwp by (rewrite Forall_forall in Hwa; auto).
    specialize (IHt Hwr).
    assert (IV (TCallable a t) = [inst arity (TCallable a t)]) as Eiv0.
    { cbn [conv_cls instantiate inst]. rewrite map_map. reflexivity. }
    assert (OI (TCallable a t) = TCallable (map AO a) (AO t)) as Eoi.
    { cbn [inst out].
      assert (map conv_cls a ++ [conv_cls t] = map conv_cls (a ++ [t])) as -> by (rewrite map_app; reflexivity).
      assert (map (fun a0 => IV a0) a ++ [IV t] = map (fun a0 => IV a0) (a ++ [t])) as ->
        by (rewrite map_app; reflexivity).
      rewrite map_map.
      rewrite (zip_with_map _ conv_cls
                 (fun x => (only_unsolvable (IV x), join (map (out arity) (IV x))))).
      rewrite map_app. cbn [map]. apply mkc_callable. }
    assert (nf (TCallable (map AO a) (AO t)) = nf (TCallable a t)) as Env.
    { cbn [nf]. rewrite map_map. f_equal; [|apply AO_nf; auto].
      apply map_ext_in. intros p Hp. apply AO_nf; auto. }
    assert (forall args r, Keys [TCallable args r] [(callable_id, 0)]) as HK.
    { intros args r. apply Keys_one; reflexivity. }
    apply (inv_of_single (TCallable a t) (TCallable (map AO a) (AO t)) [(callable_id, 0)]); auto.
    + rewrite Eiv0. cbn [map]. rewrite Eoi. reflexivity.
    + rewrite Eiv0. eexists; reflexivity.
    + apply NoDup_one.
  - (* union *)
    destruct (wf_union_inv _ Hwf) as (Hl & Hws & Hms & Hbases & Hkeys).
    assert (forall m, In m ts -> Inv m) as IHm.
    { rewrite Forall_forall in *. intros m Hm. apply H; auto. }
    assert (forall m, In m ts -> is_union m = false /\ is_any m = false) as Hmm.
    { rewrite Forall_forall in Hms. intros m Hm. specialize (Hms m Hm).
      destruct m; simpl in Hms; try discriminate; auto. }
    constructor.
    + discriminate.
    + (* the variable of a union: one binding per member *)
      rewrite conv_var_union by auto. rewrite map_map.
      assert (Keys (map (fun m => OI m) ts) (flat_map mkeys1 ts)) as HK.
      { split.
        - rewrite flat_map_map, map_flat_map. apply flat_map_ext_Forall. apply Forall_forall.
          intros m Hm. destruct (Hmm m Hm) as [Hu Ha]. destruct (IHm m Hm) as [Hq _ _].
          destruct (Hq Hu) as [_ HKm]. destruct (HKm Ha) as [HKk _]. simpl in HKk.
          rewrite app_nil_r in HKk. exact HKk.
        - rewrite flat_map_map. apply Forall_flat_map. apply Forall_forall.
          intros m Hm. destruct (Hmm m Hm) as [Hu Ha]. destruct (IHm m Hm) as [Hq _ _].
          destruct (Hq Hu) as [_ HKm]. destruct (HKm Ha) as [_ HKn]. simpl in HKn.
          rewrite app_nil_r in HKn. exact HKn. }
      rewrite (Keys_join_nf _ _ HK Hkeys). cbn [nf]. f_equal. rewrite !map_map. f_equal.
      apply map_ext_in. intros m Hm. destruct (Hmm m Hm) as [Hu Ha]. destruct (IHm m Hm) as [Hq _ _].
      apply Hq; auto.
    + assert (IV (TUnion ts) = flat_map (fun m => IV m) ts) as Eiv.
      { cbn [conv_cls]. destruct ts as [|t1 [|t2 ts']]; [simpl in Hl; lia|simpl in Hl; lia|].
        cbn [instantiate]. apply flat_map_map. }
      rewrite Eiv. split; [|split; [|split]].
      * rewrite !map_flat_map, flat_map_flat_map. cbn [nf]. rewrite members_mkU.
        2:{ apply Forall_flat_map. apply Forall_forall. intros z Hz. apply in_map_iff in Hz.
            destruct Hz as [u [<- _]]. apply members_flat_elt, nf_unorm. }
        rewrite flat_map_map. apply flat_map_ext_Forall. apply Forall_forall. intros m Hm.
        destruct (IHm m Hm) as [_ _ (Hb & _)]. exact Hb.
      * (* at least two bindings *)
        destruct ts as [|t1 [|t2 ts']]; [simpl in Hl; lia|simpl in Hl; lia|].
        destruct (Hmm t1 (or_introl eq_refl)) as [Hu1 _].
        destruct (Hmm t2 (or_intror (or_introl eq_refl))) as [Hu2 _].
        destruct (IHm t1 (or_introl eq_refl)) as [_ _ (_ & _ & _ & He1)].
        destruct (IHm t2 (or_intror (or_introl eq_refl))) as [_ _ (_ & _ & _ & He2)].
        destruct (Hmm t1 (or_introl eq_refl)) as [_ Ha1].
        destruct (He1 Hu1) as [v1 [E1 Hv1]]. destruct (He2 Hu2) as [v2 [E2 _]].
        simpl. rewrite E1, E2. simpl. rewrite (Hv1 Ha1). discriminate.
      * intros _. cbn [mkeys]. split.
        -- rewrite (map_flat_map (fun m => IV m) (out arity)), flat_map_flat_map, map_flat_map.
           apply flat_map_ext_Forall.
           apply Forall_forall. intros m Hm. destruct (Hmm m Hm) as [Hu Ha].
           destruct (IHm m Hm) as [_ _ (_ & _ & HKm & _)]. destruct (HKm Ha) as [HKk _].
           rewrite HKk. destruct m; simpl in Hu; try discriminate; reflexivity.
        -- rewrite (map_flat_map (fun m => IV m) (out arity)), flat_map_flat_map.
           apply Forall_flat_map. apply Forall_forall.
           intros m Hm. destruct (Hmm m Hm) as [Hu Ha].
           destruct (IHm m Hm) as [_ _ (_ & _ & HKm & _)]. destruct (HKm Ha) as [_ HKn]. exact HKn.
      * discriminate.
Qed.

(* ---- module-level names: pytd_for_types ---- *)

Lemma inst_not_unsolvable m :
  wf arity m = true -> member_ok m = true -> is_unsolvable (inst arity m) = false.
Proof.
  intros Hwf Hm. destruct m; simpl in Hm; try discriminate.
  - simpl in Hwf. apply andb_true_iff in Hwf. destruct Hwf as [_ Hty]. apply negb_true_iff in Hty.
    cbn [inst]. unfold bare_inst. rewrite Hty. destruct ((c =? none_id) && (arity c =? 0)%nat); reflexivity.
  - destruct (wf_generic_inv _ _ Hwf) as (_ & Hl & _ & Hps & Hty).
    cbn [inst]. destruct (c =? type_id) eqn:E.
    + apply N.eqb_eq in E. destruct (Hty E) as (u & -> & Hua & _). inversion Hps; subst.
      destruct (conv_cls u) eqn:Ec; try reflexivity. apply conv_cls_unsolvable in Ec; auto. subst. discriminate.
    + rewrite Hl, Nat.leb_refl. reflexivity.
  - reflexivity.
  - reflexivity.
Qed.

Lemma inst_not_param m :
  wf arity m = true -> member_ok m = true -> base m <> type_id -> is_param_or_union (inst arity m) = false.
Proof.
  intros Hwf Hm Hb. destruct m; simpl in Hm; try discriminate.
  - cbn [inst]. unfold bare_inst. simpl in Hb. apply N.eqb_neq in Hb. rewrite Hb.
    destruct ((c =? none_id) && (arity c =? 0)%nat); reflexivity.
  - destruct (wf_generic_inv _ _ Hwf) as (_ & Hl & _). simpl in Hb.
    cbn [inst]. apply N.eqb_neq in Hb. rewrite Hb. rewrite Hl, Nat.leb_refl. reflexivity.
  - reflexivity.
  - reflexivity.
Qed.

Lemma top_of_cls u :
  wf arity u = true -> is_any u = false -> nfree u = true ->
  def_ty (out_top arity [conv_cls u]) = TGeneric type_id [OC u].
Proof.
  intros Hwf Ha Hnf. unfold out_top.
  assert (is_unsolvable (conv_cls u) = false) as Hun.
  { destruct (conv_cls u) eqn:E; try reflexivity. apply conv_cls_unsolvable in E; auto. subst; discriminate. }
  cbn [existsb]. rewrite Hun. cbn [orb].
  destruct u; try discriminate; try reflexivity.
  destruct (wf_union_inv _ Hwf) as (Hl & _).
  destruct ts as [|t1 [|t2 ts']]; simpl in Hl; try lia. reflexivity.
Qed.

Lemma existsb_false_Forall {A} (p : A -> bool) l : Forall (fun x => p x = false) l -> existsb p l = false.
Proof. induction 1; simpl; auto. rewrite H. auto. Qed.

Lemma union_not_all_param ts :
  wf arity (TUnion ts) = true -> forallb is_param_or_union (map (inst arity) ts) = false.
Proof.
  intros Hwf. destruct (wf_union_inv _ Hwf) as (Hl & Hws & Hms & Hbases & _).
  destruct ts as [|t1 [|t2 ts']]; simpl in Hl; try lia.
  cbn [map]. cbn [map] in Hbases.
  inversion Hws as [|? ? Hw1 Hws']; subst. inversion Hws' as [|? ? Hw2 _]; subst.
  inversion Hms as [|? ? Hm1 Hms']; subst. inversion Hms' as [|? ? Hm2 _]; subst.
  inversion Hbases as [|? ? Hn1 _]; subst.
  destruct (N.eq_dec (base t1) type_id) as [E1|E1].
  - assert (base t2 <> type_id) as E2.
    { intros E2. apply Hn1. left. congruence. }
    cbn [forallb]. rewrite (inst_not_param t2) by auto. rewrite andb_false_r. reflexivity.
  - cbn [forallb]. rewrite (inst_not_param t1) by auto. reflexivity.
Qed.

(* storing the imported value under a name leaves a dialect value alone *)
Lemma store_name_id t : wf arity t = true -> store_name (conv_var arity t) = conv_var arity t.
Proof.
  intros Hwf. destruct (member_ok t) eqn:Hm.
  - rewrite conv_var_single by auto. reflexivity.
  - destruct t; try (simpl in Hm; discriminate); try reflexivity.
    destruct (wf_union_inv _ Hwf) as (Hl & _ & Hms & _).
    rewrite conv_var_union by auto. pose proof (union_not_all_param _ Hwf) as Hf.
    destruct ts as [|t1 [|t2 ts']]; simpl in Hl; try lia.
    unfold store_name. cbn [map] in *. rewrite Hf. reflexivity.
Qed.

Lemma conv_out_id_lemma t :
  wf_top arity t = true -> nf (def_ty (downstream arity t)) = nf t.
Proof.
  unfold wf_top, downstream. intros H.
  assert (wf arity t = true) as Hwf0 by (apply andb_true_iff in H; tauto).
  rewrite store_name_id by exact Hwf0. apply andb_true_iff in H. destruct H as [Hwf Hnn]. apply negb_true_iff in Hnn.
  pose proof (inv_all t Hwf) as HI.
  destruct (member_ok t) eqn:Hm.
  - (* one binding *)
    rewrite conv_var_single by auto.
    pose proof (inst_not_unsolvable t Hwf Hm) as Hun.
    destruct t; simpl in Hm; try discriminate.
    + (* class *)
      assert (def_ty (out_top arity [inst arity (TClass c)]) = OI (TClass c)) as ->.
      { unfold out_top. cbn [existsb]. rewrite Hun. cbn [orb].
        simpl in Hwf. apply andb_true_iff in Hwf. destruct Hwf as [_ Hty]. apply negb_true_iff in Hty.
        cbn [inst] in *. unfold bare_inst in *. rewrite Hty in *.
        destruct ((c =? none_id) && (arity c =? 0)%nat); reflexivity. }
      apply HI. reflexivity.
    + (* generic *)
      destruct (wf_generic_inv _ _ Hwf) as (_ & Hl & _ & Hps & Hty).
      destruct (c =? type_id) eqn:E.
      * apply N.eqb_eq in E. destruct (Hty E) as (u & -> & Hua & Hunf & _). subst c.
        inversion Hps; subst.
        change (inst arity (TGeneric type_id [u])) with (conv_cls u).
        rewrite top_of_cls, nf_type_generic, Pa by auto. reflexivity.
      * assert (def_ty (out_top arity [inst arity (TGeneric c ps)]) = OI (TGeneric c ps)) as ->.
        { unfold out_top. cbn [existsb]. rewrite Hun. cbn [orb].
          cbn [inst]. rewrite E, Hl, Nat.leb_refl. reflexivity. }
        apply HI. reflexivity.
    + (* tuple *) unfold out_top. cbn [existsb orb inst is_unsolvable def_ty]. apply HI. reflexivity.
    + (* callable *) unfold out_top. cbn [existsb orb inst is_unsolvable def_ty]. apply HI. reflexivity.
  - destruct t; try (simpl in Hm; discriminate); try reflexivity; try (simpl in Hnn; discriminate);
      try (simpl in Hwf; discriminate).
    + (* union *)
      destruct (wf_union_inv _ Hwf) as (Hl & Hws & Hms & Hbases & _).
      rewrite conv_var_union by auto.
      assert (def_ty (out_top arity (map (inst arity) ts)) = join (map (out arity) (map (inst arity) ts))) as ->.
      { unfold out_top.
        rewrite existsb_false_Forall.
        2:{ apply Forall_forall. intros v Hv. apply in_map_iff in Hv. destruct Hv as [m [<- Hin]].
            rewrite Forall_forall in *. apply inst_not_unsolvable; auto. }
        pose proof (union_not_all_param _ Hwf) as Hf.
        destruct ts as [|t1 [|t2 ts']]; simpl in Hl; try lia.
        cbn [map] in *. rewrite Hf. reflexivity. }
      rewrite <- conv_var_union by auto. apply HI.
Qed.

(* `x = T` in the upstream stub (a type alias): the downstream name is the class-valued attribute type[T] *)
Lemma alias_out_id_lemma t :
  wf arity t = true -> is_any t = false -> nfree t = true ->
  nf (def_ty (out_top arity (store_name (conv_alias t)))) = nf (TGeneric type_id [t]).
Proof.
  intros Hwf Ha Hnf. unfold conv_alias. cbn [store_name]. rewrite top_of_cls, nf_type_generic, Pa by auto. reflexivity.
Qed.

End RoundTrip.

(* ------------------------------------------------------------------------------------------ *)
(* the round trip up to the order of union members *)

Lemma conv_out_canon_lemma arity t :
  arity type_id = 1%nat -> arity tuple_id = 1%nat -> wf_top arity t = true ->
  canon (def_ty (downstream arity t)) = canon t.
Proof. intros H1 H2 Hwf. unfold canon. rewrite conv_out_id_lemma; auto. Qed.

(* ------------------------------------------------------------------------------------------ *)
(* the two transports *)

Section HandoffProofs.
Variable arity : cid -> nat.
Hypothesis arity_type : arity type_id = 1%nat.
Hypothesis arity_tuple : arity tuple_id = 1%nat.
Variables text bytes : Type.
Variable print : ty -> text.
Variable parse : text -> option ty.
Variable encode : ty -> bytes.
Variable decode : bytes -> option ty.
Variables resolve prep reorder post : ty -> ty.

(* C05: printing then parsing a dialect type gives a dialect type that differs at most in member order *)
Hypothesis C05_print_parse :
  forall t, wf_top arity t = true -> exists a, parse (print t) = Some a /\ wf_top arity a = true /\ canon a = canon t.
(* C12: the codec round trip is the identity *)
Hypothesis C12_decode_encode : forall a, decode (encode a) = Some a.
(* C04: canonical ordering is a permutation of union members *)
Hypothesis C04_reorder : preserves arity reorder.
(* name resolution does not change a type expression whose classes are already identified *)
Hypothesis resolve_ok : preserves arity resolve.
Hypothesis prep_ok : preserves arity prep.
Hypothesis post_ok : preserves arity post.

Notation derived a := (def_ty (downstream arity a)).

Lemma handoff_text_lemma t :
  wf_top arity t = true ->
  exists a, text_transport text print parse resolve t = Some a /\ canon (derived a) = canon t.
Proof.
  intros Hwf. destruct (C05_print_parse t Hwf) as (a & Hp & Hwa & Hca).
  destruct (resolve_ok a Hwa) as (Hwr & Hcr).
  exists (resolve a). unfold text_transport. rewrite Hp. split; auto.
  rewrite conv_out_canon_lemma by auto. congruence.
Qed.

Lemma handoff_pickle_lemma t :
  wf_top arity t = true ->
  exists b, pickle_transport text bytes print parse encode decode prep reorder post t = Some b /\
            canon (derived b) = canon t.
Proof.
  intros Hwf. destruct (C05_print_parse t Hwf) as (a & Hp & Hwa & Hca).
  destruct (prep_ok a Hwa) as (Hw1 & Hc1).
  destruct (C04_reorder _ Hw1) as (Hw2 & Hc2).
  destruct (post_ok _ Hw2) as (Hw3 & Hc3).
  exists (post (reorder (prep a))). unfold pickle_transport. rewrite Hp, C12_decode_encode. split; auto.
  rewrite conv_out_canon_lemma by auto. congruence.
Qed.

Lemma transports_agree_lemma t :
  wf_top arity t = true ->
  exists a b, text_transport text print parse resolve t = Some a /\
              pickle_transport text bytes print parse encode decode prep reorder post t = Some b /\
              canon a = canon b /\ canon (derived a) = canon (derived b).
Proof.
  intros Hwf. destruct (C05_print_parse t Hwf) as (a & Hp & Hwa & Hca).
  destruct (resolve_ok a Hwa) as (Hwr & Hcr).
  destruct (prep_ok a Hwa) as (Hw1 & Hc1).
  destruct (C04_reorder _ Hw1) as (Hw2 & Hc2).
  destruct (post_ok _ Hw2) as (Hw3 & Hc3).
  exists (resolve a), (post (reorder (prep a))).
  unfold text_transport, pickle_transport. rewrite Hp, C12_decode_encode.
  repeat split; auto; try congruence.
  rewrite !conv_out_canon_lemma by auto. congruence.
Qed.
End HandoffProofs.

(* ------------------------------------------------------------------------------------------ *)
(* the statement over the full emitted dialect (bare `type` included) is refuted *)

Lemma bare_type_refuted_lemma : exists t,
  wf_full_top builtin_arity t = true /\
  canon (def_ty (downstream builtin_arity t)) <> canon t.
Proof. exists (TClass type_id). split; [reflexivity|]. vm_compute. discriminate. Qed.
