(* C19 extension (c): module names and imports-map keys.  For a file <root>/c1/.../cn.py whose components
   contain no '.', the key _module_to_output_path writes into the imports map is c1/.../cn: exactly the path the
   loader of pytype-single looks up for `import c1.....cn`, a key the reader leaves alone (no extension), and
   path_to_module_name maps the file (and the key) back to the dotted name.  Model: Plan/Text.v. *)
From Coq Require Import List NArith Bool Arith Lia.
From PV Require Import Plan.Model Plan.Text Plan.ReaderProofs.
Import ListNotations.
Local Open Scope N_scope.

(* ------------------------------------------------------------------------------------------ *)
(* rsplit_at *)

Lemma span_not_app : forall c0 x y, ~ In c0 x -> span_not c0 (x ++ c0 :: y) = (x, c0 :: y).
Proof.
  induction x as [|c x IH]; intros y H.
  - simpl. rewrite N.eqb_refl. reflexivity.
  - simpl. destruct (c =? c0) eqn:E.
    + apply N.eqb_eq in E. exfalso. apply H. left; auto.
    + rewrite IH; auto. intro. apply H. right; auto.
Qed.

Lemma span_not_none : forall c0 x, ~ In c0 x -> span_not c0 x = (x, []).
Proof.
  induction x as [|c x IH]; intros H; [reflexivity|].
  simpl. destruct (c =? c0) eqn:E.
  - apply N.eqb_eq in E. exfalso. apply H. left; auto.
  - rewrite IH; auto. intro. apply H. right; auto.
Qed.

Lemma rsplit_at_last : forall c0 a b, ~ In c0 b -> rsplit_at c0 (a ++ c0 :: b) = Some (a, b).
Proof.
  intros c0 a b H. unfold rsplit_at. rewrite rev_app_distr. simpl. rewrite <- app_assoc. simpl.
  rewrite span_not_app; [|rewrite <- in_rev; auto]. rewrite !rev_involutive. reflexivity.
Qed.

Lemma rsplit_at_none : forall c0 s, ~ In c0 s -> rsplit_at c0 s = None.
Proof. intros c0 s H. unfold rsplit_at. rewrite span_not_none; [reflexivity | rewrite <- in_rev; auto]. Qed.

(* ------------------------------------------------------------------------------------------ *)
(* components *)

Definition plain_comp (c : str) : Prop := c <> [] /\ forall x, In x c -> x <> c_slash /\ x <> c_dot.

Lemma join_c_snoc : forall s init l, init <> [] -> join_c s (init ++ [l]) = join_c s init ++ s :: l.
Proof.
  induction init as [|c init IH]; intros l H; [congruence|].
  destruct init as [|c2 init].
  - reflexivity.
  - change (join_c s ((c :: c2 :: init) ++ [l])) with (c ++ s :: join_c s ((c2 :: init) ++ [l])).
    rewrite IH by discriminate. change (join_c s (c :: c2 :: init)) with (c ++ s :: join_c s (c2 :: init)).
    rewrite <- app_assoc. reflexivity.
Qed.

Lemma join_c_cons : forall s c cs, cs <> [] -> join_c s (c :: cs) = c ++ s :: join_c s cs.
Proof. intros s c [|c2 cs] H; [congruence | reflexivity]. Qed.

Lemma in_join_c : forall s cs x, In x (join_c s cs) -> x = s \/ exists c, In c cs /\ In x c.
Proof.
  induction cs as [|c cs IH]; intros x H; [destruct H|].
  destruct cs as [|c2 cs].
  - right. exists c. split; [left; reflexivity | exact H].
  - rewrite join_c_cons in H by discriminate. apply in_app_or in H. destruct H as [H|[H|H]].
    + right. exists c. split; [left; reflexivity | exact H].
    + left; auto.
    + destruct (IH x H) as [E|[c' [Hc' Hx]]]; [left; auto | right; exists c'; split; [right; auto | auto]].
Qed.

Lemma replace_join : forall cs, (forall c, In c cs -> plain_comp c) ->
  replace_c c_slash c_dot (join_c c_slash cs) = join_c c_dot cs.
Proof.
  assert (R : forall c, plain_comp c -> replace_c c_slash c_dot c = c).
  { intros c [_ H]. unfold replace_c. rewrite <- (map_id c) at 2. apply map_ext_in. intros x Hx.
    destruct (H x Hx) as [A _]. apply N.eqb_neq in A. rewrite A. reflexivity. }
  induction cs as [|c cs IH]; intros H; [reflexivity|].
  destruct cs as [|c2 cs].
  - simpl. apply R. apply H. left; reflexivity.
  - rewrite !join_c_cons by discriminate. unfold replace_c. rewrite map_app. cbn [map].
    change (c_slash =? c_slash) with true. cbv iota.
    fold (replace_c c_slash c_dot c). fold (replace_c c_slash c_dot (join_c c_slash (c2 :: cs))).
    rewrite R by (apply H; left; reflexivity). rewrite IH; [reflexivity|]. intros x Hx. apply H. right; auto.
Qed.

Lemma replace_id : forall a b s, ~ In a s -> replace_c a b s = s.
Proof.
  intros a b s H. unfold replace_c. rewrite <- (map_id s) at 2. apply map_ext_in. intros x Hx.
  destruct (x =? a) eqn:E; [|reflexivity]. apply N.eqb_eq in E. subst. contradiction.
Qed.

Lemma no_slash_in_dotted : forall cs, (forall c, In c cs -> plain_comp c) -> ~ In c_slash (join_c c_dot cs).
Proof.
  intros cs H Hin. apply in_join_c in Hin. destruct Hin as [E|[c [Hc Hx]]]; [discriminate|].
  destruct (H c Hc) as [_ P]. destruct (P _ Hx). congruence.
Qed.

(* decomposition of a non-empty component list *)
Lemma comps_last : forall cs : list str, cs <> [] -> (exists l, cs = [l]) \/ (exists init l, init <> [] /\ cs = init ++ [l]).
Proof.
  intros cs H. destruct (exists_last H) as [init [l E]]. destruct init as [|c init].
  - left. exists l. exact E.
  - right. exists (c :: init), l. split; [discriminate | exact E].
Qed.

Lemma plain_no_slash : forall c, plain_comp c -> ~ In c_slash c.
Proof. intros c [_ H] Hin. destruct (H _ Hin). congruence. Qed.
Lemma plain_no_dot : forall c, plain_comp c -> ~ In c_dot c.
Proof. intros c [_ H] Hin. destruct (H _ Hin). congruence. Qed.

Lemma not_all_dots : forall l, plain_comp l -> forallb (fun c => c =? c_dot) l = false.
Proof.
  intros [|x l] [Hn H]; [congruence|]. simpl. destruct (H x (or_introl eq_refl)) as [_ B].
  apply N.eqb_neq in B. rewrite B. reflexivity.
Qed.

(* splitext of  <comps joined by '/'> ++ ext  where ext = '.' :: e and e has no '.' or '/' *)
Lemma splitext_comps : forall cs e, cs <> [] -> (forall c, In c cs -> plain_comp c) ->
  ~ In c_dot e -> ~ In c_slash e ->
  splitext (join_c c_slash cs ++ c_dot :: e) = (join_c c_slash cs, c_dot :: e).
Proof.
  intros cs e Hn H Hd Hs. unfold splitext.
  destruct (comps_last cs Hn) as [[l ->]|[init [l [Hi ->]]]].
  - assert (Pl : plain_comp l) by (apply H; left; reflexivity).
    cbn [join_c]. rewrite (rsplit_at_none c_slash).
    + rewrite rsplit_at_last by exact Hd. rewrite not_all_dots by exact Pl. reflexivity.
    + intro Hin. apply in_app_or in Hin. destruct Hin as [Hin|[Hin|Hin]];
        [apply (plain_no_slash l Pl Hin) | discriminate | contradiction].
  - assert (Pl : plain_comp l) by (apply H; apply in_or_app; right; left; reflexivity).
    rewrite join_c_snoc by exact Hi. rewrite <- app_assoc. cbn [app].
    rewrite rsplit_at_last.
    + rewrite rsplit_at_last by exact Hd. rewrite not_all_dots by exact Pl.
      rewrite <- app_assoc. reflexivity.
    + intro Hin. apply in_app_or in Hin. destruct Hin as [Hin|[Hin|Hin]];
        [apply (plain_no_slash l Pl Hin) | discriminate | contradiction].
Qed.

(* ... and of the key itself: nothing to strip *)
Lemma splitext_key : forall cs, cs <> [] -> (forall c, In c cs -> plain_comp c) ->
  splitext (join_c c_slash cs) = (join_c c_slash cs, []).
Proof.
  intros cs Hn H. unfold splitext.
  destruct (comps_last cs Hn) as [[l ->]|[init [l [Hi ->]]]].
  - assert (Pl : plain_comp l) by (apply H; left; reflexivity).
    cbn [join_c]. rewrite (rsplit_at_none c_slash) by (apply plain_no_slash; auto).
    rewrite (rsplit_at_none c_dot) by (apply plain_no_dot; auto). reflexivity.
  - assert (Pl : plain_comp l) by (apply H; apply in_or_app; right; left; reflexivity).
    rewrite join_c_snoc by exact Hi.
    rewrite rsplit_at_last by (apply plain_no_slash; auto).
    rewrite (rsplit_at_none c_dot) by (apply plain_no_dot; auto). reflexivity.
Qed.

(* ------------------------------------------------------------------------------------------ *)
(* _module_to_output_path *)

Lemma starts_with_refl : forall s, starts_with s s = true.
Proof. induction s as [|c s IH]; simpl; auto. rewrite N.eqb_refl. exact IH. Qed.

Lemma replace_length : forall a b s, length (replace_c a b s) = length s.
Proof. intros. unfold replace_c. apply map_length. Qed.

Lemma dotted_nonempty : forall cs, cs <> [] -> (forall c, In c cs -> plain_comp c) -> join_c c_dot cs <> [].
Proof.
  intros [|c cs] Hn H; [congruence|]. destruct (H c (or_introl eq_refl)) as [Hc _].
  destruct cs; [exact Hc|]. rewrite join_c_cons by discriminate. destruct c; [congruence | discriminate].
Qed.

Definition s_py : str := [112; 121].

Lemma key_of_comps : forall cs, cs <> [] -> (forall c, In c cs -> plain_comp c) ->
  module_to_output_path (join_c c_slash cs ++ c_dot :: s_py) (join_c c_dot cs) = join_c c_slash cs.
Proof.
  intros cs Hn H. unfold module_to_output_path.
  rewrite splitext_comps; auto; [| intros [E|[E|[]]]; discriminate | intros [E|[E|[]]]; discriminate].
  cbn [fst]. rewrite replace_join by exact H.
  unfold ends_with. rewrite starts_with_refl.
  pose proof (dotted_nonempty cs Hn H) as Hd. destruct (join_c c_dot cs) as [|d0 dr] eqn:E; [congruence|].
  rewrite <- E. unfold last_n.
  rewrite <- (replace_join cs H), replace_length, Nat.sub_diag. reflexivity.
Qed.

(* ------------------------------------------------------------------------------------------ *)
(* the loader's lookup path *)

Lemma split_join : forall cs, cs <> [] -> (forall c, In c cs -> plain_comp c) ->
  split_c c_dot (join_c c_dot cs) = cs.
Proof.
  assert (S1 : forall c tail, ~ In c_dot c -> split_c c_dot (c ++ c_dot :: tail) = c :: split_c c_dot tail).
  { induction c as [|x c IH]; intros tail H.
    - reflexivity.
    - simpl. destruct (x =? c_dot) eqn:E; [apply N.eqb_eq in E; exfalso; apply H; left; auto|].
      rewrite IH by (intro; apply H; right; auto). reflexivity. }
  assert (S2 : forall c, ~ In c_dot c -> split_c c_dot c = [c]).
  { induction c as [|x c IH]; intros H; [reflexivity|].
    simpl. destruct (x =? c_dot) eqn:E; [apply N.eqb_eq in E; exfalso; apply H; left; auto|].
    rewrite IH by (intro; apply H; right; auto). reflexivity. }
  induction cs as [|c cs IH]; intros Hn H; [congruence|].
  assert (Pc : plain_comp c) by (apply H; left; reflexivity).
  destruct cs as [|c2 cs].
  - cbn [join_c]. apply S2. apply plain_no_dot; auto.
  - rewrite join_c_cons by discriminate. rewrite S1 by (apply plain_no_dot; auto).
    rewrite IH; [reflexivity | discriminate | intros x Hx; apply H; right; auto].
Qed.

Lemma ends_slash_app : forall pre a, a <> [] -> ~ In c_slash a -> ends_with_slash (pre ++ a) = false.
Proof.
  intros pre a Hn H. unfold ends_with_slash. rewrite rev_app_distr.
  destruct (rev a) as [|c r] eqn:E.
  - exfalso. apply Hn. rewrite <- (rev_involutive a), E. reflexivity.
  - simpl. apply N.eqb_neq. intro Ec. apply H. rewrite (in_rev a), E. left; auto.
Qed.

Lemma join2_comp : forall acc c, acc <> [] -> ends_with_slash acc = false -> plain_comp c ->
  join2 acc c = acc ++ c_slash :: c.
Proof.
  intros acc c Ha He [Hn H]. destruct c as [|x c]; [congruence|]. unfold join2.
  destruct (H x (or_introl eq_refl)) as [A _]. apply N.eqb_neq in A. rewrite A, He.
  destruct acc; [congruence | reflexivity].
Qed.

Lemma fold_join2 : forall cs acc, (forall c, In c cs -> plain_comp c) -> acc <> [] -> ends_with_slash acc = false ->
  fold_left join2 cs acc = join_c c_slash (acc :: cs).
Proof.
  induction cs as [|c cs IH]; intros acc H Ha He; [reflexivity|].
  assert (Pc : plain_comp c) by (apply H; left; reflexivity).
  cbn [fold_left]. rewrite join2_comp; auto. rewrite IH.
  - destruct cs as [|c2 cs].
    + reflexivity.
    + rewrite (join_c_cons c_slash (acc ++ c_slash :: c)) by discriminate.
      rewrite (join_c_cons c_slash acc) by discriminate. rewrite (join_c_cons c_slash c) by discriminate.
      rewrite <- app_assoc. reflexivity.
  - intros x Hx. apply H. right; auto.
  - destruct acc; [congruence | discriminate].
  - change (acc ++ c_slash :: c) with (acc ++ [c_slash] ++ c). rewrite app_assoc.
    destruct Pc as [Pn Pc]. apply ends_slash_app; auto. intro Hin. destruct (Pc _ Hin). congruence.
Qed.

Lemma loader_path_comps : forall cs, cs <> [] -> (forall c, In c cs -> plain_comp c) ->
  loader_path (join_c c_dot cs) = join_c c_slash cs.
Proof.
  intros cs Hn H. unfold loader_path. rewrite split_join by auto.
  destruct cs as [|c cs]; [congruence|].
  assert (Pc : plain_comp c) by (apply H; left; reflexivity).
  cbn [fold_left].
  assert (J : join2 [] c = c).
  { destruct Pc as [Pn Pc]. destruct c as [|x c]; [congruence|]. unfold join2.
    destruct (Pc x (or_introl eq_refl)) as [A _]. apply N.eqb_neq in A. rewrite A. reflexivity. }
  rewrite J. apply fold_join2.
  - intros x Hx. apply H. right; auto.
  - destruct Pc; auto.
  - destruct Pc as [Pn Pc]. rewrite <- (app_nil_l c). apply ends_slash_app; auto.
    intro Hin. destruct (Pc _ Hin). congruence.
Qed.

(* ------------------------------------------------------------------------------------------ *)
(* the theorem linking file names to keys *)

Definition no_init (name : str) : bool := str_eqb (before_sep s_dot_init name) name.

Theorem key_link_lemma : forall cs, cs <> [] -> (forall c, In c cs -> plain_comp c) ->
  let target := join_c c_slash cs ++ c_dot :: s_py in
  let name := join_c c_dot cs in
  let key := module_to_output_path target name in
  key = join_c c_slash cs /\ key = loader_path name /\ no_ext key = true /\
  (no_init name = true -> path_to_module_name key = Some name).
Proof.
  intros cs Hn H target name key.
  assert (K : key = join_c c_slash cs) by (apply key_of_comps; auto).
  split; [exact K|]. split; [rewrite K; symmetry; apply loader_path_comps; auto|].
  split.
  - rewrite K. unfold no_ext. rewrite splitext_key by auto. apply str_eqb_refl.
  - intros Hi. rewrite K. unfold path_to_module_name.
    assert (D : starts_with s_pardir (dirname (join_c c_slash cs)) = false).
    { unfold dirname. destruct (comps_last cs Hn) as [[l ->]|[init [l [Hin ->]]]].
      - cbn [join_c]. rewrite rsplit_at_none; [reflexivity|]. apply plain_no_slash. apply H. left; reflexivity.
      - rewrite join_c_snoc by exact Hin.
        rewrite rsplit_at_last by (apply plain_no_slash; apply H; apply in_or_app; right; left; reflexivity).
        destruct init as [|c0 init]; [congruence|].
        assert (P0 : plain_comp c0) by (apply H; left; reflexivity).
        destruct P0 as [P0n P0]. destruct c0 as [|x c0]; [congruence|].
        destruct (P0 x (or_introl eq_refl)) as [A B].
        match goal with |- context [forallb _ (?j ++ [c_slash])] => assert (F : exists r, j = x :: r) end.
        { destruct init; [eexists; reflexivity|]. rewrite join_c_cons by discriminate. eexists; reflexivity. }
        destruct F as [r F]. rewrite F. cbn [app forallb].
        rewrite (proj2 (N.eqb_neq _ _) A). cbn [andb].
        (* rstrip_c keeps the first character, which is not a dot *)
        unfold rstrip_c.
        assert (G : exists r', rev (lstrip_c c_slash (rev (x :: r ++ [c_slash]))) = x :: r').
        { assert (L : forall s, exists s', lstrip_c c_slash (s ++ [x]) = s' ++ [x]).
          { induction s as [|y s IHs].
            - exists []. simpl. rewrite (proj2 (N.eqb_neq _ _) A). reflexivity.
            - simpl. destruct (y =? c_slash); [exact IHs | exists (y :: s); reflexivity]. }
          cbn [rev]. destruct (L (rev (r ++ [c_slash]))) as [s' Es]. rewrite Es.
          rewrite rev_app_distr. eexists; reflexivity. }
        destruct G as [r' G]. rewrite G. unfold s_pardir. cbn [starts_with].
        destruct (46 =? x) eqn:E46; [apply N.eqb_eq in E46; exfalso; apply B; symmetry; exact E46 | reflexivity]. }
    rewrite D. rewrite splitext_key by auto. cbn [is_nil negb andb].
    rewrite replace_join by exact H.
    rewrite (replace_id c_slash c_dot) by (apply no_slash_in_dotted; auto).
    unfold no_init in Hi. apply str_eqb_eq in Hi. fold name. rewrite Hi. reflexivity.
Qed.

(* the file name itself maps to the dotted name *)
Theorem path_to_module_name_file_lemma : forall cs, cs <> [] -> (forall c, In c cs -> plain_comp c) ->
  no_init (join_c c_dot cs) = true ->
  starts_with s_pardir (dirname (join_c c_slash cs ++ c_dot :: s_py)) = false ->
  path_to_module_name (join_c c_slash cs ++ c_dot :: s_py) = Some (join_c c_dot cs).
Proof.
  intros cs Hn H Hi D. unfold path_to_module_name. rewrite D.
  rewrite splitext_comps; auto; [| intros [E|[E|[]]]; discriminate | intros [E|[E|[]]]; discriminate].
  change (starts_with s_dot_py (c_dot :: s_py)) with true. cbn [is_nil negb andb].
  rewrite replace_join by exact H.
  rewrite (replace_id c_slash c_dot) by (apply no_slash_in_dotted; auto).
  unfold no_init in Hi. apply str_eqb_eq in Hi. rewrite Hi. reflexivity.
Qed.

(* infer_module splits the file name at the pythonpath entry it chose *)
Lemma starts_with_split : forall p s, starts_with p s = true -> s = p ++ drop_prefix p s.
Proof.
  induction p as [|a p IH]; intros s H; [destruct s; reflexivity|].
  destruct s as [|b s]; [discriminate|]. simpl in H. apply andb_true_iff in H. destruct H as [E H].
  apply N.eqb_eq in E. subst. simpl. rewrite <- IH; auto.
Qed.

Theorem infer_module_split_lemma : forall pythonpath filename,
  let m := infer_module filename pythonpath in
  filename = cm_path m ++ cm_target m /\ cm_name m = path_to_module_name (cm_target m) /\
  (cm_path m = [] \/ (ends_with_slash (cm_path m) = true /\
                      exists p, In p pythonpath /\ (cm_path m = p \/ cm_path m = p ++ [c_slash]))).
Proof.
  intros pp filename. unfold infer_module.
  assert (L : forall pp, let '(p, f) := infer_module_loop filename pp in
              filename = p ++ f /\ (p = [] \/ (ends_with_slash p = true /\
                exists q, In q pp /\ (p = q \/ p = q ++ [c_slash])))).
  { induction pp0 as [|q pp0 IH]; [simpl; auto|].
    cbn [infer_module_loop]. destruct (is_nil q).
    - destruct (infer_module_loop filename pp0) as [p f]. destruct IH as [A B]. split; auto.
      destruct B as [B|[B1 [q' [B2 B3]]]]; [left; auto | right; split; auto; exists q'; split; [right; auto | auto]].
    - destruct (ends_with_slash q) eqn:E.
      + destruct (starts_with q filename) eqn:S.
        * split; [apply starts_with_split; auto|]. right. split; auto. exists q. split; [left; auto | left; auto].
        * destruct (infer_module_loop filename pp0) as [p f]. destruct IH as [A B]. split; auto.
          destruct B as [B|[B1 [q' [B2 B3]]]]; [left; auto | right; split; auto; exists q'; split; [right; auto | auto]].
      + destruct (starts_with (q ++ [c_slash]) filename) eqn:S.
        * split; [apply starts_with_split; auto|]. right. split.
          -- unfold ends_with_slash. rewrite rev_app_distr. reflexivity.
          -- exists q. split; [left; auto | right; auto].
        * destruct (infer_module_loop filename pp0) as [p f]. destruct IH as [A B]. split; auto.
          destruct B as [B|[B1 [q' [B2 B3]]]]; [left; auto | right; split; auto; exists q'; split; [right; auto | auto]]. }
  specialize (L pp). destruct (infer_module_loop filename pp) as [p f]. destruct L as [A B].
  cbn [cm_path cm_target cm_name]. auto.
Qed.

(* components without blanks and line breaks give keys the .imports reader returns unchanged *)
Theorem key_ok_comps_lemma : forall cs, cs <> [] -> (forall c, In c cs -> plain_comp c) ->
  (forall c x, In c cs -> In x c -> x <> c_sp /\ x <> c_nl /\ x <> c_cr) ->
  (forall c r x, cs = (x :: c) :: r -> py_space x = false) ->
  key_ok (join_c c_slash cs) = true.
Proof.
  intros cs Hn H Hc Hf. unfold key_ok.
  assert (N1 : forall k, k <> c_slash -> (forall c x, In c cs -> In x c -> x <> k) -> no_char k (join_c c_slash cs) = true).
  { intros k Hk Hx. apply no_char_In. intro Hin. apply in_join_c in Hin.
    destruct Hin as [E|[c [Hc1 Hc2]]]; [congruence | exact (Hx c k Hc1 Hc2 eq_refl)]. }
  rewrite (N1 c_sp), (N1 c_nl), (N1 c_cr); try discriminate;
    try (intros c x H1 H2; destruct (Hc c x H1 H2) as [A [B C]]; auto).
  destruct cs as [|c0 cs]; [congruence|]. destruct (H c0 (or_introl eq_refl)) as [P0n _].
  destruct c0 as [|x c0]; [congruence|].
  assert (F : exists r, join_c c_slash (@cons str (x :: c0) cs) = x :: r).
  { destruct cs; [eexists; reflexivity|]. rewrite join_c_cons by discriminate. eexists; reflexivity. }
  destruct F as [r F]. rewrite F. rewrite (Hf c0 cs x eq_refl). reflexivity.
Qed.
