(* C19 model: pytype/tools/analyze_project/pytype_runner.py
     get_module_action, yield_sorted_modules, get_imports_map, write_imports, write_build_statement,
     setup_build, deps_from_import_graph, escape_ninja_path
   and a model of ninja's lexer for paths and values (ninja manual "Lexical syntax"; src/lexer.in.cc,
   Lexer::ReadEvalString) together with the part of the manifest parser that reads one `build` statement.
   Definitions only (no proofs), so the file still evaluates when a proof breaks.

   Encoding.  Strings that the runner only compares, looks up, or passes through are interned to N ids
   by the harness (harness/props/c19.py), using the REAL functions of /repo for the derived ones:
     m_full = module.full_path  = path_utils.join(path, target)
     m_key  = _module_to_output_path(module)
     m_ext  = module.name.startswith('pytype_extensions.')
   These three string functions are therefore uninterpreted in the model (the theorems hold for every
   interpretation).  Module identity is the dataclass equality on (path, target, name, kind); since the
   derived fields are functions of those, equality on the whole record coincides with it. *)
From Coq Require Import List NArith Bool.
Import ListNotations.
Local Open Scope N_scope.

(* ------------------------------------------------------------------------------------------ *)
(* module_utils.Module                                                                         *)

Inductive kind := Local | Direct | System | Builtin.   (* importlab.resolve class names *)

Definition kind_eqb (a b : kind) : bool :=
  match a, b with
  | Local, Local | Direct, Direct | System, System | Builtin, Builtin => true
  | _, _ => false
  end.

Record module := Module {
  m_path : N; m_target : N; m_name : N; m_kind : kind;
  m_full : N; m_key : N; m_ext : bool }.

Definition module_eqb (a b : module) : bool :=
  (m_path a =? m_path b) && (m_target a =? m_target b) && (m_name a =? m_name b) &&
  kind_eqb (m_kind a) (m_kind b) &&
  (m_full a =? m_full b) && (m_key a =? m_key b) && Bool.eqb (m_ext a) (m_ext b).

(* ------------------------------------------------------------------------------------------ *)
(* Paths written into the plan.  default_output = join(imports_dir, 'default.pyi');
   join(pyi_dir, key + '.pyi' + suffix) with suffix '' or FIRST_PASS_SUFFIX = '-1'.            *)

Inductive path := PDefault | PPyi (key : N) (first : bool).

Definition path_eqb (a b : path) : bool :=
  match a, b with
  | PDefault, PDefault => true
  | PPyi k f, PPyi k' f' => (k =? k') && Bool.eqb f f'
  | _, _ => false
  end.

Inductive action := CHECK | INFER | GENERATE_DEFAULT.
Inductive stage := SINGLE_PASS | FIRST_PASS | SECOND_PASS.

Definition is_check (a : action) : bool := match a with CHECK => true | _ => false end.
Definition is_default (a : action) : bool := match a with GENERATE_DEFAULT => true | _ => false end.
Definition is_first (s : stage) : bool := match s with FIRST_PASS => true | _ => false end.

Fixpoint memN (x : N) (l : list N) : bool :=
  match l with [] => false | y :: r => (x =? y) || memN x r end.

(* ------------------------------------------------------------------------------------------ *)
(* PytypeRunner.get_module_action.  `req` is self.filenames = set(conf.inputs).                 *)

Definition is_sys (k : kind) : bool := match k with System | Builtin => true | _ => false end.

Definition get_module_action (req : list N) (m : module) : action :=
  let a := if memN (m_full m) req then CHECK else INFER in
  if negb (m_ext m) && is_sys (m_kind m) then GENERATE_DEFAULT else a.

(* ------------------------------------------------------------------------------------------ *)
(* PytypeRunner.yield_sorted_modules.  sorted_sources : list of (group, deps).
   `if action:` is always true (actions are non-empty strings).  `len(modules) == 1` is the single
   pass; every other length (0 included) takes the cycle branch.  In the first loop CHECK is turned
   into INFER for the yielded tuple only; the second loop re-reads the original action.  `deps +=
   tuple(second_pass_deps)` rebinds the local (deps_from_import_graph returns tuples). *)

Definition item := (module * action * list module * stage)%type.
Definition it_mod (i : item) : module := fst (fst (fst i)).
Definition it_act (i : item) : action := snd (fst (fst i)).
Definition it_deps (i : item) : list module := snd (fst i).
Definition it_stage (i : item) : stage := snd i.

Definition sources := list (list module * list module).

Definition yield_group (req : list N) (g : list module * list module) : list item :=
  let '(group, deps) := g in
  let modules := map (fun m => (m, get_module_action req m)) group in
  match modules with
  | [(m, a)] => [(m, a, deps, SINGLE_PASS)]
  | _ =>
    let first := map (fun ma : module * action =>
                        (fst ma, (if is_check (snd ma) then INFER else snd ma), deps, FIRST_PASS)) modules in
    let deps2 := deps ++ map fst modules in
    let second := flat_map (fun ma : module * action =>
                              if is_default (snd ma) then [] else [(fst ma, snd ma, deps2, SECOND_PASS)])
                           modules in
    first ++ second
  end.

Definition yield_sorted_modules (req : list N) (ss : sources) : list item :=
  flat_map (yield_group req) ss.

(* ------------------------------------------------------------------------------------------ *)
(* Python dicts.  module-keyed dicts are only looked up (newest binding first is equivalent);
   the imports map is an insertion-ordered str-keyed dict that is written out in order.        *)

Fixpoint lookup {V} (m : module) (l : list (module * V)) : option V :=
  match l with
  | [] => None
  | (k, v) :: r => if module_eqb m k then Some v else lookup m r
  end.

Definition imports := list (N * path).

(* d[k] = v : replace in place if present, else append *)
Fixpoint dict_set (k : N) (v : path) (l : imports) : imports :=
  match l with
  | [] => [(k, v)]
  | (k', v') :: r => if k =? k' then (k', v) :: r else (k', v') :: dict_set k v r
  end.

(* d.update(other) *)
Definition dict_update (d other : imports) : imports :=
  fold_left (fun acc kv => dict_set (fst kv) (snd kv) acc) other d.

(* get_imports_map(deps, module_to_imports_map, module_to_output); None = KeyError *)
Fixpoint get_imports_map (deps : list module) (m2imp : list (module * imports))
         (m2out : list (module * path)) (acc : imports) : option imports :=
  match deps with
  | [] => Some acc
  | m :: r =>
    let acc1 := match lookup m m2imp with Some im => dict_update acc im | None => acc end in
    match lookup m m2out with
    | Some o => get_imports_map r m2imp m2out (dict_set (m_key m) o acc1)
    | None => None
    end
  end.

(* tuple(module_to_output[m] for m in deps if module_to_output[m] != default_output) *)
Fixpoint declared_deps (deps : list module) (m2out : list (module * path)) : option (list path) :=
  match deps with
  | [] => Some []
  | m :: r =>
    match lookup m m2out with
    | None => None
    | Some o =>
      match declared_deps r m2out with
      | None => None
      | Some ds => Some (if path_eqb o PDefault then ds else o :: ds)
      end
    end
  end.

(* ------------------------------------------------------------------------------------------ *)
(* One build statement (write_build_statement) and the state of setup_build.                   *)

Definition impfile := (N * bool)%type.    (* join(imports_dir, name + '.imports' + suffix) *)

Record step := Step {
  s_out : path; s_action : action; s_input : N; s_deps : list path;
  s_impfile : impfile; s_imports : imports; s_module : N }.

Record st := St {
  files : list N;                              (* files = set() *)
  m2imp : list (module * imports);             (* module_to_imports_map *)
  m2out : list (module * path);                (* module_to_output *)
  plan : list step;                            (* build statements appended to build.ninja *)
  store : list (impfile * imports) }.          (* contents of the .imports files, newest first *)

Definition st0 : st := St [] [] [] [] [].

(* files >= self.filenames *)
Definition all_requested_done (req files : list N) : bool := forallb (fun f => memN f files) req.

Definition setup_step (req : list N) (s : st) (i : item) : option st :=
  let '(m, a, deps, stg) := i in
  if all_requested_done req (files s) then Some s                        (* skipped *)
  else if is_default a then
    Some (St (files s) (m2imp s) ((m, PDefault) :: m2out s) (plan s) (store s))
  else
    let files' := if is_first stg then files s else m_full m :: files s in
    match get_imports_map deps (m2imp s) (m2out s) [] with
    | None => None
    | Some im =>
      match declared_deps deps (m2out s) with
      | None => None
      | Some ds =>
        let f := (m_name m, is_first stg) in
        let out := PPyi (m_key m) (is_first stg) in
        Some (St files' ((m, im) :: m2imp s) ((m, out) :: m2out s)
                 (plan s ++ [Step out a (m_full m) ds f im (m_name m)])
                 ((f, im) :: store s))
      end
    end.

Fixpoint run (req : list N) (items : list item) (s : st) : option st :=
  match items with
  | [] => Some s
  | i :: r => match setup_step req s i with None => None | Some s' => run req r s' end
  end.

(* PytypeRunner.setup_build; None = an uncaught KeyError *)
Definition setup_build (req : list N) (ss : sources) : option st :=
  run req (yield_sorted_modules req ss) st0.

(* What a step's .imports file holds once setup_build has returned (files may be overwritten). *)
Definition impfile_eqb (a b : impfile) : bool := (fst a =? fst b) && Bool.eqb (snd a) (snd b).
Fixpoint store_get (f : impfile) (l : list (impfile * imports)) : option imports :=
  match l with
  | [] => None
  | (k, v) :: r => if impfile_eqb f k then Some v else store_get f r
  end.

(* ------------------------------------------------------------------------------------------ *)
(* The plan as a dependency graph.                                                             *)

Definition members (ss : sources) : list module := flat_map fst ss.

(* s' is a declared (implicit, after `|`) dependency of s *)
Definition dep_edge (p : list step) (s' s : step) : Prop :=
  In s' p /\ In s p /\ In (s_out s') (s_deps s).

(* well-formed sorted_sources: every file appears once, every dependency of a group is a member of an
   earlier group (what deps_from_import_graph returns for importlab's collapsed DAG). *)
Fixpoint deps_closed (seen : list module) (ss : sources) : Prop :=
  match ss with
  | [] => True
  | (g, d) :: r => (forall x, In x d -> In x seen) /\ deps_closed (seen ++ g) r
  end.

Definition wf (ss : sources) : Prop :=
  NoDup (map m_full (members ss)) /\ deps_closed [] ss.

(* boolean versions for the harness / examples *)
Fixpoint memM (x : module) (l : list module) : bool :=
  match l with [] => false | y :: r => module_eqb x y || memM x r end.
Fixpoint nodupN (l : list N) : bool :=
  match l with [] => true | x :: r => negb (memN x r) && nodupN r end.
Fixpoint deps_closedb (seen : list module) (ss : sources) : bool :=
  match ss with
  | [] => true
  | (g, d) :: r => forallb (fun x => memM x seen) d && deps_closedb (seen ++ g) r
  end.
Definition wfb (ss : sources) : bool := nodupN (map m_full (members ss)) && deps_closedb [] ss.

(* number of CHECK statements for file f *)
Definition checks_of (f : N) (p : list step) : nat :=
  length (filter (fun s => is_check (s_action s) && (s_input s =? f)) p).

(* ------------------------------------------------------------------------------------------ *)
(* deps_from_import_graph over importlab's deps_list().  A file is (id, is_stub, module) where
   `module` is resolved_file_to_module(provenance[file]); a node is a str (one file) or a NodeSet
   (sorted files); we receive reversed(deps_list()) = [(node files, [dep node files])].        *)

Record gfile := GFile { g_id : N; g_stub : bool; g_mod : module }.

Fixpoint unique_gfiles (l : list gfile) (seen : list N) : list gfile :=   (* utils.unique_list *)
  match l with
  | [] => []
  | f :: r => if memN (g_id f) seen then unique_gfiles r seen else f :: unique_gfiles r (g_id f :: seen)
  end.

Fixpoint sget (k : N) (l : list (N * list module)) : list module :=   (* defaultdict(list)[k] *)
  match l with [] => [] | (k', v) :: r => if k =? k' then v else sget k r end.

Definition dfig_node (acc : list (N * list module) * sources)
           (nd : list gfile * list (list gfile)) : list (N * list module) * sources :=
  let '(s2d, out) := acc in
  let '(node, deps) := nd in
  let stubs := filter g_stub node in
  let srcs := map g_mod (filter (fun f => negb (g_stub f)) node) in
  let flat := unique_gfiles (concat deps) [] in
  let stub_deps := filter g_stub flat in
  let source_deps := map g_mod (filter (fun f => negb (g_stub f)) flat) in
  (* for stub in stubs: extend with source_deps, then with each stub dep's list *)
  let s2d' := fold_left (fun m stub =>
                let v0 := sget (g_id stub) m ++ source_deps in
                let v := fold_left (fun v sd => v ++ sget (g_id sd) ((g_id stub, v) :: m)) stub_deps v0 in
                (g_id stub, v) :: m) stubs s2d in
  match srcs with
  | [] => (s2d', out)
  | _ => let sd := fold_left (fun v stub => v ++ sget (g_id stub) s2d') stub_deps source_deps in
         (s2d', out ++ [(srcs, sd)])
  end.

Definition deps_from_import_graph (rev_deps_list : list (list gfile * list (list gfile))) : sources :=
  snd (fold_left dfig_node rev_deps_list ([], [])).

(* ------------------------------------------------------------------------------------------ *)
(* Characters are byte/code-point numbers.                                                     *)

Definition c_nul := 0.  Definition c_nl := 10. Definition c_cr := 13. Definition c_sp := 32.
Definition c_dollar := 36. Definition c_colon := 58. Definition c_pipe := 124.
Definition c_lbrace := 123. Definition c_rbrace := 125. Definition c_eq := 61. Definition c_at := 64.

Definition str := list N.

(* escape_ninja_path: re.sub(r'(?P<char>[\n :$])', r'$\g<char>', path) *)
Definition esc_special (c : N) : bool := (c =? c_nl) || (c =? c_sp) || (c =? c_colon) || (c =? c_dollar).
Definition escape (s : str) : str := flat_map (fun c => if esc_special c then [c_dollar; c] else [c]) s.

(* ------------------------------------------------------------------------------------------ *)
(* ninja: Lexer::ReadEvalString(eval, path).  re2c rules (ninja 1.11):
     [^$ :\r\n|\000]+   text
     "\r\n"             path: stop before it; value: end of value (consumed)
     [ :|\n]            path: stop before it; value: '\n' ends (consumed), others are text
     "$$" -> '$'   "$ " -> ' '   "$:" -> ':'   "$\n"[ ]* and "$\r\n"[ ]* -> nothing (continuation)
     "${"varname"}", "$"simple_varname -> variable reference
     "$". -> error (bad $-escape)   NUL -> error (unexpected EOF)   anything else (lone '\r') -> error
   The input buffer is NUL-terminated, so running off the end is the NUL error.                 *)

Inductive tok := TLit (c : N) | TVar (name : str).

Definition in_range (c lo hi : N) : bool := (lo <=? c) && (c <=? hi).
Definition simple_var_char (c : N) : bool :=           (* [a-zA-Z0-9_-] *)
  in_range c 97 122 || in_range c 65 90 || in_range c 48 57 || (c =? 95) || (c =? 45).
Definition var_char (c : N) : bool := simple_var_char c || (c =? 46).   (* [a-zA-Z0-9_.-] *)

Inductive lmode :=
| M0                      (* between tokens *)
| MD                      (* after '$' *)
| MDCR                    (* after "$\r" *)
| MSP                     (* after "$\n": skipping spaces *)
| MCR                     (* after '\r' *)
| MB (acc : str)          (* inside "${" *)
| MV (acc : str).         (* inside "$"simple_varname, acc non-empty *)

Inductive lstep :=
| Cont (emit : list tok) (m : lmode)     (* character consumed, go on *)
| StopBefore (emit : list tok)           (* end of the string; the character is not consumed *)
| StopAfter (emit : list tok)            (* end of the string; the character is consumed *)
| StopBeforeCR                           (* path mode "\r\n": p = start, i.e. the rest begins at '\r' *)
| LErr.

Definition emit_more (ts : list tok) (r : lstep) : lstep :=
  match r with
  | Cont e m => Cont (ts ++ e) m
  | StopBefore e => StopBefore (ts ++ e)
  | StopAfter e => StopAfter (ts ++ e)
  | StopBeforeCR => StopBeforeCR     (* only produced from MCR, never combined *)
  | LErr => LErr
  end.

Definition lstep0 (is_path : bool) (c : N) : lstep :=
  if c =? c_dollar then Cont [] MD
  else if c =? c_nul then LErr
  else if c =? c_cr then Cont [] MCR
  else if c =? c_nl then (if is_path then StopBefore [] else StopAfter [])
  else if (c =? c_sp) || (c =? c_colon) || (c =? c_pipe) then
    (if is_path then StopBefore [] else Cont [TLit c] M0)
  else Cont [TLit c] M0.

Definition lstep1 (is_path : bool) (m : lmode) (c : N) : lstep :=
  match m with
  | M0 => lstep0 is_path c
  | MD =>
    if c =? c_dollar then Cont [TLit c_dollar] M0
    else if c =? c_sp then Cont [TLit c_sp] M0
    else if c =? c_colon then Cont [TLit c_colon] M0
    else if c =? c_nl then Cont [] MSP
    else if c =? c_cr then Cont [] MDCR
    else if c =? c_lbrace then Cont [] (MB [])
    else if simple_var_char c then Cont [] (MV [c])
    else LErr
  | MDCR => if c =? c_nl then Cont [] MSP else LErr
  | MSP => if c =? c_sp then Cont [] MSP else lstep0 is_path c
  | MCR => if c =? c_nl then (if is_path then StopBeforeCR else StopAfter []) else LErr
  | MB acc =>
    if var_char c then Cont [] (MB (acc ++ [c]))
    else if (c =? c_rbrace) && negb (match acc with [] => true | _ => false end) then Cont [TVar acc] M0
    else LErr
  | MV acc =>
    if simple_var_char c then Cont [] (MV (acc ++ [c]))
    else emit_more [TVar acc] (lstep0 is_path c)
  end.

Inductive lres := LDone (toks : list tok) (rest : str) | LFail.

Definition lcons (ts : list tok) (r : lres) : lres :=
  match r with LDone t rest => LDone (ts ++ t) rest | LFail => LFail end.

Fixpoint lex (is_path : bool) (m : lmode) (s : str) : lres :=
  match s with
  | [] => LFail                                    (* NUL terminator: "unexpected EOF" *)
  | c :: r =>
    match lstep1 is_path m c with
    | Cont e m' => lcons e (lex is_path m' r)
    | StopBefore e => LDone e (c :: r)
    | StopAfter e => LDone e r
    | StopBeforeCR => LDone [] (c_cr :: c :: r)
    | LErr => LFail
    end
  end.

Definition lex_path (s : str) : lres := lex true M0 s.
Definition lex_value (s : str) : lres := lex false M0 s.

(* EvalString::Evaluate with an environment *)
Fixpoint eval_toks (env : str -> str) (ts : list tok) : str :=
  match ts with
  | [] => []
  | TLit c :: r => c :: eval_toks env r
  | TVar v :: r => env v ++ eval_toks env r
  end.

Definition lits (s : str) : list tok := map TLit s.

(* ------------------------------------------------------------------------------------------ *)
(* The text write_build_statement appends, over already-interpreted strings, and ninja's reading of
   it (ManifestParser::ParseEdge restricted to what can follow: explicit outputs, ':', rule name,
   explicit inputs, optional '|' implicit inputs, newline, indented `name = value` bindings).   *)

Record stmt := Stmt { t_out : str; t_action : str; t_input : str; t_deps : list str;
                      t_imports : str; t_module : str }.

Definition s_build : str := [98; 117; 105; 108; 100].                       (* "build" *)
Definition s_imports_eq : str := [32; 32; 105; 109; 112; 111; 114; 116; 115; 32; 61; 32].   (* "  imports = " *)
Definition s_module_eq : str := [32; 32; 109; 111; 100; 117; 108; 101; 32; 61; 32].         (* "  module = " *)
Definition kw_imports : str := [105; 109; 112; 111; 114; 116; 115].
Definition kw_module : str := [109; 111; 100; 117; 108; 101].

Fixpoint join_sp (l : list str) : str :=
  match l with [] => [] | [x] => x | x :: r => x ++ c_sp :: join_sp r end.

(* esc_mod = false is the code as written: `module=module.name` is NOT escaped. *)
Definition render (esc_mod : bool) (t : stmt) : str :=
  s_build ++ [c_sp] ++ escape (t_out t) ++ [c_colon; c_sp] ++ t_action t ++ [c_sp] ++ escape (t_input t)
  ++ (match t_deps t with
      | [] => []
      | ds => [c_sp; c_pipe; c_sp] ++ join_sp (map escape ds)
      end)
  ++ [c_nl] ++ s_imports_eq ++ escape (t_imports t) ++ [c_nl]
  ++ s_module_eq ++ (if esc_mod then escape (t_module t) else t_module t) ++ [c_nl].

Fixpoint eat_ws (s : str) : str :=      (* Lexer::EatWhitespace: [ ]* (and "$\n" continuations, not produced here) *)
  match s with c :: r => if c =? c_sp then eat_ws r else s | [] => [] end.

(* read paths until an empty one; fuel bounds the number of paths *)
Fixpoint read_paths (fuel : nat) (s : str) : option (list (list tok) * str) :=
  match fuel with
  | O => None
  | S f =>
    match lex_path s with
    | LFail => None
    | LDone [] rest => Some ([], eat_ws rest)
    | LDone ts rest =>
      match read_paths f (eat_ws rest) with
      | None => None
      | Some (ps, rest') => Some (ts :: ps, rest')
      end
    end
  end.

Fixpoint read_ident (s : str) : str * str :=   (* Lexer::ReadIdent: [a-zA-Z0-9_.-]+ then EatWhitespace *)
  match s with
  | c :: r => if var_char c then let '(i, rest) := read_ident r in (c :: i, rest) else ([], eat_ws s)
  | [] => ([], [])
  end.

Fixpoint strip_prefix (p s : str) : option str :=
  match p, s with
  | [], _ => Some s
  | a :: p', b :: s' => if a =? b then strip_prefix p' s' else None
  | _, [] => None
  end.

(* an indented binding "  name = value\n": INDENT, ident, '=', EatWhitespace, value *)
Definition read_binding (s : str) : option (str * list tok * str) :=
  match s with
  | c :: _ =>
    if c =? c_sp then
      let s1 := eat_ws s in
      let '(name, s2) := read_ident s1 in
      match name, s2 with
      | _ :: _, e :: s3 =>
        if e =? c_eq then
          match lex_value (eat_ws s3) with
          | LDone v rest => Some (name, v, rest)
          | LFail => None
          end
        else None
      | _, _ => None
      end
    else None
  | [] => None
  end.

Record parsed := Parsed { p_outs : list (list tok); p_rule : str; p_ins : list (list tok);
                          p_implicit : list (list tok); p_bind : list (str * list tok) }.

Definition parse_build (s : str) : option (parsed * str) :=
  match strip_prefix s_build s with
  | None => None
  | Some s0 =>
    let fuel := S (length s) in
    match read_paths fuel (eat_ws s0) with
    | None => None
    | Some (outs, s1) =>
      match s1 with
      | c :: s2 =>
        if c =? c_colon then
          let '(rule, s3) := read_ident (eat_ws s2) in
          match read_paths fuel s3 with
          | None => None
          | Some (ins, s4) =>
            let after_implicit :=
              match s4 with
              | p :: s5 =>
                if p =? c_pipe then
                  match s5 with
                  | q :: _ => if (q =? c_pipe) || (q =? c_at) then None    (* "||", "|@": not written *)
                              else read_paths fuel (eat_ws s5)
                  | [] => None
                  end
                else Some ([], s4)
              | [] => None
              end in
            match after_implicit with
            | None => None
            | Some (imps, s6) =>
              match s6 with
              | n :: s7 =>
                if n =? c_nl then
                  match read_binding s7 with
                  | None => None
                  | Some (n1, v1, s8) =>
                    match read_binding s8 with
                    | None => None
                    | Some (n2, v2, s9) => Some (Parsed outs rule ins imps [(n1, v1); (n2, v2)], s9)
                    end
                  end
                else None
              | [] => None
              end
            end
          end
        else None
      | [] => None
      end
    end
  end.
