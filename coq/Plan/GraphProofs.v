(* C19: deps_from_import_graph (Plan/Model.v) turns every well-formed import graph into well-formed
   sorted_sources, keeps every source file of the graph, and composes with setup_build.
   The input is what the model already takes: reversed(import_graph.deps_list()) as a list of
   (files of the node, [files of each dependency node]); a node is one file or a collapsed cycle
   (importlab NodeSet); a file is (id, is_stub, module) with module = resolved_file_to_module(provenance). *)
From Coq Require Import List NArith Bool Arith Lia Relations.
From PV Require Import Plan.Model Plan.Proofs Plan.CoverProofs.
Import ListNotations.

Definition graph := list (list gfile * list (list gfile)).

Definition node_sources (node : list gfile) : list module :=
  map g_mod (filter (fun f => negb (g_stub f)) node).

(* the source (non-stub) files of the graph, in order, with multiplicity *)
Definition graph_sources (g : graph) : list module := flat_map (fun nd => node_sources (fst nd)) g.

(* dependency order: every file of every dependency node occurs in an EARLIER node.  This is what
   reversed(topological_sort) of importlab's collapsed graph gives (cycles are inside one node, self
   edges are never added). *)
Fixpoint graph_closed (seen : list gfile) (g : graph) : Prop :=
  match g with
  | [] => True
  | (node, deps) :: r =>
    (forall d, In d deps -> forall f, In f d -> In f seen) /\ graph_closed (seen ++ node) r
  end.

(* well-formed import graph: dependency order, and distinct source files have distinct full paths
   (in particular no source file is listed twice) *)
Definition wf_graph (g : graph) : Prop :=
  NoDup (map m_full (graph_sources g)) /\ graph_closed [] g.

(* boolean version for examples / monitoring *)
Definition gfile_eqb (a b : gfile) : bool :=
  (g_id a =? g_id b)%N && Bool.eqb (g_stub a) (g_stub b) && module_eqb (g_mod a) (g_mod b).
Fixpoint memG (x : gfile) (l : list gfile) : bool :=
  match l with [] => false | y :: r => gfile_eqb x y || memG x r end.
Fixpoint graph_closedb (seen : list gfile) (g : graph) : bool :=
  match g with
  | [] => true
  | (node, deps) :: r =>
    forallb (fun d => forallb (fun f => memG f seen) d) deps && graph_closedb (seen ++ node) r
  end.
Definition wf_graphb (g : graph) : bool :=
  nodupN (map m_full (graph_sources g)) && graph_closedb [] g.

Lemma gfile_eqb_eq : forall a b, gfile_eqb a b = true <-> a = b.
Proof.
  intros [i s m] [i' s' m']. unfold gfile_eqb. simpl.
  rewrite !andb_true_iff, N.eqb_eq, Bool.eqb_true_iff, module_eqb_eq. split.
  - intros [[? ?] ?]; subst; reflexivity.
  - intros H; inversion H; auto.
Qed.

Lemma memG_In : forall x l, memG x l = true <-> In x l.
Proof.
  induction l as [|y r IH]; simpl; [split; [discriminate|tauto]|].
  rewrite orb_true_iff, gfile_eqb_eq, IH. split; intros [H|H]; auto.
Qed.

Lemma graph_closedb_ok : forall g seen, graph_closedb seen g = true -> graph_closed seen g.
Proof.
  induction g as [|[node deps] r IH]; simpl; intros seen H; auto.
  apply andb_true_iff in H. destruct H as [H1 H2]. split; auto.
  intros d Hd f Hf. rewrite forallb_forall in H1. specialize (H1 d Hd).
  rewrite forallb_forall in H1. apply memG_In. auto.
Qed.

Lemma wf_graphb_ok : forall g, wf_graphb g = true -> wf_graph g.
Proof.
  intros g H. unfold wf_graphb in H. apply andb_true_iff in H. destruct H. split.
  - apply nodupN_NoDup; auto.
  - apply graph_closedb_ok; auto.
Qed.

(* ------------------------------------------------------------------------------------------ *)

Lemma members_snoc : forall out g d, members (out ++ [(g, d)]) = members out ++ g.
Proof. intros. unfold members. rewrite flat_map_app. simpl. rewrite app_nil_r. reflexivity. Qed.

Lemma deps_closed_snoc : forall out seen0 g d,
  deps_closed seen0 out -> (forall x, In x d -> In x (seen0 ++ members out)) ->
  deps_closed seen0 (out ++ [(g, d)]).
Proof.
  induction out as [|[g1 d1] r IH]; simpl; intros seen0 g d H Hd.
  - split; auto. intros x Hx. specialize (Hd x Hx). rewrite app_nil_r in Hd. exact Hd.
  - destruct H as [H1 H2]. split; auto. apply IH; auto.
    intros x Hx. specialize (Hd x Hx). unfold members in *. simpl in Hd. rewrite <- app_assoc. exact Hd.
Qed.

Lemma unique_sub : forall l seen f, In f (unique_gfiles l seen) -> In f l.
Proof.
  induction l as [|a r IH]; simpl; intros seen f H; auto.
  destruct (memN (g_id a) seen).
  - right. eapply IH; eauto.
  - destruct H as [H|H]; auto. right. eapply IH; eauto.
Qed.

Lemma fold_left_inv : forall {A B} (P : A -> Prop) (f : A -> B -> A) l,
  (forall a b, P a -> P (f a b)) -> forall a, P a -> P (fold_left f l a).
Proof. induction l as [|b r IH]; simpl; intros Hs a Ha; auto. Qed.

Definition sub (M : list module) (v : list module) : Prop := forall x, In x v -> In x M.
Definition map_sub (M : list module) (m : list (N * list module)) : Prop := forall k, sub M (sget k m).

Lemma sub_app : forall M a b, sub M a -> sub M b -> sub M (a ++ b).
Proof. intros M a b Ha Hb x Hx. apply in_app_or in Hx. destruct Hx; auto. Qed.

Lemma map_sub_cons : forall M m k v, map_sub M m -> sub M v -> map_sub M ((k, v) :: m).
Proof. intros M m k v Hm Hv k0. simpl. destruct (k0 =? k)%N; auto. Qed.

(* one node *)
Lemma dfig_node_step : forall s2d out node deps seen,
  (forall d, In d deps -> forall f, In f d -> In f seen) ->
  (forall f, In f seen -> g_stub f = false -> In (g_mod f) (members out)) ->
  map_sub (members out) s2d ->
  deps_closed [] out ->
  let r := dfig_node (s2d, out) (node, deps) in
  members (snd r) = members out ++ node_sources node /\
  deps_closed [] (snd r) /\
  map_sub (members (snd r)) (fst r) /\
  (forall f, In f (seen ++ node) -> g_stub f = false -> In (g_mod f) (members (snd r))).
Proof.
  intros s2d out node deps seen Hdeps Hseen Hmap Hclosed.
  set (M := members out).
  set (flat := unique_gfiles (concat deps) []).
  set (stub_deps := filter g_stub flat).
  set (source_deps := map g_mod (filter (fun f => negb (g_stub f)) flat)).
  assert (Hflat : forall f, In f flat -> In f seen).
  { intros f Hf. apply unique_sub in Hf. apply in_concat in Hf. destruct Hf as [d [Hd Hf]]. eapply Hdeps; eauto. }
  assert (Hsd : sub M source_deps).
  { intros x Hx. unfold source_deps in Hx. apply in_map_iff in Hx. destruct Hx as [f [<- Hf]].
    apply filter_In in Hf. destruct Hf as [Hf Hs]. apply negb_true_iff in Hs. apply Hseen; auto. }
  set (stepf := fun (m : list (N * list module)) (stub : gfile) =>
                  let v0 := sget (g_id stub) m ++ source_deps in
                  let v := fold_left (fun v sd => v ++ sget (g_id sd) ((g_id stub, v) :: m)) stub_deps v0 in
                  (g_id stub, v) :: m).
  set (s2d' := fold_left stepf (filter g_stub node) s2d).
  assert (Hmap' : map_sub M s2d').
  { unfold s2d'. apply (fold_left_inv (map_sub M)); auto.
    intros m stub Hm. unfold stepf. apply map_sub_cons; auto.
    apply (fold_left_inv (sub M)).
    - intros v sd Hv. apply sub_app; auto. apply (map_sub_cons M m (g_id stub) v Hm Hv).
    - apply sub_app; auto. }
  set (sd := fold_left (fun v stub => v ++ sget (g_id stub) s2d') stub_deps source_deps).
  assert (Hsdsub : sub M sd).
  { unfold sd. apply (fold_left_inv (sub M)); auto. intros v stub Hv. apply sub_app; auto. }
  assert (Er : dfig_node (s2d, out) (node, deps) =
               match node_sources node with
               | [] => (s2d', out)
               | _ => (s2d', out ++ [(node_sources node, sd)])
               end) by reflexivity.
  intro r. subst r. rewrite Er.
  assert (Hnode : forall f, In f node -> g_stub f = false -> In (g_mod f) (node_sources node)).
  { intros f Hf Hs. unfold node_sources. apply in_map. apply filter_In. split; auto. rewrite Hs. reflexivity. }
  destruct (node_sources node) as [|s0 srest] eqn:Esrc; cbn [fst snd].
  - rewrite app_nil_r. repeat split; auto.
    intros f Hf Hs. apply in_app_or in Hf. destruct Hf as [Hf|Hf]; [apply Hseen; auto|].
    exfalso. apply (Hnode f Hf Hs).
  - rewrite members_snoc. fold M. repeat split.
    + apply deps_closed_snoc; auto.
    + intros k x Hx. apply in_or_app. left. apply (Hmap' k x Hx).
    + intros f Hf Hs. apply in_app_or in Hf. apply in_or_app. destruct Hf as [Hf|Hf].
      * left. apply Hseen; auto.
      * right. apply Hnode; auto.
Qed.

Lemma dfig_fold : forall g seen s2d out,
  graph_closed seen g ->
  (forall f, In f seen -> g_stub f = false -> In (g_mod f) (members out)) ->
  map_sub (members out) s2d ->
  deps_closed [] out ->
  let r := fold_left dfig_node g (s2d, out) in
  members (snd r) = members out ++ graph_sources g /\ deps_closed [] (snd r).
Proof.
  induction g as [|[node deps] rest IH]; intros seen s2d out Hg Hseen Hmap Hcl.
  - simpl. rewrite app_nil_r. auto.
  - simpl in Hg. destruct Hg as [Hd Hrest].
    destruct (dfig_node_step s2d out node deps seen Hd Hseen Hmap Hcl) as [E [C [Mp S]]].
    cbn [fold_left].
    destruct (dfig_node (s2d, out) (node, deps)) as [s2d1 out1] eqn:En. cbn [fst snd] in *.
    destruct (IH (seen ++ node) s2d1 out1 Hrest S Mp C) as [E2 C2].
    split; auto. rewrite E2, E. unfold graph_sources. cbn [flat_map fst]. rewrite app_assoc. reflexivity.
Qed.

(* the modules of the produced groups are exactly the source files of the graph, in order *)
Lemma deps_members_lemma : forall g, graph_closed [] g ->
  members (deps_from_import_graph g) = graph_sources g.
Proof.
  intros g H. unfold deps_from_import_graph.
  destruct (dfig_fold g [] [] [] H) as [E _]; simpl; auto; try tauto.
  intros k x [].
Qed.

Lemma deps_output_wf_lemma : forall g, wf_graph g -> wf (deps_from_import_graph g).
Proof.
  intros g [Hn Hc]. split.
  - rewrite deps_members_lemma; auto.
  - unfold deps_from_import_graph.
    destruct (dfig_fold g [] [] [] Hc) as [_ C]; simpl; auto; try tauto.
    intros k x [].
Qed.

(* nothing is dropped: every source file of every node is a member of some group *)
Lemma deps_complete_lemma : forall g node deps f,
  graph_closed [] g -> In (node, deps) g -> In f node -> g_stub f = false ->
  In (g_mod f) (members (deps_from_import_graph g)).
Proof.
  intros g node deps f Hc Hn Hf Hs. rewrite deps_members_lemma; auto.
  unfold graph_sources. apply in_flat_map. exists (node, deps). split; auto.
  simpl. unfold node_sources. apply in_map. apply filter_In. split; auto. rewrite Hs. reflexivity.
Qed.

(* ------------------------------------------------------------------------------------------ *)
(* Builtin/System modules (outside pytype_extensions) are never analysed                        *)

Lemma sys_action_lemma : forall req m,
  is_sys (m_kind m) = true -> m_ext m = false -> get_module_action req m = GENERATE_DEFAULT.
Proof. intros req m H1 H2. unfold get_module_action. rewrite H1, H2. reflexivity. Qed.

Lemma check_action_lemma : forall req m,
  get_module_action req m = CHECK -> In (m_full m) req /\ (is_sys (m_kind m) = false \/ m_ext m = true).
Proof.
  intros req m H. unfold get_module_action in H.
  destruct (m_ext m); destruct (is_sys (m_kind m)); simpl in H; try discriminate;
    (destruct (memN (m_full m) req) eqn:E; [|discriminate]); apply memN_In in E; auto.
Qed.

Lemma run_written_nd : forall req items s s', run req items s = Some s' ->
  forall t, In t (plan s') -> In t (plan s) \/
  exists i, In i items /\ written_for t i /\ is_default (it_act i) = false.
Proof.
  induction items as [|i r IH]; simpl; intros s s' H t Hin.
  - inversion H; subst; auto.
  - destruct (setup_step req s i) as [s1|] eqn:E; [|discriminate].
    destruct (IH _ _ H _ Hin) as [Hin1 | [j [Hj Hw]]]; [|right; exists j; auto].
    destruct (setup_step_cases _ _ _ _ E) as [[_ ->] | [[_ [Hd ->]] | [_ [Hnd [im [ds [Hg [Hdd Hs']]]]]]]]; auto.
    simpl in Hs'. subst s1. simpl in Hin1. apply in_app_or in Hin1. destruct Hin1 as [Hin1|[<-|[]]]; auto.
    right. exists i. split; [left; reflexivity|]. split; auto. unfold written_for, item_out. simpl.
    repeat split; auto. intros d Hd. eapply gim_covers; eauto.
Qed.

Lemma sys_never_analysed_lemma : forall req ss s t,
  setup_build req ss = Some s -> In t (plan s) ->
  exists i, In i (yield_sorted_modules req ss) /\ written_for t i /\
            (is_sys (m_kind (it_mod i)) = false \/ m_ext (it_mod i) = true).
Proof.
  intros req ss s t H Hin. unfold setup_build in H.
  destruct (run_written_nd _ _ _ _ H _ Hin) as [[]|[i [Hi [Hw Hnd]]]].
  exists i. split; auto. split; auto.
  destruct (yield_ok _ _ _ Hi) as [Hk _]. rewrite Hnd in Hk.
  destruct (is_sys (m_kind (it_mod i))) eqn:Es; auto. destruct (m_ext (it_mod i)) eqn:Ee; auto.
  rewrite (sys_action_lemma req (it_mod i) Es Ee) in Hk. discriminate.
Qed.

(* ------------------------------------------------------------------------------------------ *)
(* the composition setup_build . deps_from_import_graph                                         *)

Lemma composed_lemma : forall req g, wf_graph g ->
  exists s, setup_build req (deps_from_import_graph g) = Some s /\
  (* every requested analysable source file of the graph: exactly one CHECK statement *)
  (forall node deps f, In (node, deps) g -> In f node -> g_stub f = false ->
     get_module_action req (g_mod f) = CHECK -> checks_of (m_full (g_mod f)) (plan s) = 1) /\
  (* imports entries are the default stub or produced by a declared ancestor *)
  (forall t k p, In t (plan s) -> In (k, p) (s_imports t) ->
     p = PDefault \/ exists t', In t' (plan s) /\ s_out t' = p /\ clos_trans step (dep_edge (plan s)) t' t) /\
  (* every schedule respecting the declared dependencies reads only stubs already produced *)
  (forall start finish, respects (plan s) start finish ->
     forall t k p, In t (plan s) -> In (k, p) (s_imports t) -> p <> PDefault ->
     exists t', In t' (plan s) /\ s_out t' = p /\ finish t' <= start t).
Proof.
  intros req g Hg. pose proof (deps_output_wf_lemma g Hg) as Hwf.
  destruct (setup_build req (deps_from_import_graph g)) as [s|] eqn:E.
  - exists s. split; [reflexivity|]. split; [|split].
    + intros node deps f Hn Hf Hs Ha.
      apply (checked_once_lemma req _ s (g_mod f) E (proj1 Hwf)); auto.
      eapply deps_complete_lemma; eauto. exact (proj2 Hg).
    + intros t k p. apply (imports_entries_produced_lemma _ _ _ E).
    + intros start finish Hr. apply (any_schedule_safe_lemma _ _ _ _ _ E Hr).
  - exfalso. apply (no_keyerror_lemma req _ (proj2 Hwf)). exact E.
Qed.
