(* C19 extension (b): the command ninja hands to /bin/sh for a build statement of the plan names exactly the
   statement's input file, output path, module name and imports file - when the imports path and the module
   name consist of characters the shell leaves alone ($in/$out are shell-quoted by ninja, $imports/$module
   are not).  Model: Plan/Text.v (edge_env, shell_escape, sh). *)
From Coq Require Import List NArith Bool Arith Lia.
From PV Require Import Plan.Model Plan.Proofs Plan.StmtProofs Plan.Text Plan.ReaderProofs.
Import ListNotations.
Local Open Scope N_scope.

(* ------------------------------------------------------------------------------------------ *)
(* the command text as words: literal words and `$name` references *)

Inductive cword := WLit (s : str) | WVar (v : str).
Definition cword_text (w : cword) : str := match w with WLit s => s | WVar v => c_dollar :: v end.
Definition cword_toks (w : cword) : list tok := match w with WLit s => lits s | WVar v => [TVar v] end.
Definition command_text (ws : list cword) : str := join_sp (map cword_text ws).

(* how get_pytype_command_for_ninja's raw words are read *)
Definition classify (s : str) : cword :=
  match s with c :: r => if c =? c_dollar then WVar r else WLit s | [] => WLit s end.

Lemma classify_text : forall s, cword_text (classify s) = s.
Proof.
  intros [|c r]; [reflexivity|]. unfold classify. destruct (c =? c_dollar) eqn:E; [|reflexivity].
  apply N.eqb_eq in E. subst. reflexivity.
Qed.

Lemma command_text_classify : forall words, command_text (map classify words) = join_sp words.
Proof.
  intros words. unfold command_text. rewrite map_map. f_equal.
  rewrite <- (map_id words) at 2. apply map_ext. apply classify_text.
Qed.

Fixpoint join_toks (l : list (list tok)) : list tok :=
  match l with [] => [] | [x] => x | x :: r => x ++ TLit c_sp :: join_toks r end.

(* characters the shell model passes through unchanged when unquoted *)
Definition sh_plain (c : N) : bool :=
  negb (sh_blank c) && negb (c =? c_sq) && negb (c =? c_bs) && negb (c =? c_dollar) && negb (sh_declined c).
Definition sh_plain_str (s : str) : Prop := s <> [] /\ forall c, In c s -> sh_plain c = true.

Lemma sh_plain_value : forall c, sh_plain c = true -> value_char c /\ c <> c_dollar.
Proof.
  intros c H. unfold sh_plain in H. rewrite !andb_true_iff, !negb_true_iff in H.
  destruct H as [[[[_ _] _] Hd] Hx]. apply N.eqb_neq in Hd.
  unfold sh_declined in Hx. rewrite !orb_false_iff in Hx.
  repeat match type of Hx with _ /\ _ => destruct Hx as [Hx ?] end.
  repeat match goal with H : (_ =? _) = false |- _ => apply N.eqb_neq in H end.
  unfold value_char, c_nl, c_cr, c_nul. repeat split; auto.
Qed.

Definition is_plan_var (v : str) : Prop := v = kw_in \/ v = kw_out \/ v = kw_imports \/ v = kw_module.

Definition cmd_word_ok (w : cword) : Prop :=
  match w with
  | WLit s => sh_plain_str s
  | WVar v => is_plan_var v
  end.

(* ------------------------------------------------------------------------------------------ *)
(* ninja's lexer on the command text *)

Lemma simple_not_special : forall c, simple_var_char c = true ->
  c <> c_dollar /\ c <> c_sp /\ c <> c_colon /\ c <> c_nl /\ c <> c_cr /\ c <> c_lbrace.
Proof.
  intros c H.
  repeat split; intro E; subst c; vm_compute in H; discriminate.
Qed.

Lemma lex_var_acc : forall v acc t tail,
  (forall c, In c v -> simple_var_char c = true) -> simple_var_char t = false ->
  lex false (MV acc) (v ++ t :: tail) = lex false (MV (acc ++ v)) (t :: tail).
Proof.
  induction v as [|c v IH]; intros acc t tail Hv Ht.
  - rewrite app_nil_r. reflexivity.
  - simpl app. rewrite lex_cons. cbn [lstep1]. rewrite (Hv c (or_introl eq_refl)). cbv iota.
    rewrite lcons_nil. rewrite IH; auto.
    + rewrite <- app_assoc. reflexivity.
    + intros x Hx. apply Hv. right; auto.
Qed.

Lemma lex_var_start : forall c v tail, simple_var_char c = true ->
  lex false M0 (c_dollar :: c :: v ++ tail) = lex false (MV [c]) (v ++ tail).
Proof.
  intros c v tail H. destruct (simple_not_special c H) as [A [B [C [D [E F]]]]].
  rewrite lex_cons. cbn [lstep1]. change (lstep0 false c_dollar) with (Cont [] MD). cbv iota. rewrite lcons_nil.
  rewrite lex_cons. cbn [lstep1].
  rewrite (proj2 (N.eqb_neq _ _) A), (proj2 (N.eqb_neq _ _) B), (proj2 (N.eqb_neq _ _) C),
          (proj2 (N.eqb_neq _ _) D), (proj2 (N.eqb_neq _ _) E), (proj2 (N.eqb_neq _ _) F), H.
  cbv iota. apply lcons_nil.
Qed.

Definition plan_var_simple : forall v, is_plan_var v -> v <> [] /\ forall c, In c v -> simple_var_char c = true.
Proof.
  intros v [ -> | [ -> | [ -> | -> ] ] ]; (split; [discriminate|]); intros c Hc; simpl in Hc;
    repeat (destruct Hc as [<-|Hc]; [reflexivity|]); destruct Hc.
Qed.

Lemma lex_lit_word : forall s tail,
  (forall c, In c s -> sh_plain c = true) ->
  lex false M0 (s ++ tail) = lcons (lits s) (lex false M0 tail).
Proof.
  induction s as [|c s IH]; intros tail Hs.
  - simpl. rewrite lcons_nil. reflexivity.
  - destruct (sh_plain_value c (Hs c (or_introl eq_refl))) as [[G1 [G2 G3]] G4].
    simpl app. rewrite lex_text; auto; [|discriminate].
    rewrite IH; [|intros x Hx; apply Hs; right; auto].
    destruct (lex false M0 tail); reflexivity.
Qed.

Lemma lex_word_sp : forall w tail, cmd_word_ok w ->
  lex false M0 (cword_text w ++ c_sp :: tail) = lcons (cword_toks w ++ [TLit c_sp]) (lex false M0 tail).
Proof.
  intros [s|v] tail H; simpl in H.
  - destruct H as [_ Hs]. cbn [cword_text cword_toks]. rewrite lex_lit_word; auto.
    change (lex false M0 (c_sp :: tail)) with (lcons [TLit c_sp] (lex false M0 tail)).
    destruct (lex false M0 tail); simpl; rewrite <- ?app_assoc; reflexivity.
  - destruct (plan_var_simple v H) as [Hn Hv]. destruct v as [|c v]; [congruence|].
    cbn [cword_text cword_toks]. simpl app.
    rewrite lex_var_start by (apply Hv; left; reflexivity).
    rewrite lex_var_acc; [|intros x Hx; apply Hv; right; auto|reflexivity].
    rewrite lex_cons. cbn [lstep1]. change (simple_var_char c_sp) with false. cbv iota.
    change (lstep0 false c_sp) with (Cont [TLit c_sp] M0). cbn [emit_more app]. reflexivity.
Qed.

Lemma lex_word_nl : forall w rest, cmd_word_ok w ->
  lex false M0 (cword_text w ++ c_nl :: rest) = LDone (cword_toks w) rest.
Proof.
  intros [s|v] rest H; simpl in H.
  - destruct H as [_ Hs]. cbn [cword_text cword_toks]. rewrite lex_lit_word; auto.
    change (lex false M0 (c_nl :: rest)) with (LDone [] rest). simpl. rewrite app_nil_r. reflexivity.
  - destruct (plan_var_simple v H) as [Hn Hv]. destruct v as [|c v]; [congruence|].
    cbn [cword_text cword_toks]. simpl app.
    rewrite lex_var_start by (apply Hv; left; reflexivity).
    rewrite lex_var_acc; [|intros x Hx; apply Hv; right; auto|reflexivity].
    rewrite lex_cons. cbn [lstep1]. change (simple_var_char c_nl) with false. cbv iota.
    change (lstep0 false c_nl) with (StopAfter []). cbn [emit_more app]. reflexivity.
Qed.

Lemma lex_command_lemma : forall ws rest, (forall w, In w ws -> cmd_word_ok w) ->
  lex_value (command_text ws ++ c_nl :: rest) = LDone (join_toks (map cword_toks ws)) rest.
Proof.
  unfold lex_value, command_text. induction ws as [|w ws IH]; intros rest H.
  - reflexivity.
  - destruct ws as [|w2 ws].
    + cbn [map join_sp join_toks]. apply lex_word_nl. apply H. left; reflexivity.
    + assert (IH' := IH rest (fun x hx => H x (or_intror hx))).
      change (join_sp (map cword_text (w :: w2 :: ws))) with
             (cword_text w ++ c_sp :: join_sp (map cword_text (w2 :: ws))).
      change (join_toks (map cword_toks (w :: w2 :: ws))) with
             (cword_toks w ++ TLit c_sp :: join_toks (map cword_toks (w2 :: ws))).
      rewrite <- app_assoc. cbn [app].
      rewrite lex_word_sp by (apply H; left; reflexivity).
      rewrite IH'. simpl. rewrite <- app_assoc. reflexivity.
Qed.

(* ------------------------------------------------------------------------------------------ *)
(* evaluation *)

Lemma eval_app : forall env a b, eval_toks env (a ++ b) = eval_toks env a ++ eval_toks env b.
Proof.
  induction a as [|[c|v] a IH]; intros b; simpl; auto.
  - rewrite IH. reflexivity.
  - rewrite IH. rewrite app_assoc. reflexivity.
Qed.

Definition cword_val (env : str -> str) (w : cword) : str :=
  match w with WLit s => s | WVar v => env v end.

Lemma eval_join : forall env ws,
  eval_toks env (join_toks (map cword_toks ws)) = join_sp (map (cword_val env) ws).
Proof.
  intros env. induction ws as [|w ws IH]; [reflexivity|].
  assert (E1 : eval_toks env (cword_toks w) = cword_val env w).
  { destruct w as [s|v]; simpl; [apply eval_lits | apply app_nil_r]. }
  destruct ws as [|w2 ws].
  - cbn [map join_toks join_sp]. exact E1.
  - change (join_toks (map cword_toks (w :: w2 :: ws))) with
           (cword_toks w ++ TLit c_sp :: join_toks (map cword_toks (w2 :: ws))).
    rewrite eval_app. cbn [eval_toks]. rewrite IH, E1. reflexivity.
Qed.

(* ------------------------------------------------------------------------------------------ *)
(* /bin/sh *)

Lemma sh_go : forall env m cur c r m' cur',
  sh_step env m cur c = AGo m' cur' [] -> sh env m cur (c :: r) = sh env m' cur' r.
Proof. intros. cbn [sh]. rewrite H. destruct (sh env m' cur' r); reflexivity. Qed.

Lemma sh_emit : forall env m cur c r m' cur' w,
  sh_step env m cur c = AGo m' cur' [w] ->
  sh env m cur (c :: r) = match sh env m' cur' r with Some ws => Some (w :: ws) | None => None end.
Proof. intros. cbn [sh]. rewrite H. reflexivity. Qed.

Lemma su_plain : forall c cur, sh_plain c = true -> su_step c cur = AGo SU (push c cur) [].
Proof.
  intros c cur H. unfold sh_plain in H. rewrite !andb_true_iff, !negb_true_iff in H.
  destruct H as [[[[A B] C] D] E]. unfold su_step. rewrite A, B, C, D, E. reflexivity.
Qed.

Lemma sh_plain_run : forall env d w r, (forall c, In c d -> sh_plain c = true) ->
  sh env SU (Some w) (d ++ r) = sh env SU (Some (w ++ d)) r.
Proof.
  induction d as [|c d IH]; intros w r H.
  - rewrite app_nil_r. reflexivity.
  - simpl app. rewrite (sh_go env SU (Some w) c (d ++ r) SU (push c (Some w))).
    + unfold push. rewrite IH; [|intros x Hx; apply H; right; auto]. rewrite <- app_assoc. reflexivity.
    + cbn [sh_step]. apply su_plain. apply H. left; reflexivity.
Qed.

Lemma sh_plain_word : forall env d r, sh_plain_str d -> sh env SU None (d ++ r) = sh env SU (Some d) r.
Proof.
  intros env d r [Hn H]. destruct d as [|c d]; [congruence|].
  simpl app. rewrite (sh_go env SU None c (d ++ r) SU (push c None)).
  - unfold push. rewrite sh_plain_run; [reflexivity|]. intros x Hx. apply H. right; auto.
  - cbn [sh_step]. apply su_plain. apply H. left; reflexivity.
Qed.

Definition sq_body (d : str) : str := flat_map (fun c => if c =? c_sq then [c_sq; c_bs; c_sq; c_sq] else [c]) d.

Lemma sh_quoted_run : forall env d w r,
  sh env SQ (Some w) (sq_body d ++ r) = sh env SQ (Some (w ++ d)) r.
Proof.
  induction d as [|c d IH]; intros w r.
  - rewrite app_nil_r. reflexivity.
  - unfold sq_body. cbn [flat_map]. fold (sq_body d). destruct (c =? c_sq) eqn:E.
    + apply N.eqb_eq in E. subst c. cbn [app].
      rewrite (sh_go env SQ (Some w) c_sq _ SU (Some w)) by reflexivity.
      rewrite (sh_go env SU (Some w) c_bs _ SB (Some w)) by reflexivity.
      rewrite (sh_go env SB (Some w) c_sq _ SU (Some (w ++ [c_sq]))) by reflexivity.
      rewrite (sh_go env SU (Some (w ++ [c_sq])) c_sq _ SQ (Some (w ++ [c_sq]))) by reflexivity.
      rewrite IH. rewrite <- app_assoc. reflexivity.
    + cbn [app]. rewrite (sh_go env SQ (Some w) c _ SQ (Some (w ++ [c]))).
      * rewrite IH. rewrite <- app_assoc. reflexivity.
      * cbn [sh_step]. rewrite E. reflexivity.
Qed.

Lemma sh_quoted_word : forall env d r,
  sh env SU None (c_sq :: sq_body d ++ c_sq :: r) = sh env SU (Some d) r.
Proof.
  intros env d r.
  rewrite (sh_go env SU None c_sq _ SQ (Some [])) by reflexivity.
  rewrite sh_quoted_run. change ([] ++ d) with d.
  apply (sh_go env SQ (Some d) c_sq r SU (Some d)). reflexivity.
Qed.

(* x is how the word d reaches the shell *)
Definition sh_enc (x d : str) : Prop := (x = d /\ sh_plain_str d) \/ x = c_sq :: sq_body d ++ [c_sq].

Lemma sh_enc_word : forall env x d r, sh_enc x d -> sh env SU None (x ++ r) = sh env SU (Some d) r.
Proof.
  intros env x d r [ [ -> H ] | -> ].
  - apply sh_plain_word; auto.
  - cbn [app]. rewrite <- app_assoc. cbn [app]. apply sh_quoted_word.
Qed.

Lemma sh_words_join : forall env (l : list (str * str)),
  (forall xd, In xd l -> sh_enc (fst xd) (snd xd)) ->
  sh env SU None (join_sp (map fst l)) = Some (map snd l).
Proof.
  intros env. induction l as [|[x d] l IH]; intros H; [reflexivity|].
  assert (Hx := H (x, d) (or_introl eq_refl)). simpl in Hx.
  destruct l as [|xd2 l].
  - cbn [map join_sp fst snd]. rewrite <- (app_nil_r x). rewrite (sh_enc_word env x d [] Hx). reflexivity.
  - change (join_sp (map fst ((x, d) :: xd2 :: l))) with (x ++ c_sp :: join_sp (map fst (xd2 :: l))).
    rewrite (sh_enc_word env x d _ Hx).
    rewrite (sh_emit env SU (Some d) c_sp _ SU None d) by reflexivity.
    rewrite IH; [reflexivity|]. intros y Hy. apply H. right; auto.
Qed.

(* ------------------------------------------------------------------------------------------ *)
(* ninja's shell escaping yields a word the shell reads back *)

Lemma ninja_safe_plain : forall c, ninja_shell_safe c = true -> sh_plain c = true.
Proof.
  intros c H. unfold sh_plain, sh_blank, sh_declined.
  repeat match goal with
  | |- context [c =? ?k] =>
      destruct (c =? k) eqn:?E;
      [ apply N.eqb_eq in E; subst c; vm_compute in H; discriminate | clear E ]
  end.
  reflexivity.
Qed.

Lemma shell_escape_enc : forall d, d <> [] -> sh_enc (shell_escape ninja_shell_safe d) d.
Proof.
  intros d Hd. unfold shell_escape. destruct (forallb ninja_shell_safe d) eqn:E.
  - left. split; auto. split; auto. intros c Hc. rewrite forallb_forall in E. apply ninja_safe_plain. auto.
  - right. reflexivity.
Qed.

(* ------------------------------------------------------------------------------------------ *)
(* the theorem *)

Definition subst (t : stmt) (w : cword) : str :=
  match w with
  | WLit s => s
  | WVar v => if str_eqb v kw_in then t_input t else if str_eqb v kw_out then t_out t
              else if str_eqb v kw_imports then t_imports t else if str_eqb v kw_module then t_module t else []
  end.

Definition stmt_env (t : stmt) : str -> str := edge_env [t_input t] [t_out t] (stmt_binds t).

Lemma word_enc : forall t w, cmd_word_ok w ->
  t_input t <> [] -> t_out t <> [] -> sh_plain_str (t_imports t) -> sh_plain_str (t_module t) ->
  sh_enc (cword_val (stmt_env t) w) (subst t w).
Proof.
  intros t [s|v] H Hi Ho Him Hmd; simpl in H.
  - left. split; auto.
  - unfold cword_val, subst, stmt_env, edge_env, stmt_binds.
    destruct H as [ -> | [ -> | [ -> | -> ] ] ].
    + change (str_eqb kw_in kw_in) with true. cbv iota. cbn [map join_sp]. apply shell_escape_enc; auto.
    + change (str_eqb kw_out kw_in) with false. change (str_eqb kw_out kw_out) with true. cbv iota.
      cbn [map join_sp]. apply shell_escape_enc; auto.
    + left. split; [reflexivity | exact Him].
    + left. split; [reflexivity | exact Hmd].
Qed.

Theorem command_argv_lemma : forall env ws t rest,
  (forall w, In w ws -> cmd_word_ok w) ->
  t_input t <> [] -> t_out t <> [] -> sh_plain_str (t_imports t) -> sh_plain_str (t_module t) ->
  exists cmd, lex_value (command_text ws ++ c_nl :: rest) = LDone cmd rest /\
              sh_words env (edge_command cmd t) = Some (map (subst t) ws).
Proof.
  intros env ws t rest Hw Hi Ho Him Hmd. eexists. split; [apply lex_command_lemma; auto|].
  unfold sh_words, edge_command. fold (stmt_env t). rewrite eval_join.
  pose (l := map (fun w => (cword_val (stmt_env t) w, subst t w)) ws).
  assert (E1 : map (cword_val (stmt_env t)) ws = map fst l) by (unfold l; rewrite map_map; reflexivity).
  assert (E2 : map (subst t) ws = map snd l) by (unfold l; rewrite map_map; reflexivity).
  rewrite E1, E2. apply sh_words_join.
  intros [x d] Hin. unfold l in Hin. apply in_map_iff in Hin. destruct Hin as [w [E Hin]].
  inversion E; subst. simpl. apply word_enc; auto.
Qed.

(* the same from the text of the two statements in build.ninja: the rule block and the build statement *)
Lemma read_binding_raw : forall name (v : str) toks rest,
  ident name -> lex_value (v ++ c_nl :: rest) = LDone toks rest ->
  (forall c r, v = c :: r -> c <> c_sp) ->
  read_binding ([c_sp; c_sp] ++ name ++ [c_sp; c_eq; c_sp] ++ v ++ c_nl :: rest) = Some (name, toks, rest).
Proof.
  intros name v toks rest Hid Hl Hns. unfold read_binding. cbn [app]. change (c_sp =? c_sp) with true. cbv iota.
  change (eat_ws (c_sp :: c_sp :: name ++ c_sp :: c_eq :: c_sp :: v ++ c_nl :: rest))
    with (eat_ws (name ++ c_sp :: c_eq :: c_sp :: v ++ c_nl :: rest)).
  destruct (ident_head name (c_sp :: c_eq :: c_sp :: v ++ c_nl :: rest) Hid) as [c0 [r0 [E0 H0]]].
  rewrite E0, (eat_ws_nonspace c0 r0 H0), <- E0.
  rewrite read_ident_spec; [| destruct Hid; auto | reflexivity].
  change (eat_ws (c_sp :: c_eq :: c_sp :: v ++ c_nl :: rest)) with (c_eq :: c_sp :: v ++ c_nl :: rest).
  destruct Hid as [Hn _]. destruct name as [|n0 name]; [congruence|].
  change (c_eq =? c_eq) with true. cbv iota.
  rewrite eat_ws_sp.
  assert (Ee : eat_ws (v ++ c_nl :: rest) = v ++ c_nl :: rest).
  { destruct v as [|c v']; [reflexivity|]. cbn [app]. apply eat_ws_nonspace. eapply Hns; reflexivity. }
  rewrite Ee, Hl. reflexivity.
Qed.

Lemma cword_head : forall w X, cmd_word_ok w -> exists c r, cword_text w ++ X = c :: r /\ c <> c_sp.
Proof.
  intros [s|v] X H; simpl in H.
  - destruct H as [Hn Hs]. destruct s as [|c s]; [congruence|]. exists c. eexists. split; [reflexivity|].
    intro E. specialize (Hs c (or_introl eq_refl)). subst c. discriminate.
  - exists c_dollar. eexists. split; [reflexivity | discriminate].
Qed.

Lemma command_text_head : forall ws c r, ws <> [] -> (forall w, In w ws -> cmd_word_ok w) ->
  command_text ws = c :: r -> c <> c_sp.
Proof.
  intros [|w ws] c r Hn H E; [congruence|]. unfold command_text in E.
  destruct ws as [|w2 ws].
  - cbn [map join_sp] in E. destruct (cword_head w [] (H w (or_introl eq_refl))) as [c' [r' [E' Hc]]].
    rewrite app_nil_r in E'. congruence.
  - change (join_sp (map cword_text (w :: w2 :: ws))) with (cword_text w ++ c_sp :: join_sp (map cword_text (w2 :: ws))) in E.
    destruct (cword_head w (c_sp :: join_sp (map cword_text (w2 :: ws))) (H w (or_introl eq_refl))) as [c' [r' [E' Hc]]].
    congruence.
Qed.

Lemma ident_command : ident kw_command.
Proof. split; [discriminate|]. intros c Hc. simpl in Hc. repeat (destruct Hc as [<-|Hc]; [reflexivity|]). destruct Hc. Qed.
Lemma ident_description : ident kw_description.
Proof. split; [discriminate|]. intros c Hc. simpl in Hc. repeat (destruct Hc as [<-|Hc]; [reflexivity|]). destruct Hc. Qed.

(* the rule block write_ninja_preamble writes, read by the model of ninja's parser *)
Theorem rule_block_roundtrip_lemma : forall action ws rest,
  ident action -> sh_plain_str action -> ws <> [] -> (forall w, In w ws -> cmd_word_ok w) ->
  parse_rule (render_rule action (map cword_text ws) ++ rest) =
  Some (action, [(kw_command, join_toks (map cword_toks ws));
                 (kw_description, lits action ++ [TLit c_sp; TVar kw_module])], rest).
Proof.
  intros action ws rest Hid Hpl Hn Hw.
  pose (dws := [WLit action; WVar kw_module]).
  assert (Hdw : forall w, In w dws -> cmd_word_ok w).
  { intros w [<-|[<-|[]]]; simpl; [exact Hpl | right; right; right; reflexivity]. }
  assert (B2 : read_binding ([c_sp; c_sp] ++ kw_description ++ [c_sp; c_eq; c_sp] ++ command_text dws ++ c_nl :: rest) =
               Some (kw_description, join_toks (map cword_toks dws), rest)).
  { apply read_binding_raw; [apply ident_description | apply lex_command_lemma; exact Hdw |].
    intros c r E. eapply command_text_head; [| exact Hdw | exact E]. discriminate. }
  set (tail2 := [c_sp; c_sp] ++ kw_description ++ [c_sp; c_eq; c_sp] ++ command_text dws ++ c_nl :: rest) in *.
  assert (B1 : read_binding ([c_sp; c_sp] ++ kw_command ++ [c_sp; c_eq; c_sp] ++ command_text ws ++ c_nl :: tail2) =
               Some (kw_command, join_toks (map cword_toks ws), tail2)).
  { apply read_binding_raw; [apply ident_command | apply lex_command_lemma; exact Hw |].
    intros c r E. eapply command_text_head; [exact Hn | exact Hw | exact E]. }
  assert (Er : render_rule action (map cword_text ws) ++ rest =
               [114; 117; 108; 101] ++ c_sp :: (action ++ c_nl ::
                 ([c_sp; c_sp] ++ kw_command ++ [c_sp; c_eq; c_sp] ++ command_text ws ++ c_nl :: tail2))).
  { unfold render_rule, tail2, dws, command_text, s_rule, s_command_eq, s_description_eq, s_dollar_module,
      kw_command, kw_description. cbn [map join_sp cword_text].
    repeat (rewrite <- app_assoc; cbn [app]). reflexivity. }
  rewrite Er. unfold parse_rule. rewrite strip_prefix_app. rewrite eat_ws_sp.
  destruct (ident_head action (c_nl :: [c_sp; c_sp] ++ kw_command ++ [c_sp; c_eq; c_sp] ++ command_text ws ++ c_nl :: tail2) Hid)
    as [c0 [r0 [E0 H0]]].
  rewrite E0, (eat_ws_nonspace c0 r0 H0), <- E0.
  rewrite read_ident_spec; [| destruct Hid; auto | reflexivity].
  rewrite eat_ws_nonspace by discriminate.
  destruct Hid as [Hidn _]. destruct action as [|a0 action]; [congruence|].
  change (c_nl =? c_nl) with true. cbv iota.
  rewrite B1, B2. reflexivity.
Qed.
