(* C19: completeness of the imports maps — every statement's map has an entry for each module it was
   given as a dependency, and the second pass of an import cycle is given every member of the cycle. *)
From Coq Require Import List NArith Bool Arith Lia.
From PV Require Import Plan.Model Plan.Proofs.
Import ListNotations.

Definition has_key (k : N) (im : imports) : Prop := exists p, In (k, p) im.

Lemma dict_set_self : forall k v l, In (k, v) (dict_set k v l).
Proof.
  induction l as [|[k' v'] r IH]; simpl; [left; reflexivity|].
  destruct (k =? k')%N eqn:E.
  - apply N.eqb_eq in E. subst. left; reflexivity.
  - right; exact IH.
Qed.

Lemma dict_set_keeps : forall k v l k0, has_key k0 l -> has_key k0 (dict_set k v l).
Proof.
  induction l as [|[k' v'] r IH]; simpl; intros k0 [p H]; [destruct H|].
  destruct (k =? k')%N eqn:E.
  - destruct H as [H|H].
    + inversion H; subst. exists v. left; reflexivity.
    + exists p. right; exact H.
  - destruct H as [H|H].
    + exists p. left; exact H.
    + destruct (IH k0 (ex_intro _ p H)) as [p' H']. exists p'. right; exact H'.
Qed.

Lemma dict_update_keeps : forall o d k0, has_key k0 d -> has_key k0 (dict_update d o).
Proof.
  unfold dict_update. induction o as [|[k v] r IH]; simpl; intros d k0 H; auto.
  apply IH. apply dict_set_keeps; auto.
Qed.

Lemma gim_keeps : forall deps m2i m2o acc im k0,
  get_imports_map deps m2i m2o acc = Some im -> has_key k0 acc -> has_key k0 im.
Proof.
  induction deps as [|m r IH]; simpl; intros m2i m2o acc im k0 H Hk.
  - inversion H; subst; auto.
  - destruct (lookup m m2o) as [o|]; [|discriminate].
    eapply IH; eauto. apply dict_set_keeps.
    destruct (lookup m m2i); [apply dict_update_keeps|]; auto.
Qed.

Lemma gim_covers : forall deps m2i m2o acc im d,
  get_imports_map deps m2i m2o acc = Some im -> In d deps -> has_key (m_key d) im.
Proof.
  induction deps as [|m r IH]; simpl; intros m2i m2o acc im d H Hin; [destruct Hin|].
  destruct (lookup m m2o) as [o|] eqn:Eo; [|discriminate].
  destruct Hin as [->|Hin].
  - eapply gim_keeps; eauto. exists o. apply dict_set_self.
  - eapply IH; eauto.
Qed.

(* the statement written for item i *)
Definition written_for (t : step) (i : item) : Prop :=
  s_out t = item_out i /\ s_input t = m_full (it_mod i) /\ s_action t = it_act i /\
  forall d, In d (it_deps i) -> has_key (m_key d) (s_imports t).

Lemma run_written : forall req items s s', run req items s = Some s' ->
  forall t, In t (plan s') -> In t (plan s) \/ exists i, In i items /\ written_for t i.
Proof.
  induction items as [|i r IH]; simpl; intros s s' H t Hin.
  - inversion H; subst; auto.
  - destruct (setup_step req s i) as [s1|] eqn:E; [|discriminate].
    destruct (IH _ _ H _ Hin) as [Hin1 | [j [Hj Hw]]]; [|right; exists j; auto].
    destruct (setup_step_cases _ _ _ _ E) as [[_ ->] | [[_ [Hd ->]] | [_ [Hnd [im [ds [Hg [Hdd Hs']]]]]]]]; auto.
    simpl in Hs'. subst s1. simpl in Hin1. apply in_app_or in Hin1. destruct Hin1 as [Hin1|[<-|[]]]; auto.
    right. exists i. split; [left; reflexivity|]. unfold written_for, item_out. simpl.
    repeat split; auto. intros d Hd. eapply gim_covers; eauto.
Qed.

Lemma imports_cover_deps_lemma : forall req ss s,
  setup_build req ss = Some s ->
  forall t, In t (plan s) -> exists i, In i (yield_sorted_modules req ss) /\ written_for t i.
Proof.
  intros req ss s H t Hin. unfold setup_build in H.
  destruct (run_written _ _ _ _ H _ Hin) as [[]|Hx]; auto.
Qed.

(* what the items of one group are given as dependencies *)
Lemma group_item_deps : forall req g d i, In i (yield_group req (g, d)) ->
  In (it_mod i) g /\
  match it_stage i with
  | SECOND_PASS => it_deps i = d ++ g /\ length g <> 1
  | FIRST_PASS => it_deps i = d /\ length g <> 1
  | SINGLE_PASS => it_deps i = d /\ length g = 1
  end.
Proof.
  intros req g d i H. destruct g as [|m [|m2 r]].
  - destruct H.
  - unfold yield_group in H. simpl in H. destruct H as [<-|[]]. simpl. auto.
  - rewrite yield_group_cycle in H. remember (m :: m2 :: r) as g.
    assert (Hl : length g <> 1) by (subst g; simpl; lia).
    apply in_app_or in H. destruct H as [H|H].
    + unfold firsts in H. rewrite map_map in H. apply in_map_iff in H. destruct H as [x [<- Hx]]. simpl. auto.
    + unfold seconds in H. apply in_flat_map in H. destruct H as [[x a] [Hx Hi]].
      apply in_map_iff in Hx. destruct Hx as [x' [Hx' Hin]]. inversion Hx'; subst x' a. simpl in Hi.
      destruct (is_default (get_module_action req x)); [destruct Hi|].
      destruct Hi as [<-|[]]. simpl. auto.
Qed.

Lemma item_deps_lemma : forall req ss i, In i (yield_sorted_modules req ss) ->
  exists g d, In (g, d) ss /\ In (it_mod i) g /\
  match it_stage i with
  | SECOND_PASS => it_deps i = d ++ g /\ length g <> 1
  | FIRST_PASS => it_deps i = d /\ length g <> 1
  | SINGLE_PASS => it_deps i = d /\ length g = 1
  end.
Proof.
  intros req ss i H. unfold yield_sorted_modules in H. apply in_flat_map in H.
  destruct H as [[g d] [Hg Hi]]. exists g, d. split; auto. apply (group_item_deps req g d i Hi).
Qed.
