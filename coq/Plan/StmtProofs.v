(* C19: ninja's reading of one build statement written by write_build_statement gives back exactly the
   strings that went in (Plan/Model.v: render, parse_build). *)
From Coq Require Import List NArith Bool Arith Lia.
From PV Require Import Plan.Model Plan.Proofs.
Import ListNotations.
Local Open Scope N_scope.

(* lia's preprocessing chokes on the long literal lists inside [length _]; abstract them first *)
Ltac abstract_lengths :=
  repeat match goal with
         | |- context [@length ?A ?l] => let k := fresh "k" in set (k := @length A l) in *; clearbody k
         | H : context [@length ?A ?l] |- _ => let k := fresh "k" in set (k := @length A l) in *; clearbody k
         end.

Lemma eat_ws_nonspace : forall c r, c <> c_sp -> eat_ws (c :: r) = c :: r.
Proof. intros c r H. simpl. rewrite (proj2 (N.eqb_neq _ _) H). reflexivity. Qed.

Lemma eat_ws_sp : forall r, eat_ws (c_sp :: r) = eat_ws r.
Proof. reflexivity. Qed.

Lemma escape_head : forall s X, s <> [] -> exists c r, escape s ++ X = c :: r /\ c <> c_sp.
Proof.
  intros [|c s] X H; [congruence|]. rewrite escape_cons.
  destruct (esc_special c) eqn:E.
  - exists c_dollar. eexists. split; [reflexivity | discriminate].
  - apply esc_special_not in E. exists c. eexists. split; [reflexivity | tauto].
Qed.

Lemma eat_ws_escape : forall s X, s <> [] -> eat_ws (escape s ++ X) = escape s ++ X.
Proof.
  intros s X H. destruct (escape_head s X H) as [c [r [E Hc]]]. rewrite E. apply eat_ws_nonspace; auto.
Qed.

Lemma eat_ws_join1 : forall s X, s <> [] -> eat_ws (join_sp (map escape [s]) ++ X) = join_sp (map escape [s]) ++ X.
Proof. intros. cbn [map join_sp]. apply eat_ws_escape; auto. Qed.

Definition nonspace_terminator (t : N) : Prop := t = c_colon \/ t = c_pipe \/ t = c_nl.

Lemma nst_path_terminator : forall t, nonspace_terminator t -> path_terminator t.
Proof. unfold nonspace_terminator, path_terminator. tauto. Qed.

Lemma nst_not_space : forall t, nonspace_terminator t -> t <> c_sp.
Proof. intros t [ -> | [ -> | -> ] ]; discriminate. Qed.

Definition good_path (s : str) : Prop := s <> [] /\ forall c, In c s -> path_char c.

Lemma lits_nonempty : forall s, s <> [] -> exists a b, lits s = a :: b.
Proof. intros [|c s] H; [congruence|]. simpl. eauto. Qed.

(* reading a space-separated list of escaped paths up to a terminator that is not a space *)
Lemma read_paths_join : forall ds fuel t rest,
  (length ds < fuel)%nat -> (forall d, In d ds -> good_path d) -> nonspace_terminator t ->
  read_paths fuel (join_sp (map escape ds) ++ t :: rest) = Some (map lits ds, t :: rest).
Proof.
  induction ds as [|x r IH]; intros fuel t rest Hf Hg Ht.
  - destruct fuel as [|f]; [simpl in Hf; lia|].
    simpl. unfold lex_path. rewrite lex_path_terminator; [|apply nst_path_terminator; auto].
    rewrite eat_ws_nonspace; [reflexivity | apply nst_not_space; auto].
  - destruct fuel as [|f]; [simpl in Hf; lia|].
    destruct (Hg x (or_introl eq_refl)) as [Hne Hx].
    destruct (lits_nonempty x Hne) as [a [b Hl]].
    destruct r as [|y r'].
    + simpl map. simpl join_sp. cbn [read_paths].
      rewrite (escape_roundtrip_lemma x t rest Hx (nst_path_terminator _ Ht)). rewrite Hl.
      rewrite eat_ws_nonspace; [|apply nst_not_space; auto].
      specialize (IH f t rest). simpl in IH.
      rewrite IH; [reflexivity | simpl in Hf; lia | intros d [] | exact Ht].
    + assert (Ej : join_sp (map escape (x :: y :: r')) ++ t :: rest =
                   escape x ++ c_sp :: (join_sp (map escape (y :: r')) ++ t :: rest)).
      { simpl. rewrite <- app_assoc. reflexivity. }
      rewrite Ej. cbn [read_paths].
      rewrite (escape_roundtrip_lemma x c_sp _ Hx (or_introl eq_refl)). rewrite Hl.
      rewrite eat_ws_sp.
      assert (Ey : eat_ws (join_sp (map escape (y :: r')) ++ t :: rest) = join_sp (map escape (y :: r')) ++ t :: rest).
      { destruct (Hg y (or_intror (or_introl eq_refl))) as [Hyn _].
        destruct r' as [|z r'']; simpl.
        - apply eat_ws_escape; auto.
        - rewrite <- app_assoc. apply eat_ws_escape; auto. }
      rewrite Ey. rewrite (IH f t rest);
        [simpl map; rewrite Hl; reflexivity | simpl in Hf; simpl; lia | intros d Hd; apply Hg; right; auto | exact Ht].
Qed.

Lemma read_paths_one_sp : forall x fuel t rest,
  (2 <= fuel)%nat -> good_path x -> nonspace_terminator t ->
  read_paths fuel (escape x ++ c_sp :: t :: rest) = Some ([lits x], t :: rest).
Proof.
  intros x fuel t rest Hf [Hne Hx] Ht.
  destruct fuel as [|[|f]]; try lia.
  cbn [read_paths]. rewrite (escape_roundtrip_lemma x c_sp _ Hx (or_introl eq_refl)).
  destruct (lits_nonempty x Hne) as [a [b Hl]]. rewrite Hl.
  rewrite eat_ws_sp. rewrite (eat_ws_nonspace t) by (apply nst_not_space; auto).
  unfold lex_path. rewrite lex_path_terminator by (apply nst_path_terminator; auto).
  rewrite (eat_ws_nonspace t) by (apply nst_not_space; auto). reflexivity.
Qed.

Lemma read_ident_spec : forall a t r,
  (forall c, In c a -> var_char c = true) -> var_char t = false ->
  read_ident (a ++ t :: r) = (a, eat_ws (t :: r)).
Proof.
  induction a as [|c a IH]; intros t r Ha Ht.
  - simpl app. cbn [read_ident]. rewrite Ht. reflexivity.
  - simpl app. cbn [read_ident]. rewrite (Ha c (or_introl eq_refl)).
    rewrite (IH t r); auto. intros x Hx. apply Ha. right; auto.
Qed.

Lemma strip_prefix_app : forall p s, strip_prefix p (p ++ s) = Some s.
Proof.
  induction p as [|a p IH]; intros s; [destruct s; reflexivity|].
  simpl. rewrite N.eqb_refl. apply IH.
Qed.

Lemma join_length : forall ds, (forall d, In d ds -> d <> []) -> (length ds <= length (join_sp (map escape ds)))%nat.
Proof.
  induction ds as [|x r IH]; intros H; [simpl; lia|].
  assert (Hx : (1 <= length (escape x))%nat).
  { destruct x as [|c x]; [exfalso; apply (H [] (or_introl eq_refl)); reflexivity|].
    rewrite escape_cons. rewrite app_length. destruct (esc_special c); simpl; lia. }
  destruct r as [|y r'].
  - simpl. lia.
  - assert (IH' := IH (fun d h => H d (or_intror h))).
    change (join_sp (map escape (x :: y :: r'))) with (escape x ++ c_sp :: join_sp (map escape (y :: r'))).
    rewrite app_length. simpl length in *. lia.
Qed.

Definition good_value (s : str) : Prop := forall c, In c s -> value_char c.
Definition ident (a : str) : Prop := a <> [] /\ forall c, In c a -> var_char c = true.

(* the module text: escaped (fixed tree) needs nothing more; raw (as found) needs no '$' and no leading space *)
Definition module_ok (esc_mod : bool) (m : str) : Prop :=
  good_value m /\
  (esc_mod = false -> (forall c, In c m -> c <> c_dollar) /\ (forall c r, m = c :: r -> c <> c_sp)).

Lemma value_after_eq : forall (v : str) rest, good_value v ->
  lex_value (eat_ws (c_sp :: escape v ++ c_nl :: rest)) = LDone (lits v) rest.
Proof.
  intros v rest Hv. rewrite eat_ws_sp.
  destruct v as [|c v].
  - reflexivity.
  - rewrite eat_ws_escape; [|discriminate]. apply escape_roundtrip_value_lemma; auto.
Qed.

Lemma value_after_eq' : forall (v : str) rest, good_value v ->
  lex_value (eat_ws (escape v ++ c_nl :: rest)) = LDone (lits v) rest.
Proof. intros v rest Hv. rewrite <- (value_after_eq v rest Hv). rewrite eat_ws_sp. reflexivity. Qed.

Lemma ident_head : forall a X, ident a -> exists c r, a ++ X = c :: r /\ c <> c_sp.
Proof.
  intros [|c a] X [Hn Ha]; [congruence|]. exists c. eexists. split; [reflexivity|].
  intro Hc. specialize (Ha c (or_introl eq_refl)). subst c. discriminate.
Qed.

Theorem build_statement_roundtrip_lemma : forall esc_mod t rest,
  good_path (t_out t) -> good_path (t_input t) -> (forall d, In d (t_deps t) -> good_path d) ->
  ident (t_action t) -> good_value (t_imports t) -> module_ok esc_mod (t_module t) ->
  parse_build (render esc_mod t ++ rest) =
  Some (Parsed [lits (t_out t)] (t_action t) [lits (t_input t)] (map lits (t_deps t))
               [(kw_imports, lits (t_imports t)); (kw_module, lits (t_module t))], rest).
Proof.
  intros esc_mod [out act inp deps imp md] rest Ho Hi Hd Ha Hv Hm. simpl in Ho, Hi, Hd, Ha, Hv, Hm.
  cbn [t_out t_action t_input t_deps t_imports t_module].
  set (tailB := s_imports_eq ++ escape imp ++ [c_nl] ++ s_module_eq ++ (if esc_mod then escape md else md) ++ [c_nl]).
  set (depspart := match deps with [] => [] | _ => [c_sp; c_pipe; c_sp] ++ join_sp (map escape deps) end).
  assert (Er : render esc_mod (Stmt out act inp deps imp md) ++ rest =
               s_build ++ c_sp :: (join_sp (map escape [out]) ++ c_colon :: c_sp ::
                 (act ++ c_sp :: (join_sp (map escape [inp]) ++ (depspart ++ c_nl :: (tailB ++ rest)))))).
  { unfold render, depspart, tailB. cbn [t_out t_action t_input t_deps t_imports t_module].
    destruct deps as [|d0 dr]; cbn [join_sp map]; rewrite ?app_nil_r; repeat (rewrite <- app_assoc; cbn [app]); reflexivity. }
  rewrite Er. unfold parse_build. rewrite strip_prefix_app.
  set (whole := s_build ++ _).
  rewrite eat_ws_sp.
  destruct Ho as [Hon Hoc]. destruct Hi as [Hin Hic].
  rewrite eat_ws_join1 by exact Hon.
  (* outputs *)
  rewrite (read_paths_join [out] (S (length whole)) c_colon).
  2:{ simpl. lia. }
  2:{ intros d [<-|[]]. split; auto. }
  2:{ left; reflexivity. }
  cbv beta iota. rewrite N.eqb_refl. cbv beta iota. change (map lits [out]) with [lits out].
  (* rule name *)
  rewrite eat_ws_sp.
  destruct (ident_head act (c_sp :: join_sp (map escape [inp]) ++ depspart ++ c_nl :: tailB ++ rest) Ha) as [c0 [r0 [E0 H0]]].
  rewrite E0, (eat_ws_nonspace c0 r0 H0), <- E0.
  rewrite read_ident_spec; [| destruct Ha; auto | reflexivity].
  rewrite eat_ws_sp.
  rewrite eat_ws_join1 by exact Hin.
  (* the tail after the dependencies: the two bindings *)
  assert (Hbind : read_binding (tailB ++ rest) = Some (kw_imports, lits imp,
                    s_module_eq ++ (if esc_mod then escape md else md) ++ c_nl :: rest)).
  { unfold tailB, s_imports_eq. repeat (rewrite <- app_assoc; cbn [app]). cbn -[lex_value escape].
    rewrite value_after_eq'; auto. }
  assert (Hbind2 : read_binding (s_module_eq ++ (if esc_mod then escape md else md) ++ c_nl :: rest) =
                   Some (kw_module, lits md, rest)).
  { unfold s_module_eq. cbn -[lex_value escape].
    destruct Hm as [Hmv Hmr]. destruct esc_mod.
    - rewrite value_after_eq'; auto.
    - destruct (Hmr eq_refl) as [Hnd Hns].
      assert (Ee : eat_ws (md ++ c_nl :: rest) = md ++ c_nl :: rest).
      { destruct md as [|c m']; [reflexivity|]. cbn [app]. apply eat_ws_nonspace. eapply Hns; reflexivity. }
      rewrite Ee. rewrite raw_value_lemma; [reflexivity|]. intros c Hc. split; auto. }
  assert (Hw2 : (2 <= S (length whole))%nat) by (unfold whole, s_build; simpl length; abstract_lengths; lia).
  assert (Hwd : (length deps < S (length whole))%nat).
  { clear Hbind Hbind2 Er Hw2. unfold whole, s_build, depspart.
    destruct deps as [|d0 dr]; [cbn [length]; apply Nat.lt_0_succ|].
    pose proof (join_length (d0 :: dr) (fun d h => proj1 (Hd d h))) as HJ. unfold str in *.
    set (n := length (d0 :: dr)) in *. clearbody n.
    repeat (rewrite app_length; cbn [length]).
    abstract_lengths. lia. }
  clearbody whole tailB.
  destruct deps as [|d0 dr].
  - (* no dependencies *)
    unfold depspart. cbn [app].
    rewrite (read_paths_join [inp] (S (length whole)) c_nl);
      [| simpl; lia | intros d [<-|[]]; split; auto | right; right; reflexivity].
    cbv beta iota. change (c_nl =? c_pipe) with false. cbv beta iota.
    rewrite N.eqb_refl. rewrite Hbind, Hbind2. reflexivity.
  - unfold depspart.
    match goal with |- context [read_paths _ ?X] =>
      assert (Es : X = escape inp ++ c_sp :: c_pipe :: (c_sp :: join_sp (map escape (d0 :: dr)) ++ c_nl :: tailB ++ rest))
    end.
    { cbn [map join_sp]. repeat (rewrite <- app_assoc; cbn [app]). reflexivity. }
    rewrite Es.
    rewrite (read_paths_one_sp inp (S (length whole)) c_pipe); [| exact Hw2 | split; auto | right; left; reflexivity].
    cbv beta iota. rewrite N.eqb_refl. cbv beta iota.
    change ((c_sp =? c_pipe) || (c_sp =? c_at)) with false. cbv beta iota.
    rewrite eat_ws_sp.
    assert (Ed : eat_ws (join_sp (map escape (d0 :: dr)) ++ c_nl :: tailB ++ rest) =
                 join_sp (map escape (d0 :: dr)) ++ c_nl :: tailB ++ rest).
    { destruct (Hd d0 (or_introl eq_refl)) as [Hn0 _]. destruct dr as [|d1 dr']; cbn [map join_sp].
      - apply eat_ws_escape; auto.
      - rewrite <- app_assoc. apply eat_ws_escape; auto. }
    rewrite Ed. rewrite (read_paths_join (d0 :: dr) (S (length whole)) c_nl); [| exact Hwd | exact Hd | right; right; reflexivity].
    cbv beta iota. rewrite N.eqb_refl. rewrite Hbind, Hbind2. reflexivity.
Qed.
