(* C19 proofs about the plan construction (Plan/Model.v). *)
From Coq Require Import List NArith Bool Arith Lia Relations.
From PV Require Import Plan.Model.
Import ListNotations.

(* ------------------------------------------------------------------------------------------ *)
(* decidable equalities                                                                        *)

Lemma kind_eqb_eq : forall a b, kind_eqb a b = true <-> a = b.
Proof. destruct a, b; simpl; split; congruence. Qed.

Lemma module_eqb_eq : forall a b, module_eqb a b = true <-> a = b.
Proof.
  intros [p t n k f ky e] [p' t' n' k' f' ky' e']; unfold module_eqb; simpl.
  rewrite !andb_true_iff, !N.eqb_eq, kind_eqb_eq, Bool.eqb_true_iff.
  split.
  - intros [[[[[[? ?] ?] ?] ?] ?] ?]; subst; reflexivity.
  - intros H; inversion H; subst; repeat split; reflexivity.
Qed.

Lemma module_eqb_refl : forall a, module_eqb a a = true.
Proof. intros; apply module_eqb_eq; reflexivity. Qed.

Lemma module_eqb_neq : forall a b, module_eqb a b = false <-> a <> b.
Proof.
  intros a b; destruct (module_eqb a b) eqn:E.
  - apply module_eqb_eq in E; split; [discriminate | congruence].
  - split; [|reflexivity]. intros _ H. apply module_eqb_eq in H. congruence.
Qed.

Lemma path_eqb_eq : forall a b, path_eqb a b = true <-> a = b.
Proof.
  destruct a as [|k f], b as [|k' f']; simpl; try (split; congruence).
  rewrite andb_true_iff, N.eqb_eq, Bool.eqb_true_iff. split.
  - intros [? ?]; subst; reflexivity.
  - intros H; inversion H; auto.
Qed.

Lemma memN_In : forall x l, memN x l = true <-> In x l.
Proof.
  induction l as [|y r IH]; simpl; [split; [discriminate|tauto]|].
  rewrite orb_true_iff, N.eqb_eq, IH. split; intros [H|H]; auto.
Qed.

Lemma memM_In : forall x l, memM x l = true <-> In x l.
Proof.
  induction l as [|y r IH]; simpl; [split; [discriminate|tauto]|].
  rewrite orb_true_iff, module_eqb_eq, IH. split; intros [H|H]; auto.
Qed.

(* ------------------------------------------------------------------------------------------ *)
(* dictionaries                                                                                *)

Lemma lookup_cons_eq : forall {V} m (v : V) l, lookup m ((m, v) :: l) = Some v.
Proof. intros; simpl; rewrite module_eqb_refl; reflexivity. Qed.

Lemma lookup_cons_neq : forall {V} m m' (v : V) l, m <> m' -> lookup m ((m', v) :: l) = lookup m l.
Proof. intros; simpl. apply module_eqb_neq in H. rewrite H. reflexivity. Qed.

Lemma dict_set_in : forall k v l e, In e (dict_set k v l) -> e = (k, v) \/ In e l.
Proof.
  induction l as [|[k' v'] r IH]; simpl; intros e H.
  - destruct H as [H|[]]; auto.
  - destruct (k =? k')%N eqn:E.
    + apply N.eqb_eq in E; subst. destruct H as [H|H]; auto.
    + destruct H as [H|H]; auto. destruct (IH _ H); auto.
Qed.

Lemma dict_update_in : forall o d e, In e (dict_update d o) -> In e d \/ In e o.
Proof.
  unfold dict_update. induction o as [|[k v] r IH]; simpl; intros d e H; auto.
  apply IH in H. destruct H as [H|H]; auto.
  apply dict_set_in in H. destruct H as [H|H]; auto.
Qed.

Lemma gim_entries : forall deps m2i m2o acc im e,
  get_imports_map deps m2i m2o acc = Some im -> In e im ->
  In e acc \/
  exists d, In d deps /\
    ((exists imd, lookup d m2i = Some imd /\ In e imd) \/ (lookup d m2o = Some (snd e) /\ fst e = m_key d)).
Proof.
  induction deps as [|m r IH]; simpl; intros m2i m2o acc im e H Hin.
  - inversion H; subst; auto.
  - destruct (lookup m m2o) as [o|] eqn:Eo; [|discriminate].
    specialize (IH _ _ _ _ _ H Hin). destruct IH as [Ha | [d [Hd Hx]]].
    + apply dict_set_in in Ha. destruct Ha as [Ha|Ha].
      * subst e. right. exists m. split; auto.
      * destruct (lookup m m2i) as [imd|] eqn:Ei.
        -- apply dict_update_in in Ha. destruct Ha as [Ha|Ha]; auto.
           right. exists m. split; auto. left. exists imd; auto.
        -- auto.
    + right. exists d. split; auto.
Qed.

Lemma gim_some : forall deps m2i m2o acc,
  (forall d, In d deps -> lookup d m2o <> None) -> get_imports_map deps m2i m2o acc <> None.
Proof.
  induction deps as [|m r IH]; simpl; intros m2i m2o acc H; [discriminate|].
  destruct (lookup m m2o) eqn:E; [|exfalso; apply (H m); auto].
  apply IH. intros; apply H; auto.
Qed.

Lemma dd_some : forall deps m2o,
  (forall d, In d deps -> lookup d m2o <> None) -> declared_deps deps m2o <> None.
Proof.
  induction deps as [|m r IH]; simpl; intros m2o H; [discriminate|].
  destruct (lookup m m2o) eqn:E; [|exfalso; apply (H m); auto].
  specialize (IH m2o). destruct (declared_deps r m2o); [discriminate|].
  exfalso; apply IH; auto.
Qed.

Lemma dd_covers : forall deps m2o ds d o,
  declared_deps deps m2o = Some ds -> In d deps -> lookup d m2o = Some o -> o <> PDefault -> In o ds.
Proof.
  induction deps as [|m r IH]; simpl; intros m2o ds d o H Hin Hl Hne; [tauto|].
  destruct (lookup m m2o) as [om|] eqn:Em; [|discriminate].
  destruct (declared_deps r m2o) as [ds'|] eqn:Ed; [|discriminate].
  inversion H; subst; clear H.
  destruct Hin as [->|Hin].
  - rewrite Hl in Em; inversion Em; subst.
    destruct (path_eqb om PDefault) eqn:E; [apply path_eqb_eq in E; congruence | left; reflexivity].
  - specialize (IH _ _ _ _ Ed Hin Hl Hne).
    destruct (path_eqb om PDefault); auto. right; auto.
Qed.

Lemma dd_sound : forall deps m2o ds p,
  declared_deps deps m2o = Some ds -> In p ds ->
  p <> PDefault /\ exists d, In d deps /\ lookup d m2o = Some p.
Proof.
  induction deps as [|m r IH]; simpl; intros m2o ds p H Hin.
  - inversion H; subst; destruct Hin.
  - destruct (lookup m m2o) as [om|] eqn:Em; [|discriminate].
    destruct (declared_deps r m2o) as [ds'|] eqn:Ed; [|discriminate].
    inversion H; subst; clear H.
    destruct (path_eqb om PDefault) eqn:E.
    + destruct (IH _ _ _ Ed Hin) as [? [d [? ?]]]. split; auto. exists d; auto.
    + destruct Hin as [<-|Hin].
      * split. { intro Hc. subst. simpl in E. discriminate. } exists m; auto.
      * destruct (IH _ _ _ Ed Hin) as [? [d [? ?]]]. split; auto. exists d; auto.
Qed.

(* ------------------------------------------------------------------------------------------ *)
(* items produced by yield_sorted_modules                                                      *)

Definition item_ok (req : list N) (i : item) : Prop :=
  is_default (it_act i) = is_default (get_module_action req (it_mod i)) /\
  (is_first (it_stage i) = true -> is_check (it_act i) = false) /\
  (is_first (it_stage i) = false -> it_act i = get_module_action req (it_mod i)).

Lemma yield_group_ok : forall req g i, In i (yield_group req g) -> item_ok req i.
Proof.
  intros req [group deps] i. unfold yield_group.
  set (modules := map (fun m => (m, get_module_action req m)) group).
  assert (Hm : forall ma, In ma modules -> snd ma = get_module_action req (fst ma)).
  { intros ma H. unfold modules in H. apply in_map_iff in H. destruct H as [m [<- _]]. reflexivity. }
  assert (Hcyc : In i (map (fun ma : module * action =>
                        (fst ma, (if is_check (snd ma) then INFER else snd ma), deps, FIRST_PASS)) modules ++
               flat_map (fun ma : module * action =>
                        if is_default (snd ma) then [] else [(fst ma, snd ma, deps ++ map fst modules, SECOND_PASS)])
                        modules) -> item_ok req i).
  { intros H. apply in_app_or in H. destruct H as [H|H].
    - apply in_map_iff in H. destruct H as [[m a] [<- Hin]]. specialize (Hm _ Hin). simpl in *. subst a.
      unfold item_ok, it_act, it_mod, it_stage; simpl.
      destruct (get_module_action req m); simpl; repeat split; auto; discriminate.
    - apply in_flat_map in H. destruct H as [[m a] [Hin H]]. specialize (Hm _ Hin). simpl in *. subst a.
      destruct (is_default (get_module_action req m)) eqn:E; [destruct H|].
      destruct H as [<-|[]]. unfold item_ok, it_act, it_mod, it_stage; simpl. repeat split; auto. discriminate. }
  destruct modules as [|[m a] [|ma2 rest]] eqn:Emod.
  - intros H; apply Hcyc; exact H.
  - intros [<-|[]]. specialize (Hm (m, a) (or_introl eq_refl)). simpl in Hm. subst a.
    unfold item_ok, it_act, it_mod, it_stage; simpl. repeat split; auto. discriminate.
  - intros H; apply Hcyc; exact H.
Qed.

Lemma yield_ok : forall req ss i, In i (yield_sorted_modules req ss) -> item_ok req i.
Proof.
  intros req ss i H. unfold yield_sorted_modules in H. apply in_flat_map in H.
  destruct H as [g [_ H]]. eapply yield_group_ok; eauto.
Qed.

(* ------------------------------------------------------------------------------------------ *)
(* run                                                                                         *)

Lemma run_app : forall req a b s,
  run req (a ++ b) s = match run req a s with Some s' => run req b s' | None => None end.
Proof.
  induction a as [|i r IH]; simpl; intros b s; [reflexivity|].
  destruct (setup_step req s i); [apply IH | reflexivity].
Qed.

(* the three outcomes of one step *)
Lemma setup_step_cases : forall req s i s',
  setup_step req s i = Some s' ->
  (all_requested_done req (files s) = true /\ s' = s) \/
  (all_requested_done req (files s) = false /\ is_default (it_act i) = true /\
   s' = St (files s) (m2imp s) ((it_mod i, PDefault) :: m2out s) (plan s) (store s)) \/
  (all_requested_done req (files s) = false /\ is_default (it_act i) = false /\
   exists im ds,
     get_imports_map (it_deps i) (m2imp s) (m2out s) [] = Some im /\
     declared_deps (it_deps i) (m2out s) = Some ds /\
     let m := it_mod i in
     let fst_ := is_first (it_stage i) in
     let out := PPyi (m_key m) fst_ in
     s' = St (if fst_ then files s else m_full m :: files s) ((m, im) :: m2imp s) ((m, out) :: m2out s)
             (plan s ++ [Step out (it_act i) (m_full m) ds (m_name m, fst_) im (m_name m)])
             (((m_name m, fst_), im) :: store s)).
Proof.
  intros req s [[[m a] deps] stg] s' H. unfold setup_step in H. unfold it_act, it_mod, it_deps, it_stage; simpl.
  destruct (all_requested_done req (files s)) eqn:Ed.
  - inversion H; auto.
  - destruct (is_default a) eqn:Ea.
    + inversion H; auto.
    + right; right. split; [reflexivity|]. split; [reflexivity|].
      destruct (get_imports_map deps (m2imp s) (m2out s) []) as [im|]; [|discriminate].
      destruct (declared_deps deps (m2out s)) as [ds|]; [|discriminate].
      exists im, ds. inversion H. split; [reflexivity|]. split; reflexivity.
Qed.

(* ------------------------------------------------------------------------------------------ *)
(* ancestors through declared dependencies                                                     *)

Definition anc (p : list step) : step -> step -> Prop := clos_trans step (dep_edge p).

Lemma dep_edge_mono : forall p t a b, dep_edge p a b -> dep_edge (p ++ [t]) a b.
Proof. intros p t a b [H1 [H2 H3]]. repeat split; auto; apply in_or_app; auto. Qed.

Lemma anc_mono : forall p t a b, anc p a b -> anc (p ++ [t]) a b.
Proof.
  intros p t a b H. induction H.
  - apply t_step. apply dep_edge_mono; auto.
  - eapply t_trans; eauto.
Qed.

Definition entry_ok (p : list step) (t : step) (e : N * path) : Prop :=
  snd e = PDefault \/ exists t', In t' p /\ s_out t' = snd e /\ anc p t' t.

Record inv (req : list N) (s : st) : Prop := {
  inv_imp : forall m im, lookup m (m2imp s) = Some im ->
            exists t, In t (plan s) /\ s_imports t = im /\ lookup m (m2out s) = Some (s_out t);
  inv_out : forall m p, lookup m (m2out s) = Some p -> p <> PDefault -> exists t, In t (plan s) /\ s_out t = p;
  inv_act : forall m, lookup m (m2imp s) <> None -> is_default (get_module_action req m) = false;
  inv_nd  : forall t, In t (plan s) -> s_out t <> PDefault;
  inv_ent : forall t e, In t (plan s) -> In e (s_imports t) -> entry_ok (plan s) t e }.

Lemma inv0 : forall req, inv req st0.
Proof.
  intros req. constructor; simpl; intros; try discriminate; try tauto.
Qed.

Lemma inv_step : forall req s i s',
  item_ok req i -> inv req s -> setup_step req s i = Some s' -> inv req s'.
Proof.
  intros req s i s' Hok Hinv Hs.
  destruct (setup_step_cases _ _ _ _ Hs) as [[_ ->] | [[_ [Hd ->]] | [_ [Hnd [im [ds [Hg [Hdd Hs']]]]]]]]; auto.
  - (* generate default *)
    destruct Hinv as [Hi Ho Ha Hn He]. constructor; simpl; auto.
    + intros m im Hl. destruct (Hi _ _ Hl) as [t [H1 [H2 H3]]].
      exists t. repeat split; auto.
      destruct (module_eqb m (it_mod i)) eqn:E; auto.
      apply module_eqb_eq in E. subst m.
      assert (lookup (it_mod i) (m2imp s) <> None) by congruence.
      apply Ha in H. destruct Hok as [Hk _]. congruence.
    + intros m p Hl Hne. destruct (module_eqb m (it_mod i)) eqn:E.
      * inversion Hl; congruence.
      * eauto.
  - (* a build statement *)
    simpl in Hs'. set (m := it_mod i) in *. set (f := is_first (it_stage i)) in *.
    set (t := Step (PPyi (m_key m) f) (it_act i) (m_full m) ds (m_name m, f) im (m_name m)) in *.
    destruct Hinv as [Hi Ho Ha Hn He]. subst s'. constructor; simpl.
    + intros m' im' Hl. destruct (module_eqb m' m) eqn:E.
      * inversion Hl; subst im'. exists t. split; [apply in_or_app; right; left; reflexivity|]. auto.
      * destruct (Hi _ _ Hl) as [t0 [H1 [H2 H3]]]. exists t0. split; [apply in_or_app; auto|]. auto.
    + intros m' p Hl Hne. destruct (module_eqb m' m) eqn:E.
      * inversion Hl; subst p. exists t. split; [apply in_or_app; right; left; reflexivity|]. reflexivity.
      * destruct (Ho _ _ Hl Hne) as [t0 [H1 H2]]. exists t0. split; [apply in_or_app; auto|]. auto.
    + intros m' Hl. destruct (module_eqb m' m) eqn:E.
      * apply module_eqb_eq in E. subst m'. destruct Hok as [Hk _]. unfold m. congruence.
      * apply Ha; auto.
    + intros t0 Hin. apply in_app_or in Hin. destruct Hin as [Hin|[<-|[]]]; auto. simpl. discriminate.
    + intros t0 e Hin He0. apply in_app_or in Hin. destruct Hin as [Hin|[<-|[]]].
      * destruct (He _ _ Hin He0) as [Hd | [t' [H1 [H2 H3]]]]; [left; auto|].
        right. exists t'. split; [apply in_or_app; auto|]. split; auto. apply anc_mono; auto.
      * simpl in He0.
        assert (Hedge : forall d t0, In d (it_deps i) -> In t0 (plan s) -> lookup d (m2out s) = Some (s_out t0) ->
                        dep_edge (plan s ++ [t]) t0 t).
        { intros d t0 Hd Hin Hl. repeat split.
          - apply in_or_app; auto.
          - apply in_or_app; right; left; reflexivity.
          - simpl. eapply dd_covers; eauto. }
        destruct (gim_entries _ _ _ _ _ _ Hg He0) as [[] | [d [Hd [[imd [Hl Hin]] | [Hl Hk]]]]].
        -- destruct (Hi _ _ Hl) as [t0 [H1 [H2 H3]]]. subst imd.
           destruct (He _ _ H1 Hin) as [Hdef | [t' [H4 [H5 H6]]]]; [left; auto|].
           right. exists t'. split; [apply in_or_app; auto|]. split; auto.
           eapply t_trans; [apply anc_mono; eauto|]. apply t_step. eapply Hedge; eauto.
        -- destruct (path_eqb (snd e) PDefault) eqn:Ep; [left; apply path_eqb_eq; auto|].
           assert (snd e <> PDefault) by (intro Hc; apply path_eqb_eq in Hc; congruence).
           destruct (Ho _ _ Hl H) as [t0 [H1 H2]].
           right. exists t0. split; [apply in_or_app; auto|]. split; auto.
           apply t_step. eapply Hedge; eauto. rewrite H2; auto.
Qed.

Lemma inv_run : forall req items s s',
  (forall i, In i items -> item_ok req i) -> inv req s -> run req items s = Some s' -> inv req s'.
Proof.
  induction items as [|i r IH]; simpl; intros s s' Hok Hinv H.
  - inversion H; subst; auto.
  - destruct (setup_step req s i) as [s1|] eqn:E; [|discriminate].
    apply (IH s1 s'); auto. eapply inv_step; eauto.
Qed.

Lemma imports_entries_produced_lemma : forall req ss s,
  setup_build req ss = Some s ->
  forall t k p, In t (plan s) -> In (k, p) (s_imports t) ->
  p = PDefault \/ exists t', In t' (plan s) /\ s_out t' = p /\ clos_trans step (dep_edge (plan s)) t' t.
Proof.
  intros req ss s H t k p Hin He. unfold setup_build in H.
  assert (Hinv : inv req s).
  { eapply inv_run; eauto; [|apply inv0]. intros; eapply yield_ok; eauto. }
  destruct (inv_ent _ _ Hinv _ _ Hin He) as [Hd|Hx]; auto.
Qed.

(* ------------------------------------------------------------------------------------------ *)
(* every schedule consistent with the declared dependencies                                    *)

(* A (parallel) schedule gives every statement a start and a finish time; the build tool starts a
   statement only when every statement producing one of its declared inputs has finished. *)
Definition respects (p : list step) (start finish : step -> nat) : Prop :=
  (forall t, In t p -> start t <= finish t) /\
  (forall a b, dep_edge p a b -> finish a <= start b).

Lemma anc_finishes_before : forall p start finish a b,
  respects p start finish -> anc p a b -> finish a <= start b.
Proof.
  intros p start finish a b [Hle Hdep] H. induction H as [a b H | a c b H1 IH1 H2 IH2].
  - apply Hdep; auto.
  - assert (In c p).
    { clear -H2. induction H2 as [x y [? [? ?]] | ]; auto. }
    specialize (Hle c H). lia.
Qed.

Lemma any_schedule_safe_lemma : forall req ss s start finish,
  setup_build req ss = Some s -> respects (plan s) start finish ->
  forall t k p, In t (plan s) -> In (k, p) (s_imports t) -> p <> PDefault ->
  exists t', In t' (plan s) /\ s_out t' = p /\ finish t' <= start t.
Proof.
  intros req ss s start finish H Hr t k p Hin He Hne.
  destruct (imports_entries_produced_lemma _ _ _ H _ _ _ Hin He) as [Hd | [t' [H1 [H2 H3]]]]; [congruence|].
  exists t'. repeat split; auto. eapply anc_finishes_before; eauto.
Qed.

(* sequential schedules: any linearisation in which every declared dependency comes first *)
Definition topological (p sigma : list step) : Prop :=
  forall l1 t l2, sigma = l1 ++ t :: l2 -> forall t', dep_edge p t' t -> In t' l1.

Lemma anc_occurs_before : forall p sigma, topological p sigma ->
  forall a b, anc p a b -> forall l1 l2, sigma = l1 ++ b :: l2 -> In a l1.
Proof.
  intros p sigma Ht a b H. induction H as [a b H | a c b H1 IH1 H2 IH2]; intros l1 l2 Hs.
  - eapply Ht; eauto.
  - specialize (IH2 _ _ Hs). apply in_split in IH2. destruct IH2 as [la [lb ->]].
    rewrite <- app_assoc in Hs. simpl in Hs.
    specialize (IH1 _ _ Hs). apply in_or_app; auto.
Qed.

Lemma any_linear_schedule_safe_lemma : forall req ss s sigma,
  setup_build req ss = Some s -> topological (plan s) sigma ->
  forall l1 t l2 k p, sigma = l1 ++ t :: l2 -> In t (plan s) -> In (k, p) (s_imports t) -> p <> PDefault ->
  exists t', In t' l1 /\ s_out t' = p.
Proof.
  intros req ss s sigma H Ht l1 t l2 k p Hs Hin He Hne.
  destruct (imports_entries_produced_lemma _ _ _ H _ _ _ Hin He) as [Hd | [t' [H1 [H2 H3]]]]; [congruence|].
  exists t'. split; auto. eapply anc_occurs_before; eauto.
Qed.

(* ------------------------------------------------------------------------------------------ *)
(* declared dependencies point backwards in the file                                           *)

Fixpoint deps_back (pre l : list step) : Prop :=
  match l with
  | [] => True
  | t :: r => (forall p, In p (s_deps t) -> exists t', In t' pre /\ s_out t' = p) /\ deps_back (pre ++ [t]) r
  end.

Lemma deps_back_snoc : forall l pre t,
  deps_back pre l -> (forall p, In p (s_deps t) -> exists t', In t' (pre ++ l) /\ s_out t' = p) ->
  deps_back pre (l ++ [t]).
Proof.
  induction l as [|x r IH]; simpl; intros pre t H Ht.
  - split; auto. intros p Hp. rewrite app_nil_r in Ht. auto.
  - destruct H as [H1 H2]. split; auto. apply IH; auto.
    intros p Hp. rewrite <- app_assoc. simpl. auto.
Qed.

Lemma deps_back_split : forall a pre l t b,
  deps_back pre l -> l = a ++ t :: b -> forall p, In p (s_deps t) -> exists t', In t' (pre ++ a) /\ s_out t' = p.
Proof.
  induction a as [|x r IH]; simpl; intros pre l t b H -> p Hp.
  - destruct H as [H _]. rewrite app_nil_r. auto.
  - destruct H as [_ H]. destruct (IH _ _ _ _ H eq_refl _ Hp) as [t' [H1 H2]].
    exists t'. split; auto. rewrite <- app_assoc in H1. exact H1.
Qed.

Lemma back_step : forall req s i s',
  inv req s -> deps_back [] (plan s) -> setup_step req s i = Some s' -> deps_back [] (plan s').
Proof.
  intros req s i s' Hinv Hb Hs.
  destruct (setup_step_cases _ _ _ _ Hs) as [[_ ->] | [[_ [Hd ->]] | [_ [Hnd [im [ds [Hg [Hdd Hs']]]]]]]]; auto.
  simpl in Hs'. subst s'. simpl. apply deps_back_snoc; auto. simpl.
  intros p Hp. destruct (dd_sound _ _ _ _ Hdd Hp) as [Hne [d [_ Hl]]].
  destruct (inv_out _ _ Hinv _ _ Hl Hne) as [t' [H1 H2]]. exists t'; auto.
Qed.

Lemma back_run : forall req items s s',
  (forall i, In i items -> item_ok req i) -> inv req s -> deps_back [] (plan s) ->
  run req items s = Some s' -> deps_back [] (plan s').
Proof.
  induction items as [|i r IH]; simpl; intros s s' Hok Hinv Hb H.
  - inversion H; subst; auto.
  - destruct (setup_step req s i) as [s1|] eqn:E; [|discriminate].
    apply (IH s1 s'); auto.
    + eapply inv_step; eauto.
    + eapply back_step; eauto.
Qed.

Fixpoint index_of (x : path) (l : list path) : nat :=
  match l with [] => 0 | y :: r => if path_eqb x y then 0 else S (index_of x r) end.

Lemma index_of_in_app : forall x l1 l2, In x l1 -> index_of x (l1 ++ l2) = index_of x l1 /\ index_of x l1 < length l1.
Proof.
  induction l1 as [|y r IH]; simpl; intros l2 H; [tauto|].
  destruct (path_eqb x y) eqn:E; [split; [reflexivity|lia]|].
  destruct H as [->|H]; [assert (path_eqb x x = true) by (apply path_eqb_eq; reflexivity); congruence|].
  destruct (IH l2 H). split; lia.
Qed.

Lemma index_of_first : forall x l1 l2, ~ In x l1 -> index_of x (l1 ++ x :: l2) = length l1.
Proof.
  induction l1 as [|y r IH]; simpl; intros l2 H.
  - assert (path_eqb x x = true) by (apply path_eqb_eq; reflexivity). rewrite H0. reflexivity.
  - destruct (path_eqb x y) eqn:E; [apply path_eqb_eq in E; subst; tauto|].
    rewrite IH; auto.
Qed.

Lemma edge_rank : forall p, deps_back [] p -> NoDup (map s_out p) ->
  forall a b, dep_edge p a b -> index_of (s_out a) (map s_out p) < index_of (s_out b) (map s_out p).
Proof.
  intros p Hb Hnd a b [Ha [Hbn He]].
  apply in_split in Hbn. destruct Hbn as [l1 [l2 Hp]].
  destruct (deps_back_split _ _ _ _ _ Hb Hp _ He) as [t' [H1 H2]]. simpl in H1.
  rewrite Hp in *. rewrite map_app in *. simpl in *.
  assert (Hin : In (s_out a) (map s_out l1)) by (rewrite <- H2; apply in_map; auto).
  destruct (index_of_in_app _ _ (s_out b :: map s_out l2) Hin) as [E1 E2]. rewrite E1.
  rewrite index_of_first.
  - rewrite map_length in E2. rewrite map_length. exact E2.
  - apply NoDup_remove_2 in Hnd. intro Hc. apply Hnd. apply in_or_app; auto.
Qed.

Lemma plan_acyclic_lemma : forall req ss s,
  setup_build req ss = Some s -> NoDup (map s_out (plan s)) ->
  forall t, ~ clos_trans step (dep_edge (plan s)) t t.
Proof.
  intros req ss s H Hnd t Hc. unfold setup_build in H.
  assert (Hok : forall i, In i (yield_sorted_modules req ss) -> item_ok req i) by (intros; eapply yield_ok; eauto).
  assert (Hb : deps_back [] (plan s)).
  { eapply back_run; eauto; [apply inv0 | simpl; auto]. }
  assert (Hlt : forall a b, clos_trans step (dep_edge (plan s)) a b ->
                index_of (s_out a) (map s_out (plan s)) < index_of (s_out b) (map s_out (plan s))).
  { intros a b Hab. induction Hab; [apply edge_rank; auto | lia]. }
  specialize (Hlt _ _ Hc). lia.
Qed.

(* ------------------------------------------------------------------------------------------ *)
(* outputs are unique when _module_to_output_path is injective on the modules                  *)

Definition item_out (i : item) : path := PPyi (m_key (it_mod i)) (is_first (it_stage i)).

Inductive subseq {A} : list A -> list A -> Prop :=
| sub_nil : subseq [] []
| sub_skip : forall x l1 l2, subseq l1 l2 -> subseq l1 (x :: l2)
| sub_take : forall x l1 l2, subseq l1 l2 -> subseq (x :: l1) (x :: l2).

Lemma subseq_in : forall {A} (l1 l2 : list A), subseq l1 l2 -> forall x, In x l1 -> In x l2.
Proof. induction 1; simpl; intros y Hy; auto. destruct Hy; auto. Qed.

Lemma subseq_nodup : forall {A} (l1 l2 : list A), subseq l1 l2 -> NoDup l2 -> NoDup l1.
Proof.
  induction 1; intros Hn; auto.
  - inversion Hn; auto.
  - inversion Hn; subst. constructor; auto. intro Hc. apply H2. eapply subseq_in; eauto.
Qed.

Lemma subseq_nil_l : forall {A} (l : list A), subseq [] l.
Proof. induction l; constructor; auto. Qed.

Lemma run_outs : forall req items s s', run req items s = Some s' ->
  exists l, map s_out (plan s') = map s_out (plan s) ++ l /\ subseq l (map item_out items).
Proof.
  induction items as [|i r IH]; simpl; intros s s' H.
  - inversion H; subst. exists []. rewrite app_nil_r. split; [reflexivity|constructor].
  - destruct (setup_step req s i) as [s1|] eqn:E; [|discriminate].
    destruct (IH _ _ H) as [l [H1 H2]].
    destruct (setup_step_cases _ _ _ _ E) as [[_ ->] | [[_ [Hd ->]] | [_ [Hnd [im [ds [Hg [Hdd Hs']]]]]]]].
    + exists l. split; [exact H1|]. apply sub_skip; auto.
    + exists l. split; [exact H1|]. apply sub_skip; auto.
    + simpl in Hs'. subst s1. simpl in H1. rewrite map_app in H1. simpl in H1. rewrite <- app_assoc in H1.
      exists (item_out i :: l). split; [exact H1|]. apply sub_take; auto.
Qed.

Lemma nodup_app : forall {A} (l1 l2 : list A),
  NoDup l1 -> NoDup l2 -> (forall x, In x l1 -> ~ In x l2) -> NoDup (l1 ++ l2).
Proof.
  induction l1 as [|a r IH]; simpl; intros l2 H1 H2 Hd; auto.
  inversion H1; subst. constructor.
  - intro Hc. apply in_app_or in Hc. destruct Hc; [tauto|]. eapply Hd; eauto.
  - apply IH; auto.
Qed.

Lemma nodup_app_inv : forall {A} (l1 l2 : list A),
  NoDup (l1 ++ l2) -> NoDup l1 /\ NoDup l2 /\ (forall x, In x l1 -> ~ In x l2).
Proof.
  induction l1 as [|a r IH]; simpl; intros l2 H.
  - repeat split; auto. constructor.
  - inversion H; subst. destruct (IH _ H3) as [Ha [Hb Hc]]. repeat split; auto.
    + constructor; auto. intro Hx. apply H2. apply in_or_app; auto.
    + intros x [->|Hx]; auto. intro Hx. apply H2. apply in_or_app; auto.
Qed.

Lemma nodup_map_filter : forall {A B} (f : A -> B) (P : A -> bool) l, NoDup (map f l) -> NoDup (map f (filter P l)).
Proof.
  induction l as [|a r IH]; simpl; intros H; auto.
  inversion H; subst. destruct (P a); simpl; auto. constructor; auto.
  intro Hc. apply H2. apply in_map_iff in Hc. destruct Hc as [x [Hx Hin]].
  apply filter_In in Hin. destruct Hin. apply in_map_iff. exists x; auto.
Qed.

Lemma nodup_pyi : forall b l, NoDup (map m_key l) -> NoDup (map (fun m => PPyi (m_key m) b) l).
Proof.
  induction l as [|a r IH]; simpl; intros H; [constructor|].
  inversion H; subst. constructor; auto.
  intro Hc. apply H2. apply in_map_iff in Hc. destruct Hc as [x [Hx Hin]].
  inversion Hx. apply in_map_iff. exists x; auto.
Qed.

Lemma first_outs : forall req deps (f : action -> action) l,
  map item_out (map (fun ma : module * action => (fst ma, f (snd ma), deps, FIRST_PASS))
                    (map (fun m => (m, get_module_action req m)) l))
  = map (fun m => PPyi (m_key m) true) l.
Proof. induction l as [|a r IH]; simpl; [reflexivity|]. rewrite IH. reflexivity. Qed.

Lemma second_outs : forall req deps2 l,
  map item_out (flat_map (fun ma : module * action =>
                   if is_default (snd ma) then [] else [(fst ma, snd ma, deps2, SECOND_PASS)])
                 (map (fun m => (m, get_module_action req m)) l))
  = map (fun m => PPyi (m_key m) false) (filter (fun m => negb (is_default (get_module_action req m))) l).
Proof.
  induction l as [|a r IH]; simpl; [reflexivity|].
  destruct (is_default (get_module_action req a)); simpl; rewrite IH; reflexivity.
Qed.

Definition analysed (req : list N) (m : module) : bool := negb (is_default (get_module_action req m)).

Lemma group_outs : forall req g d,
  map item_out (yield_group req (g, d)) =
  match g with
  | [m] => [PPyi (m_key m) false]
  | _ => map (fun m => PPyi (m_key m) true) g ++ map (fun m => PPyi (m_key m) false) (filter (analysed req) g)
  end.
Proof.
  intros req g d. unfold yield_group.
  destruct g as [|m [|m2 r]].
  - reflexivity.
  - reflexivity.
  - remember (m :: m2 :: r) as g eqn:Eg.
    assert (Hm : match map (fun m0 => (m0, get_module_action req m0)) g with [(_, _)] => False | _ => True end).
    { subst g. simpl. exact I. }
    destruct (map (fun m0 => (m0, get_module_action req m0)) g) as [|[m' a'] [|x rest]] eqn:Em; try tauto.
    + subst g; discriminate.
    + rewrite <- Em. rewrite map_app.
      rewrite (first_outs req d (fun a => if is_check a then INFER else a)).
      rewrite second_outs. subst g. reflexivity.
Qed.

Lemma group_outs_nodup : forall req g d, NoDup (map m_key g) -> NoDup (map item_out (yield_group req (g, d))).
Proof.
  intros req g d H. rewrite group_outs.
  assert (Hc : NoDup (map (fun m => PPyi (m_key m) true) g ++
                      map (fun m => PPyi (m_key m) false) (filter (analysed req) g))).
  { apply nodup_app.
    - apply nodup_pyi; auto.
    - apply (nodup_pyi false). apply nodup_map_filter; auto.
    - intros x H1 H2. apply in_map_iff in H1. apply in_map_iff in H2.
      destruct H1 as [a [<- _]]. destruct H2 as [b [Hb _]]. discriminate. }
  destruct g as [|m [|m2 r]]; auto. constructor; [simpl; tauto | constructor].
Qed.

Lemma group_outs_key : forall req g d o, In o (map item_out (yield_group req (g, d))) ->
  exists m b, In m g /\ o = PPyi (m_key m) b.
Proof.
  intros req g d o H. rewrite group_outs in H.
  assert (Hc : In o (map (fun m => PPyi (m_key m) true) g ++
                     map (fun m => PPyi (m_key m) false) (filter (analysed req) g)) ->
               exists m b, In m g /\ o = PPyi (m_key m) b).
  { intros Hi. apply in_app_or in Hi. destruct Hi as [Hi|Hi]; apply in_map_iff in Hi; destruct Hi as [m [<- Hm]].
    - exists m, true; auto.
    - apply filter_In in Hm. destruct Hm. exists m, false; auto. }
  destruct g as [|m [|m2 r]]; auto.
  destruct H as [<-|[]]. exists m, false. split; simpl; auto.
Qed.

Lemma yield_outs_nodup : forall req ss, NoDup (map m_key (members ss)) ->
  NoDup (map item_out (yield_sorted_modules req ss)).
Proof.
  induction ss as [|[g d] r IH]; simpl; intros H; [constructor|].
  unfold members in H. simpl in H. rewrite map_app in H.
  apply nodup_app_inv in H. destruct H as [Hg [Hr Hd]].
  rewrite map_app. apply nodup_app.
  - apply group_outs_nodup; auto.
  - apply IH; auto.
  - intros o H1 H2. destruct (group_outs_key _ _ _ _ H1) as [m [b [Hm ->]]].
    unfold yield_sorted_modules in H2. rewrite flat_map_concat_map in H2.
    rewrite concat_map in H2. rewrite map_map in H2. apply in_concat in H2.
    destruct H2 as [l [Hl Ho]]. apply in_map_iff in Hl. destruct Hl as [[g' d'] [<- Hg']].
    destruct (group_outs_key _ _ _ _ Ho) as [m' [b' [Hm' Heq]]]. inversion Heq.
    apply (Hd (m_key m)).
    + apply in_map; auto.
    + rewrite H0. apply in_map. unfold members. apply in_flat_map. exists (g', d'); auto.
Qed.

Lemma outputs_unique_lemma : forall req ss s,
  setup_build req ss = Some s -> NoDup (map m_key (members ss)) -> NoDup (map s_out (plan s)).
Proof.
  intros req ss s H Hk. unfold setup_build in H.
  destruct (run_outs _ _ _ _ H) as [l [H1 H2]]. simpl in H1. rewrite H1.
  eapply subseq_nodup; eauto. apply yield_outs_nodup; auto.
Qed.

(* ------------------------------------------------------------------------------------------ *)
(* every requested, analysable file gets exactly one CHECK statement                           *)

Definition fin (i : item) : bool := negb (is_first (it_stage i)) && negb (is_default (it_act i)).
Definition final_for (f : N) (i : item) : bool := fin i && (m_full (it_mod i) =? f)%N.
Definition chk (f : N) (i : item) : bool := final_for f i && is_check (it_act i).

Lemma checks_of_snoc : forall f p t,
  checks_of f (p ++ [t]) = checks_of f p + (if is_check (s_action t) && (s_input t =? f)%N then 1 else 0).
Proof.
  intros. unfold checks_of. rewrite filter_app, app_length. simpl.
  destruct (is_check (s_action t) && (s_input t =? f)%N); reflexivity.
Qed.

Lemma all_done_in : forall req fs f, all_requested_done req fs = true -> In f req -> In f fs.
Proof.
  intros req fs f H Hin. unfold all_requested_done in H. rewrite forallb_forall in H.
  apply memN_In. apply H; auto.
Qed.

Lemma step_nonfinal : forall req f s i s1,
  setup_step req s i = Some s1 -> item_ok req i -> final_for f i = false ->
  checks_of f (plan s1) = checks_of f (plan s) /\ (In f (files s1) -> In f (files s)).
Proof.
  intros req f s i s1 Hs [_ [Hf _]] Hnf.
  destruct (setup_step_cases _ _ _ _ Hs) as [[_ ->] | [[_ [Hd ->]] | [_ [Hnd [im [ds [Hg [Hdd Hs']]]]]]]]; auto.
  simpl in Hs'. subst s1. simpl. rewrite checks_of_snoc. simpl.
  unfold final_for, fin in Hnf. rewrite Hnd in Hnf. simpl in Hnf. rewrite andb_true_r in Hnf.
  destruct (is_first (it_stage i)) eqn:E1; simpl in *.
  - rewrite (Hf eq_refl). simpl. split; [lia|auto].
  - rewrite Hnf. rewrite andb_false_r. split; [lia|].
    intros [H|H]; auto. apply N.eqb_neq in Hnf. congruence.
Qed.

Lemma step_final : forall req f s i s1,
  setup_step req s i = Some s1 -> final_for f i = true -> In f req -> ~ In f (files s) ->
  checks_of f (plan s1) = checks_of f (plan s) + (if is_check (it_act i) then 1 else 0).
Proof.
  intros req f s i s1 Hs Hfin Hreq Hnin.
  unfold final_for, fin in Hfin. rewrite !andb_true_iff, !negb_true_iff in Hfin. destruct Hfin as [[H1 H2] H3].
  destruct (setup_step_cases _ _ _ _ Hs) as [[Hd _] | [[_ [Hd _]] | [_ [Hnd [im [ds [Hg [Hdd Hs']]]]]]]].
  - exfalso. apply Hnin. eapply all_done_in; eauto.
  - congruence.
  - simpl in Hs'. subst s1. simpl. rewrite checks_of_snoc. simpl. rewrite H3, andb_true_r. reflexivity.
Qed.

Lemma run_nonfinal : forall req f items s s',
  run req items s = Some s' -> (forall i, In i items -> item_ok req i) ->
  (forall i, In i items -> final_for f i = false) ->
  checks_of f (plan s') = checks_of f (plan s) /\ (In f (files s') -> In f (files s)).
Proof.
  induction items as [|i r IH]; simpl; intros s s' H Hok Hnf.
  - inversion H; auto.
  - destruct (setup_step req s i) as [s1|] eqn:E; [|discriminate].
    destruct (step_nonfinal req f _ _ _ E (Hok _ (or_introl eq_refl)) (Hnf _ (or_introl eq_refl))) as [A B].
    destruct (IH _ _ H (fun i h => Hok i (or_intror h)) (fun i h => Hnf i (or_intror h))) as [C D].
    split; [congruence | auto].
Qed.

Lemma filter_nil_iff : forall {A} (P : A -> bool) l, filter P l = [] <-> forall x, In x l -> P x = false.
Proof.
  induction l as [|a r IH]; simpl; [split; [intros _ x []|reflexivity]|].
  destruct (P a) eqn:E.
  - split; [discriminate|]. intros H. specialize (H a (or_introl eq_refl)). congruence.
  - rewrite IH. split; intros H x; [intros [<-|Hx]; auto | intros Hx; apply H; auto].
Qed.

Lemma run_checks : forall req f items s s',
  run req items s = Some s' -> (forall i, In i items -> item_ok req i) ->
  In f req -> ~ In f (files s) -> length (filter (final_for f) items) <= 1 ->
  checks_of f (plan s') = checks_of f (plan s) + length (filter (chk f) items).
Proof.
  induction items as [|i r IH]; simpl; intros s s' H Hok Hreq Hnin Hle.
  - inversion H; subst. lia.
  - destruct (setup_step req s i) as [s1|] eqn:E; [|discriminate].
    unfold chk at 1. destruct (final_for f i) eqn:Ef; simpl in *.
    + assert (Hr : filter (final_for f) r = []) by (destruct (filter (final_for f) r); [reflexivity | simpl in Hle; lia]).
      rewrite filter_nil_iff in Hr.
      destruct (run_nonfinal req f _ _ _ H (fun i h => Hok i (or_intror h)) Hr) as [A _].
      rewrite A. rewrite (step_final _ _ _ _ _ E Ef Hreq Hnin).
      assert (Hc : filter (chk f) r = []).
      { apply filter_nil_iff. intros x Hx. unfold chk. rewrite (Hr _ Hx). reflexivity. }
      rewrite Hc. destruct (is_check (it_act i)); simpl; lia.
    + destruct (step_nonfinal req f _ _ _ E (Hok _ (or_introl eq_refl)) Ef) as [A B].
      rewrite <- A. apply IH; auto.
Qed.

Definition firsts (req : list N) (d : list module) (l : list module) : list item :=
  map (fun ma : module * action => (fst ma, (if is_check (snd ma) then INFER else snd ma), d, FIRST_PASS))
      (map (fun m => (m, get_module_action req m)) l).
Definition seconds (req : list N) (d2 : list module) (l : list module) : list item :=
  flat_map (fun ma : module * action => if is_default (snd ma) then [] else [(fst ma, snd ma, d2, SECOND_PASS)])
           (map (fun m => (m, get_module_action req m)) l).

Lemma yield_group_cycle : forall req m m2 r d,
  yield_group req (m :: m2 :: r, d) =
  firsts req d (m :: m2 :: r) ++ seconds req (d ++ (m :: m2 :: r)) (m :: m2 :: r).
Proof.
  intros. unfold yield_group, firsts, seconds.
  replace (map fst (map (fun m0 => (m0, get_module_action req m0)) (m :: m2 :: r))) with (m :: m2 :: r).
  - reflexivity.
  - rewrite map_map. simpl. rewrite map_id. reflexivity.
Qed.

Lemma firsts_fin : forall req d l, filter fin (firsts req d l) = [].
Proof. induction l as [|a r IH]; simpl; auto. Qed.

Lemma seconds_fin : forall req d2 l,
  map it_mod (filter fin (seconds req d2 l)) = filter (analysed req) l.
Proof.
  induction l as [|a r IH]; simpl; [reflexivity|].
  unfold seconds in *. simpl. unfold analysed at 1.
  destruct (is_default (get_module_action req a)) eqn:E; simpl; auto.
  unfold fin at 1. simpl. unfold it_act. simpl. rewrite E. simpl. unfold it_mod at 1. simpl. rewrite IH. reflexivity.
Qed.

Lemma group_finals : forall req g d,
  map it_mod (filter fin (yield_group req (g, d))) = filter (analysed req) g.
Proof.
  intros req g d. destruct g as [|m [|m2 r]].
  - reflexivity.
  - unfold yield_group. simpl. unfold fin, analysed, it_act, it_stage. simpl.
    destruct (is_default (get_module_action req m)); reflexivity.
  - rewrite yield_group_cycle. rewrite filter_app, firsts_fin. simpl app. apply seconds_fin.
Qed.

Lemma yield_finals : forall req ss,
  map it_mod (filter fin (yield_sorted_modules req ss)) = filter (analysed req) (members ss).
Proof.
  induction ss as [|[g d] r IH]; [reflexivity|].
  unfold yield_sorted_modules, members in *. cbn [flat_map fst].
  rewrite !filter_app, map_app, group_finals, IH. reflexivity.
Qed.

Lemma filter_map_comm : forall {A B} (g : A -> B) (P : B -> bool) l,
  filter P (map g l) = map g (filter (fun x => P (g x)) l).
Proof.
  induction l as [|a r IH]; simpl; [reflexivity|]. destruct (P (g a)); simpl; rewrite IH; reflexivity.
Qed.

Lemma filter_filter : forall {A} (P Q : A -> bool) l,
  filter P (filter Q l) = filter (fun x => Q x && P x) l.
Proof.
  induction l as [|a r IH]; simpl; [reflexivity|].
  destruct (Q a); simpl; [destruct (P a); simpl|]; rewrite IH; reflexivity.
Qed.

Lemma nodup_filter_eq_le1 : forall (l : list module) f,
  NoDup (map m_full l) -> length (filter (fun m => (m_full m =? f)%N) l) <= 1.
Proof.
  induction l as [|a r IH]; simpl; intros f H; [lia|].
  inversion H; subst. specialize (IH f H3).
  destruct (m_full a =? f)%N eqn:E; simpl; [|lia].
  apply N.eqb_eq in E. subst f.
  assert (filter (fun m => (m_full m =? m_full a)%N) r = []).
  { apply filter_nil_iff. intros x Hx. apply N.eqb_neq. intro Hc. apply H2. rewrite <- Hc. apply in_map; auto. }
  rewrite H0. simpl. lia.
Qed.

Lemma nfinal_le1 : forall req ss f, NoDup (map m_full (members ss)) ->
  length (filter (final_for f) (yield_sorted_modules req ss)) <= 1.
Proof.
  intros req ss f H.
  assert (E : filter (final_for f) (yield_sorted_modules req ss) =
              filter (fun i => (m_full (it_mod i) =? f)%N) (filter fin (yield_sorted_modules req ss))).
  { rewrite filter_filter. reflexivity. }
  rewrite E.
  rewrite <- (map_length it_mod).
  rewrite <- (filter_map_comm it_mod (fun m => (m_full m =? f)%N)).
  rewrite yield_finals.
  apply nodup_filter_eq_le1. apply (nodup_map_filter m_full (analysed req)). exact H.
Qed.

Lemma group_check_item : forall req g d m, In m g -> get_module_action req m = CHECK ->
  exists i, In i (yield_group req (g, d)) /\ it_mod i = m /\ is_first (it_stage i) = false /\ it_act i = CHECK.
Proof.
  intros req g d m Hin Ha.
  destruct g as [|m1 [|m2 r]].
  - destruct Hin.
  - destruct Hin as [<-|[]]. exists (m1, get_module_action req m1, d, SINGLE_PASS).
    unfold yield_group. simpl. repeat split; auto.
  - rewrite yield_group_cycle. remember (m1 :: m2 :: r) as g.
    exists (m, CHECK, d ++ g, SECOND_PASS). split; [|repeat split; reflexivity].
    apply in_or_app. right. unfold seconds. apply in_flat_map.
    exists (m, get_module_action req m). split.
    + apply in_map_iff. exists m; auto.
    + simpl. rewrite Ha. simpl. left; reflexivity.
Qed.

Lemma yield_check_item : forall req ss m, In m (members ss) -> get_module_action req m = CHECK ->
  exists i, In i (yield_sorted_modules req ss) /\ chk (m_full m) i = true.
Proof.
  intros req ss m Hin Ha. unfold members in Hin. apply in_flat_map in Hin. destruct Hin as [[g d] [Hg Hm]].
  simpl in Hm. destruct (group_check_item req g d m Hm Ha) as [i [Hi [H1 [H2 H3]]]].
  exists i. split.
  - unfold yield_sorted_modules. apply in_flat_map. exists (g, d); auto.
  - unfold chk, final_for, fin. rewrite H1, H2, H3. simpl. rewrite N.eqb_refl. reflexivity.
Qed.

Lemma filter_length_le : forall {A} (P Q : A -> bool) l, (forall x, P x = true -> Q x = true) ->
  length (filter P l) <= length (filter Q l).
Proof.
  induction l as [|a r IH]; simpl; intros H; [lia|]. specialize (IH H).
  destruct (P a) eqn:E; [rewrite (H _ E); simpl; lia | destruct (Q a); simpl; lia].
Qed.

Lemma checked_once_lemma : forall req ss s m,
  setup_build req ss = Some s -> NoDup (map m_full (members ss)) ->
  In m (members ss) -> get_module_action req m = CHECK ->
  checks_of (m_full m) (plan s) = 1.
Proof.
  intros req ss s m H Hnd Hin Ha. unfold setup_build in H.
  assert (Hreq : In (m_full m) req).
  { unfold get_module_action in Ha. destruct (negb (m_ext m) && is_sys (m_kind m)); [discriminate|].
    destruct (memN (m_full m) req) eqn:E; [apply memN_In; auto | discriminate]. }
  pose proof (nfinal_le1 req ss (m_full m) Hnd) as Hle.
  rewrite (run_checks req (m_full m) _ _ _ H (fun i h => yield_ok _ _ _ h) Hreq (fun x => x) Hle).
  simpl.
  destruct (yield_check_item req ss m Hin Ha) as [i [Hi Hc]].
  assert (1 <= length (filter (chk (m_full m)) (yield_sorted_modules req ss))).
  { assert (In i (filter (chk (m_full m)) (yield_sorted_modules req ss))) by (apply filter_In; auto).
    destruct (filter (chk (m_full m)) (yield_sorted_modules req ss)); [destruct H0 | simpl; lia]. }
  assert (length (filter (chk (m_full m)) (yield_sorted_modules req ss)) <=
          length (filter (final_for (m_full m)) (yield_sorted_modules req ss))).
  { apply filter_length_le. intros x Hx. unfold chk in Hx. apply andb_true_iff in Hx. tauto. }
  lia.
Qed.

(* CHECK statements are only ever written for requested files, and never in a first pass *)
Lemma check_only_requested_lemma : forall req ss s t,
  setup_build req ss = Some s -> In t (plan s) -> s_action t = CHECK ->
  In (s_input t) req /\ exists k, s_out t = PPyi k false.
Proof.
  intros req ss s t H. unfold setup_build in H.
  assert (G : forall items s0 s1, run req items s0 = Some s1 -> (forall i, In i items -> item_ok req i) ->
              (forall t, In t (plan s0) -> s_action t = CHECK -> In (s_input t) req /\ exists k, s_out t = PPyi k false) ->
              (forall t, In t (plan s1) -> s_action t = CHECK -> In (s_input t) req /\ exists k, s_out t = PPyi k false)).
  { induction items as [|i r IH]; simpl; intros s0 s1 Hr Hok Hp.
    - inversion Hr; subst; auto.
    - destruct (setup_step req s0 i) as [s2|] eqn:E; [|discriminate].
      apply (IH _ _ Hr (fun i h => Hok i (or_intror h))).
      destruct (setup_step_cases _ _ _ _ E) as [[_ ->] | [[_ [Hd ->]] | [_ [Hnd [im [ds [Hg [Hdd Hs']]]]]]]]; auto.
      simpl in Hs'. subst s2. simpl. intros t0 Hin Hact. apply in_app_or in Hin. destruct Hin as [Hin|[<-|[]]]; auto.
      simpl in *. destruct (Hok i (or_introl eq_refl)) as [_ [Hf Hnf]].
      destruct (is_first (it_stage i)) eqn:Ef.
      + specialize (Hf eq_refl). rewrite Hact in Hf. discriminate.
      + split; [|eexists; reflexivity]. specialize (Hnf eq_refl). rewrite Hact in Hnf.
        symmetry in Hnf. unfold get_module_action in Hnf.
        destruct (negb (m_ext (it_mod i)) && is_sys (m_kind (it_mod i))); [discriminate|].
        destruct (memN (m_full (it_mod i)) req) eqn:Em; [apply memN_In; auto | discriminate]. }
  apply (G _ _ _ H); [intros; eapply yield_ok; eauto | simpl; tauto].
Qed.

(* ------------------------------------------------------------------------------------------ *)
(* well-formed sorted_sources never raise KeyError                                             *)

Definition covered (req : list N) (s : st) (l : list module) : Prop :=
  all_requested_done req (files s) = true \/ forall x, In x l -> lookup x (m2out s) <> None.

Lemma covered_weaken : forall req s l l', covered req s l -> (forall x, In x l' -> In x l) -> covered req s l'.
Proof. intros req s l l' [H|H] Hi; [left; auto | right; auto]. Qed.

Lemma step_covered : forall req s l i,
  covered req s l -> (forall d, In d (it_deps i) -> In d l) ->
  exists s1, setup_step req s i = Some s1 /\ covered req s1 (l ++ [it_mod i]).
Proof.
  intros req s l [[[m a] deps] stg] Hc Hd. unfold it_deps, it_mod in *. simpl in *.
  destruct (all_requested_done req (files s)) eqn:Ed.
  - exists s. split; [reflexivity | left; auto].
  - destruct Hc as [Hc|Hc]; [congruence|].
    assert (Hnew : forall (o : path) x, In x (l ++ [m]) -> lookup x ((m, o) :: m2out s) <> None).
    { intros o x Hx. simpl. destruct (module_eqb x m) eqn:E; [discriminate|].
      apply in_app_or in Hx. destruct Hx as [Hx|[<-|[]]]; auto.
      rewrite module_eqb_refl in E. discriminate. }
    destruct (is_default a).
    + eexists. split; [reflexivity|]. right. simpl. apply Hnew.
    + pose proof (gim_some deps (m2imp s) (m2out s) [] (fun d h => Hc d (Hd d h))) as G.
      pose proof (dd_some deps (m2out s) (fun d h => Hc d (Hd d h))) as D.
      destruct (get_imports_map deps (m2imp s) (m2out s) []); [|congruence].
      destruct (declared_deps deps (m2out s)); [|congruence].
      eexists. split; [reflexivity|]. right. simpl. apply Hnew.
Qed.

Fixpoint deps_ok (l : list module) (items : list item) : Prop :=
  match items with
  | [] => True
  | i :: r => (forall d, In d (it_deps i) -> In d l) /\ deps_ok (l ++ [it_mod i]) r
  end.

Lemma deps_ok_mono : forall items l l', (forall x, In x l -> In x l') -> deps_ok l items -> deps_ok l' items.
Proof.
  induction items as [|i r IH]; simpl; intros l l' Hi H; auto.
  destruct H as [H1 H2]. split; auto.
  apply (IH (l ++ [it_mod i])); auto.
  intros x Hx. apply in_app_or in Hx. apply in_or_app. destruct Hx; auto.
Qed.

Lemma deps_ok_app : forall a l b, deps_ok l a -> deps_ok (l ++ map it_mod a) b -> deps_ok l (a ++ b).
Proof.
  induction a as [|i r IH]; simpl; intros l b Ha Hb.
  - rewrite app_nil_r in Hb. exact Hb.
  - destruct Ha as [H1 H2]. split; auto. apply IH; auto.
    rewrite <- app_assoc. simpl. exact Hb.
Qed.

Lemma run_covered : forall req items s l,
  covered req s l -> deps_ok l items ->
  exists s', run req items s = Some s' /\ covered req s' (l ++ map it_mod items).
Proof.
  induction items as [|i r IH]; simpl; intros s l Hc Hd.
  - exists s. rewrite app_nil_r. auto.
  - destruct Hd as [H1 H2]. destruct (step_covered _ _ _ _ Hc H1) as [s1 [E C1]]. rewrite E.
    destruct (IH _ _ C1 H2) as [s' [R C']]. exists s'. split; auto.
    rewrite <- app_assoc in C'. exact C'.
Qed.

Lemma firsts_deps_ok : forall req d g l, (forall x, In x d -> In x l) -> deps_ok l (firsts req d g).
Proof.
  induction g as [|m r IH]; simpl; intros l H; auto. split; auto.
  apply IH. intros x Hx. apply in_or_app; auto.
Qed.

Lemma seconds_deps_ok : forall req d2 g l, (forall x, In x d2 -> In x l) -> deps_ok l (seconds req d2 g).
Proof.
  induction g as [|m r IH]; intros l H; [exact I|].
  unfold seconds in *. simpl. destruct (is_default (get_module_action req m)); simpl.
  - apply IH; auto.
  - split; auto. apply IH. intros x Hx. apply in_or_app; auto.
Qed.

Lemma firsts_mods : forall req d g, map it_mod (firsts req d g) = g.
Proof. induction g as [|m r IH]; simpl; [reflexivity|]. unfold it_mod at 1. simpl. f_equal. exact IH. Qed.

Lemma group_deps_ok : forall req g d seen, (forall x, In x d -> In x seen) ->
  deps_ok seen (yield_group req (g, d)) /\ (forall x, In x g -> In x (map it_mod (yield_group req (g, d)))).
Proof.
  intros req g d seen H. destruct g as [|m [|m2 r]].
  - split; [exact I | intros x []].
  - unfold yield_group. simpl. split; [split; auto | intros x [<-|[]]; left; reflexivity].
  - rewrite yield_group_cycle. remember (m :: m2 :: r) as g. split.
    + apply deps_ok_app; [apply firsts_deps_ok; auto|].
      apply seconds_deps_ok. rewrite firsts_mods. intros x Hx.
      apply in_app_or in Hx. apply in_or_app. destruct Hx; auto.
    + intros x Hx. rewrite map_app. apply in_or_app. left. rewrite firsts_mods. exact Hx.
Qed.

Lemma run_all : forall req ss s seen,
  deps_closed seen ss -> covered req s seen -> exists s', run req (yield_sorted_modules req ss) s = Some s'.
Proof.
  induction ss as [|[g d] r IH]; intros s seen Hd Hc.
  - exists s. reflexivity.
  - simpl in Hd. destruct Hd as [Hd1 Hd2].
    unfold yield_sorted_modules. cbn [flat_map]. rewrite run_app.
    destruct (group_deps_ok req g d seen Hd1) as [Ho Hm].
    destruct (run_covered _ _ _ _ Hc Ho) as [s1 [R C]]. rewrite R.
    apply (IH s1 (seen ++ g)); auto.
    eapply covered_weaken; eauto. intros x Hx. apply in_app_or in Hx. apply in_or_app. destruct Hx; auto.
Qed.

Lemma no_keyerror_lemma : forall req ss, deps_closed [] ss -> setup_build req ss <> None.
Proof.
  intros req ss H. unfold setup_build.
  destruct (run_all req ss st0 [] H) as [s' E]; [right; intros x [] | congruence].
Qed.

(* ------------------------------------------------------------------------------------------ *)
(* an .imports file still holds what its statement wrote when module names are distinct        *)

Definition item_file (i : item) : impfile := (m_name (it_mod i), is_first (it_stage i)).

Lemma impfile_eqb_eq : forall a b, impfile_eqb a b = true <-> a = b.
Proof.
  intros [n f] [n' f']. unfold impfile_eqb. simpl. rewrite andb_true_iff, N.eqb_eq, Bool.eqb_true_iff.
  split; [intros [? ?]; subst; reflexivity | intros H; inversion H; auto].
Qed.

Lemma run_store : forall req items s s', run req items s = Some s' ->
  (forall t, In t (plan s) -> store_get (s_impfile t) (store s) = Some (s_imports t)) ->
  (forall t, In t (plan s) -> ~ In (s_impfile t) (map item_file items)) ->
  NoDup (map item_file items) ->
  forall t, In t (plan s') -> store_get (s_impfile t) (store s') = Some (s_imports t).
Proof.
  induction items as [|i r IH]; simpl; intros s s' H Hst Hfresh Hnd.
  - inversion H; subst; auto.
  - destruct (setup_step req s i) as [s1|] eqn:E; [|discriminate].
    inversion Hnd; subst.
    apply (IH _ _ H); auto.
    + destruct (setup_step_cases _ _ _ _ E) as [[_ ->] | [[_ [Hd ->]] | [_ [Hnd' [im [ds [Hg [Hdd Hs']]]]]]]]; auto.
      simpl in Hs'. subst s1. simpl. intros t Hin. apply in_app_or in Hin. destruct Hin as [Hin|[<-|[]]].
      * destruct (impfile_eqb (s_impfile t) (m_name (it_mod i), is_first (it_stage i))) eqn:Ef.
        -- apply impfile_eqb_eq in Ef. exfalso. apply (Hfresh _ Hin). left. unfold item_file. auto.
        -- auto.
      * simpl. assert (impfile_eqb (m_name (it_mod i), is_first (it_stage i)) (m_name (it_mod i), is_first (it_stage i)) = true)
          by (apply impfile_eqb_eq; reflexivity). rewrite H0. reflexivity.
    + destruct (setup_step_cases _ _ _ _ E) as [[_ ->] | [[_ [Hd ->]] | [_ [Hnd' [im [ds [Hg [Hdd Hs']]]]]]]];
        try (intros t Hin Hc; apply (Hfresh _ Hin); right; exact Hc).
      simpl in Hs'. subst s1. simpl. intros t Hin Hc. apply in_app_or in Hin. destruct Hin as [Hin|[<-|[]]].
      * apply (Hfresh _ Hin). right; auto.
      * simpl in Hc. apply H2. exact Hc.
Qed.

Lemma yield_files_nodup : forall req ss, NoDup (map m_name (members ss)) ->
  NoDup (map item_file (yield_sorted_modules req ss)).
Proof.
  (* same shape as yield_outs_nodup with m_name for m_key *)
  intros req ss H.
  assert (G : forall g d, NoDup (map m_name g) ->
              NoDup (map item_file (yield_group req (g, d))) /\
              forall o, In o (map item_file (yield_group req (g, d))) -> exists m b, In m g /\ o = (m_name m, b)).
  { intros g d Hg. destruct g as [|m [|m2 r]].
    - split; [constructor | intros o []].
    - unfold yield_group. simpl. split; [constructor; [simpl; tauto|constructor]|].
      intros o [<-|[]]. exists m, false. split; [left; reflexivity | reflexivity].
    - rewrite yield_group_cycle. remember (m :: m2 :: r) as g. rewrite map_app.
      assert (F1 : forall d0 l, map item_file (firsts req d0 l) = map (fun m => (m_name m, true)) l).
      { unfold firsts. induction l as [|a l IHl]; simpl; [reflexivity|]. rewrite IHl. reflexivity. }
      assert (F2 : forall d0 l, map item_file (seconds req d0 l) = map (fun m => (m_name m, false)) (filter (analysed req) l)).
      { induction l as [|a l IHl]; [reflexivity|]. unfold seconds in *. simpl. unfold analysed at 1.
        destruct (is_default (get_module_action req a)); simpl; rewrite IHl; reflexivity. }
      rewrite F1, F2.
      assert (Nm : forall (b : bool) l, NoDup (map m_name l) -> NoDup (map (fun m => (m_name m, b)) l)).
      { induction l as [|a l IHl]; simpl; intros Hl; [constructor|]. inversion Hl; subst. constructor; auto.
        intro Hc. apply H2. apply in_map_iff in Hc. destruct Hc as [x [Hx Hin]]. inversion Hx.
        apply in_map_iff. exists x; auto. }
      split.
      + apply nodup_app; [apply Nm; auto | apply Nm; apply nodup_map_filter; auto|].
        intros x H1 H2. apply in_map_iff in H1. apply in_map_iff in H2.
        destruct H1 as [a [<- _]]. destruct H2 as [b [Hb _]]. discriminate.
      + intros o Ho. apply in_app_or in Ho. destruct Ho as [Ho|Ho]; apply in_map_iff in Ho; destruct Ho as [x [<- Hx]].
        * exists x, true; auto.
        * apply filter_In in Hx. destruct Hx. exists x, false; auto. }
  induction ss as [|[g d] r IH]; [constructor|].
  unfold members in H. cbn [flat_map fst] in H. rewrite map_app in H.
  apply nodup_app_inv in H. destruct H as [Hg [Hr Hd]].
  unfold yield_sorted_modules. cbn [flat_map]. rewrite map_app.
  destruct (G g d Hg) as [G1 G2]. apply nodup_app; [exact G1 | apply IH; exact Hr |].
  - intros o H1 H2. destruct (G2 _ H1) as [m [b [Hm ->]]].
    rewrite flat_map_concat_map in H2. rewrite concat_map in H2. rewrite map_map in H2. apply in_concat in H2.
    destruct H2 as [l [Hl Ho]]. apply in_map_iff in Hl. destruct Hl as [[g' d'] [<- Hg']].
    assert (Hn' : NoDup (map m_name g')).
    { clear -Hr Hg'. unfold members in Hr. induction r as [|[g0 d0] r IH]; [destruct Hg'|].
      cbn [flat_map fst] in Hr. rewrite map_app in Hr. apply nodup_app_inv in Hr. destruct Hr as [A [B _]].
      destruct Hg' as [E|E]; [inversion E; subst; auto | auto]. }
    destruct (G g' d' Hn') as [_ G2']. destruct (G2' _ Ho) as [m' [b' [Hm' Heq]]]. inversion Heq.
    apply (Hd (m_name m)).
    + apply in_map; auto.
    + rewrite H0. apply in_map. unfold members. apply in_flat_map. exists (g', d'); auto.
Qed.

Lemma imports_files_stable_lemma : forall req ss s,
  setup_build req ss = Some s -> NoDup (map m_name (members ss)) ->
  forall t, In t (plan s) -> store_get (s_impfile t) (store s) = Some (s_imports t).
Proof.
  intros req ss s H Hn. unfold setup_build in H.
  apply (run_store req _ _ _ H); simpl; try tauto. apply yield_files_nodup; auto.
Qed.

(* ------------------------------------------------------------------------------------------ *)
(* escape_ninja_path followed by ninja's lexer is the identity                                 *)

Local Open Scope N_scope.

(* the exact classes: a path survives iff it has no newline, CR, '|' or NUL; a value iff no newline, CR, NUL *)
Definition path_char (c : N) : Prop := c <> c_nl /\ c <> c_cr /\ c <> c_pipe /\ c <> c_nul.
Definition value_char (c : N) : Prop := c <> c_nl /\ c <> c_cr /\ c <> c_nul.
Definition path_terminator (c : N) : Prop := c = c_sp \/ c = c_colon \/ c = c_pipe \/ c = c_nl.

Lemma lex_cons : forall p m c r,
  lex p m (c :: r) =
  match lstep1 p m c with
  | Cont e m' => lcons e (lex p m' r)
  | StopBefore e => LDone e (c :: r)
  | StopAfter e => LDone e r
  | StopBeforeCR => LDone [] (c_cr :: c :: r)
  | LErr => LFail
  end.
Proof. reflexivity. Qed.

Lemma lstep0_text : forall p c,
  c <> c_dollar -> c <> c_nul -> c <> c_cr -> c <> c_nl ->
  (p = true -> c <> c_sp /\ c <> c_colon /\ c <> c_pipe) ->
  lstep0 p c = Cont [TLit c] M0.
Proof.
  intros p c H1 H2 H3 H4 H5. unfold lstep0.
  rewrite (proj2 (N.eqb_neq _ _) H1), (proj2 (N.eqb_neq _ _) H2), (proj2 (N.eqb_neq _ _) H3),
          (proj2 (N.eqb_neq _ _) H4).
  destruct p; [|destruct ((c =? c_sp) || (c =? c_colon) || (c =? c_pipe)); reflexivity].
  destruct (H5 eq_refl) as [A [B C]].
  rewrite (proj2 (N.eqb_neq _ _) A), (proj2 (N.eqb_neq _ _) B), (proj2 (N.eqb_neq _ _) C). reflexivity.
Qed.

Lemma lex_text : forall p c r,
  c <> c_dollar -> c <> c_nul -> c <> c_cr -> c <> c_nl ->
  (p = true -> c <> c_sp /\ c <> c_colon /\ c <> c_pipe) ->
  lex p M0 (c :: r) = lcons [TLit c] (lex p M0 r).
Proof. intros. rewrite lex_cons. unfold lstep1. rewrite lstep0_text; auto. Qed.

Lemma lcons_nil : forall r, lcons [] r = r.
Proof. destruct r; reflexivity. Qed.

Lemma lex_escaped : forall p c r, c = c_dollar \/ c = c_sp \/ c = c_colon ->
  lex p M0 (c_dollar :: c :: r) = lcons [TLit c] (lex p M0 r).
Proof.
  intros p c r [ -> | [ -> | -> ] ];
    match goal with |- _ = ?R => transitivity (lcons [] R); [reflexivity | apply lcons_nil] end.
Qed.

Lemma escape_cons : forall c s, escape (c :: s) = (if esc_special c then [c_dollar; c] else [c]) ++ escape s.
Proof. reflexivity. Qed.

Lemma esc_special_cases : forall c, esc_special c = true -> c = c_nl \/ c = c_sp \/ c = c_colon \/ c = c_dollar.
Proof.
  intros c H. unfold esc_special in H. rewrite !orb_true_iff, !N.eqb_eq in H. tauto.
Qed.

Lemma esc_special_not : forall c, esc_special c = false -> c <> c_nl /\ c <> c_sp /\ c <> c_colon /\ c <> c_dollar.
Proof.
  intros c H. unfold esc_special in H. rewrite !orb_false_iff, !N.eqb_neq in H. tauto.
Qed.

Lemma escape_roundtrip_gen : forall p s tail res,
  (forall c, In c s -> value_char c /\ (p = true -> c <> c_pipe)) ->
  lex p M0 tail = res ->
  lex p M0 (escape s ++ tail) = lcons (lits s) res.
Proof.
  induction s as [|c s IH]; intros tail res Hg Ht.
  - simpl. rewrite lcons_nil. exact Ht.
  - rewrite escape_cons. destruct (Hg c (or_introl eq_refl)) as [[G1 [G2 G3]] G4].
    assert (IH' := IH tail res (fun x h => Hg x (or_intror h)) Ht).
    destruct (esc_special c) eqn:E.
    + apply esc_special_cases in E. destruct E as [E|E]; [congruence|].
      simpl app. rewrite lex_escaped; [|tauto]. rewrite IH'. destruct res; reflexivity.
    + apply esc_special_not in E. destruct E as [E1 [E2 [E3 E4]]].
      assert (T : lex p M0 (c :: escape s ++ tail) = lcons [TLit c] (lex p M0 (escape s ++ tail))).
      { apply lex_text; auto. }
      simpl app. rewrite T, IH'. destruct res; reflexivity.
Qed.

Lemma lex_path_terminator : forall t rest, path_terminator t -> lex true M0 (t :: rest) = LDone [] (t :: rest).
Proof. intros t rest [ -> | [ -> | [ -> | -> ] ] ]; reflexivity. Qed.

Lemma escape_roundtrip_lemma : forall s t rest,
  (forall c, In c s -> path_char c) -> path_terminator t ->
  lex_path (escape s ++ t :: rest) = LDone (lits s) (t :: rest).
Proof.
  intros s t rest Hg Ht. unfold lex_path.
  rewrite (escape_roundtrip_gen true s (t :: rest) (LDone [] (t :: rest))).
  - simpl. rewrite app_nil_r. reflexivity.
  - intros c Hc. destruct (Hg c Hc) as [A [B [C D]]]. repeat split; auto.
  - apply lex_path_terminator; auto.
Qed.

Lemma escape_roundtrip_value_lemma : forall s rest,
  (forall c, In c s -> value_char c) ->
  lex_value (escape s ++ c_nl :: rest) = LDone (lits s) rest.
Proof.
  intros s rest Hg. unfold lex_value.
  rewrite (escape_roundtrip_gen false s (c_nl :: rest) (LDone [] rest)).
  - simpl. rewrite app_nil_r. reflexivity.
  - intros c Hc. split; [auto | discriminate].
  - reflexivity.
Qed.

(* `module = <name>` is written without escaping: it survives only without '$' *)
Lemma raw_value_lemma : forall s rest,
  (forall c, In c s -> value_char c /\ c <> c_dollar) ->
  lex_value (s ++ c_nl :: rest) = LDone (lits s) rest.
Proof.
  unfold lex_value. induction s as [|c s IH]; intros rest Hg; [reflexivity|].
  destruct (Hg c (or_introl eq_refl)) as [[G1 [G2 G3]] G4].
  simpl app. rewrite lex_text; auto; [|discriminate].
  rewrite IH; [reflexivity|]. intros x Hx. apply Hg. right; auto.
Qed.

(* the evaluated string is the original one whatever the variable environment *)
Lemma eval_lits : forall env s, eval_toks env (lits s) = s.
Proof. induction s as [|c s IH]; simpl; [reflexivity|]. rewrite IH. reflexivity. Qed.

(* ------------------------------------------------------------------------------------------ *)
(* reflection of the boolean well-formedness check, and the file order as a witness schedule   *)
Local Close Scope N_scope.

Lemma nodupN_NoDup : forall l, nodupN l = true -> NoDup l.
Proof.
  induction l as [|x r IH]; simpl; intros H; [constructor|].
  apply andb_true_iff in H. destruct H as [H1 H2]. constructor; auto.
  intro Hc. apply memN_In in Hc. rewrite Hc in H1. discriminate.
Qed.

Lemma deps_closedb_ok : forall ss seen, deps_closedb seen ss = true -> deps_closed seen ss.
Proof.
  induction ss as [|[g d] r IH]; simpl; intros seen H; auto.
  apply andb_true_iff in H. destruct H as [H1 H2]. split; auto.
  intros x Hx. rewrite forallb_forall in H1. apply memM_In. auto.
Qed.

Lemma wfb_wf : forall ss, wfb ss = true -> wf ss.
Proof.
  intros ss H. unfold wfb in H. apply andb_true_iff in H. destruct H. split.
  - apply nodupN_NoDup; auto.
  - apply deps_closedb_ok; auto.
Qed.

Definition file_rank (p : list step) (t : step) : nat := index_of (s_out t) (map s_out p).

Lemma file_order_respects_lemma : forall req ss s,
  setup_build req ss = Some s -> NoDup (map s_out (plan s)) ->
  respects (plan s) (file_rank (plan s)) (fun t => S (file_rank (plan s) t)) /\
  respects (plan s) (fun t => 2 * file_rank (plan s) t) (fun t => 2 * file_rank (plan s) t + 1).
Proof.
  intros req ss s H Hnd. unfold setup_build in H.
  assert (Hok : forall i, In i (yield_sorted_modules req ss) -> item_ok req i) by (intros; eapply yield_ok; eauto).
  assert (Hb : deps_back [] (plan s)).
  { eapply back_run; eauto; [apply inv0 | simpl; auto]. }
  split; split; intros.
  - lia.
  - pose proof (edge_rank _ Hb Hnd _ _ H0). unfold file_rank. lia.
  - lia.
  - pose proof (edge_rank _ Hb Hnd _ _ H0). unfold file_rank. lia.
Qed.
