(* C19 proofs about the plan construction (Plan/Model.v). *)
From Coq Require Import List NArith Bool Arith Lia Relations.
From PV Require Import Plan.Model.
Import ListNotations.

(* ------------------------------------------------------------------------------------------ *)
(* decidable equalities                                                                        *)

Lemma kind_eqb_eq : forall a b, kind_eqb a b = true <-> a = b.
Proof. destruct a, b; simpl; split; congruence. Qed.

Lemma module_eqb_eq : forall a b, module_eqb a b = true <-> a = b.
Proof.
  intros [p t n k f ky e] [p' t' n' k' f' ky' e']; unfold module_eqb; simpl.
  rewrite !andb_true_iff, !N.eqb_eq, kind_eqb_eq, Bool.eqb_true_iff.
  split.
  - intros [[[[[[? ?] ?] ?] ?] ?] ?]; subst; reflexivity.
  - intros H; inversion H; subst; repeat split; reflexivity.
Qed.

Lemma module_eqb_refl : forall a, module_eqb a a = true.
Proof. intros; apply module_eqb_eq; reflexivity. Qed.

Lemma module_eqb_neq : forall a b, module_eqb a b = false <-> a <> b.
Proof.
  intros a b; destruct (module_eqb a b) eqn:E.
  - apply module_eqb_eq in E; split; [discriminate | congruence].
  - split; [|reflexivity]. intros _ H. apply module_eqb_eq in H. congruence.
Qed.

Lemma path_eqb_eq : forall a b, path_eqb a b = true <-> a = b.
Proof.
  destruct a as [|k f], b as [|k' f']; simpl; try (split; congruence).
  rewrite andb_true_iff, N.eqb_eq, Bool.eqb_true_iff. split.
  - intros [? ?]; subst; reflexivity.
  - intros H; inversion H; auto.
Qed.

Lemma memN_In : forall x l, memN x l = true <-> In x l.
Proof.
  induction l as [|y r IH]; simpl; [split; [discriminate|tauto]|].
  rewrite orb_true_iff, N.eqb_eq, IH. split; intros [H|H]; auto.
Qed.

Lemma memM_In : forall x l, memM x l = true <-> In x l.
Proof.
  induction l as [|y r IH]; simpl; [split; [discriminate|tauto]|].
  rewrite orb_true_iff, module_eqb_eq, IH. split; intros [H|H]; auto.
Qed.

(* ------------------------------------------------------------------------------------------ *)
(* dictionaries                                                                                *)

Lemma lookup_cons_eq : forall {V} m (v : V) l, lookup m ((m, v) :: l) = Some v.
Proof. intros; simpl; rewrite module_eqb_refl; reflexivity. Qed.

Lemma lookup_cons_neq : forall {V} m m' (v : V) l, m <> m' -> lookup m ((m', v) :: l) = lookup m l.
Proof. intros; simpl. apply module_eqb_neq in H. rewrite H. reflexivity. Qed.

Lemma dict_set_in : forall k v l e, In e (dict_set k v l) -> e = (k, v) \/ In e l.
Proof.
  induction l as [|[k' v'] r IH]; simpl; intros e H.
  - destruct H as [H|[]]; auto.
  - destruct (k =? k')%N eqn:E.
    + apply N.eqb_eq in E; subst. destruct H as [H|H]; auto.
    + destruct H as [H|H]; auto. destruct (IH _ H); auto.
Qed.

Lemma dict_update_in : forall o d e, In e (dict_update d o) -> In e d \/ In e o.
Proof.
  unfold dict_update. induction o as [|[k v] r IH]; simpl; intros d e H; auto.
  apply IH in H. destruct H as [H|H]; auto.
  apply dict_set_in in H. destruct H as [H|H]; auto.
Qed.

Lemma gim_entries : forall deps m2i m2o acc im e,
  get_imports_map deps m2i m2o acc = Some im -> In e im ->
  In e acc \/
  exists d, In d deps /\
    ((exists imd, lookup d m2i = Some imd /\ In e imd) \/ (lookup d m2o = Some (snd e) /\ fst e = m_key d)).
Proof.
  induction deps as [|m r IH]; simpl; intros m2i m2o acc im e H Hin.
  - inversion H; subst; auto.
  - destruct (lookup m m2o) as [o|] eqn:Eo; [|discriminate].
    specialize (IH _ _ _ _ _ H Hin). destruct IH as [Ha | [d [Hd Hx]]].
    + apply dict_set_in in Ha. destruct Ha as [Ha|Ha].
      * subst e. right. exists m. split; auto.
      * destruct (lookup m m2i) as [imd|] eqn:Ei.
        -- apply dict_update_in in Ha. destruct Ha as [Ha|Ha]; auto.
           right. exists m. split; auto. left. exists imd; auto.
        -- auto.
    + right. exists d. split; auto.
Qed.

Lemma gim_some : forall deps m2i m2o acc,
  (forall d, In d deps -> lookup d m2o <> None) -> get_imports_map deps m2i m2o acc <> None.
Proof.
  induction deps as [|m r IH]; simpl; intros m2i m2o acc H; [discriminate|].
  destruct (lookup m m2o) eqn:E; [|exfalso; apply (H m); auto].
  apply IH. intros; apply H; auto.
Qed.

Lemma dd_some : forall deps m2o,
  (forall d, In d deps -> lookup d m2o <> None) -> declared_deps deps m2o <> None.
Proof.
  induction deps as [|m r IH]; simpl; intros m2o H; [discriminate|].
  destruct (lookup m m2o) eqn:E; [|exfalso; apply (H m); auto].
  specialize (IH m2o). destruct (declared_deps r m2o); [discriminate|].
  exfalso; apply IH; auto.
Qed.

Lemma dd_covers : forall deps m2o ds d o,
  declared_deps deps m2o = Some ds -> In d deps -> lookup d m2o = Some o -> o <> PDefault -> In o ds.
Proof.
  induction deps as [|m r IH]; simpl; intros m2o ds d o H Hin Hl Hne; [tauto|].
  destruct (lookup m m2o) as [om|] eqn:Em; [|discriminate].
  destruct (declared_deps r m2o) as [ds'|] eqn:Ed; [|discriminate].
  inversion H; subst; clear H.
  destruct Hin as [->|Hin].
  - rewrite Hl in Em; inversion Em; subst.
    destruct (path_eqb om PDefault) eqn:E; [apply path_eqb_eq in E; congruence | left; reflexivity].
  - specialize (IH _ _ _ _ Ed Hin Hl Hne).
    destruct (path_eqb om PDefault); auto. right; auto.
Qed.

Lemma dd_sound : forall deps m2o ds p,
  declared_deps deps m2o = Some ds -> In p ds ->
  p <> PDefault /\ exists d, In d deps /\ lookup d m2o = Some p.
Proof.
  induction deps as [|m r IH]; simpl; intros m2o ds p H Hin.
  - inversion H; subst; destruct Hin.
  - destruct (lookup m m2o) as [om|] eqn:Em; [|discriminate].
    destruct (declared_deps r m2o) as [ds'|] eqn:Ed; [|discriminate].
    inversion H; subst; clear H.
    destruct (path_eqb om PDefault) eqn:E.
    + destruct (IH _ _ _ Ed Hin) as [? [d [? ?]]]. split; auto. exists d; auto.
    + destruct Hin as [<-|Hin].
      * split. { intro Hc. subst. simpl in E. discriminate. } exists m; auto.
      * destruct (IH _ _ _ Ed Hin) as [? [d [? ?]]]. split; auto. exists d; auto.
Qed.

(* ------------------------------------------------------------------------------------------ *)
(* items produced by yield_sorted_modules                                                      *)

Definition item_ok (req : list N) (i : item) : Prop :=
  is_default (it_act i) = is_default (get_module_action req (it_mod i)) /\
  (is_first (it_stage i) = true -> is_check (it_act i) = false) /\
  (is_first (it_stage i) = false -> it_act i = get_module_action req (it_mod i)).

Lemma yield_group_ok : forall req g i, In i (yield_group req g) -> item_ok req i.
Proof.
  intros req [group deps] i. unfold yield_group.
  set (modules := map (fun m => (m, get_module_action req m)) group).
  assert (Hm : forall ma, In ma modules -> snd ma = get_module_action req (fst ma)).
  { intros ma H. unfold modules in H. apply in_map_iff in H. destruct H as [m [<- _]]. reflexivity. }
  assert (Hcyc : In i (map (fun ma : module * action =>
                        (fst ma, (if is_check (snd ma) then INFER else snd ma), deps, FIRST_PASS)) modules ++
               flat_map (fun ma : module * action =>
                        if is_default (snd ma) then [] else [(fst ma, snd ma, deps ++ map fst modules, SECOND_PASS)])
                        modules) -> item_ok req i).
  { intros H. apply in_app_or in H. destruct H as [H|H].
    - apply in_map_iff in H. destruct H as [[m a] [<- Hin]]. specialize (Hm _ Hin). simpl in *. subst a.
      unfold item_ok, it_act, it_mod, it_stage; simpl.
      destruct (get_module_action req m); simpl; repeat split; auto; discriminate.
    - apply in_flat_map in H. destruct H as [[m a] [Hin H]]. specialize (Hm _ Hin). simpl in *. subst a.
      destruct (is_default (get_module_action req m)) eqn:E; [destruct H|].
      destruct H as [<-|[]]. unfold item_ok, it_act, it_mod, it_stage; simpl. repeat split; auto. discriminate. }
  destruct modules as [|[m a] [|ma2 rest]] eqn:Emod.
  - intros H; apply Hcyc; exact H.
  - intros [<-|[]]. specialize (Hm (m, a) (or_introl eq_refl)). simpl in Hm. subst a.
    unfold item_ok, it_act, it_mod, it_stage; simpl. repeat split; auto. discriminate.
  - intros H; apply Hcyc; exact H.
Qed.

Lemma yield_ok : forall req ss i, In i (yield_sorted_modules req ss) -> item_ok req i.
Proof.
  intros req ss i H. unfold yield_sorted_modules in H. apply in_flat_map in H.
  destruct H as [g [_ H]]. eapply yield_group_ok; eauto.
Qed.

(* ------------------------------------------------------------------------------------------ *)
(* run                                                                                         *)

Lemma run_app : forall req a b s,
  run req (a ++ b) s = match run req a s with Some s' => run req b s' | None => None end.
Proof.
  induction a as [|i r IH]; simpl; intros b s; [reflexivity|].
  destruct (setup_step req s i); [apply IH | reflexivity].
Qed.

(* the three outcomes of one step *)
Lemma setup_step_cases : forall req s i s',
  setup_step req s i = Some s' ->
  (all_requested_done req (files s) = true /\ s' = s) \/
  (all_requested_done req (files s) = false /\ is_default (it_act i) = true /\
   s' = St (files s) (m2imp s) ((it_mod i, PDefault) :: m2out s) (plan s) (store s)) \/
  (all_requested_done req (files s) = false /\ is_default (it_act i) = false /\
   exists im ds,
     get_imports_map (it_deps i) (m2imp s) (m2out s) [] = Some im /\
     declared_deps (it_deps i) (m2out s) = Some ds /\
     let m := it_mod i in
     let fst_ := is_first (it_stage i) in
     let out := PPyi (m_key m) fst_ in
     s' = St (if fst_ then files s else m_full m :: files s) ((m, im) :: m2imp s) ((m, out) :: m2out s)
             (plan s ++ [Step out (it_act i) (m_full m) ds (m_name m, fst_) im (m_name m)])
             (((m_name m, fst_), im) :: store s)).
Proof.
  intros req s [[[m a] deps] stg] s' H. unfold setup_step in H. unfold it_act, it_mod, it_deps, it_stage; simpl.
  destruct (all_requested_done req (files s)) eqn:Ed.
  - inversion H; auto.
  - destruct (is_default a) eqn:Ea.
    + inversion H; auto.
    + right; right. split; [reflexivity|]. split; [reflexivity|].
      destruct (get_imports_map deps (m2imp s) (m2out s) []) as [im|]; [|discriminate].
      destruct (declared_deps deps (m2out s)) as [ds|]; [|discriminate].
      exists im, ds. inversion H. split; [reflexivity|]. split; reflexivity.
Qed.

(* ------------------------------------------------------------------------------------------ *)
(* ancestors through declared dependencies                                                     *)

Definition anc (p : list step) : step -> step -> Prop := clos_trans step (dep_edge p).

Lemma dep_edge_mono : forall p t a b, dep_edge p a b -> dep_edge (p ++ [t]) a b.
Proof. intros p t a b [H1 [H2 H3]]. repeat split; auto; apply in_or_app; auto. Qed.

Lemma anc_mono : forall p t a b, anc p a b -> anc (p ++ [t]) a b.
Proof.
  intros p t a b H. induction H.
  - apply t_step. apply dep_edge_mono; auto.
  - eapply t_trans; eauto.
Qed.

Definition entry_ok (p : list step) (t : step) (e : N * path) : Prop :=
  snd e = PDefault \/ exists t', In t' p /\ s_out t' = snd e /\ anc p t' t.

Record inv (req : list N) (s : st) : Prop := {
  inv_imp : forall m im, lookup m (m2imp s) = Some im ->
            exists t, In t (plan s) /\ s_imports t = im /\ lookup m (m2out s) = Some (s_out t);
  inv_out : forall m p, lookup m (m2out s) = Some p -> p <> PDefault -> exists t, In t (plan s) /\ s_out t = p;
  inv_act : forall m, lookup m (m2imp s) <> None -> is_default (get_module_action req m) = false;
  inv_nd  : forall t, In t (plan s) -> s_out t <> PDefault;
  inv_ent : forall t e, In t (plan s) -> In e (s_imports t) -> entry_ok (plan s) t e }.

Lemma inv0 : forall req, inv req st0.
Proof.
  intros req. constructor; simpl; intros; try discriminate; try tauto.
Qed.

Lemma inv_step : forall req s i s',
  item_ok req i -> inv req s -> setup_step req s i = Some s' -> inv req s'.
Proof.
  intros req s i s' Hok Hinv Hs.
  destruct (setup_step_cases _ _ _ _ Hs) as [[_ ->] | [[_ [Hd ->]] | [_ [Hnd [im [ds [Hg [Hdd Hs']]]]]]]]; auto.
  - (* generate default *)
    destruct Hinv as [Hi Ho Ha Hn He]. constructor; simpl; auto.
    + intros m im Hl. destruct (Hi _ _ Hl) as [t [H1 [H2 H3]]].
      exists t. repeat split; auto.
      destruct (module_eqb m (it_mod i)) eqn:E; auto.
      apply module_eqb_eq in E. subst m.
      assert (lookup (it_mod i) (m2imp s) <> None) by congruence.
      apply Ha in H. destruct Hok as [Hk _]. congruence.
    + intros m p Hl Hne. destruct (module_eqb m (it_mod i)) eqn:E.
      * inversion Hl; congruence.
      * eauto.
  - (* a build statement *)
    simpl in Hs'. set (m := it_mod i) in *. set (f := is_first (it_stage i)) in *.
    set (t := Step (PPyi (m_key m) f) (it_act i) (m_full m) ds (m_name m, f) im (m_name m)) in *.
    destruct Hinv as [Hi Ho Ha Hn He]. subst s'. constructor; simpl.
    + intros m' im' Hl. destruct (module_eqb m' m) eqn:E.
      * inversion Hl; subst im'. exists t. split; [apply in_or_app; right; left; reflexivity|]. auto.
      * destruct (Hi _ _ Hl) as [t0 [H1 [H2 H3]]]. exists t0. split; [apply in_or_app; auto|]. auto.
    + intros m' p Hl Hne. destruct (module_eqb m' m) eqn:E.
      * inversion Hl; subst p. exists t. split; [apply in_or_app; right; left; reflexivity|]. reflexivity.
      * destruct (Ho _ _ Hl Hne) as [t0 [H1 H2]]. exists t0. split; [apply in_or_app; auto|]. auto.
    + intros m' Hl. destruct (module_eqb m' m) eqn:E.
      * apply module_eqb_eq in E. subst m'. destruct Hok as [Hk _]. unfold m. congruence.
      * apply Ha; auto.
    + intros t0 Hin. apply in_app_or in Hin. destruct Hin as [Hin|[<-|[]]]; auto. simpl. discriminate.
    + intros t0 e Hin He0. apply in_app_or in Hin. destruct Hin as [Hin|[<-|[]]].
      * destruct (He _ _ Hin He0) as [Hd | [t' [H1 [H2 H3]]]]; [left; auto|].
        right. exists t'. split; [apply in_or_app; auto|]. split; auto. apply anc_mono; auto.
      * simpl in He0.
        assert (Hedge : forall d t0, In d (it_deps i) -> In t0 (plan s) -> lookup d (m2out s) = Some (s_out t0) ->
                        dep_edge (plan s ++ [t]) t0 t).
        { intros d t0 Hd Hin Hl. repeat split.
          - apply in_or_app; auto.
          - apply in_or_app; right; left; reflexivity.
          - simpl. eapply dd_covers; eauto. }
        destruct (gim_entries _ _ _ _ _ _ Hg He0) as [[] | [d [Hd [[imd [Hl Hin]] | [Hl Hk]]]]].
        -- destruct (Hi _ _ Hl) as [t0 [H1 [H2 H3]]]. subst imd.
           destruct (He _ _ H1 Hin) as [Hdef | [t' [H4 [H5 H6]]]]; [left; auto|].
           right. exists t'. split; [apply in_or_app; auto|]. split; auto.
           eapply t_trans; [apply anc_mono; eauto|]. apply t_step. eapply Hedge; eauto.
        -- destruct (path_eqb (snd e) PDefault) eqn:Ep; [left; apply path_eqb_eq; auto|].
           assert (snd e <> PDefault) by (intro Hc; apply path_eqb_eq in Hc; congruence).
           destruct (Ho _ _ Hl H) as [t0 [H1 H2]].
           right. exists t0. split; [apply in_or_app; auto|]. split; auto.
           apply t_step. eapply Hedge; eauto. rewrite H2; auto.
Qed.

Lemma inv_run : forall req items s s',
  (forall i, In i items -> item_ok req i) -> inv req s -> run req items s = Some s' -> inv req s'.
Proof.
  induction items as [|i r IH]; simpl; intros s s' Hok Hinv H.
  - inversion H; subst; auto.
  - destruct (setup_step req s i) as [s1|] eqn:E; [|discriminate].
    apply (IH s1 s'); auto. eapply inv_step; eauto.
Qed.

Lemma imports_entries_produced_lemma : forall req ss s,
  setup_build req ss = Some s ->
  forall t k p, In t (plan s) -> In (k, p) (s_imports t) ->
  p = PDefault \/ exists t', In t' (plan s) /\ s_out t' = p /\ clos_trans step (dep_edge (plan s)) t' t.
Proof.
  intros req ss s H t k p Hin He. unfold setup_build in H.
  assert (Hinv : inv req s).
  { eapply inv_run; eauto; [|apply inv0]. intros; eapply yield_ok; eauto. }
  destruct (inv_ent _ _ Hinv _ _ Hin He) as [Hd|Hx]; auto.
Qed.

(* ------------------------------------------------------------------------------------------ *)
(* every schedule consistent with the declared dependencies                                    *)

(* A (parallel) schedule gives every statement a start and a finish time; the build tool starts a
   statement only when every statement producing one of its declared inputs has finished. *)
Definition respects (p : list step) (start finish : step -> nat) : Prop :=
  (forall t, In t p -> start t <= finish t) /\
  (forall a b, dep_edge p a b -> finish a <= start b).

Lemma anc_finishes_before : forall p start finish a b,
  respects p start finish -> anc p a b -> finish a <= start b.
Proof.
  intros p start finish a b [Hle Hdep] H. induction H as [a b H | a c b H1 IH1 H2 IH2].
  - apply Hdep; auto.
  - assert (In c p).
    { clear -H2. induction H2 as [x y [? [? ?]] | ]; auto. }
    specialize (Hle c H). lia.
Qed.

Lemma any_schedule_safe_lemma : forall req ss s start finish,
  setup_build req ss = Some s -> respects (plan s) start finish ->
  forall t k p, In t (plan s) -> In (k, p) (s_imports t) -> p <> PDefault ->
  exists t', In t' (plan s) /\ s_out t' = p /\ finish t' <= start t.
Proof.
  intros req ss s start finish H Hr t k p Hin He Hne.
  destruct (imports_entries_produced_lemma _ _ _ H _ _ _ Hin He) as [Hd | [t' [H1 [H2 H3]]]]; [congruence|].
  exists t'. repeat split; auto. eapply anc_finishes_before; eauto.
Qed.

(* sequential schedules: any linearisation in which every declared dependency comes first *)
Definition topological (p sigma : list step) : Prop :=
  forall l1 t l2, sigma = l1 ++ t :: l2 -> forall t', dep_edge p t' t -> In t' l1.

Lemma anc_occurs_before : forall p sigma, topological p sigma ->
  forall a b, anc p a b -> forall l1 l2, sigma = l1 ++ b :: l2 -> In a l1.
Proof.
  intros p sigma Ht a b H. induction H as [a b H | a c b H1 IH1 H2 IH2]; intros l1 l2 Hs.
  - eapply Ht; eauto.
  - specialize (IH2 _ _ Hs). apply in_split in IH2. destruct IH2 as [la [lb ->]].
    rewrite <- app_assoc in Hs. simpl in Hs.
    specialize (IH1 _ _ Hs). apply in_or_app; auto.
Qed.

Lemma any_linear_schedule_safe_lemma : forall req ss s sigma,
  setup_build req ss = Some s -> topological (plan s) sigma ->
  forall l1 t l2 k p, sigma = l1 ++ t :: l2 -> In t (plan s) -> In (k, p) (s_imports t) -> p <> PDefault ->
  exists t', In t' l1 /\ s_out t' = p.
Proof.
  intros req ss s sigma H Ht l1 t l2 k p Hs Hin He Hne.
  destruct (imports_entries_produced_lemma _ _ _ H _ _ _ Hin He) as [Hd | [t' [H1 [H2 H3]]]]; [congruence|].
  exists t'. split; auto. eapply anc_occurs_before; eauto.
Qed.

(* ------------------------------------------------------------------------------------------ *)
(* declared dependencies point backwards in the file                                           *)

Fixpoint deps_back (pre l : list step) : Prop :=
  match l with
  | [] => True
  | t :: r => (forall p, In p (s_deps t) -> exists t', In t' pre /\ s_out t' = p) /\ deps_back (pre ++ [t]) r
  end.

Lemma deps_back_snoc : forall l pre t,
  deps_back pre l -> (forall p, In p (s_deps t) -> exists t', In t' (pre ++ l) /\ s_out t' = p) ->
  deps_back pre (l ++ [t]).
Proof.
  induction l as [|x r IH]; simpl; intros pre t H Ht.
  - split; auto. intros p Hp. rewrite app_nil_r in Ht. auto.
  - destruct H as [H1 H2]. split; auto. apply IH; auto.
    intros p Hp. rewrite <- app_assoc. simpl. auto.
Qed.

Lemma deps_back_split : forall a pre l t b,
  deps_back pre l -> l = a ++ t :: b -> forall p, In p (s_deps t) -> exists t', In t' (pre ++ a) /\ s_out t' = p.
Proof.
  induction a as [|x r IH]; simpl; intros pre l t b H -> p Hp.
  - destruct H as [H _]. rewrite app_nil_r. auto.
  - destruct H as [_ H]. destruct (IH _ _ _ _ H eq_refl _ Hp) as [t' [H1 H2]].
    exists t'. split; auto. rewrite <- app_assoc in H1. exact H1.
Qed.

Lemma back_step : forall req s i s',
  inv req s -> deps_back [] (plan s) -> setup_step req s i = Some s' -> deps_back [] (plan s').
Proof.
  intros req s i s' Hinv Hb Hs.
  destruct (setup_step_cases _ _ _ _ Hs) as [[_ ->] | [[_ [Hd ->]] | [_ [Hnd [im [ds [Hg [Hdd Hs']]]]]]]]; auto.
  simpl in Hs'. subst s'. simpl. apply deps_back_snoc; auto. simpl.
  intros p Hp. destruct (dd_sound _ _ _ _ Hdd Hp) as [Hne [d [_ Hl]]].
  destruct (inv_out _ _ Hinv _ _ Hl Hne) as [t' [H1 H2]]. exists t'; auto.
Qed.

Lemma back_run : forall req items s s',
  (forall i, In i items -> item_ok req i) -> inv req s -> deps_back [] (plan s) ->
  run req items s = Some s' -> deps_back [] (plan s').
Proof.
  induction items as [|i r IH]; simpl; intros s s' Hok Hinv Hb H.
  - inversion H; subst; auto.
  - destruct (setup_step req s i) as [s1|] eqn:E; [|discriminate].
    apply (IH s1 s'); auto.
    + eapply inv_step; eauto.
    + eapply back_step; eauto.
Qed.

Fixpoint index_of (x : path) (l : list path) : nat :=
  match l with [] => 0 | y :: r => if path_eqb x y then 0 else S (index_of x r) end.

Lemma index_of_in_app : forall x l1 l2, In x l1 -> index_of x (l1 ++ l2) = index_of x l1 /\ index_of x l1 < length l1.
Proof.
  induction l1 as [|y r IH]; simpl; intros l2 H; [tauto|].
  destruct (path_eqb x y) eqn:E; [split; [reflexivity|lia]|].
  destruct H as [->|H]; [assert (path_eqb x x = true) by (apply path_eqb_eq; reflexivity); congruence|].
  destruct (IH l2 H). split; lia.
Qed.

Lemma index_of_first : forall x l1 l2, ~ In x l1 -> index_of x (l1 ++ x :: l2) = length l1.
Proof.
  induction l1 as [|y r IH]; simpl; intros l2 H.
  - assert (path_eqb x x = true) by (apply path_eqb_eq; reflexivity). rewrite H0. reflexivity.
  - destruct (path_eqb x y) eqn:E; [apply path_eqb_eq in E; subst; tauto|].
    rewrite IH; auto.
Qed.

Lemma edge_rank : forall p, deps_back [] p -> NoDup (map s_out p) ->
  forall a b, dep_edge p a b -> index_of (s_out a) (map s_out p) < index_of (s_out b) (map s_out p).
Proof.
  intros p Hb Hnd a b [Ha [Hbn He]].
  apply in_split in Hbn. destruct Hbn as [l1 [l2 Hp]].
  destruct (deps_back_split _ _ _ _ _ Hb Hp _ He) as [t' [H1 H2]]. simpl in H1.
  rewrite Hp in *. rewrite map_app in *. simpl in *.
  assert (Hin : In (s_out a) (map s_out l1)) by (rewrite <- H2; apply in_map; auto).
  destruct (index_of_in_app _ _ (s_out b :: map s_out l2) Hin) as [E1 E2]. rewrite E1.
  rewrite index_of_first.
  - rewrite map_length in E2. rewrite map_length. exact E2.
  - apply NoDup_remove_2 in Hnd. intro Hc. apply Hnd. apply in_or_app; auto.
Qed.

Lemma plan_acyclic_lemma : forall req ss s,
  setup_build req ss = Some s -> NoDup (map s_out (plan s)) ->
  forall t, ~ clos_trans step (dep_edge (plan s)) t t.
Proof.
  intros req ss s H Hnd t Hc. unfold setup_build in H.
  assert (Hok : forall i, In i (yield_sorted_modules req ss) -> item_ok req i) by (intros; eapply yield_ok; eauto).
  assert (Hb : deps_back [] (plan s)).
  { eapply back_run; eauto; [apply inv0 | simpl; auto]. }
  assert (Hlt : forall a b, clos_trans step (dep_edge (plan s)) a b ->
                index_of (s_out a) (map s_out (plan s)) < index_of (s_out b) (map s_out (plan s))).
  { intros a b Hab. induction Hab; [apply edge_rank; auto | lia]. }
  specialize (Hlt _ _ Hc). lia.
Qed.
