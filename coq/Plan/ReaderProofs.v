(* C19 extension (a): PytypeRunner.write_imports followed by imports_map_loader's reader is the identity on the
   imports maps the plan writes.  Model: Plan/Text.v. *)
From Coq Require Import List NArith Bool Arith Lia.
From PV Require Import Plan.Model Plan.Text.
Import ListNotations.
Local Open Scope N_scope.

(* ------------------------------------------------------------------------------------------ *)
(* strings *)

Lemma str_eqb_eq : forall a b, str_eqb a b = true <-> a = b.
Proof.
  induction a as [|x a IH]; destruct b as [|y b]; simpl; split; intros H; try discriminate; auto.
  - apply andb_true_iff in H. destruct H as [H1 H2]. apply N.eqb_eq in H1. apply IH in H2. congruence.
  - inversion H; subst. rewrite N.eqb_refl. simpl. apply IH. reflexivity.
Qed.

Lemma str_eqb_refl : forall a, str_eqb a a = true.
Proof. intros. apply str_eqb_eq. reflexivity. Qed.

Lemma str_eqb_neq : forall a b, str_eqb a b = false <-> a <> b.
Proof.
  intros a b. split; intros H.
  - intro E. apply str_eqb_eq in E. congruence.
  - destruct (str_eqb a b) eqn:E; auto. apply str_eqb_eq in E. contradiction.
Qed.

Lemma mem_str_In : forall x l, mem_str x l = true <-> In x l.
Proof.
  induction l as [|y r IH]; simpl; split; intros H; try discriminate; try contradiction.
  - apply orb_true_iff in H. destruct H as [H|H]; [left; symmetry; apply str_eqb_eq; auto | right; apply IH; auto].
  - apply orb_true_iff. destruct H as [H|H]; [left; apply str_eqb_eq; auto | right; apply IH; auto].
Qed.

Definition no_char (c0 : N) (s : str) : bool := forallb (fun c => negb (c =? c0)) s.

Lemma no_char_In : forall c0 s, no_char c0 s = true <-> ~ In c0 s.
Proof.
  induction s as [|c s IH]; simpl; split; intros H; auto.
  - apply andb_true_iff in H. destruct H as [H1 H2]. apply negb_true_iff, N.eqb_neq in H1.
    intros [E|E]; [congruence | apply IH in H2; contradiction].
  - apply andb_true_iff. split.
    + apply negb_true_iff, N.eqb_neq. intro E. apply H. left; auto.
    + apply IH. intro E. apply H. right; auto.
Qed.

Lemma no_char_app : forall c0 a b, no_char c0 (a ++ b) = no_char c0 a && no_char c0 b.
Proof. intros. unfold no_char. apply forallb_app. Qed.

(* ------------------------------------------------------------------------------------------ *)
(* the hypotheses, as booleans (the check evaluates the same definitions on every written file)   *)

(* a key survives iff it is non-empty, does not start with a str.isspace() character, and contains no
   space, "\n" or "\r" *)
Definition key_ok (k : str) : bool :=
  match k with [] => false | c :: _ => negb (py_space c) end
  && no_char c_sp k && no_char c_nl k && no_char c_cr k.

(* a value survives iff it is non-empty, does not end with a str.isspace() character and contains no "\n"
   or "\r" (spaces, colons, dollars and leading blanks are fine) *)
Definition val_ok (v : str) : bool :=
  match rev v with [] => false | c :: _ => negb (py_space c) end
  && no_char c_nl v && no_char c_cr v.

Definition items_ok (im : items) : bool := forallb (fun kv => key_ok (fst kv) && val_ok (snd kv)) im.

(* ------------------------------------------------------------------------------------------ *)
(* reading *)

Lemma univ_nl_id : forall s, no_char c_cr s = true -> univ_nl s = s.
Proof.
  induction s as [|c s IH]; simpl; intros H; auto.
  apply andb_true_iff in H. destruct H as [H1 H2]. apply negb_true_iff in H1. rewrite H1.
  rewrite IH; auto.
Qed.

Lemma lines_line : forall l rest, no_char c_nl l = true ->
  lines (l ++ c_nl :: rest) = (l ++ [c_nl]) :: lines rest.
Proof.
  induction l as [|c l IH]; intros rest H.
  - reflexivity.
  - simpl in H. apply andb_true_iff in H. destruct H as [H1 H2]. apply negb_true_iff in H1.
    simpl. rewrite H1. rewrite IH; auto.
Qed.

Lemma lstrip_keep : forall c r, py_space c = false -> lstrip (c :: r) = c :: r.
Proof. intros. simpl. rewrite H. reflexivity. Qed.

Lemma rstrip_nl : forall x c, py_space c = false -> rstrip (x ++ [c] ++ [c_nl]) = x ++ [c].
Proof.
  intros x c H. unfold rstrip. rewrite app_assoc, rev_app_distr. simpl rev at 1. simpl app at 1.
  change (lstrip (c_nl :: rev (x ++ [c]))) with (lstrip (rev (x ++ [c]))).
  rewrite rev_app_distr. simpl. rewrite H. simpl. rewrite rev_involutive. reflexivity.
Qed.

Lemma split1_key : forall k v, no_char c_sp k = true -> split1 (k ++ c_sp :: v) = Some (k, v).
Proof.
  induction k as [|c k IH]; intros v H.
  - reflexivity.
  - simpl in H. apply andb_true_iff in H. destruct H as [H1 H2]. apply negb_true_iff in H1.
    simpl. rewrite H1. rewrite IH; auto.
Qed.

Lemma rev_head : forall (v : str) c r, rev v = c :: r -> v = rev r ++ [c].
Proof. intros v c r H. rewrite <- (rev_involutive v), H. reflexivity. Qed.

Lemma strip_line : forall k v, key_ok k = true -> val_ok v = true ->
  strip (k ++ c_sp :: v ++ [c_nl]) = k ++ c_sp :: v.
Proof.
  intros k v Hk Hv. unfold key_ok in Hk. unfold val_ok in Hv.
  destruct k as [|c k]; [discriminate|].
  rewrite !andb_true_iff in Hk. destruct Hk as [[[Hk1 _] _] _]. apply negb_true_iff in Hk1.
  destruct (rev v) as [|d r] eqn:E; [discriminate|].
  rewrite !andb_true_iff in Hv. destruct Hv as [[Hv1 _] _]. apply negb_true_iff in Hv1.
  apply rev_head in E. subst v. unfold strip.
  change ((c :: k) ++ c_sp :: (rev r ++ [d]) ++ [c_nl]) with (c :: (k ++ c_sp :: (rev r ++ [d]) ++ [c_nl])).
  rewrite lstrip_keep; auto.
  replace (c :: k ++ c_sp :: (rev r ++ [d]) ++ [c_nl]) with ((c :: k ++ c_sp :: rev r) ++ [d] ++ [c_nl]).
  - rewrite rstrip_nl; auto. simpl. rewrite <- !app_assoc. reflexivity.
  - simpl. rewrite <- !app_assoc. reflexivity.
Qed.

Lemma read_items_line : forall k v ls, key_ok k = true -> val_ok v = true ->
  read_items ((k ++ c_sp :: v ++ [c_nl]) :: ls) =
  match read_items ls with Some its => Some ((k, v) :: its) | None => None end.
Proof.
  intros k v ls Hk Hv.
  assert (Hsp : no_char c_sp k = true).
  { unfold key_ok in Hk. rewrite !andb_true_iff in Hk. tauto. }
  cbn [read_items]. rewrite strip_line; auto.
  destruct k as [|c k]; [discriminate|].
  cbn [app]. change (c :: k ++ c_sp :: v) with ((c :: k) ++ c_sp :: v).
  rewrite split1_key; auto.
Qed.

Lemma write_no_cr : forall im, items_ok im = true -> no_char c_cr (write_imports im) = true.
Proof.
  induction im as [|[k v] im IH]; simpl; intros H; auto.
  apply andb_true_iff in H. destruct H as [H1 H2]. apply andb_true_iff in H1. destruct H1 as [Hk Hv].
  unfold key_ok in Hk. unfold val_ok in Hv. rewrite !andb_true_iff in Hk, Hv.
  fold (write_imports im).
  change (no_char c_cr ((k ++ c_sp :: v ++ [c_nl]) ++ write_imports im) = true).
  rewrite no_char_app. rewrite IH; auto. rewrite no_char_app. simpl. rewrite no_char_app. simpl.
  destruct Hk as [_ Hk]. destruct Hv as [_ Hv]. rewrite Hk, Hv. reflexivity.
Qed.

Lemma read_write_lines : forall im, items_ok im = true ->
  read_items (lines (write_imports im)) = Some im.
Proof.
  induction im as [|[k v] im IH]; simpl; intros H; auto.
  apply andb_true_iff in H. destruct H as [H1 H2]. apply andb_true_iff in H1. destruct H1 as [Hk Hv].
  fold (write_imports im).
  assert (Hnl : no_char c_nl (k ++ c_sp :: v) = true).
  { unfold key_ok in Hk. unfold val_ok in Hv. rewrite !andb_true_iff in Hk, Hv.
    rewrite no_char_app. simpl. destruct Hk as [[_ Hk] _]. destruct Hv as [[_ Hv] _]. rewrite Hk, Hv. reflexivity. }
  replace ((k ++ c_sp :: v ++ [c_nl]) ++ write_imports im) with ((k ++ c_sp :: v) ++ c_nl :: write_imports im)
    by (rewrite <- !app_assoc; simpl; rewrite <- !app_assoc; reflexivity).
  rewrite lines_line; auto.
  replace ((k ++ c_sp :: v) ++ [c_nl]) with (k ++ c_sp :: v ++ [c_nl]) by (rewrite <- !app_assoc; reflexivity).
  rewrite read_items_line; auto. rewrite IH; auto.
Qed.

Theorem imports_file_roundtrip_lemma : forall im, items_ok im = true ->
  read_from_file (write_imports im) = Some im.
Proof.
  intros im H. unfold read_from_file. rewrite univ_nl_id; [|apply write_no_cr; auto].
  apply read_write_lines; auto.
Qed.

(* ------------------------------------------------------------------------------------------ *)
(* the values the plan writes are always fine: join(dir, key + '.pyi' [+ '-1']) and join(dir, 'default.pyi')
   never end in white space; they contain a line break only if the directory or the key does *)

Definition clean (s : str) : bool := no_char c_nl s && no_char c_cr s.

Lemma join2_shape : forall a b, b <> [] ->
  exists X, join2 a b = X ++ b /\ forall c, In c X -> In c a \/ c = c_slash.
Proof.
  intros a b Hb. destruct b as [|c b]; [contradiction|]. unfold join2.
  destruct (c =? c_slash).
  - exists []. split; auto. intros x [].
  - destruct (is_nil a || ends_with_slash a).
    + exists a. split; auto.
    + exists (a ++ [c_slash]). split; [rewrite <- app_assoc; reflexivity|].
      intros x Hx. apply in_app_or in Hx. destruct Hx as [Hx|[Hx|[]]]; auto.
Qed.

Lemma clean_app : forall a b, clean (a ++ b) = clean a && clean b.
Proof.
  intros. unfold clean. rewrite !no_char_app.
  destruct (no_char c_nl a), (no_char c_nl b), (no_char c_cr a), (no_char c_cr b); reflexivity.
Qed.

Lemma clean_forall : forall s, clean s = true <-> (forall c, In c s -> c <> c_nl /\ c <> c_cr).
Proof.
  intros s. unfold clean. rewrite andb_true_iff, !no_char_In. split.
  - intros [A B] c Hc. split; intro E; subst; contradiction.
  - intros H. split; intro Hc; apply H in Hc; destruct Hc; congruence.
Qed.

Lemma val_ok_join : forall a b0 d, clean a = true -> clean (b0 ++ [d]) = true -> py_space d = false ->
  val_ok (join2 a (b0 ++ [d])) = true.
Proof.
  intros a b0 d Ha Hb Hd.
  destruct (join2_shape a (b0 ++ [d])) as [X [E HX]]; [destruct b0; discriminate|].
  rewrite E. unfold val_ok. rewrite app_assoc, rev_app_distr. simpl. rewrite Hd. simpl.
  assert (C : clean ((X ++ b0) ++ [d]) = true).
  { rewrite <- app_assoc. rewrite clean_app. rewrite Hb. rewrite andb_true_r.
    apply clean_forall. intros c Hc. destruct (HX c Hc) as [Hc'| ->].
    - rewrite clean_forall in Ha. auto.
    - split; discriminate. }
  unfold clean in C. exact C.
Qed.

Lemma rendered_value_ok : forall pyi_dir imports_dir kstr p,
  clean pyi_dir = true -> clean imports_dir = true ->
  (forall k f, p = PPyi k f -> clean (kstr k) = true) ->
  val_ok (render_path pyi_dir imports_dir kstr p) = true.
Proof.
  intros pd idir kstr p Hp Hi Hk. destruct p as [|k f]; cbn [render_path].
  - change s_default_pyi with ([100; 101; 102; 97; 117; 108; 116; 46; 112; 121] ++ [105]).
    apply val_ok_join; auto.
  - specialize (Hk k f eq_refl). destruct f.
    + replace (kstr k ++ s_pyi ++ s_first) with ((kstr k ++ s_pyi ++ [45]) ++ [49])
        by (rewrite <- !app_assoc; reflexivity).
      apply val_ok_join; auto. rewrite <- !app_assoc. rewrite clean_app, Hk. reflexivity.
    + replace (kstr k ++ s_pyi ++ []) with ((kstr k ++ [46; 112; 121]) ++ [105])
        by (rewrite <- !app_assoc; reflexivity).
      apply val_ok_join; auto. rewrite <- !app_assoc. rewrite clean_app, Hk. reflexivity.
Qed.

Lemma key_ok_clean : forall k, key_ok k = true -> clean k = true.
Proof. intros k H. unfold key_ok in H. unfold clean. rewrite !andb_true_iff in H. rewrite andb_true_iff. tauto. Qed.

Theorem plan_imports_roundtrip_lemma : forall pyi_dir imports_dir kstr (im : imports),
  clean pyi_dir = true -> clean imports_dir = true ->
  (forall k p, In (k, p) im -> key_ok (kstr k) = true) ->
  (forall k p k' f, In (k, p) im -> p = PPyi k' f -> clean (kstr k') = true) ->
  read_from_file (write_imports (render_imports pyi_dir imports_dir kstr im)) =
  Some (render_imports pyi_dir imports_dir kstr im).
Proof.
  intros pd idir kstr im Hp Hi Hk Hv. apply imports_file_roundtrip_lemma.
  unfold items_ok, render_imports. rewrite forallb_forall. intros [k v] Hin.
  apply in_map_iff in Hin. destruct Hin as [[k0 p0] [E Hin]]. inversion E; subst. simpl.
  rewrite (Hk _ _ Hin). simpl. apply rendered_value_ok; auto. intros k' f E'. eapply Hv; eauto.
Qed.

(* ------------------------------------------------------------------------------------------ *)
(* _build_multimap and _finalize on a map with distinct extension-free keys other than "%"          *)

Definition no_ext (k : str) : bool := str_eqb (fst (splitext k)) k.

Lemma mm_add_fresh : forall k v mm, ~ In k (map fst mm) -> mm_add k v mm = mm ++ [(k, [v])].
Proof.
  induction mm as [|[k' vs] mm IH]; simpl; intros H; auto.
  destruct (str_eqb k k') eqn:E.
  - apply str_eqb_eq in E. exfalso. apply H. left; auto.
  - rewrite IH; auto.
Qed.

Lemma multimap_fold : forall (its : items) acc,
  (forall kv, In kv its -> no_ext (fst kv) = true) ->
  NoDup (map fst acc ++ map fst its) ->
  fold_left (fun mm kv => mm_add (fst (splitext (fst kv))) (snd kv) mm) its acc =
  acc ++ map (fun kv => (fst kv, [snd kv])) its.
Proof.
  induction its as [|[k v] its IH]; intros acc Hne Hnd; simpl.
  - rewrite app_nil_r. reflexivity.
  - assert (E : fst (splitext k) = k).
    { apply str_eqb_eq. apply (Hne (k, v)). left; reflexivity. }
    rewrite E. rewrite mm_add_fresh.
    + rewrite IH.
      * rewrite <- app_assoc. reflexivity.
      * intros kv H. apply Hne. right; auto.
      * rewrite map_app. simpl. rewrite <- app_assoc. simpl. exact Hnd.
    + simpl in Hnd. apply NoDup_remove_2 in Hnd. intro H. apply Hnd. apply in_or_app. left; auto.
Qed.

Lemma build_multimap_distinct : forall its : items,
  (forall kv, In kv its -> no_ext (fst kv) = true) -> NoDup (map fst its) ->
  build_multimap its = map (fun kv => (fst kv, [snd kv])) its.
Proof.
  intros its Hne Hnd. unfold build_multimap. rewrite multimap_fold; auto.
  simpl. rewrite map_map. apply map_ext. intros [k v]. reflexivity.
Qed.

Lemma lookup_str_none : forall {V} k (l : list (str * V)), ~ In k (map fst l) -> lookup_str k l = None.
Proof.
  induction l as [|[k' v] l IH]; simpl; intros H; auto.
  destruct (str_eqb k k') eqn:E.
  - apply str_eqb_eq in E. exfalso. apply H. left; auto.
  - apply IH. intro. apply H. right; auto.
Qed.

Lemma remove_key_absent : forall {V} k (l : list (str * V)), ~ In k (map fst l) -> remove_key k l = l.
Proof.
  induction l as [|[k' v] l IH]; simpl; intros H; auto.
  destruct (str_eqb k k') eqn:E.
  - apply str_eqb_eq in E. exfalso. apply H. left; auto.
  - rewrite IH; auto.
Qed.

Lemma flat_map_nil : forall {A B} (f : A -> list B) l, (forall x, In x l -> f x = []) -> flat_map f l = [].
Proof. induction l as [|x l IH]; simpl; intros H; auto. rewrite H; auto. Qed.

Theorem finalize_exact_lemma : forall abspath devnull (its : items),
  (forall kv, In kv its -> no_ext (fst kv) = true) -> NoDup (map fst its) -> ~ In [c_pct] (map fst its) ->
  exists extra,
    finalize abspath devnull (build_multimap its) =
      (map (fun kv => (fst kv, abspath (snd kv))) its ++ extra, []) /\
    forall e, In e extra -> snd e = devnull /\ ~ In (fst e) (map fst its).
Proof.
  intros ab dn its Hne Hnd Hpct. rewrite build_multimap_distinct; auto.
  unfold finalize.
  assert (K : map fst (map (fun kv : str * str => (fst kv, [snd kv])) its) = map fst its).
  { rewrite map_map. reflexivity. }
  rewrite lookup_str_none by (rewrite K; auto).
  rewrite remove_key_absent by (rewrite K; auto).
  rewrite (flat_map_nil (fun kv : str * list str => tl (snd kv))).
  2:{ intros x Hx. apply in_map_iff in Hx. destruct Hx as [kv [<- _]]. reflexivity. }
  cbv zeta.
  match goal with |- context [map ?f (map ?g its)] =>
    replace (map f (map g its)) with (map (fun kv : str * str => (fst kv, ab (snd kv))) its)
      by (rewrite map_map; reflexivity)
  end.
  eexists. split; [reflexivity|].
  intros e He. apply in_flat_map in He. destruct He as [d [_ He]].
  match type of He with In _ (if ?b then _ else _) => destruct b eqn:M end; [destruct He|].
  destruct He as [<-|[]]. cbn [fst snd]. split; auto.
  intro Hin.
  assert (Hin' : In (join2 d s_init) (map fst (map (fun kv : str * str => (fst kv, ab (snd kv))) its))).
  { rewrite map_map. exact Hin. }
  apply mem_str_In in Hin'. congruence.
Qed.

Theorem build_from_file_exact_lemma : forall abspath devnull (its : items),
  its <> [] -> items_ok its = true ->
  (forall kv, In kv its -> no_ext (fst kv) = true) -> NoDup (map fst its) -> ~ In [c_pct] (map fst its) ->
  exists extra,
    build_from_file abspath devnull (write_imports its) =
      Some (Some (map (fun kv => (fst kv, abspath (snd kv))) its ++ extra, [])) /\
    forall e, In e extra -> snd e = devnull /\ ~ In (fst e) (map fst its).
Proof.
  intros ab dn its Hn Hok Hne Hnd Hpct. unfold build_from_file.
  rewrite imports_file_roundtrip_lemma; auto.
  destruct (finalize_exact_lemma ab dn its Hne Hnd Hpct) as [extra [E H]].
  exists extra. split; auto. destruct its; [contradiction|]. rewrite E. reflexivity.
Qed.
