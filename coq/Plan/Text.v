(* C19 extension, character level (definitions only, no proofs):
     (a) PytypeRunner.write_imports and pytype/imports_map_loader.py (ImportsMapBuilder._read_from_file,
         _build_multimap, _finalize) with the os.path functions they use (posixpath splitext, basename,
         dirname, join); text-mode file reading (universal newlines, `for line in f`), str.strip, str.split(" ", 1);
     (b) the `rule` block of write_ninja_preamble / get_pytype_command_for_ninja, ninja's evaluation of the
         command for an edge (EdgeEnv: $in/$out shell-escaped by GetShellEscapedString, edge bindings raw) and
         the word splitting /bin/sh (POSIX, dash) applies to the resulting string;
     (c) module_utils.path_to_module_name / infer_module, pytype_runner._module_to_output_path and
         resolved_file_to_module, and the path the module loader looks up (join(searchdir, *name.split('.'))).
   Strings are lists of code points (Model.str = list N). *)
From Coq Require Import List NArith Bool.
From PV Require Import Plan.Model.
Import ListNotations.
Local Open Scope N_scope.

Definition c_tab := 9. Definition c_sq := 39. Definition c_bs := 92. Definition c_slash := 47.
Definition c_dot := 46. Definition c_pct := 37.

Fixpoint str_eqb (a b : str) : bool :=
  match a, b with
  | [], [] => true
  | x :: a', y :: b' => (x =? y) && str_eqb a' b'
  | _, _ => false
  end.

Fixpoint mem_str (x : str) (l : list str) : bool :=
  match l with [] => false | y :: r => str_eqb x y || mem_str x r end.

Definition is_nil {A} (l : list A) : bool := match l with [] => true | _ => false end.

(* ========================================================================================== *)
(* posixpath                                                                                   *)

(* longest prefix without c0, and the rest (starting at c0 if non-empty) *)
Fixpoint span_not (c0 : N) (s : str) : str * str :=
  match s with
  | [] => ([], [])
  | c :: r => if c =? c0 then ([], s) else let '(a, b) := span_not c0 r in (c :: a, b)
  end.

(* split at the LAST occurrence of c0: s = before ++ c0 :: after, c0 not in after *)
Definition rsplit_at (c0 : N) (s : str) : option (str * str) :=
  let '(a_rev, r) := span_not c0 (rev s) in
  match r with
  | [] => None
  | _ :: b_rev => Some (rev b_rev, rev a_rev)
  end.

(* os.path.basename: p[p.rfind('/')+1:] *)
Definition basename (p : str) : str :=
  match rsplit_at c_slash p with None => p | Some (_, b) => b end.

Fixpoint lstrip_c (c0 : N) (s : str) : str :=
  match s with c :: r => if c =? c0 then lstrip_c c0 r else s | [] => [] end.
Definition rstrip_c (c0 : N) (s : str) : str := rev (lstrip_c c0 (rev s)).

(* os.path.dirname: head = p[:rfind('/')+1]; if head and head != '/'*len(head): head = head.rstrip('/') *)
Definition dirname (p : str) : str :=
  match rsplit_at c_slash p with
  | None => []
  | Some (h, _) =>
    let head := h ++ [c_slash] in
    if forallb (fun c => c =? c_slash) head then head else rstrip_c c_slash head
  end.

(* genericpath._splitext(p, '/', None, '.'): the last dot of the last component, unless only dots precede it *)
Definition splitext (p : str) : str * str :=
  let '(hd, base) := match rsplit_at c_slash p with
                     | None => ([], p)
                     | Some (h, b) => (h ++ [c_slash], b)
                     end in
  match rsplit_at c_dot base with
  | None => (p, [])
  | Some (stem, ext) =>
    if forallb (fun c => c =? c_dot) stem then (p, []) else (hd ++ stem, c_dot :: ext)
  end.

(* os.path.join(a, b) for two arguments *)
Definition ends_with_slash (a : str) : bool :=
  match rev a with c :: _ => c =? c_slash | [] => false end.
Definition join2 (a b : str) : str :=
  match b with
  | c :: _ => if c =? c_slash then b else if is_nil a || ends_with_slash a then a ++ b else a ++ c_slash :: b
  | [] => if is_nil a || ends_with_slash a then a else a ++ [c_slash]
  end.

(* ========================================================================================== *)
(* (a) write_imports:  for item in imports_map.items(): f.write('%s %s\n' % item)              *)

Definition items := list (str * str).

Definition write_imports (im : items) : str :=
  flat_map (fun kv => fst kv ++ c_sp :: snd kv ++ [c_nl]) im.

(* open(path) in text mode, newline=None: "\r\n" and "\r" are translated to "\n" *)
Fixpoint univ_nl (s : str) : str :=
  match s with
  | [] => []
  | c :: r =>
    if c =? c_cr then
      c_nl :: match r with
              | d :: r' => if d =? c_nl then univ_nl r' else univ_nl r
              | [] => []
              end
    else c :: univ_nl r
  end.

(* `for line in f`: lines keep their "\n"; a last line without one is yielded if non-empty *)
Fixpoint lines (s : str) : list str :=
  match s with
  | [] => []
  | c :: r =>
    if c =? c_nl then [c] :: lines r
    else match lines r with
         | [] => [[c]]
         | l :: ls => (c :: l) :: ls
         end
  end.

(* str.isspace() code points: what str.strip() removes *)
Definition py_space (c : N) : bool :=
  in_range c 9 13 || in_range c 28 32 || (c =? 133) || (c =? 160) || (c =? 5760) ||
  in_range c 8192 8202 || (c =? 8232) || (c =? 8233) || (c =? 8239) || (c =? 8287) || (c =? 12288).

Fixpoint lstrip (s : str) : str :=
  match s with c :: r => if py_space c then lstrip r else s | [] => [] end.
Definition rstrip (s : str) : str := rev (lstrip (rev s)).
Definition strip (s : str) : str := rstrip (lstrip s).

(* line.split(" ", 1) unpacked into two names: None = ValueError (no space in the line) *)
Fixpoint split1 (s : str) : option (str * str) :=
  match s with
  | [] => None
  | c :: r =>
    if c =? c_sp then Some ([], r)
    else match split1 r with Some (a, b) => Some (c :: a, b) | None => None end
  end.

Fixpoint read_items (ls : list str) : option items :=
  match ls with
  | [] => Some []
  | l :: r =>
    match strip l with
    | [] => read_items r
    | l' =>
      match split1 l' with
      | None => None
      | Some kv => match read_items r with Some its => Some (kv :: its) | None => None end
      end
    end
  end.

(* ImportsMapBuilder._read_from_file on the file's characters; None = ValueError *)
Definition read_from_file (content : str) : option items := read_items (lines (univ_nl content)).

(* ---- _build_multimap: defaultdict(set) keyed by splitext(short_path)[0], then sorted(paths, key=basename).
   Sets are modelled as duplicate-free lists in first-insertion order; Python's sort is stable over the set's
   iteration order, so the result is determined up to ties in the basename (monitored by the check). *)
Fixpoint mm_add (k v : str) (mm : list (str * list str)) : list (str * list str) :=
  match mm with
  | [] => [(k, [v])]
  | (k', vs) :: r => if str_eqb k k' then (k', if mem_str v vs then vs else vs ++ [v]) :: r
                     else (k', vs) :: mm_add k v r
  end.

Fixpoint str_leb (a b : str) : bool :=     (* code-point lexicographic <= *)
  match a, b with
  | [], _ => true
  | _ :: _, [] => false
  | x :: a', y :: b' => if x <? y then true else if y <? x then false else str_leb a' b'
  end.

Fixpoint insert_by (key : str -> str) (x : str) (l : list str) : list str :=
  match l with
  | [] => [x]
  | y :: r => if str_leb (key y) (key x) then y :: insert_by key x r else x :: l
  end.
Definition sort_by (key : str -> str) (l : list str) : list str :=   (* stable insertion sort *)
  fold_left (fun acc x => insert_by key x acc) l [].

Definition build_multimap (its : items) : list (str * list str) :=
  map (fun kv => (fst kv, sort_by basename (snd kv)))
      (fold_left (fun mm kv => mm_add (fst (splitext (fst kv))) (snd kv) mm) its []).

(* ---- _finalize.  `abspath` is a parameter (os.path.abspath depends on the working directory); `devnull`
   is os.devnull.  Returns (items, unused); `items` is a dict, given here in insertion order. *)
Fixpoint lookup_str {V} (k : str) (l : list (str * V)) : option V :=
  match l with [] => None | (k', v) :: r => if str_eqb k k' then Some v else lookup_str k r end.

Fixpoint remove_key {V} (k : str) (l : list (str * V)) : list (str * V) :=
  match l with [] => [] | (k', v) :: r => if str_eqb k k' then remove_key k r else (k', v) :: remove_key k r end.

(* the `while True:` walk up the directories of one key; fuel = length of the key + 1 *)
Fixpoint dir_chain (fuel : nat) (d : str) (seen : list str) : list str :=
  match fuel with
  | O => seen
  | S f => let d' := dirname d in
           if is_nil d' || mem_str d' seen then seen else dir_chain f d' (seen ++ [d'])
  end.

Definition s_init : str := [95; 95; 105; 110; 105; 116; 95; 95].          (* "__init__" *)

Definition finalize (abspath : str -> str) (devnull : str) (mm : list (str * list str))
  : items * list str :=
  let unused0 := match lookup_str [c_pct] mm with Some ps => ps | None => [] end in
  let mm' := remove_key [c_pct] mm in
  let unused := unused0 ++ flat_map (fun kv => tl (snd kv)) mm' in
  (* paths is never empty: every key of the multimap was given at least one path *)
  let imports := map (fun kv => (fst kv, abspath (hd [] (snd kv)))) mm' in
  let dirs := fold_left (fun seen kv => dir_chain (S (length (fst kv))) (fst kv) seen) imports [] in
  let extra := flat_map (fun d => let i := join2 d s_init in
                                  if mem_str i (map fst imports) then [] else [(i, devnull)]) dirs in
  (imports ++ extra, unused).

(* build_from_file; None = ValueError, Some None = the `if not items: return None` *)
Definition build_from_file (abspath : str -> str) (devnull : str) (content : str)
  : option (option (items * list str)) :=
  match read_from_file content with
  | None => None
  | Some [] => Some None
  | Some its => Some (Some (finalize abspath devnull (build_multimap its)))
  end.

(* the paths written as values: join(pyi_dir, key + '.pyi' + suffix), join(imports_dir, 'default.pyi') *)
Definition s_pyi : str := [46; 112; 121; 105].                               (* ".pyi" *)
Definition s_first : str := [45; 49].                                        (* "-1" *)
Definition s_default_pyi : str := [100; 101; 102; 97; 117; 108; 116; 46; 112; 121; 105].   (* "default.pyi" *)
Definition s_dot_imports : str := [46; 105; 109; 112; 111; 114; 116; 115].   (* ".imports" *)

Definition render_path (pyi_dir imports_dir : str) (kstr : N -> str) (p : path) : str :=
  match p with
  | PDefault => join2 imports_dir s_default_pyi
  | PPyi k first => join2 pyi_dir (kstr k ++ s_pyi ++ (if first then s_first else []))
  end.

Definition render_imports (pyi_dir imports_dir : str) (kstr : N -> str) (im : imports) : items :=
  map (fun kp => (kstr (fst kp), render_path pyi_dir imports_dir kstr (snd kp))) im.

(* ========================================================================================== *)
(* (b) the rule block and the command ninja hands to /bin/sh                                   *)

(* get_pytype_command_for_ninja: exe + list(sum(sorted(flags_with_values.items()), ())) + sorted(binary_flags)
   + ['$in'], joined with ' '.  Words are raw strings; '$imports', '$out', '$module', '$in' are ninja
   variable references because the text is written unescaped into `command = ...`. *)
Fixpoint insert_pair (x : str * str) (l : list (str * str)) : list (str * str) :=
  match l with
  | [] => [x]
  | y :: r => if str_leb (fst y) (fst x) then y :: insert_pair x r else x :: l
  end.
Definition sort_pairs (l : list (str * str)) : list (str * str) :=
  fold_left (fun acc x => insert_pair x acc) l [].

Definition s_dollar_in : str := [36; 105; 110].
Definition command_words (exe : list str) (flags_with_values : list (str * str)) (binary_flags : list str)
  : list str :=
  exe ++ flat_map (fun kv => [fst kv; snd kv]) (sort_pairs flags_with_values)
      ++ sort_by (fun x => x) binary_flags ++ [s_dollar_in].

Definition s_rule : str := [114; 117; 108; 101; 32].                                   (* "rule " *)
Definition s_command_eq : str := [32; 32; 99; 111; 109; 109; 97; 110; 100; 32; 61; 32].   (* "  command = " *)
Definition s_description_eq : str :=
  [32; 32; 100; 101; 115; 99; 114; 105; 112; 116; 105; 111; 110; 32; 61; 32].           (* "  description = " *)
Definition s_dollar_module : str := [32; 36; 109; 111; 100; 117; 108; 101].            (* " $module" *)
Definition kw_command : str := [99; 111; 109; 109; 97; 110; 100].
Definition kw_description : str := [100; 101; 115; 99; 114; 105; 112; 116; 105; 111; 110].
Definition kw_in : str := [105; 110].
Definition kw_out : str := [111; 117; 116].

(* 'rule {action}\n  command = {command}\n  description = {action} $module\n' *)
Definition render_rule (action : str) (words : list str) : str :=
  s_rule ++ action ++ [c_nl] ++ s_command_eq ++ join_sp words ++ [c_nl]
  ++ s_description_eq ++ action ++ s_dollar_module ++ [c_nl].

(* ManifestParser::ParseRule: "rule" ident NEWLINE { INDENT ident '=' value } *)
Definition parse_rule (s : str) : option (str * list (str * list tok) * str) :=
  match strip_prefix [114; 117; 108; 101] s with
  | None => None
  | Some s0 =>
    let '(name, s1) := read_ident (eat_ws s0) in
    match name, s1 with
    | _ :: _, n :: s2 =>
      if n =? c_nl then
        match read_binding s2 with
        | None => None
        | Some (n1, v1, s3) =>
          match read_binding s3 with
          | None => None
          | Some (n2, v2, s4) => Some (name, [(n1, v1); (n2, v2)], s4)
          end
        end
      else None
    | _, _ => None
    end
  end.

(* util.cc GetShellEscapedString: safe characters [A-Za-z0-9_+-./]; otherwise '...' with ' -> '\''.
   (shlex.quote is the same function over the safe set [A-Za-z0-9_@%+=:,./-], except that it quotes the
   empty string.) *)
Definition ninja_shell_safe (c : N) : bool :=
  in_range c 97 122 || in_range c 65 90 || in_range c 48 57 ||
  (c =? 95) || (c =? 43) || (c =? 45) || (c =? 46) || (c =? 47).

Definition shell_escape (safe : N -> bool) (s : str) : str :=
  if forallb safe s then s
  else c_sq :: flat_map (fun c => if c =? c_sq then [c_sq; c_bs; c_sq; c_sq] else [c]) s ++ [c_sq].

(* EdgeEnv's lookup of a name: "in"/"out" are the explicit inputs/outputs, shell-escaped and joined by ' ';
   every other name is looked up in the edge's bindings (then the rule's, then the file's: none here) *)
Definition edge_env (ins outs : list str) (binds : list (str * str)) (v : str) : str :=
  if str_eqb v kw_in then join_sp (map (shell_escape ninja_shell_safe) ins)
  else if str_eqb v kw_out then join_sp (map (shell_escape ninja_shell_safe) outs)
  else match lookup_str v binds with Some x => x | None => [] end.

(* the command of the edge described by statement t under the rule whose command lexed to cmd *)
Definition stmt_binds (t : stmt) : list (str * str) := [(kw_imports, t_imports t); (kw_module, t_module t)].
Definition edge_command (cmd : list tok) (t : stmt) : str :=
  eval_toks (edge_env [t_input t] [t_out t] (stmt_binds t)) cmd.

(* ---- /bin/sh -c <command>: tokenisation into words (POSIX 2.2-2.6 restricted to what can occur).
   Modelled: blanks separate words; '...' ; \c ; $name (parameter expansion with field splitting on
   space/tab/newline; pathname expansion of the expanded text is NOT modelled); a '$' that starts no expansion
   is literal.  Every other character with a special meaning makes the model decline (None). *)
Inductive shmode := SU | SQ | SB | SD | SV (acc : str).

Definition sh_blank (c : N) : bool := (c =? c_sp) || (c =? c_tab).
Definition sh_ifs (c : N) : bool := (c =? c_sp) || (c =? c_tab) || (c =? c_nl).
Definition name_start (c : N) : bool := in_range c 97 122 || in_range c 65 90 || (c =? 95).
Definition name_char (c : N) : bool := name_start c || in_range c 48 57.
(* characters the model does not interpret when unquoted:  NUL, newline, CR, double quote, backquote and
   ; & | < > ( ) * ? [ ] # ~ { } ! *)
Definition sh_declined (c : N) : bool :=
  (c =? 0) || (c =? 10) || (c =? 13) || (c =? 34) || (c =? 96) || (c =? 59) || (c =? 38) || (c =? 124) ||
  (c =? 60) || (c =? 62) || (c =? 40) || (c =? 41) || (c =? 42) || (c =? 63) || (c =? 91) || (c =? 93) ||
  (c =? 35) || (c =? 126) || (c =? 123) || (c =? 125) || (c =? 33).
(* after a dollar: digits, $ ? ! # * @ - { ( and the three quote characters start other expansions *)
Definition dollar_declined (c : N) : bool :=
  in_range c 48 57 || (c =? 36) || (c =? 63) || (c =? 33) || (c =? 35) || (c =? 42) || (c =? 64) ||
  (c =? 45) || (c =? 123) || (c =? 40) || (c =? 39) || (c =? 34) || (c =? 96).

Definition push (c : N) (cur : option str) : option str :=
  Some (match cur with Some w => w ++ [c] | None => [c] end).
Definition flush (cur : option str) : list str := match cur with Some w => [w] | None => [] end.

(* field splitting of an expansion's text appended to the word in progress *)
Fixpoint expand (v : str) (cur : option str) : list str * option str :=
  match v with
  | [] => ([], cur)
  | c :: r => if sh_ifs c then let '(ws, cur') := expand r None in (flush cur ++ ws, cur')
              else expand r (push c cur)
  end.

Inductive shact := AGo (m : shmode) (cur : option str) (emit : list str) | AFail.

Definition su_step (c : N) (cur : option str) : shact :=
  if sh_blank c then AGo SU None (flush cur)
  else if c =? c_sq then AGo SQ (Some (match cur with Some w => w | None => [] end)) []
  else if c =? c_bs then AGo SB cur []
  else if c =? c_dollar then AGo SD cur []
  else if sh_declined c then AFail
  else AGo SU (push c cur) [].

Definition sh_step (env : str -> str) (m : shmode) (cur : option str) (c : N) : shact :=
  match m with
  | SU => su_step c cur
  | SQ => if c =? c_sq then AGo SU cur [] else AGo SQ (push c cur) []
  | SB => if c =? c_nl then AFail else AGo SU (push c cur) []
  | SD => if name_start c then AGo (SV [c]) cur []
          else if dollar_declined c then AFail
          else su_step c (push c_dollar cur)
  | SV a => if name_char c then AGo (SV (a ++ [c])) cur []
            else let '(ws, cur') := expand (env a) cur in
                 match su_step c cur' with
                 | AGo m' cur'' e => AGo m' cur'' (ws ++ e)
                 | AFail => AFail
                 end
  end.

Fixpoint sh (env : str -> str) (m : shmode) (cur : option str) (s : str) : option (list str) :=
  match s with
  | [] =>
    match m with
    | SU => Some (flush cur)
    | SD => Some (flush (push c_dollar cur))
    | SV a => let '(ws, cur') := expand (env a) cur in Some (ws ++ flush cur')
    | SQ | SB => None
    end
  | c :: r =>
    match sh_step env m cur c with
    | AFail => None
    | AGo m' cur' e => match sh env m' cur' r with Some ws => Some (e ++ ws) | None => None end
    end
  end.

(* argv of `sh -c cmd` (None: the model declines, or the command is malformed) *)
Definition sh_words (env : str -> str) (cmd : str) : option (list str) := sh env SU None cmd.

(* ========================================================================================== *)
(* (c) module names and imports-map keys                                                       *)

Fixpoint starts_with (p s : str) : bool :=
  match p, s with
  | [], _ => true
  | a :: p', b :: s' => (a =? b) && starts_with p' s'
  | _ :: _, [] => false
  end.
Definition ends_with (suf s : str) : bool := starts_with (rev suf) (rev s).

Definition replace_c (a b : N) (s : str) : str := map (fun c => if c =? a then b else c) s.

(* s.partition(sep)[0] *)
Fixpoint before_sep (sep s : str) : str :=
  match s with
  | [] => []
  | c :: r => if starts_with sep s then [] else c :: before_sep sep r
  end.

Definition s_pardir : str := [46; 46].                                              (* os.pardir *)
Definition s_dot_py : str := [46; 112; 121].                                        (* ".py" *)
Definition s_dot_init : str := [46; 95; 95; 105; 110; 105; 116; 95; 95].            (* ".__init__" *)
Definition s_init_py : str := [95; 95; 105; 110; 105; 116; 95; 95; 46; 112; 121].   (* "__init__.py" *)

(* module_utils.path_to_module_name; None = returns None *)
Definition path_to_module_name (filename : str) : option str :=
  if starts_with s_pardir (dirname filename) then None
  else
    let '(f, ext) := splitext filename in
    if negb (is_nil ext) && negb (starts_with s_dot_py ext) then None
    else Some (before_sep s_dot_init (replace_c c_slash c_dot (replace_c c_slash c_dot f))).

Record cmodule := CModule { cm_path : str; cm_target : str; cm_name : option str }.

(* module_utils.infer_module(filename, pythonpath): first non-empty entry that (with a trailing sep) is a
   prefix of filename; for/else: no entry -> path = "" *)
Fixpoint drop_prefix (p s : str) : str :=
  match p, s with _ :: p', _ :: s' => drop_prefix p' s' | _, _ => s end.

Fixpoint infer_module_loop (filename : str) (pythonpath : list str) : str * str :=
  match pythonpath with
  | [] => ([], filename)
  | p :: r =>
    if is_nil p then infer_module_loop filename r
    else let p' := if ends_with_slash p then p else p ++ [c_slash] in
         if starts_with p' filename then (p', drop_prefix p' filename)
         else infer_module_loop filename r
  end.

Definition infer_module (filename : str) (pythonpath : list str) : cmodule :=
  let '(p, f) := infer_module_loop filename pythonpath in
  CModule p f (path_to_module_name f).

(* pytype_runner._module_to_output_path(mod) over (target, name).  `path[-len(name):]` with len(name) = 0 is
   path[0:] (the whole path), and '' is a suffix of everything, so the fallback is only reached with a
   non-empty name. *)
Definition last_n (n : nat) (s : str) : str := skipn (length s - n) s.
Definition module_to_output_path (target name : str) : str :=
  let p := fst (splitext target) in
  if ends_with name (replace_c c_slash c_dot p) then
    (match name with [] => p | _ => last_n (length name) p end)
  else match name with
       | c :: r => c :: replace_c c_dot c_slash r
       | [] => []
       end.

(* pytype_runner.resolved_file_to_module(f) over (f.path, f.short_path, f.module_name):
   path = full_path[:-len(target)] ('' when target is empty: [:-0]) *)
Definition resolved_file_to_module (full_path short_path module_name : str) : str * str * str :=
  let path := match short_path with
              | [] => []
              | _ => firstn (length full_path - length short_path) full_path
              end in
  let name := if str_eqb (basename full_path) s_init_py then module_name ++ s_dot_init else module_name in
  (path, short_path, name).

(* what the loader of pytype-single looks up in the imports map for `import name`:
   path_utils.join(searchdir, *name.split('.')) with searchdir = '' (then the same + '/__init__') *)
Fixpoint split_c (c0 : N) (s : str) : list str :=
  match s with
  | [] => [[]]
  | c :: r => if c =? c0 then [] :: split_c c0 r
              else match split_c c0 r with
                   | [] => [[c]]
                   | w :: ws => (c :: w) :: ws
                   end
  end.
Definition loader_path (name : str) : str := fold_left join2 (split_c c_dot name) [].
Definition loader_init_path (name : str) : str := join2 (loader_path name) s_init.

Fixpoint join_c (c0 : N) (l : list str) : str :=
  match l with [] => [] | [x] => x | x :: r => x ++ c0 :: join_c c0 r end.
