(* C13 model, the layer between a call expression and the argument mapper: which receiver is put in front
   of the arguments, which constructor signatures a class call binds, which of several stub signatures is used.

   call_form_py   : pytype/abstract/_function_base.py  BoundFunction.call / BoundFunction.argcount
                    (obj.m(..), C.cm(..), obj.cm(..), obj(..) via __call__ are BoundFunctions; C.m(obj, ..),
                    static methods and plain functions reach the mapper with the arguments as written)
   call_form_c    : CPython's method objects (Objects/classobject.c method_vectorcall: self is prepended, always)
   ctor_py        : pytype/abstract/class_mixin.py  Class.call, _call_new_and_init, get_own_new, call_init,
                    _call_method, and pytype/overlays/special_builtins.py Object.get_special_attribute
                    (object.__init__ is looked up as the stub  def __init__(self)  or, when the class has its own
                    __new__, as  def __init__extra_args(self, *args, **kwargs))
   ctor_c         : CPython Objects/typeobject.c  type_call, object_new, object_init (excess_args rule)
   call_overloaded: pytype/abstract/_pytd_function.py  PyTDFunction._match_args_sequentially
                    (every signature is tried in order; the error kept is the first one, because
                    FailedFunctionCall.__gt__(other) is `other is None` for every arity / keyword error)

   The mappers themselves are the ones of coq/Bind/Model.v (bind_py_gen, bind_c) and coq/Bind/PytdModel.v
   (bind_pytd); they are passed in as [B].  Definitions only (no proofs). *)
From Coq Require Import List Arith Bool.
From PV Require Import Bind.Model Bind.PytdModel.
Import ListNotations.

(* args.replace(posargs=(callself,) + args.posargs): argument 0 is the receiver, the i-th written argument
   becomes argument i+1 *)
Definition insert (c : shape) : shape := mkShape (S (npos c)) (kws c).

(* In every call through a receiver form the written arguments are numbered from 1 (0 is the receiver).  When the
   receiver is NOT put in front, the mapper sees the first written argument as its argument 0: renumber. *)
Definition shift_value (v : value) : value :=
  match v with
  | Pos i => Pos (S i)
  | VarArgs l => VarArgs (map S l)
  | _ => v
  end.
Definition shift_result {E} (r : result E) : result E :=
  match r with
  | Ok d => Ok (map (fun kv => (fst kv, shift_value (snd kv))) d)
  | Err e => Err e
  end.

(* how the callee is reached *)
Inductive form :=
| FFunction                (* f(..)                                   *)
| FInstanceMethod          (* obj.m(..)                               *)
| FThroughClass            (* C.m(..)       m a plain function of C   *)
| FClassmethodOnClass      (* C.cm(..)                                *)
| FClassmethodOnInstance   (* obj.cm(..)                              *)
| FStaticOnClass           (* C.sm(..)                                *)
| FStaticOnInstance        (* obj.sm(..)                              *)
| FCallableInstance.       (* obj(..)       type(obj).__call__        *)

(* the descriptor protocol: is the attribute a bound method object? *)
Definition receiver (f : form) : bool :=
  match f with
  | FInstanceMethod | FClassmethodOnClass | FClassmethodOnInstance | FCallableInstance => true
  | FFunction | FThroughClass | FStaticOnClass | FStaticOnInstance => false
  end.

(* SignedFunction.argcount = len(signature.param_names); InterpreterFunction.argcount = code.argcount: the same *)
Definition argcount_src (s : sig) : nat := length (param_names s).
(* PyTDFunction.argcount = min over the signatures of mandatory_param_count (here: one signature):
   the positional and keyword-only parameters without default *)
Definition argcount_pytd (s : sig) : nat :=
  length (filter (fun n => negb (mem n (defaults s))) (param_names s))
  + length (filter (fun n => negb (mem n (defaults s))) (kwonly s)).

(* BoundFunction.call:
     # The "self" parameter is automatically added to the list of arguments, but
     # only if the function actually takes any arguments.
     if self.argcount(node) >= 0:            (BoundFunction.argcount = underlying.argcount - 1)
       args = args.replace(posargs=(self._callself,) + args.posargs)
     ... self.underlying.call(node, func, args, ...) *)
Definition bound_call {E} (argcount : sig -> nat) (B : sig -> shape -> result E) (s : sig) (c : shape) : result E :=
  if 1 <=? argcount s then B s (insert c) else shift_result (B s c).

Definition call_form_py {E} (argcount : sig -> nat) (B : sig -> shape -> result E) (f : form) (s : sig) (c : shape)
  : result E :=
  if receiver f then bound_call argcount B s c else B s c.

(* CPython: a bound method always prepends its __self__ *)
Definition call_form_c (f : form) (s : sig) (c : shape) : result c_err :=
  bind_c s (if receiver f then insert c else c).

(* ================================================================================== *)
(* constructors: C(..) *)

(* what one class body of the user hierarchy defines (signatures include cls / self) *)
Record cls_def := mkCls { c_new : option sig; c_init : option sig }.

(* attribute lookup along the MRO of user classes, most derived first (object comes last and is implicit) *)
Fixpoint lookup (sel : cls_def -> option sig) (m : list cls_def) : option sig :=
  match m with
  | [] => None
  | k :: t => match sel k with Some s => Some s | None => lookup sel t end
  end.

(* names used by builtins.pytd for object's methods (harness/props/c13_gen.py ID) *)
Definition SELF : name := 12.
Definition ARGS : name := 23.
Definition KWARGS : name := 24.
(* class object:  def __init__(self) -> NoneType
                  def __init__extra_args(self, *args, **kwargs) -> NoneType *)
Definition OBJECT_INIT : sig := mkSig [] [SELF] [] [] None None.
Definition OBJECT_INIT_EXTRA : sig := mkSig [] [SELF] [] [] (Some ARGS) (Some KWARGS).

Inductive ctor_res (E : Type) :=
| CtorErr (e : E)
| CtorOk (dnew dinit : option dict).     (* the locals of the user __new__ / the user __init__ that ran *)
Arguments CtorErr {E} e.
Arguments CtorOk {E} dnew dinit.

Definition ctor_is_err {E} (r : ctor_res E) : bool := match r with CtorErr _ => true | CtorOk _ _ => false end.

(* Class.call:
     node, variable = self._call_new_and_init(node, func, args)
       get_own_new: the class's __new__ unless it is object.__new__           -> None: variable is None
       new_args = args.replace(posargs=(cls,) + args.posargs); call_function(new, new_args)   (a plain function)
       for every returned instance of this class: self.call_init(node, val, args)
     if variable is None: value = self._new_instance(..); self.call_init(node, val, args)
   call_init -> _call_method(.., "__init__", args): get_bound_method + call_function, i.e. a BoundFunction around
   the user's __init__, or around object.__init__ as special_builtins.Object.get_special_attribute hands it out.
   [B]: the mapper of source functions; [argname]: see bind_pytd.  The user's __new__ is taken to return
   object.__new__(cls), an instance of the class (the check generates only such bodies). *)
Definition init_py (B : sig -> shape -> result py_err) (argname : nat -> name) (own_new : bool)
  (oinit : option sig) (c : shape) : result py_err :=
  match oinit with
  | Some si => bound_call argcount_src B si c
  | None =>
    bound_call argcount_pytd (bind_pytd false argname) (if own_new then OBJECT_INIT_EXTRA else OBJECT_INIT) c
  end.

Definition ctor_py (B : sig -> shape -> result py_err) (argname : nat -> name) (m : list cls_def) (c : shape)
  : ctor_res py_err :=
  let oinit := lookup c_init m in
  let keep (d : dict) := match oinit with Some _ => Some d | None => None end in
  match lookup c_new m with
  | Some sn =>
    match B sn (insert c) with
    | Err e => CtorErr e
    | Ok dn =>
      match init_py B argname true oinit c with
      | Err e => CtorErr e
      | Ok di => CtorOk (Some dn) (keep di)
      end
    end
  | None =>
    match init_py B argname false oinit c with
    | Err e => CtorErr e
    | Ok di => CtorOk None (keep di)
    end
  end.

(* CPython.  type_call: obj = type->tp_new(type, args, kwds); then type->tp_init(obj, args, kwds).
   object_new:  if (excess_args(args, kwds)) { if (type->tp_new != object_new) error;      (not reached via type_call)
                                               if (type->tp_init == object_init) error "C() takes no arguments"; }
   object_init: if (excess_args(args, kwds)) { if (type->tp_init != object_init) error;    (not reached via type_call)
                                               if (type->tp_new == object_new) error "C.__init__() takes exactly one argument"; } *)
Inductive ctor_c_err :=
| CBind (e : c_err)
| CNoArguments.

Definition excess (c : shape) : bool := (0 <? npos c) || nonempty (kws c).

Definition ctor_c (m : list cls_def) (c : shape) : ctor_res ctor_c_err :=
  let onew := lookup c_new m in
  let oinit := lookup c_init m in
  let rnew :=
    match onew with
    | Some sn => match bind_c sn (insert c) with Err e => inr (CBind e) | Ok d => inl (Some d) end
    | None => if excess c && negb (is_some oinit) then inr CNoArguments else inl None
    end in
  match rnew with
  | inr e => CtorErr e
  | inl dn =>
    match oinit with
    | Some si => match bind_c si (insert c) with Err e => CtorErr (CBind e) | Ok d => CtorOk dn (Some d) end
    | None => if excess c && negb (is_some onew) then CtorErr CNoArguments else CtorOk dn None
    end
  end.

Definition opt_agree (os : option sig) (d1 d2 : option dict) : Prop :=
  match os, d1, d2 with
  | Some s, Some a, Some b => @agree py_err c_err s (Ok a) (Ok b)
  | None, None, None => True
  | _, _, _ => False
  end.

(* both raise, or both run the same constructors with every parameter holding the same thing *)
Definition ctor_agree (m : list cls_def) (r1 : ctor_res py_err) (r2 : ctor_res ctor_c_err) : Prop :=
  match r1, r2 with
  | CtorErr _, CtorErr _ => True
  | CtorOk a b, CtorOk a' b' => opt_agree (lookup c_new m) a a' /\ opt_agree (lookup c_init m) b b'
  | _, _ => False
  end.

(* every user-defined constructor is a legal def; __init__ has a positional parameter for self *)
Definition wf_mro (m : list cls_def) : Prop :=
  (forall s, lookup c_new m = Some s -> wf_sig s) /\
  (forall s, lookup c_init m = Some s -> wf_sig s /\ param_names s <> []).

(* ================================================================================== *)
(* several signatures (a stub function with @overload) *)

(* _match_args_sequentially:
     error = None
     for sig in self.signatures:
       try: arg_dict, matches = sig.substitute_formal_args(...)
       except FailedFunctionCall as e:
         if e > error: error = e              (arity / keyword errors: e > error  iff  error is None)
       else: matched_signatures.add(...)
     if not matched_signatures: raise error *)
Fixpoint match_seq {E} (B : sig -> shape -> result E) (sigs : list sig) (c : shape)
  (error : option E) (matched : list (sig * dict)) : option E * list (sig * dict) :=
  match sigs with
  | [] => (error, matched)
  | s :: rest =>
    match B s c with
    | Err e => match_seq B rest c (match error with None => Some e | Some _ => error end) matched
    | Ok d => match_seq B rest c error (matched ++ [(s, d)])
    end
  end.

Inductive ov_res (E : Type) :=
| OvErr (e : E)                         (* raise error *)
| OvRaiseNone                           (* no signature at all: `raise None` (a PyTDFunction always has one) *)
| OvOk (matched : list (sig * dict)).
Arguments OvErr {E} e.
Arguments OvRaiseNone {E}.
Arguments OvOk {E} matched.

Definition call_overloaded {E} (B : sig -> shape -> result E) (sigs : list sig) (c : shape) : ov_res E :=
  match match_seq B sigs c None [] with
  | (error, []) => match error with Some e => OvErr e | None => OvRaiseNone end
  | (_, matched) => OvOk matched
  end.

Definition ov_is_err {E} (r : ov_res E) : bool := match r with OvOk _ => false | _ => true end.

(* closed forms used by the statements *)
Definition oks {E} (B : sig -> shape -> result E) (sigs : list sig) (c : shape) : list (sig * dict) :=
  flat_map (fun s => match B s c with Ok d => [(s, d)] | Err _ => [] end) sigs.
Fixpoint first_err {E} (B : sig -> shape -> result E) (sigs : list sig) (c : shape) : option E :=
  match sigs with
  | [] => None
  | s :: rest => match B s c with Err e => Some e | Ok _ => first_err B rest c end
  end.
