(* C13 lemmas about coq/Bind/SplatModel.v (call sites with * / ** splats). *)
From Coq Require Import List Arith Bool Lia.
From PV Require Import Bind.Model Bind.Proofs Bind.SplatModel.
Import ListNotations.

(* ---------------------------------------------------------------------------------- *)
(* missing_loop *)

Lemma missing_loop_noforgive chain ca :
  missing_loop (fun _ => false) chain ca =
  match find (fun kb => negb (dmem (fst kb) ca)) chain with Some kb => inr (fst kb) | None => inl ca end.
Proof. induction chain as [|[k b] t IH]; simpl; auto. destruct (dmem k ca); simpl; auto. Qed.

Lemma missing_loop_ext f g chain ca :
  (forall b, f b = g b) -> missing_loop f chain ca = missing_loop g chain ca.
Proof.
  intros H. revert ca. induction chain as [|[k b] t IH]; intros ca; simpl; auto.
  rewrite H. destruct (dmem k ca); auto. destruct (g b); auto.
Qed.

Lemma find_map_fst (g : name -> name * bool) (f : name -> bool) l :
  (forall n, fst (g n) = n) ->
  find (fun kb => f (fst kb)) (map g l) = option_map g (find f l).
Proof.
  intros H. induction l as [|a l IH]; simpl; auto. rewrite H. destruct (f a); simpl; auto.
Qed.

Lemma find_app {A} (f : A -> bool) l1 l2 :
  find f (l1 ++ l2) = match find f l1 with Some x => Some x | None => find f l2 end.
Proof. induction l1; simpl; auto. destruct (f a); auto. Qed.

Lemma missing_loop_false_find l1 l2 ca :
  missing_loop (fun _ => false) (map (fun n => (n, false)) l1 ++ map (fun n => (n, true)) l2) ca =
  match find (fun key => negb (dmem key ca)) (l1 ++ l2) with Some key => inr key | None => inl ca end.
Proof.
  rewrite missing_loop_noforgive. rewrite !find_app.
  rewrite (find_map_fst (fun n => (n, false)) (fun key => negb (dmem key ca))) by reflexivity.
  rewrite (find_map_fst (fun n => (n, true)) (fun key => negb (dmem key ca))) by reflexivity.
  destruct (find _ l1); simpl; auto. destruct (find _ l2); simpl; auto.
Qed.

(* (L0) *)
Lemma bind_py_star_plain fixed s c : bind_py_star fixed None false s c = bind_py_gen fixed s c.
Proof.
  unfold bind_py_star, bind_py_gen. cbv zeta.
  rewrite (missing_loop_ext _ (fun _ => false)) by reflexivity.
  rewrite missing_loop_false_find.
  destruct (find _ _); reflexivity.
Qed.

Lemma missing_loop_inr forgive chain : forall ca0 ca key,
  (forall k, dmem k ca0 = true -> dmem k ca = true) ->
  missing_loop forgive chain ca = inr key ->
  exists b, In (key, b) chain /\ forgive b = false /\ dmem key ca0 = false.
Proof.
  induction chain as [|[k b] t IH]; intros ca0 ca key Inv H; simpl in H; [discriminate|].
  destruct (dmem k ca) eqn:Ek.
  - destruct (IH ca0 ca key Inv H) as [b' [H1 H2]]. exists b'. split; [right; auto|auto].
  - destruct (forgive b) eqn:Ef.
    + destruct (IH ca0 (dset k AnyV ca) key) as [b' [H1 H2]]; auto.
      * intros k' Hk'. unfold dmem. rewrite dget_dset. destruct (k' =? k); auto. apply Inv in Hk'. exact Hk'.
      * exists b'. split; [right; auto|auto].
    + inversion H; subst key. exists b. split; [left; auto|]. split; auto.
      destruct (dmem k ca0) eqn:E0; auto. apply Inv in E0. congruence.
Qed.

Lemma missing_loop_inr' forgive chain ca key :
  missing_loop forgive chain ca = inr key ->
  exists b, In (key, b) chain /\ forgive b = false /\ dmem key ca = false.
Proof. apply missing_loop_inr. auto. Qed.

Lemma missing_loop_forgive_irrelevant forgive chain ca :
  (forall key b, In (key, b) chain -> forgive b = true -> dmem key ca = true) ->
  missing_loop forgive chain ca = missing_loop (fun _ => false) chain ca.
Proof.
  induction chain as [|[k b] t IH]; intros H; simpl; auto.
  destruct (dmem k ca) eqn:Ek.
  - apply IH. intros key b' Hin. apply H. right; auto.
  - destruct (forgive b) eqn:Ef; auto. rewrite (H k b) in Ek; [discriminate|left; auto|auto].
Qed.

(* ---------------------------------------------------------------------------------- *)
(* (L1) closed form of bind_py_star true *)

Definition chain_of (s : sig) : list (name * bool) :=
  map (fun n => (n, false)) (filter (fun n => negb (mem n (defaults s))) (param_names s))
  ++ map (fun n => (n, true)) (kwonly s).

Lemma bind_py_star_unfold star sstar s c :
  NoDup (param_names s) -> NoDup (kws c) ->
  bind_py_star true star sstar s c =
  let dup := filter (fun key => negb (mem key (posonly s)) && mem key (kws c)) (firstn (npos c) (param_names s)) in
  if nonempty dup then Err (EDuplicateKeyword dup) else
  let extra_kws := filter (fun k => negb (mem k (param_names s ++ kwonly s))) (kws c) in
  if nonempty extra_kws && negb (is_some (kwargs s)) then Err (EWrongKeywordArgs extra_kws) else
  let posonly_kws := filter (fun k => mem k (posonly s)) (kws c) in
  if nonempty posonly_kws && negb (is_some (kwargs s)) then Err (EWrongKeywordArgs posonly_kws) else
  match missing_loop (fun kwonly => sstar || (is_some star && negb kwonly)) (chain_of s) (callargs2 s c) with
  | inr key => Err (EMissingParameter key)
  | inl ca =>
    match (match varargs s with
           | Some va => Some (dset va (match star with
                                       | Some v => v
                                       | None => VarArgs (skipn (length (param_names s)) (seq 0 (npos c)))
                                       end) ca)
           | None => if length (param_names s) <? npos c then None else Some ca
           end) with
    | None => Err EWrongArgCount
    | Some callargs =>
      match kwargs s with
      | Some kn => Ok (dset kn (if sstar then KwOpaque
                                else KwArgs (filter (fun k => negb (mem k (pos_or_kw s ++ kwonly s))) (kws c))) callargs)
      | None => Ok callargs
      end
    end
  end.
Proof.
  intros NA NK. unfold bind_py_star, chain_of.
  rewrite (dict_of_id (map (fun k => (k, Kw k)) (kws c))) by (apply (eq_ind_r (@NoDup name) NK (keys_kwsd c))).
  rewrite (dict_of_id (combine (param_names s) (map Pos (seq 0 (npos c)))))
    by (rewrite keys_combine_pos; apply NoDup_firstn; exact NA).
  rewrite keys_combine_pos. fold (kwsd c). rewrite keys_kwsd.
  rewrite map_length, seq_length.
  assert (filter (fun key => negb (mem key (posonly s)) && dmem key (kwsd c)) (firstn (npos c) (param_names s))
          = filter (fun key => negb (mem key (posonly s)) && mem key (kws c)) (firstn (npos c) (param_names s))) as ->.
  { apply filter_ext. intros a. rewrite dmem_kwsd. reflexivity. }
  reflexivity.
Qed.

(* the errors of bind_py_star true: RefErr with the forgiven cases removed *)
Lemma star_err star sstar s c :
  names_ok s -> NoDup (kws c) -> is_err (bind_py_star true star sstar s c) = true ->
  (exists j p, In (j, p) (indexed 0 (param_names s)) /\ j < npos c /\ length (posonly s) <= j /\ In p (kws c))
  \/ (kwargs s = None /\ exists k, In k (kws c) /\ ~ In k (pos_or_kw s ++ kwonly s))
  \/ (length (param_names s) < npos c /\ varargs s = None)
  \/ (sstar = false /\ star = None /\
      exists j p, In (j, p) (indexed 0 (param_names s)) /\ npos c <= j
                  /\ ~ (length (posonly s) <= j /\ In p (kws c)) /\ ~ In p (defaults s))
  \/ (sstar = false /\ exists p, In p (kwonly s) /\ ~ In p (kws c) /\ ~ In p (defaults s)).
Proof.
  intros W NK. rewrite bind_py_star_unfold; auto; [|apply W]. cbv zeta.
  rewrite !nonempty_filter.
  destruct (existsb (fun key => negb (mem key (posonly s)) && mem key (kws c)) (firstn (npos c) (param_names s))) eqn:E1.
  { intros _. apply existsb_exists in E1. destruct E1 as [p [Hp Hc]]. apply andb_prop in Hc. destruct Hc as [Hc1 Hc2].
    apply (firstn_indexed (npos c) 0) in Hp. destruct Hp as [j [Hj Hjp]].
    left. exists j, p. repeat split; auto.
    - apply negb_true_iff in Hc1. apply mem_nIn in Hc1.
      pose proof (pos_index_posonly s j p W Hjp) as Hi.
      destruct (Nat.lt_ge_cases j (length (posonly s))) as [L|L]; [exfalso; apply Hc1; apply Hi; exact L | exact L].
    - apply mem_In. exact Hc2. }
  destruct (existsb (fun k => negb (mem k (param_names s ++ kwonly s))) (kws c) && negb (is_some (kwargs s))) eqn:E2.
  { intros _. apply andb_prop in E2. destruct E2 as [E2 E2k]. apply existsb_exists in E2. destruct E2 as [k [Hk Hc]].
    right. left. split.
    - destruct (kwargs s); simpl in E2k; [discriminate|reflexivity].
    - exists k. split; auto. apply negb_true_iff in Hc. apply mem_nIn in Hc. intros Hin. apply Hc.
      apply in_app_or in Hin. apply in_or_app. destruct Hin; [left; apply In_pkw_A; auto | right; auto]. }
  destruct (existsb (fun k => mem k (posonly s)) (kws c) && negb (is_some (kwargs s))) eqn:E3.
  { intros _. apply andb_prop in E3. destruct E3 as [E3 E3k]. apply existsb_exists in E3. destruct E3 as [k [Hk Hc]].
    right. left. split.
    - destruct (kwargs s); simpl in E3k; [discriminate|reflexivity].
    - exists k. split; auto. apply mem_In in Hc. intros Hin. apply in_app_or in Hin. destruct Hin as [Hin|Hin].
      + eapply nd_PQ; eauto.
      + eapply nd_AK; eauto. apply In_posonly_A; auto. }
  destruct (missing_loop _ (chain_of s) (callargs2 s c)) as [ca|key] eqn:E4.
  2:{ intros _. apply missing_loop_inr' in E4. destruct E4 as [b [Hin [Hf Hm]]].
      unfold dmem in Hm. unfold chain_of in Hin. apply in_app_or in Hin. destruct Hin as [Hin|Hin].
      - apply in_map_iff in Hin. destruct Hin as [n [Hn Hin]]. inversion Hn; subst n b. clear Hn.
        apply filter_In in Hin. destruct Hin as [HA HD]. apply negb_true_iff in HD. apply mem_nIn in HD.
        simpl in Hf. rewrite andb_true_r in Hf. apply orb_false_elim in Hf. destruct Hf as [Hf1 Hf2].
        destruct (In_A_indexed s key HA) as [j [Hjp Hj]].
        rewrite (callargs2_pos s c j key W NK Hjp) in Hm.
        right. right. right. left. split; auto. split; [destruct star; [discriminate|reflexivity]|].
        exists j, key.
        destruct (mem key (kws c) && (length (posonly s) <=? j)) eqn:Ek; [discriminate|].
        destruct (j <? npos c) eqn:Ej; [discriminate|]. apply Nat.ltb_ge in Ej.
        repeat split; auto. intros [Hl Hk]. apply mem_In in Hk. apply Nat.leb_le in Hl. rewrite Hk, Hl in Ek. discriminate.
      - apply in_map_iff in Hin. destruct Hin as [n [Hn Hin]]. inversion Hn; subst n b. clear Hn.
        apply orb_false_elim in Hf. destruct Hf as [Hf1 Hf2].
        rewrite (callargs2_kwo s c key W NK Hin) in Hm.
        right. right. right. right. split; auto. exists key.
        destruct (mem key (kws c)) eqn:Ek; [discriminate|]. destruct (mem key (defaults s)) eqn:Ed; [discriminate|].
        apply mem_nIn in Ek, Ed. auto. }
  destruct (varargs s) as [va|] eqn:Eva.
  - destruct (kwargs s); simpl; discriminate.
  - destruct (length (param_names s) <? npos c) eqn:E5.
    + intros _. right. right. left. apply Nat.ltb_lt in E5. auto.
    + destruct (kwargs s); simpl; discriminate.
Qed.

(* ---------------------------------------------------------------------------------- *)
(* concrete call sites *)

Lemma all_IArg_repeat (l : list item) : (forall x, In x l -> x = IArg) -> l = repeat IArg (length l).
Proof.
  induction l as [|a l IH]; simpl; intros H; auto.
  rewrite (H a) by auto. f_equal. apply IH. auto.
Qed.

Lemma take_args_repeat n : take_args (repeat IArg n) = n.
Proof. induction n; simpl; auto. Qed.

Lemma expanded_npos_repeat n lens : expanded_npos (repeat IArg n) lens = n.
Proof. induction n; simpl; auto. Qed.

Lemma all_any_repeat np n : all_any np (repeat IArg n) = map PArg (seq 0 (np + n)).
Proof.
  unfold all_any. rewrite seq_app, map_app. f_equal. simpl.
  revert np. induction n; intros np; simpl; auto. f_equal. apply IHn.
Qed.

Lemma unpack_match_concrete s np n kws :
  unpack_match s (mkX np (repeat IArg n) kws false) =
  let N := np + n in
  if required_posargs kws (defaults s) (param_names s) <=? N then
    match varargs s with
    | None => (map PArg (seq 0 N), None)
    | Some _ =>
      let extra := skipn (length (param_names s)) (seq 0 N) in
      (firstn (length (param_names s)) (map PArg (seq 0 N)), if nonempty extra then Some (STuple extra) else None)
    end
  else (map PArg (seq 0 N), None).
Proof.
  unfold unpack_match. cbn [x_npos x_items x_kws x_opaque].
  rewrite take_args_repeat.
  rewrite (skipn_all2 (repeat IArg n)) by (rewrite repeat_length; lia).
  cbn [rev take_args length firstn nonempty andb Nat.sub].
  rewrite all_any_repeat, repeat_length. rewrite !Nat.add_0_r. cbv zeta.
  destruct (_ <=? _); reflexivity.
Qed.

Lemma nth_error_PArg_seq N j :
  nth_error (map PArg (seq 0 N)) j = if j <? N then Some (PArg j) else None.
Proof.
  destruct (j <? N) eqn:E.
  - apply Nat.ltb_lt in E. rewrite nth_error_map. 
    rewrite (nth_error_nth' (seq 0 N) 0) by (rewrite seq_length; lia). rewrite seq_nth by lia. reflexivity.
  - apply Nat.ltb_ge in E. apply nth_error_None. rewrite map_length, seq_length. lia.
Qed.

Lemma nth_error_firstn' {A} n (l : list A) j :
  nth_error (firstn n l) j = if j <? n then nth_error l j else None.
Proof.
  revert n j. induction l as [|a l IH]; intros n j; simpl.
  - rewrite firstn_nil. destruct j; destruct (_ <? _); reflexivity.
  - destruct n; simpl.
    + destruct j; reflexivity.
    + destruct j; simpl; auto. rewrite IH. reflexivity.
Qed.

Lemma resolve_id ps v :
  (forall j, nth_error ps j = Some (PArg j) \/ nth_error ps j = None) -> resolve ps v = v.
Proof.
  intros H. destruct v; simpl; auto.
  - unfold resolve_ix. destruct (H i) as [-> | ->]; reflexivity.
  - f_equal. rewrite <- (map_id l) at 2. apply map_ext. intros j. unfold ix_of.
    destruct (H j) as [-> | ->]; reflexivity.
Qed.

Lemma map_resolve_id ps (d : dict) :
  (forall j, nth_error ps j = Some (PArg j) \/ nth_error ps j = None) ->
  map (fun kv => (fst kv, resolve ps (snd kv))) d = d.
Proof.
  intros H. rewrite <- (map_id d) at 2. apply map_ext. intros [k v]. simpl. rewrite resolve_id; auto.
Qed.

Lemma combine_seq_ge (l : list name) i n :
  length l <= n -> combine l (map Pos (seq i n)) = combine l (map Pos (seq i (length l))).
Proof.
  revert i n. induction l as [|a l IH]; intros i n H; simpl; auto.
  destruct n; simpl in *; [lia|]. f_equal. apply IH. lia.
Qed.

Lemma callargs2_ge s n1 n2 kws :
  length (param_names s) <= n1 -> length (param_names s) <= n2 ->
  callargs2 s (mkShape n1 kws) = callargs2 s (mkShape n2 kws).
Proof.
  intros H1 H2. unfold callargs2, positional, kwsd. simpl.
  rewrite (combine_seq_ge _ 0 n1 H1), (combine_seq_ge _ 0 n2 H2). reflexivity.
Qed.

(* *args taken from args.starargs: the same binding as with all positional arguments *)
Lemma bind_py_star_tuple s n N kws :
  wf_sig s -> NoDup kws -> varargs s <> None -> n = length (param_names s) -> n <= N ->
  bind_py_star true (Some (VarArgs (skipn n (seq 0 N)))) false s (mkShape n kws)
  = bind_py_fixed s (mkShape N kws).
Proof.
  intros [WN WD] NK Hva En HN. pose proof (wf_names s WN) as W.
  rewrite bind_py_star_unfold; auto; [|apply W].
  rewrite bind_py_fixed_unfold; auto; [|apply W]. cbv zeta. cbn [npos Model.kws].
  rewrite (firstn_all2 (n := n)) by lia. rewrite (firstn_all2 (n := N)) by lia.
  rewrite (callargs2_ge s n N) by lia.
  rewrite missing_loop_forgive_irrelevant.
  2:{ intros key b Hin Hf. simpl in Hf. destruct b; [discriminate|].
      unfold chain_of in Hin. apply in_app_or in Hin. destruct Hin as [Hin|Hin].
      - apply in_map_iff in Hin. destruct Hin as [k [Hk Hin]]. inversion Hk; subst k.
        apply filter_In in Hin. destruct Hin as [HA _].
        destruct (In_A_indexed s key HA) as [j [Hjp Hj]].
        unfold dmem. rewrite (callargs2_pos s (mkShape N kws) j key W NK Hjp). cbn [npos Model.kws].
        destruct (_ && _); auto. assert (j <? N = true) as -> by (apply Nat.ltb_lt; lia). reflexivity.
      - apply in_map_iff in Hin. destruct Hin as [k [Hk Hin]]. inversion Hk. }
  unfold chain_of. rewrite missing_loop_false_find.
  destruct (varargs s) as [va|] eqn:Eva; [|congruence].
  subst n. destruct (find _ _); reflexivity.
Qed.

Lemma bind_px_concrete s c :
  wf_sig s -> NoDup (x_kws c) -> concrete c -> bind_px s c = bind_py_fixed s (expand c [] []).
Proof.
  intros WS NK [HI HO]. destruct c as [np items kws op]. simpl in *. subst op.
  rewrite (all_IArg_repeat items HI). set (n := length items).
  unfold expand. cbn [x_npos x_items x_kws x_opaque]. rewrite expanded_npos_repeat, app_nil_r.
  unfold bind_px, bind_px_gen. rewrite unpack_match_concrete. cbv zeta. cbn [x_npos x_items x_kws x_opaque]. set (N := np + n).
  assert (Hid : forall j, nth_error (map PArg (seq 0 N)) j = Some (PArg j) \/ nth_error (map PArg (seq 0 N)) j = None).
  { intros j. rewrite nth_error_PArg_seq. destruct (j <? N); auto. }
  assert (Base : match bind_py_star true (option_map star_value None) false s
                         (mkShape (length (map PArg (seq 0 N))) kws) with
                 | Ok d => Ok (map (fun kv => (fst kv, resolve (map PArg (seq 0 N)) (snd kv))) d)
                 | Err e => Err e
                 end = bind_py_fixed s (mkShape N kws)).
  { simpl option_map. rewrite bind_py_star_plain. rewrite map_length, seq_length.
    fold (bind_py_fixed s (mkShape N kws)). destruct (bind_py_fixed s (mkShape N kws)); auto.
    rewrite map_resolve_id; auto. }
  destruct (_ <=? N); [|exact Base].
  destruct (varargs s) as [va|] eqn:Eva; [|exact Base].
  set (np' := length (param_names s)).
  destruct (Nat.le_gt_cases N np') as [L|L].
  - rewrite skipn_all2 by (rewrite seq_length; lia). simpl nonempty. cbv iota.
    rewrite firstn_all2 by (rewrite map_length, seq_length; lia). exact Base.
  - assert (nonempty (skipn np' (seq 0 N)) = true) as ->.
    { rewrite skipn_seq'. destruct (N - np') eqn:E; [lia|reflexivity]. }
    rewrite firstn_length, map_length, seq_length. rewrite Nat.min_l by lia.
    simpl option_map. rewrite bind_py_star_tuple; auto; try lia; try congruence.
    destruct (bind_py_fixed s (mkShape N kws)); auto.
    rewrite map_resolve_id; auto.
    intros j. rewrite nth_error_firstn', nth_error_PArg_seq. destruct (j <? np'); auto. destruct (j <? N); auto.
Qed.

(* (T1) *)
Lemma splat_concrete_agree_lemma :
  forall s c, wf_sig s -> NoDup (x_kws c) -> concrete c -> agree s (bind_px s c) (bind_c s (expand c [] [])).
Proof.
  intros s c WS NK HC. rewrite bind_px_concrete; auto.
  apply bind_agree_fixed_lemma; auto.
  unfold wf_shape, expand. simpl. destruct HC as [_ ->]. rewrite app_nil_r. exact NK.
Qed.

(* ---------------------------------------------------------------------------------- *)
(* no false positive when no argument follows the last indefinite splat *)

Lemma required_le kws D ps : required_posargs kws D ps <= length ps.
Proof. induction ps as [|a t IH]; simpl; auto. destruct (_ || _); lia. Qed.

Lemma required_before kws D ps i j p :
  In (j, p) (indexed i ps) -> j < i + required_posargs kws D ps -> mem p kws = false /\ mem p D = false.
Proof.
  revert i. induction ps as [|a t IH]; intros i H Hj; simpl in *; [tauto|].
  destruct (mem a kws || mem a D) eqn:E.
  - destruct H as [H|H]; [inversion H; lia | apply indexed_range in H; lia].
  - destruct H as [H|H].
    + inversion H; subst. apply orb_false_elim in E. exact E.
    + apply (IH (S i)); auto. lia.
Qed.

Lemma required_at kws D ps i j p :
  In (j, p) (indexed i ps) -> j = i + required_posargs kws D ps -> mem p kws || mem p D = true.
Proof.
  revert i. induction ps as [|a t IH]; intros i H Hj; simpl in *; [tauto|].
  destruct (mem a kws || mem a D) eqn:E.
  - destruct H as [H|H]; [inversion H; subst; exact E | apply indexed_range in H; lia].
  - destruct H as [H|H].
    + inversion H; lia.
    + apply (IH (S i)); auto. lia.
Qed.

Lemma indexed_exists {A} i (l : list A) k : i <= k < i + length l -> exists x, In (k, x) (indexed i l).
Proof.
  revert i. induction l as [|a l IH]; intros i H; simpl in *; [lia|].
  destruct (Nat.eq_dec k i) as [->|Hne].
  - exists a. auto.
  - destruct (IH (S i)) as [x Hx]; [lia|]. exists x. auto.
Qed.

Lemma take_args_le_expanded l lens : take_args l <= expanded_npos l lens.
Proof. induction l as [|[|] t IH]; simpl; try lia. Qed.

Lemma take_all_expanded l lens :
  skipn (take_args l) l = [] -> expanded_npos l lens = length l /\ take_args l = length l.
Proof.
  induction l as [|[|] t IH]; simpl; intros H; auto.
  - destruct (IH H) as [H1 H2]. rewrite H1, H2. auto.
  - discriminate.
Qed.

Lemma all_any_length np items : length (all_any np items) = np + length items.
Proof. unfold all_any. rewrite app_length, !map_length, seq_length, indexed_length. reflexivity. Qed.

Lemma unpack_match_star_last s c lens ps st :
  star_last c -> unpack_match s c = (ps, st) ->
  length ps <= max (x_npos c + expanded_npos (x_items c) lens)
                   (required_posargs (x_kws c) (defaults s) (param_names s))
  /\ (st = None -> x_npos c + expanded_npos (x_items c) lens <= length ps
                   \/ required_posargs (x_kws c) (defaults s) (param_names s) <= length ps).
Proof.
  destruct c as [np items kws op]. unfold star_last, unpack_match. cbn [x_npos x_items x_kws x_opaque].
  intros SL. cbv zeta. rewrite SL. rewrite Nat.sub_0_r, firstn_all. rewrite Nat.eqb_refl, andb_true_r.
  pose proof (take_args_le_expanded items lens) as HL.
  set (required := required_posargs kws (defaults s) (param_names s)).
  destruct (skipn (take_args items) items) as [|x r] eqn:ER.
  - destruct (take_all_expanded items lens ER) as [H1 H2]. rewrite H1, H2 in *.
    cbn [nonempty length]. rewrite !Nat.add_0_r.
    destruct (required <=? np + length items) eqn:ERq.
    + destruct (varargs s) as [va|].
      * intros H. inversion H; subst ps st. clear H.
        rewrite firstn_length, all_any_length. split; [lia|].
        intros Hst. left.
        destruct (skipn (length (param_names s)) (seq 0 (np + length items))) eqn:Esk; [|discriminate].
        rewrite skipn_seq' in Esk. assert (np + length items - length (param_names s) = 0).
        { destruct (np + length items - length (param_names s)); [reflexivity|discriminate]. }
        lia.
      * intros H. inversion H; subst ps st. rewrite all_any_length. split; [lia|]. intros _. left. lia.
    + intros H. inversion H; subst ps st. rewrite map_length, seq_length. split; [lia|]. intros _. left. lia.
  - cbn [nonempty]. destruct (varargs s) as [va|].
    + intros H. inversion H; subst ps st. rewrite map_length, seq_length. split; [lia|]. discriminate.
    + intros H. inversion H; subst ps st. rewrite app_length, map_length, seq_length, repeat_length.
      split; [|intros _; right]; lia.
Qed.

(* (T3) *)
Lemma splat_no_false_positive_partial_lemma :
  forall s c lens extra,
    wf_sig s -> NoDup (x_kws c ++ (if x_opaque c then extra else [])) -> star_last c ->
    (forall k, In k (x_kws c) -> ~ In k (posonly s)) ->
    is_err (bind_px s c) = true -> is_err (bind_c s (expand c lens extra)) = true.
Proof.
  intros s c lens extra WS ND SL HP HE.
  pose proof (c_ref s (expand c lens extra) WS ND) as HC.
  destruct WS as [WN WD]. pose proof (wf_names s WN) as W.
  assert (NK : NoDup (x_kws c)) by (eapply NoDup_app_l; eauto).
  assert (R : RefErr s (expand c lens extra)).
  2:{ destruct (bind_c s (expand c lens extra)); auto. destruct HC as [HC _]. contradiction. }
  clear HC. unfold bind_px, bind_px_gen in HE. destruct (unpack_match s c) as [ps st] eqn:EU.
  assert (HE' : is_err (bind_py_star true (option_map star_value st) (x_opaque c) s
                          (mkShape (length ps) (x_kws c))) = true).
  { destruct (bind_py_star _ _ _ _ _); simpl in *; auto. }
  clear HE. apply star_err in HE'; auto. cbn [npos kws] in HE'.
  destruct (unpack_match_star_last s c lens ps st SL EU) as [F1 F2].
  unfold RefErr, expand. cbn [npos kws].
  set (Nx := x_npos c + expanded_npos (x_items c) lens) in *.
  set (required := required_posargs (x_kws c) (defaults s) (param_names s)) in *.
  destruct HE' as [[j [p [Hjp [Hj [Hpo Hk]]]]]
                  | [[Hkw [k [Hk Hn]]]
                  | [[Hl Hva]
                  | [[Hss [Hst [j [p [Hjp [Hj [Hnk Hd]]]]]]]
                  | [Hss [p [Hp [Hk Hd]]]]]]]].
  - destruct (Nat.lt_ge_cases j Nx) as [L|L].
    + left. exists j, p. repeat split; auto. apply in_or_app. auto.
    + exfalso. assert (j < 0 + required) as Hr by lia.
      destruct (required_before _ _ _ 0 j p Hjp Hr) as [Hm _]. apply mem_nIn in Hm. auto.
  - right. left. split; auto. exists k. split; auto. apply in_or_app. auto.
  - right. right. left. split; auto. pose proof (required_le (x_kws c) (defaults s) (param_names s)). lia.
  - rewrite Hss. rewrite app_nil_r.
    assert (st = None) as Est by (destruct st; [discriminate|reflexivity]).
    assert (Hnp : ~ In p (x_kws c)).
    { intros Hin. apply Hnk. split; auto. pose proof (pos_index_posonly s j p W Hjp) as Hi.
      destruct (Nat.lt_ge_cases j (length (posonly s))) as [L|L]; auto.
      exfalso. apply (HP p Hin). apply Hi. exact L. }
    assert (Fourth : Nx <= j ->
      exists j0 p0, In (j0, p0) (indexed 0 (param_names s)) /\ Nx <= j0 /\
                    ~ (length (posonly s) <= j0 /\ In p0 (x_kws c)) /\ ~ In p0 (defaults s)).
    { intros L. exists j, p. split; [exact Hjp|]. split; [exact L|]. split; [|exact Hd]. intros [_ Hin]. exact (Hnp Hin). }
    destruct (F2 Est) as [F|F].
    + right. right. right. left. apply Fourth. lia.
    + apply mem_nIn in Hnp. pose proof Hd as Hd'. apply mem_nIn in Hd'.
      assert (j <> required) as Hne.
      { intros E. pose proof (required_at (x_kws c) (defaults s) (param_names s) 0 j p Hjp E) as Ht.
        fold required in Ht. rewrite Hnp, Hd' in Ht. discriminate. }
      pose proof (indexed_range _ _ _ _ Hjp) as [Hjr _]. simpl in Hjr.
      destruct (indexed_exists 0 (param_names s) required) as [q Hq]; [lia|].
      pose proof (required_at (x_kws c) (defaults s) (param_names s) 0 required q Hq eq_refl) as Ht.
      pose proof (defaults_suffix_index _ _ j p WD Hjp) as [Hdc Hjd]. cbv zeta in Hjd.
      pose proof (defaults_suffix_index _ _ required q WD Hq) as [_ Hqd]. cbv zeta in Hqd.
      assert (mem q (defaults s) = false) as Hqn. { apply Hqd. apply Hjd in Hd'. lia. }
      rewrite Hqn, orb_false_r in Ht. apply mem_In in Ht.
      assert (length (posonly s) <= required) as Hpq.
      { pose proof (pos_index_posonly s required q W Hq) as Hi.
        destruct (Nat.lt_ge_cases required (length (posonly s))) as [L|L]; auto.
        exfalso. apply (HP q Ht). apply Hi. exact L. }
      destruct (Nat.lt_ge_cases required Nx) as [L|L].
      * left. exists required, q. repeat split; auto.
      * right. right. right. left. apply Fourth. lia.
  - right. right. right. right. rewrite Hss, app_nil_r. exists p. auto.
Qed.

Print Assumptions bind_py_star_plain.
Print Assumptions missing_loop_inr.
Print Assumptions missing_loop_forgive_irrelevant.
Print Assumptions bind_py_star_unfold.
Print Assumptions star_err.
Print Assumptions bind_px_concrete.
Print Assumptions splat_concrete_agree_lemma.
Print Assumptions splat_no_false_positive_partial_lemma.
