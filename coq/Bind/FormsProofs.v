(* Proofs about coq/Bind/FormsModel.v: receiver insertion, constructors, overload selection. *)
From Coq Require Import List Arith Bool Lia.
From PV Require Import Bind.Model Bind.Proofs Bind.PytdModel Bind.PytdProofs Bind.FormsModel.
Import ListNotations.

Lemma wf_shape_insert c : wf_shape c -> wf_shape (insert c).
Proof. intro H; exact H. Qed.

(* ---- receiver insertion, both sides ---- *)
Lemma form_insert_py_lemma :
  forall E (argcount : sig -> nat) (B : sig -> shape -> result E) f s c,
  receiver f = true -> 1 <= argcount s -> call_form_py argcount B f s c = B s (insert c).
Proof.
  intros E ac B f s c Hr Ha. unfold call_form_py, bound_call. rewrite Hr.
  destruct (1 <=? ac s) eqn:H; [reflexivity|]. apply Nat.leb_gt in H. lia.
Qed.

Lemma form_plain_py_lemma :
  forall E (argcount : sig -> nat) (B : sig -> shape -> result E) f s c,
  receiver f = false -> call_form_py argcount B f s c = B s c.
Proof. intros. unfold call_form_py. rewrite H. reflexivity. Qed.

Lemma form_insert_c_lemma :
  forall f s c, call_form_c f s c = bind_c s (if receiver f then insert c else c).
Proof. reflexivity. Qed.

Lemma argcount_src_pos s : param_names s <> [] -> 1 <= argcount_src s.
Proof. unfold argcount_src. destruct (param_names s); [congruence|simpl; lia]. Qed.

Lemma form_agree_gen :
  forall (B : sig -> shape -> result py_err) f s c,
  (forall c', kws c' = kws c -> agree s (B s c') (bind_c s c')) ->
  (receiver f = true -> param_names s <> []) ->
  agree s (call_form_py argcount_src B f s c) (call_form_c f s c).
Proof.
  intros B f s c HB Hp. unfold call_form_c. destruct (receiver f) eqn:Hr.
  - rewrite form_insert_py_lemma by (auto using argcount_src_pos). apply HB. reflexivity.
  - rewrite form_plain_py_lemma by assumption. apply HB. reflexivity.
Qed.

Lemma form_agree_fixed_lemma :
  forall f s c, wf_sig s -> wf_shape c -> (receiver f = true -> param_names s <> []) ->
  agree s (call_form_py argcount_src bind_py_fixed f s c) (call_form_c f s c).
Proof.
  intros f s c WS WC Hp. apply form_agree_gen; [|assumption].
  intros c' Hk. apply bind_agree_fixed_lemma; [assumption|]. unfold wf_shape in *. rewrite Hk. assumption.
Qed.

Lemma form_agree_partial_lemma :
  forall f s c, wf_sig s -> wf_shape c -> (receiver f = true -> param_names s <> []) ->
  (kwargs s = None \/ forall k, In k (kws c) -> ~ In k (posonly s)) ->
  agree s (call_form_py argcount_src bind_py f s c) (call_form_c f s c).
Proof.
  intros f s c WS WC Hp Hh. apply form_agree_gen; [|assumption].
  intros c' Hk. apply bind_agree_partial_lemma; [assumption| |].
  - unfold wf_shape in *. rewrite Hk. assumption.
  - rewrite Hk. assumption.
Qed.

(* class C:  def m(): ...      C().m()  -- self is not put in front, the mapper accepts; CPython raises *)
Lemma form_agree_refuted_lemma :
  exists f s c, receiver f = true /\ wf_sig s /\ wf_shape c /\ param_names s = []
    /\ is_err (call_form_py argcount_src bind_py_fixed f s c) = false
    /\ is_err (call_form_c f s c) = true
    /\ ~ agree s (call_form_py argcount_src bind_py_fixed f s c) (call_form_c f s c).
Proof.
  exists FInstanceMethod, (mkSig [] [] [] [] None None), (mkShape 0 []).
  split; [reflexivity|]. split; [apply wf_sigb_sound; reflexivity|]. split; [apply wf_shapeb_sound; reflexivity|].
  split; [reflexivity|]. split; [reflexivity|]. split; [reflexivity|]. vm_compute. tauto.
Qed.

(* class C:  def n( *va): ...   C().n(x)  -- va = (x,) for pytype, (self, x) for CPython *)
Lemma form_agree_refuted_binding_lemma :
  exists f s c, receiver f = true /\ wf_sig s /\ wf_shape c
    /\ lookup_all s (call_form_py argcount_src bind_py_fixed f s c) = Some [Some (VarArgs [1])]
    /\ lookup_all s (call_form_c f s c) = Some [Some (VarArgs [0; 1])]
    /\ ~ agree s (call_form_py argcount_src bind_py_fixed f s c) (call_form_c f s c).
Proof.
  exists FInstanceMethod, (mkSig [] [] [] [] (Some 9) None), (mkShape 1 []).
  split; [reflexivity|]. split; [apply wf_sigb_sound; reflexivity|]. split; [apply wf_shapeb_sound; reflexivity|].
  split; [reflexivity|]. split; [reflexivity|].
  vm_compute. intro H. destruct (H 9 (or_introl eq_refl)) as [H1 _]. discriminate H1.
Qed.

(* stubs: error iff error *)
Lemma form_pytd_err_agree_lemma :
  forall va_annotated argname f s c, wf_sig s -> wf_shape c ->
  argname_fresh argname s c -> (receiver f = true -> 1 <= argcount_pytd s) ->
  is_err (call_form_py argcount_pytd (bind_pytd va_annotated argname) f s c) = is_err (call_form_c f s c).
Proof.
  intros va an f s c WS WC HF Hp. unfold call_form_c. destruct (receiver f) eqn:Hr.
  - rewrite form_insert_py_lemma by auto. apply bind_pytd_err_agree_lemma; auto.
  - rewrite form_plain_py_lemma by assumption. apply bind_pytd_err_agree_lemma; auto.
Qed.

(* ---- object.__init__ as the stub declares it ---- *)
Definition fresh_for (s : sig) (c : shape) (i : nat) : name :=
  S (list_max (kws c ++ param_names s ++ kwonly s)) + i.

Lemma in_le_list_max x l : In x l -> x <= list_max l.
Proof.
  intro H. pose proof (proj1 (list_max_le l (list_max l)) (Nat.le_refl _)) as HF.
  rewrite Forall_forall in HF. apply HF. assumption.
Qed.

Lemma fresh_for_fresh s c : argname_fresh (fresh_for s c) s c.
Proof.
  intro i. unfold fresh_for. split; intro H; apply in_le_list_max in H.
  - assert (list_max (kws c) <= list_max (kws c ++ param_names s ++ kwonly s)).
    { rewrite list_max_app. lia. }
    apply in_le_list_max in H || idtac. lia.
  - assert (list_max (param_names s ++ kwonly s) <= list_max (kws c ++ param_names s ++ kwonly s)).
    { rewrite (list_max_app (kws c)). lia. }
    lia.
Qed.

Lemma bind_pytd_false_argname an an' s c : bind_pytd false an s c = bind_pytd false an' s c.
Proof. unfold bind_pytd. rewrite andb_false_r. reflexivity. Qed.

Lemma pytd_false_err_agree an s c :
  wf_sig s -> wf_shape c -> is_err (bind_pytd false an s c) = is_err (bind_c s c).
Proof.
  intros WS WC. rewrite (bind_pytd_false_argname an (fresh_for s c)).
  apply bind_pytd_err_agree_lemma; auto using fresh_for_fresh.
Qed.

Lemma wf_object_init : wf_sig OBJECT_INIT.
Proof. apply wf_sigb_sound. reflexivity. Qed.
Lemma wf_object_init_extra : wf_sig OBJECT_INIT_EXTRA.
Proof. apply wf_sigb_sound. reflexivity. Qed.

(* CPython binding  def __init__(self)  to (obj, written arguments): raises iff something was written *)
Lemma bind_c_object_init c : is_err (bind_c OBJECT_INIT (insert c)) = excess c.
Proof.
  destruct c as [n ks]. unfold excess, insert. cbn [npos kws].
  destruct ks as [|k rest].
  - destruct n as [|n]; reflexivity.
  - replace ((0 <? n) || nonempty (k :: rest)) with true by (cbn; rewrite orb_true_r; reflexivity).
    unfold bind_c. cbn [posonly pos_or_kw kwonly kws npos OBJECT_INIT length app Nat.add].
    replace (Nat.min (S n) 1) with 1 by lia.
    cbn [indexed map fst snd Nat.ltb Nat.leb]. cbn [kw_loop assign idx nm cur length posonly OBJECT_INIT Nat.leb andb].
    destruct (SELF =? k) eqn:Hk; cbn; reflexivity.
Qed.

Lemma kw_loop_extra all ks kd :
  ~ In SELF ks ->
  kw_loop OBJECT_INIT_EXTRA all ks [mkSlot 0 SELF (Some (Pos 0))] kd
  = inl ([mkSlot 0 SELF (Some (Pos 0))], kd ++ ks).
Proof.
  revert kd. induction ks as [|k ks IH]; intros kd Hn.
  - rewrite app_nil_r. reflexivity.
  - cbn [kw_loop assign idx nm cur length posonly OBJECT_INIT_EXTRA Nat.leb andb].
    destruct (SELF =? k) eqn:Hk.
    + apply Nat.eqb_eq in Hk. exfalso. apply Hn. left. symmetry. assumption.
    + cbn [lift kwargs OBJECT_INIT_EXTRA]. rewrite IH.
      * rewrite <- app_assoc. reflexivity.
      * intro H. apply Hn. right. assumption.
Qed.

(* CPython binding  def __init__extra_args(self, *args, **kwargs): accepts everything except self= *)
Lemma bind_c_object_init_extra c :
  ~ In SELF (kws c) -> is_err (bind_c OBJECT_INIT_EXTRA (insert c)) = false.
Proof.
  destruct c as [n ks]. unfold insert. cbn [npos kws]. intro Hn.
  unfold bind_c. cbn [posonly pos_or_kw kwonly kws npos OBJECT_INIT_EXTRA length app Nat.add].
  replace (Nat.min (S n) 1) with 1 by lia.
  cbn [indexed map fst snd Nat.ltb Nat.leb].
  rewrite kw_loop_extra by assumption.
  cbn [varargs OBJECT_INIT_EXTRA is_some negb andb]. rewrite andb_false_r.
  cbn [defaults filter mem existsb length Nat.sub].
  replace (S n <? 1) with false by (symmetry; apply Nat.ltb_ge; lia).
  cbn. reflexivity.
Qed.

Lemma object_init_py an c :
  wf_shape c ->
  is_err (bound_call argcount_pytd (bind_pytd false an) OBJECT_INIT c) = excess c.
Proof.
  intro WC. unfold bound_call. change (1 <=? argcount_pytd OBJECT_INIT) with true. cbv iota.
  rewrite pytd_false_err_agree by (auto using wf_object_init). apply bind_c_object_init.
Qed.

Lemma object_init_extra_py an c :
  wf_shape c -> ~ In SELF (kws c) ->
  is_err (bound_call argcount_pytd (bind_pytd false an) OBJECT_INIT_EXTRA c) = false.
Proof.
  intros WC Hn. unfold bound_call. change (1 <=? argcount_pytd OBJECT_INIT_EXTRA) with true. cbv iota.
  rewrite pytd_false_err_agree by (auto using wf_object_init_extra). apply bind_c_object_init_extra. assumption.
Qed.

(* ---- constructors ---- *)
Lemma ctor_agree_gen :
  forall (B : sig -> shape -> result py_err) an m c,
  (forall s c', kws c' = kws c -> wf_sig s -> agree s (B s c') (bind_c s c')) ->
  wf_mro m -> wf_shape c ->
  (lookup c_new m <> None -> lookup c_init m = None -> ~ In SELF (kws c)) ->
  ctor_agree m (ctor_py B an m c) (ctor_c m c).
Proof.
  intros B an m c HB [Wn Wi] WC Hself.
  unfold ctor_py, ctor_c, ctor_agree, init_py.
  destruct (lookup c_new m) as [sn|] eqn:En; destruct (lookup c_init m) as [si|] eqn:Ei.
  - (* both *)
    pose proof (HB sn (insert c) eq_refl (Wn sn eq_refl)) as An.
    destruct (Wi si eq_refl) as [WSi Pi].
    pose proof (HB si (insert c) eq_refl WSi) as Ai.
    unfold bound_call. replace (1 <=? argcount_src si) with true
      by (symmetry; apply Nat.leb_le; auto using argcount_src_pos).
    destruct (B sn (insert c)) as [dn|e1]; destruct (bind_c sn (insert c)) as [dn'|e1']; cbn in An; try contradiction; cbn; auto.
    destruct (B si (insert c)) as [di|e2]; destruct (bind_c si (insert c)) as [di'|e2']; cbn in Ai; try contradiction; cbn; auto.
  - (* __new__ only *)
    pose proof (HB sn (insert c) eq_refl (Wn sn eq_refl)) as An.
    assert (Hs : ~ In SELF (kws c)) by (apply Hself; congruence).
    pose proof (object_init_extra_py an c WC Hs) as Ho.
    unfold bound_call in Ho |- *. cbv beta iota in Ho |- *.
    change (1 <=? argcount_pytd OBJECT_INIT_EXTRA) with true in Ho |- *. cbv iota in Ho |- *.
    destruct (bind_pytd false an OBJECT_INIT_EXTRA (insert c)) as [d0|e0]; [|discriminate Ho].
    destruct (B sn (insert c)) as [dn|e1]; destruct (bind_c sn (insert c)) as [dn'|e1']; cbn in An; try contradiction; cbn; auto.
    rewrite andb_false_r. cbn. auto.
  - (* __init__ only *)
    destruct (Wi si eq_refl) as [WSi Pi].
    pose proof (HB si (insert c) eq_refl WSi) as Ai.
    unfold bound_call. replace (1 <=? argcount_src si) with true
      by (symmetry; apply Nat.leb_le; auto using argcount_src_pos).
    cbn. rewrite andb_false_r.
    destruct (B si (insert c)) as [di|e2]; destruct (bind_c si (insert c)) as [di'|e2']; cbn in Ai; try contradiction; cbn; auto.
  - (* neither *)
    pose proof (object_init_py an c WC) as Ho.
    unfold bound_call in Ho |- *. cbv beta iota in Ho |- *.
    change (1 <=? argcount_pytd OBJECT_INIT) with true in Ho |- *. cbv iota in Ho |- *.
    cbn [is_some negb]. rewrite andb_true_r.
    destruct (bind_pytd false an OBJECT_INIT (insert c)) as [d0|e0]; cbn in Ho; rewrite <- Ho; cbn; auto.
Qed.

Lemma ctor_agree_fixed_lemma :
  forall an m c, wf_mro m -> wf_shape c ->
  (lookup c_new m <> None -> lookup c_init m = None -> ~ In SELF (kws c)) ->
  ctor_agree m (ctor_py bind_py_fixed an m c) (ctor_c m c).
Proof.
  intros an m c WM WC Hs. apply ctor_agree_gen; auto.
  intros s c' Hk WS. apply bind_agree_fixed_lemma; auto. unfold wf_shape in *. rewrite Hk. assumption.
Qed.

Lemma ctor_err_iff_fixed_lemma :
  forall an m c, wf_mro m -> wf_shape c ->
  (lookup c_new m <> None -> lookup c_init m = None -> ~ In SELF (kws c)) ->
  ctor_is_err (ctor_py bind_py_fixed an m c) = ctor_is_err (ctor_c m c).
Proof.
  intros an m c WM WC Hs. pose proof (ctor_agree_fixed_lemma an m c WM WC Hs) as H.
  unfold ctor_agree in H. destruct (ctor_py bind_py_fixed an m c); destruct (ctor_c m c); cbn; tauto.
Qed.

(* class C:  def __new__(cls, **kw): return object.__new__(cls)      C(self=1)
   CPython accepts (kw = {'self': 1}, object.__init__ tolerates the argument because __new__ is overridden);
   pytype maps the call onto  __init__extra_args(self, *args, **kwargs)  and reports self as duplicate keyword *)
Definition new_kw : sig := mkSig [] [13] [] [] None (Some 10).
Lemma ctor_agree_refuted_self_keyword_lemma :
  exists m c, wf_mro m /\ wf_shape c /\ In SELF (kws c)
    /\ ctor_py bind_py_fixed argname14 m c = CtorErr (EDuplicateKeyword [SELF])
    /\ ctor_is_err (ctor_c m c) = false.
Proof.
  exists [mkCls (Some new_kw) None], (mkShape 0 [SELF]).
  split; [|split; [apply wf_shapeb_sound; reflexivity|split; [left; reflexivity|split; reflexivity]]].
  split; cbn.
  - intros s H. injection H as <-. apply wf_sigb_sound. reflexivity.
  - intros s H. discriminate H.
Qed.

(* inherited constructors: lookup walks the MRO *)
Lemma lookup_app sel m1 m2 :
  lookup sel (m1 ++ m2) = match lookup sel m1 with Some s => Some s | None => lookup sel m2 end.
Proof. induction m1 as [|k t IH]; cbn; [reflexivity|]. destruct (sel k); auto. Qed.

Lemma lookup_none sel m : (forall k, In k m -> sel k = None) -> lookup sel m = None.
Proof.
  induction m as [|k t IH]; intro H; [reflexivity|]. cbn. rewrite (H k (or_introl eq_refl)).
  apply IH. intros k' Hk'. apply H. right. assumption.
Qed.

Lemma ctor_inherited_lemma :
  forall B an m1 m2 c,
  (forall k, In k m1 -> c_new k = None /\ c_init k = None) ->
  ctor_py B an (m1 ++ m2) c = ctor_py B an m2 c /\ ctor_c (m1 ++ m2) c = ctor_c m2 c.
Proof.
  intros B an m1 m2 c H.
  assert (Hn : lookup c_new (m1 ++ m2) = lookup c_new m2).
  { rewrite lookup_app, (lookup_none c_new m1); [reflexivity|]. intros k Hk. apply (H k Hk). }
  assert (Hi : lookup c_init (m1 ++ m2) = lookup c_init m2).
  { rewrite lookup_app, (lookup_none c_init m1); [reflexivity|]. intros k Hk. apply (H k Hk). }
  unfold ctor_py, ctor_c. rewrite Hn, Hi. split; reflexivity.
Qed.

(* ---- several signatures ---- *)
Lemma match_seq_spec E (B : sig -> shape -> result E) sigs c :
  forall error matched,
  match_seq B sigs c error matched
  = (match error with Some e => Some e | None => first_err B sigs c end, matched ++ oks B sigs c).
Proof.
  induction sigs as [|s rest IH]; intros error matched.
  - cbn. rewrite app_nil_r. destruct error; reflexivity.
  - cbn [match_seq first_err oks flat_map]. destruct (B s c) as [d|e].
    + rewrite IH. rewrite <- app_assoc. reflexivity.
    + rewrite IH. destruct error; reflexivity.
Qed.

Lemma oks_nil_iff E (B : sig -> shape -> result E) sigs c :
  oks B sigs c = [] <-> forallb (fun s => is_err (B s c)) sigs = true.
Proof.
  induction sigs as [|s rest IH]; cbn; [tauto|].
  fold (oks B rest c). destruct (B s c); cbn; [split; discriminate|exact IH].
Qed.

Lemma overload_err_iff_gen E (B : sig -> shape -> result E) sigs c :
  ov_is_err (call_overloaded B sigs c) = forallb (fun s => is_err (B s c)) sigs.
Proof.
  unfold call_overloaded. rewrite match_seq_spec. cbn [app].
  destruct (oks B sigs c) eqn:Ho.
  - apply oks_nil_iff in Ho. rewrite Ho. destruct (first_err B sigs c); reflexivity.
  - cbn. symmetry. apply not_true_is_false. intro H. apply oks_nil_iff in H. congruence.
Qed.

Lemma overload_err_iff_lemma :
  forall va_annotated argname sigs c, wf_shape c ->
  (forall s, In s sigs -> wf_sig s /\ argname_fresh argname s c) ->
  ov_is_err (call_overloaded (bind_pytd va_annotated argname) sigs c)
  = forallb (fun s => is_err (bind_c s c)) sigs.
Proof.
  intros va an sigs c WC H. rewrite overload_err_iff_gen.
  induction sigs as [|s rest IH]; [reflexivity|]. cbn.
  destruct (H s (or_introl eq_refl)) as [WS HF].
  rewrite bind_pytd_err_agree_lemma by assumption. f_equal. apply IH. intros s' Hs'. apply H. right. assumption.
Qed.

(* the error that is reported is the one of the first signature *)
Lemma overload_error_first_lemma :
  forall E (B : sig -> shape -> result E) s rest c e,
  call_overloaded B (s :: rest) c = OvErr e -> B s c = Err e.
Proof.
  intros E B s rest c e. unfold call_overloaded. rewrite match_seq_spec. cbn [app first_err oks flat_map].
  destruct (B s c) as [d|e1]; cbn.
  - discriminate.
  - fold (oks B rest c). destruct (oks B rest c); [|discriminate]. intro H. injection H as <-. reflexivity.
Qed.

(* the signatures that go on to type matching are exactly those CPython could bind *)
Lemma overload_matched_lemma :
  forall va_annotated argname sigs c matched, wf_shape c ->
  (forall s, In s sigs -> wf_sig s /\ argname_fresh argname s c) ->
  call_overloaded (bind_pytd va_annotated argname) sigs c = OvOk matched ->
  map fst matched = filter (fun s => negb (is_err (bind_c s c))) sigs /\ matched <> [].
Proof.
  intros va an sigs c matched WC H. unfold call_overloaded. rewrite match_seq_spec. cbn [app].
  destruct (oks (bind_pytd va an) sigs c) eqn:Ho.
  - destruct (first_err (bind_pytd va an) sigs c); discriminate.
  - intro Hm. injection Hm as <-. split; [|discriminate]. rewrite <- Ho. clear Ho.
    induction sigs as [|s rest IH]; [reflexivity|]. cbn [oks flat_map filter].
    destruct (H s (or_introl eq_refl)) as [WS HF].
    rewrite <- (bind_pytd_err_agree_lemma va an s c WS WC HF).
    fold (oks (bind_pytd va an) rest c).
    destruct (bind_pytd va an s c); cbn; [f_equal|]; apply IH; intros s' Hs'; apply H; right; assumption.
Qed.

Lemma overload_single_lemma :
  forall E (B : sig -> shape -> result E) s c,
  call_overloaded B [s] c = match B s c with Err e => OvErr e | Ok d => OvOk [(s, d)] end.
Proof. intros. unfold call_overloaded. cbn. destruct (B s c); reflexivity. Qed.
